#!/bin/bash
# usage: demos/run.sh [git-ref]   — runs the finding demos against a scratch copy of /repo
set -u
here="$(cd "$(dirname "$0")" && pwd)"
. "$here/../env.sh"
scratch="$(mktemp -d "${TMPDIR:-/tmp}/ipnidemo.XXXXXX")"
trap 'rm -rf "$scratch"' EXIT
if [ $# -gt 0 ]; then
  git -C /repo archive "$1" | tar -x -C "$scratch"
else
  rsync -a --exclude .git /repo/ "$scratch/"
fi
pkgs=()
for f in "$here"/findings/*.go.txt; do
  b="$(basename "$f" .txt)"; pkg="${b%%__*}"; pkg="${pkg//_//}"
  cp "$f" "$scratch/$pkg/zz_${b#*__}"
  pkgs+=("./$pkg")
done
cd "$scratch" && go test -count=1 -run 'Demo' $(printf '%s\n' "${pkgs[@]}" | sort -u) 2>&1 | grep -E '^(--- |FAIL|ok|panic:)'
