#!/bin/bash
# Builds /verif/bin/ipnicheck from /verif/checker if missing or stale.
set -eu
here="$(cd "$(dirname "$0")" && pwd)"
. "$here/env.sh"
bin="$here/bin/ipnicheck"
stale=0
[ -x "$bin" ] || stale=1
if [ $stale = 0 ]; then
  for f in "$here"/checker/*.go "$here"/checker/*.json "$here"/checker/go.mod; do
    [ "$f" -nt "$bin" ] && { stale=1; break; }
  done
fi
if [ $stale = 1 ]; then
  mkdir -p "$here/bin"
  (cd "$here/checker" && go build -o "$bin.tmp.$$" . && mv "$bin.tmp.$$" "$bin")
fi
