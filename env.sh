# Offline Go environment shared by all scripts. /repo's go.mod asks for
# go1.23.6; the default go (1.23.5) switches to the cached 1.23.6 toolchain
# offline as long as GOSUMDB/GOTOOLCHAIN are not forced.
export GOFLAGS=-mod=mod GOPROXY=off GOTOOLCHAIN=auto GONOSUMDB='*' GONOSUMCHECK=1
unset GOWORK GOSUMDB
