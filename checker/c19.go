package main

import (
	"go/types"
	"go/token"
	"strconv"
	"strings"

	"golang.org/x/tools/go/ssa"
)

func init() {
	register(&propSpec{
		id:  "C19",
		run: runC19,
		explanation: "Structural necessary conditions of 'find responses written by the server helper are read back identically', decided on SSA of rwriter, find/client and apierror: " +
			"(W1) every error the response writer's constructor returns after option parsing is an API error with a 4xx status constant; " +
			"(W2) the result counter is incremented on every successful write in both modes, and Close answers not-found exactly when the counter is zero; " +
			"(W3) in streaming mode each result is encoded and flushed individually; in JSON mode results are buffered and encoded once, as one FindResponse holding the request's multihash; " +
			"(W4) writer and client use the same body type: what Close encodes is model.FindResponse and what the client's Find decodes is model.FindResponse; " +
			"(W5) the client maps 404 to an empty response without error, and the batch helper skips not-found; " +
			"(W6) every request built by the find clients carries an Accept header naming a media type the writer supports (Client.Find sent none; fixed in 1d98f98); " +
			"(W7) an API error keeps its two fields across the wire: the encoder always stores the error's text as message and its status, the decoder rebuilds an error from that message and status. " +
			"JSON round trip of arbitrary results and key parsing for all string forms are not decided.",
		assumptions: []string{"encoding/json round-trips the model types", "net/http delivers headers and status unchanged"},
	})
}

func runC19(c *Ctx) {
	c.Trust("go/ssa", "encoding/json", "net/http")
	// writer and client agree on the JSON keys of the response, its results and the API error
	wireNamesAsReference(c, "C19.W4-wire-names", "find/model.FindResponse", "find/model.MultihashResult", "find/model.ProviderResult", "find/model.EncryptedMultihashResult", "apierror.ErrorMessage")
	c.Floor("C19.W4-wire-names", 5)
	legacyPathTranscoder(c, "C19.W4-addresses-read-back")
	c.Floor("C19.W4-addresses-read-back", 1)
	const rw = "rwriter"
	// ---- W1 --------------------------------------------------------------------------------
	nw := c.Func(rw, "New")
	if nw == nil {
		c.Unk("C19.W1-client-errors-are-4xx", "rwriter.New", token.NoPos, "not found")
	} else {
		n := 0
		for _, b := range nw.SSA.Blocks {
			ret, ok := b.Instrs[len(b.Instrs)-1].(*ssa.Return)
			if !ok || len(ret.Results) != 2 {
				continue
			}
			// (an error handed up from an unexported helper is judged by what the helper can return)
			if _, m := Match(Extract("1", c.RoleCall("rwriter.opts")), c.RetX(ret, 1)); m {
				continue // the option-parsing error is passed through
			}
			// a nil writer, request or URL is the caller's programming error, not a client's request: what is
			// returned for it is not constrained
			progErr := false
			for _, fct := range c.FactsAt(b) {
				if m, isNil := Match(EqNil(Bind("v")), fct.Cond); isNil && fct.Val {
					if v := strip(m["v"]); v != nil && (v.Op == "param" || (v.Op == "field" && v.Name == "URL" && strip(v.Args[0]) != nil && strip(v.Args[0]).Op == "param")) {
						progErr = true
					}
				}
			}
			if !progErr {
				// (the tests may be joined with ||: then every disjunct is such a nil test)
				var allNil func(x *X) bool
				allNil = func(x *X) bool {
					if x.Op == "binop" && x.Name == "||" && len(x.Args) == 2 {
						return allNil(x.Args[0]) && allNil(x.Args[1])
					}
					m, isNil := Match(EqNil(Bind("v")), x)
					if !isNil {
						return false
					}
					v := strip(m["v"])
					return v != nil && (v.Op == "param" || (v.Op == "field" && v.Name == "URL" && strip(v.Args[0]) != nil && strip(v.Args[0]).Op == "param"))
				}
				if f, ok := c.orFact(b); ok && allNil(f.Cond) {
					progErr = true
				}
			}
			if progErr {
				continue
			}
			for _, e := range c.Leaves(c.RetX(ret, 1), ret) {
				if e.Op == "nil" {
					continue
				}
				// the option-parsing error is passed through
				if _, m := Match(Extract("1", c.RoleCall("rwriter.opts")), e); m {
					continue
				}
				n++
				m, ok := Match(Call("apierror.New", Any(), Bind("st")), e)
				okSt := false
				if ok {
					if st, isC := constInt(m["st"]); isC && st >= 400 && st < 500 {
						okSt = true
					}
				}
				c.Check(okSt, "C19.W1-client-errors-are-4xx", nw.Name+" › error return #"+itoa(n), ret.Pos(), "returns apierror.New(_, 4xx)", "constructor returns an error that is not a 4xx API error: "+abbreviate(e.String()))
			}
		}
		// a key of any length is looked up: multihashes have no maximum size (an identity multihash inlines its data),
		// so no length test in the constructor turns away what is longer than some constant
		instrs(nw.SSA, func(in ssa.Instruction) {
			iff, ok := in.(*ssa.If)
			if !ok {
				return
			}
			bo, isBin := iff.Cond.(*ssa.BinOp)
			if !isBin {
				return
			}
			k, isK := bo.Y.(*ssa.Const)
			if !isK || k.Value == nil {
				return
			}
			kv, err := strconv.ParseInt(k.Value.ExactString(), 10, 64)
			if err != nil {
				return
			}
			if x := strip(c.E(bo.X)); x == nil || x.Op != "builtin" || x.Name != "len" {
				return
			}
			const huge = int64(1) << 20
			var holds bool
			switch bo.Op {
			case token.GTR:
				holds = huge > kv
			case token.GEQ:
				holds = huge >= kv
			case token.LSS:
				holds = huge < kv
			case token.LEQ:
				holds = huge <= kv
			default:
				return
			}
			for i, succ := range iff.Block().Succs {
				ret, isRet := succ.Instrs[len(succ.Instrs)-1].(*ssa.Return)
				if !isRet || len(ret.Results) != 2 || c.RetX(ret, 1).Op == "nil" {
					continue
				}
				if holds == (i == 0) {
					c.Bad("C19.W1-client-errors-are-4xx", nw.Name+" › no upper bound on the key", iff.Pos(), "a request is turned away because something in it is longer than "+k.Value.ExactString()+": a valid multihash key can be of any length, and its results would never be read back")
				}
			}
		})
		c.Floor("C19.W1-client-errors-are-4xx", 6)
	}

	// ---- W2/W3 ---------------------------------------------------------------------------------
	wr := c.Func(rw, "ProviderResponseWriter.WriteProviderResult")
	cl := c.Func(rw, "ProviderResponseWriter.Close")
	if wr == nil || cl == nil {
		c.Unk("C19.W2-count-and-not-found", "rwriter.ProviderResponseWriter", token.NoPos, "WriteProviderResult/Close not found")
	} else {
		// every success return is preceded, on every path, by exactly the increment (there may be one per mode)
		var incs []*ssa.Store
		instrs(wr.SSA, func(in ssa.Instruction) {
			if st, ok := in.(*ssa.Store); ok {
				if a := c.E(st.Addr); a.Op == "field" && a.Name == "count" {
					if _, m := Match(Bin("+", Field("count", Any()), Const("1")), c.E(st.Val)); m {
						incs = append(incs, st)
					}
				}
			}
		})
		isInc := func(in ssa.Instruction) bool {
			for _, st := range incs {
				if in == ssa.Instruction(st) {
					return true
				}
			}
			return false
		}
		okCount := len(incs) > 0
		// walk backwards from each success return: every path must meet an increment before the entry
		for _, b := range wr.SSA.Blocks {
			ret, ok := b.Instrs[len(b.Instrs)-1].(*ssa.Return)
			if !ok || c.RetX(ret, 0).Op != "nil" {
				continue
			}
			seen := map[*ssa.BasicBlock]bool{}
			var back func(bb *ssa.BasicBlock, from int) bool
			back = func(bb *ssa.BasicBlock, from int) bool {
				for i := from; i >= 0; i-- {
					if isInc(bb.Instrs[i]) {
						return true
					}
				}
				if len(bb.Preds) == 0 {
					return false
				}
				for _, p := range bb.Preds {
					if seen[p] {
						continue
					}
					seen[p] = true
					if !back(p, len(p.Instrs)-1) {
						return false
					}
				}
				return true
			}
			if !back(b, len(b.Instrs)-1) {
				okCount = false
			}
		}
		// and no path counts twice
		for _, a := range incs {
			for _, b2 := range incs {
				if a != b2 && MayFollow(a, b2) {
					okCount = false
				}
			}
		}
		c.Check(okCount, "C19.W2-count-and-not-found", wr.Name+" › counted on every successful write", wr.SSA.Pos(), "count++ dominates every success return (streaming and buffered)", "a successful write is not counted in some mode: Close then reports not-found for a non-empty result set")
		okNF := false
		for _, b := range cl.SSA.Blocks {
			if ret, ok := b.Instrs[len(b.Instrs)-1].(*ssa.Return); ok {
				if m, isNew := Match(Call("apierror.New", Op("nil", ""), Bind("st")), c.RetX(ret, 0)); isNew {
					st, _ := constInt(m["st"])
					_, g := c.GuardedB(b, Bin("==", Field("count", Any()), Const("0")), true)
					okNF = st == 404 && g
				}
			}
		}
		// and no other return is under count == 0
		for _, b := range cl.SSA.Blocks {
			if ret, ok := b.Instrs[len(b.Instrs)-1].(*ssa.Return); ok {
				if _, isNew := Match(Call("apierror.New"), c.RetX(ret, 0)); !isNew {
					if _, g := c.GuardedB(b, Bin("==", Field("count", Any()), Const("0")), false); !g {
						okNF = false
					}
				}
			}
		}
		c.Check(okNF, "C19.W2-count-and-not-found", cl.Name+" › 404 iff nothing written", cl.SSA.Pos(), "Close returns the 404 API error exactly on the count == 0 edge", "Close does not answer not-found exactly when no result was written")
		c.Floor("C19.W2-count-and-not-found", 2)

		// W3
		encs := c.Calls(wr.SSA, Call("encoding/json.Encoder).Encode"))
		fl := c.Calls(wr.SSA, Call("rwriter.ResponseWriter).Flush"))
		okND := len(encs) == 1 && len(fl) == 1
		if okND {
			_, g1 := c.Guarded(encs[0].In, Field("nd", Any()), true)
			_, g2 := c.Guarded(fl[0].In, Field("nd", Any()), true)
			_, arg := Match(Op("param", wr.SSA.Params[1].Name()), encs[0].X.Args[1])
			_, g3 := c.Guarded(fl[0].In, EqNil(Is(c.Result(encs[0], 0))), true)
			okND = g1 && g2 && arg && g3
		}
		c.Check(okND, "C19.W3-streaming-and-buffering", wr.Name+" › streaming: encode + flush per result", wr.SSA.Pos(), "in streaming mode the result itself is encoded and then flushed", "streaming mode does not encode and flush each result")
		okBuf := false
		instrs(wr.SSA, func(in ssa.Instruction) {
			if st, ok := in.(*ssa.Store); ok {
				if a := c.E(st.Addr); a.Op == "field" && a.Name == "ProviderResults" {
					_, app := Match(Op("builtin", "append", Field("ProviderResults", Any())), c.E(st.Val))
					_, g := c.Guarded(st, Field("nd", Any()), false)
					okBuf = app && g
				}
			}
		})
		c.Check(okBuf, "C19.W3-streaming-and-buffering", wr.Name+" › buffered: appended in order", wr.SSA.Pos(), "in JSON mode results are appended to the pending response", "JSON mode does not append each result to the pending response")
		// Close encodes one FindResponse{MultihashResults: [pw.result]} in JSON mode only
		cenc := c.Calls(cl.SSA, Call("encoding/json.Encoder).Encode"))
		okClose := len(cenc) == 1
		if okClose {
			_, g := c.Guarded(cenc[0].In, Field("nd", Any()), false)
			body := cenc[0].X.Args[1]
			isFR := strings.Contains(body.Name, "find/model.FindResponse") || strings.Contains(body.String(), "find/model.FindResponse")
			okClose = g && isFR
		}
		c.Check(okClose, "C19.W3-streaming-and-buffering", cl.Name+" › buffered: one FindResponse", cl.SSA.Pos(), "Close encodes a single model.FindResponse in JSON mode only", "Close does not encode exactly one model.FindResponse in JSON mode")
		// the pending result carries the request's multihash
		if np := c.Func(rw, "NewProviderResponseWriter"); np != nil {
			ok := false
			instrs(np.SSA, func(in ssa.Instruction) {
				if st, isSt := in.(*ssa.Store); isSt {
					if a := c.E(st.Addr); a.Op == "field" && a.Name == "Multihash" {
						_, ok = Match(Call("rwriter.ResponseWriter).Multihash", Op("param", "")), c.E(st.Val))
					}
				}
			})
			c.Check(ok, "C19.W3-streaming-and-buffering", np.Name+" › result keyed by the request's multihash", np.SSA.Pos(), "the buffered result is labelled with the multihash parsed from the request", "buffered result is not labelled with the request's multihash")
		}
		c.Floor("C19.W3-streaming-and-buffering", 4)
	}

	// ---- W2b nothing is put on the wire before the first result or Close: the constructors of the writers commit
	// no status (a flush or write there answers 200 before Close can answer not-found for an empty result set)
	nCtor := 0
	for _, f := range c.Funcs(rw) {
		if f.Obj == nil || !f.Obj.Exported() || !strings.HasPrefix(f.SSA.Name(), "New") || f.SSA.Signature.Recv() != nil {
			continue
		}
		nCtor++
		var bad []string
		for _, st := range c.CallsInl(f.SSA, Or(Invoke("http.Flusher.Flush"), Invoke("http.ResponseWriter.Write"), Invoke("http.ResponseWriter.WriteHeader"), Invoke("io.Writer.Write")), 2) {
			bad = append(bad, abbreviate(st.X.Name)+" at "+c.pos(st.In.Pos()))
		}
		c.Check(len(bad) == 0, "C19.W2-constructors-commit-nothing", f.Name, f.SSA.Pos(), "the constructor neither writes nor flushes the HTTP response", "the constructor already writes or flushes the HTTP response ("+strings.Join(bad, "; ")+"): the status is committed as 200 before Close can report an empty result set as not-found")
	}
	c.Floor("C19.W2-constructors-commit-nothing", 2)

	// ---- W8 the writer decodes the key the way the client encodes it: the client sends base58, so base58 is tried
	// first and any other decoding only on its failure edge (a key string can be valid in two encodings)
	if nw := c.Func(rw, "New"); nw != nil {
		b58 := c.CallsInl(nw.SSA, Or(Call("base58.Decode"), Call("go-multihash.FromB58String")), 2)
		others := c.CallsInl(nw.SSA, Or(Call("encoding/hex.DecodeString"), Call("go-multihash.FromHexString")), 2)
		okOrder := len(b58) == 1
		if okOrder {
			berr := c.Result(b58[0].CallSite, 1)
			for _, o := range others {
				if _, g := c.GuardedSite(o, EqNil(Is(berr)), false); !g {
					okOrder = false
				}
			}
		}
		c.Check(okOrder, "C19.W8-key-decoded-as-sent", nw.Name+" › base58 first", nw.SSA.Pos(), "the multihash key is decoded as base58; other encodings only when that fails", "the key is not decoded as base58 first (other encodings are tried before it, or unconditionally): a key the client sent in base58 that also parses in the other encoding is taken for another multihash and answered 400")
	}
	c.Floor("C19.W8-key-decoded-as-sent", 1)

	// ---- W4/W5 client ------------------------------------------------------------------------------
	find := c.Func("find/client", "Client.Find")
	if find == nil {
		c.Unk("C19.W4-same-body-type", "find/client.(*Client).Find", token.NoPos, "not found")
	} else {
		okDec := false
		for _, b := range find.SSA.Blocks {
			if ret, ok := b.Instrs[len(b.Instrs)-1].(*ssa.Return); ok && len(ret.Results) == 2 {
				if _, m := Match(Extract("0", Call("find/model.UnmarshalFindResponse")), c.RetX(ret, 0)); m {
					okDec = true
				}
			}
		}
		uf := c.Func("find/model", "UnmarshalFindResponse")
		okType := false
		if uf != nil {
			for _, cs := range c.Calls(uf.SSA, Call("encoding/json.Unmarshal")) {
				okType = strings.Contains(typeOfX(cs.X.Args[1]), "FindResponse") || strings.Contains(cs.X.Args[1].String(), "FindResponse")
			}
		}
		c.Check(okDec && okType, "C19.W4-same-body-type", find.Name+" › decodes model.FindResponse", find.SSA.Pos(), "the client decodes the body as model.FindResponse, the type the writer encodes", "client and writer do not use the same body type")
		// the whole body is decoded: what is handed to the decoder is everything read from the response body itself
		okWhole := false
		for _, cs := range c.Calls(find.SSA, Call("find/model.UnmarshalFindResponse")) {
			if m, ok := Match(Extract("0", Call("io.ReadAll", Bind("r"))), cs.X.Args[0]); ok {
				_, okWhole = Match(Field("Body", Any()), m["r"])
			}
		}
		c.Check(okWhole, "C19.W4-same-body-type", find.Name+" › decodes the whole body", find.SSA.Pos(), "the decoder receives io.ReadAll(resp.Body)", "the client does not decode everything read from the response body itself (limited, wrapped or partial read): a large result set written by the server is not read back")
		// 404 => empty response, nil error
		ok404 := false
		for _, b := range find.SSA.Blocks {
			if ret, ok := b.Instrs[len(b.Instrs)-1].(*ssa.Return); ok && len(ret.Results) == 2 && c.RetX(ret, 1).Op == "nil" {
				if _, g := c.GuardedB(b, Bin("==", Field("StatusCode", Any()), Const("404")), true); g {
					v := c.RetX(ret, 0)
					ok404 = strings.Contains(v.String(), "FindResponse") && v.Op != "nil"
				}
			}
		}
		c.Check(ok404, "C19.W5-not-found-is-empty", find.Name+" › 404 ⇒ empty response", find.SSA.Pos(), "status 404 yields an empty FindResponse and nil error", "not-found is not mapped to (empty response, nil)")
		// …whatever the body of the 404 looks like: the status alone decides, the return does not hang on the body
		// having been read (a not-found whose body is cut short is still "no results", not an error)
		onBody := token.NoPos
		for _, b := range find.SSA.Blocks {
			if ret, ok := b.Instrs[len(b.Instrs)-1].(*ssa.Return); ok && len(ret.Results) == 2 && c.RetX(ret, 1).Op == "nil" {
				if _, g := c.GuardedB(b, Bin("==", Field("StatusCode", Any()), Const("404")), true); !g {
					continue
				}
				for _, f := range c.FactsAt(b) {
					if f.Cond.Find(func(y *X) bool {
						if y.Op != "call" && y.Op != "invoke" {
							return false
						}
						for _, a := range y.Args {
							if a != nil && a.Find(func(z *X) bool { _, m := Match(Field("Body", Any()), z); return m }) != nil {
								return true
							}
						}
						return false
					}) != nil && f.If != nil {
						onBody = f.If.Cond.Pos()
					}
				}
			}
		}
		c.Check(ok404 && !onBody.IsValid(), "C19.W5-not-found-is-empty", find.Name+" › 404 decided by the status alone", find.SSA.Pos(), "the not-found return lies under no test on reading the body", "the not-found answer depends on the 404's body having been read (test at "+c.pos(onBody)+"): a not-found whose body is cut short reaches the caller as an error")
		// the request is for the multihash asked
		okURL := false
		// (the request may be built and sent by a step helper: its multihash parameter is read in Find's terms)
		for _, cs := range c.CallsInl(find.SSA, Call("net/url.URL).JoinPath"), 2) {
			elems := variadicElems(c, c.CallX(cs.In).Args[1])
			if len(elems) == 1 {
				_, okURL = Match(Call("Multihash).B58String", Op("param", find.SSA.Params[2].Name())), subst(elems[0], cs.Env))
			}
		}
		c.Check(okURL, "C19.W4-same-body-type", find.Name+" › requests the multihash asked", find.SSA.Pos(), "URL = find URL / base58(multihash)", "request URL is not built from the multihash asked")
	}
	if fb := c.Func("find/client", "FindBatch"); fb != nil {
		ok := false
		for _, cs := range c.Calls(fb.SSA, Call("apierror.Error).Status")) {
			call := cs.In.(*ssa.Call)
			if refs := call.Referrers(); refs != nil {
				for _, r := range *refs {
					if bo, isBin := r.(*ssa.BinOp); isBin && bo.Op == token.EQL {
						if k, isC := constInt(c.E(bo.Y)); isC && k == 404 {
							ok = true
						}
					}
				}
			}
		}
		c.Check(ok, "C19.W5-not-found-is-empty", fb.Name+" › skips not-found", fb.SSA.Pos(), "a 404 API error for one multihash is skipped", "batch lookup fails on a not-found element")
	}
	// the response is still readable when its body is read: no function that hands out an *http.Response cancels, on
	// its way out, a context it derived for the request (net/http then fails the body read with "context canceled" —
	// small bodies that are already buffered hide it, large result sets do not come back)
	{
		cancelsOnReturn := func(cc *Ctx, fns []*Fn) []ssa.Instruction {
			var out []ssa.Instruction
			for _, f := range fns {
				for _, g := range allFuncs(f.SSA) {
					hands := false
					res := g.Signature.Results()
					for i := 0; i < res.Len(); i++ {
						if strings.HasSuffix(res.At(i).Type().String(), "net/http.Response") {
							hands = true
						}
					}
					if !hands {
						continue
					}
					instrs(g, func(in ssa.Instruction) {
						if d, ok := in.(*ssa.Defer); ok && !d.Call.IsInvoke() {
							if strings.HasSuffix(d.Call.Value.Type().String(), "context.CancelFunc") {
								out = append(out, in)
							}
						}
					})
				}
			}
			return out
		}
		bad := cancelsOnReturn(c, c.Funcs("find/client"))
		for _, in := range bad {
			c.Bad("C19.W4-response-readable", c.short(in.Parent().String())+" › deferred cancel", in.Pos(), "the routine returns the response and cancels the request's context as it returns: the caller's read of the body fails once the body exceeds what is already buffered")
		}
		if len(bad) == 0 {
			c.OK("C19.W4-response-readable", "find/client › responses handed out", token.NoPos, "no routine hands out a response of a request whose context it cancels on return")
		}
		if pc := c.posex(); pc == nil {
			c.Unk("C19.W4-response-readable", "positive example", token.NoPos, "positive example package could not be loaded")
		} else {
			c.Check(len(cancelsOnReturn(pc, pc.Funcs("ipnicheck/testdata/posex"))) == 1, "C19.W4-response-readable", "positive example fires", token.NoPos, "rule found the seeded deferred cancel (and none in find/client)", "rule did not find its positive example: it would pass vacuously")
		}
		c.Floor("C19.W4-response-readable", 2)
	}
	c.Floor("C19.W4-same-body-type", 3)
	c.Floor("C19.W5-not-found-is-empty", 3)

	// ---- W6 Accept header -------------------------------------------------------------------------------
	supported := map[string]bool{}
	for _, k := range []string{"mediaTypeNDJson", "mediaTypeJson", "mediaTypeAny"} {
		if v, ok := c.ConstString(modPath+"/"+rw, k); ok {
			s, _ := strconv.Unquote(v)
			supported[s] = true
		}
	}
	nReq := 0
	for _, f := range c.Funcs("find/client") {
		for _, cs := range c.Calls(f.SSA, Call("net/http.NewRequestWithContext")) {
			nReq++
			req := c.Result(cs, 0)
			key := f.Name + " › request"
			ok := false
			got := ""
			for _, h := range c.Calls(f.SSA, Or(Call("net/http.Header).Set"), Call("net/http.Header).Add"))) {
				if _, m := Match(Field("Header", Is(req)), h.X.Args[0]); !m {
					continue
				}
				name, _ := strconv.Unquote(strip(h.X.Args[1]).Name)
				val, _ := strconv.Unquote(strip(h.X.Args[2]).Name)
				if strings.EqualFold(name, "Accept") {
					got = val
					if supported[val] && Precedes(h.In, firstDo(c, f.SSA, req)) {
						ok = true
					}
				}
			}
			c.Check(ok, "C19.W6-accept-header", key, cs.In.Pos(), "request carries Accept: "+got+", which the response writer supports", "request is sent without an Accept header the response writer supports (a writer with default options answers 400)")
		}
	}
	c.Check(len(supported) == 3, "C19.W6-accept-header", "rwriter › supported media types", token.NoPos, "writer's media type constants resolved", "cannot resolve the writer's media type constants")
	c.Floor("C19.W6-accept-header", 6)
	// the writer accepts a request only for a media type it can write: every way to a successful negotiation carries
	// "a supported media type was found" or "there was no Accept header at all" (the forgiving JSON fallback is for the
	// latter only — a request that lists only unsupported types gets an error, not a JSON body it did not ask for)
	{
		var negFn *ssa.Function
		for _, f := range c.Funcs("rwriter") {
			instrs(f.SSA, func(in ssa.Instruction) {
				if ci, ok := in.(*ssa.Call); ok {
					x := c.CallX(ci)
					if nameMatches(x.Name, "fmt.Errorf") && len(x.Args) > 0 && strings.Contains(x.Args[0].Name, "media type not supported") {
						negFn = f.SSA
					}
				}
			})
		}
		if negFn == nil {
			c.Unk("C19.W6-accept-header", "rwriter › unsupported media type rejected", token.NoPos, "no 'media type not supported' error found in the writer")
		} else {
			// "a supported media type was found": a boolean computed while scanning the header — a flag variable, a
			// result of the scanning helper, or a field of the per-call parser object — as opposed to the JSON-preference option
			boolPhi := func(x *X, _ Binds) bool {
				x = strip(x)
				if x == nil || x.V == nil || !(x.Op == "phi" || x.Op == "extract" || x.Op == "field") {
					return false
				}
				b, ok := x.V.Type().Underlying().(*types.Basic)
				if !ok || b.Kind() != types.Bool {
					return false
				}
				isPref := (x.Op == "field" || x.Op == "param") && strings.EqualFold(x.Name, "preferJson")
				return !isPref
			}
			alts := []Alt{{Bin("==", Op("builtin", "len", Any()), Const("0")), true}, {boolPhi, true}}
			okAll, n := true, 0
			for _, b := range negFn.Blocks {
				ret, ok := b.Instrs[len(b.Instrs)-1].(*ssa.Return)
				if !ok || len(ret.Results) == 0 || c.RetX(ret, len(ret.Results)-1).Op != "nil" {
					continue
				}
				n++
				if !c.PathsCarryDAG(b, alts) {
					okAll = false
				}
			}
			c.Check(okAll && n > 0, "C19.W6-accept-header", c.short(negFn.String())+" › unsupported media types rejected", negFn.Pos(), "success only with a supported media type found, or with no Accept header at all", "the negotiation can succeed for a request whose Accept header lists only unsupported media types (e.g. through the JSON-preference fallback): the client is sent a body of a type it did not ask for instead of an error")
		}
	}
	// every line of the Accept header is looked at: the loop over the header's values is left only when the values
	// are exhausted or with the "invalid Accept header" error — a malformed value after one that already settled the
	// media type is still answered 400, and a later */* still counts
	{
		var site *ssa.Call
		for _, f := range c.Funcs("rwriter") {
			for _, cs := range c.Calls(f.SSA, Call("mime.ParseMediaType")) {
				site, _ = cs.In.(*ssa.Call)
			}
		}
		var lines *natLoop
		for hops := 0; site != nil && hops < 3 && lines == nil; hops++ {
			l := outermostLoop(site.Block())
			if l != nil {
				perLine := false
				isValues := func(s *X) bool {
					return s.Find(func(y *X) bool { return y.Op == "call" && nameMatches(y.Name, "net/http.Header).Values") }) != nil
				}
				for _, s := range c.rangedOver(l) {
					if isValues(s) {
						perLine = true
					}
					if par, ok := s.V.(*ssa.Parameter); ok && s.Op == "param" {
						// a slice handed in: the header's values if that is what the caller hands in
						if sites, ok := c.staticCallSites(par.Parent()); ok {
							for _, cs := range sites {
								for i, fp := range par.Parent().Params {
									if fp == par && i < len(cs.Common().Args) && isValues(c.E(cs.Common().Args[i])) {
										perLine = true
									}
								}
							}
						}
					}
				}
				if perLine {
					lines = l
					break
				}
			}
			// the loop over the values is in the caller
			sites, ok := c.staticCallSites(site.Parent())
			if !ok || len(sites) != 1 {
				break
			}
			site, _ = sites[0].(*ssa.Call)
		}
		if lines == nil {
			c.Unk("C19.W6-accept-header", "rwriter › every Accept value parsed", token.NoPos, "no loop over the values of the Accept header found around mime.ParseMediaType")
		} else {
			bad := token.NoPos
			for u := range lines.Body {
				if u == lines.Head {
					continue
				}
				for _, v := range u.Succs {
					if lines.Body[v] {
						continue
					}
					fails := false
					if ret, ok := v.Instrs[len(v.Instrs)-1].(*ssa.Return); ok && len(ret.Results) > 0 && isErrorType(ret.Results[len(ret.Results)-1].Type()) && c.RetX(ret, len(ret.Results)-1).Op != "nil" {
						fails = true
					}
					if _, ok := v.Instrs[len(v.Instrs)-1].(*ssa.Panic); ok {
						fails = true
					}
					if !fails {
						bad = u.Instrs[len(u.Instrs)-1].Pos()
						if !bad.IsValid() && len(v.Instrs) > 0 {
							bad = v.Instrs[len(v.Instrs)-1].Pos()
						}
						if !bad.IsValid() {
							bad = lines.Head.Parent().Pos()
						}
					}
				}
			}
			fn := lines.Head.Parent()
			c.Check(!bad.IsValid(), "C19.W6-accept-header", c.short(fn.String())+" › every Accept value parsed", fn.Pos(), "the loop over the header's values ends only when they are exhausted or with the invalid-header error", "the loop over the Accept header's values is left early (at "+c.pos(bad)+") once a media type is settled: a malformed value further on is no longer answered with 400, and a later */* no longer counts")
		}
	}
	// …and every element of a value: when a header value is walked with strings.Cut instead of split up front, the
	// walk goes on as long as Cut found a separator — not as long as something is left (a trailing empty element,
	// "application/json,", is then never parsed and the malformed list is accepted)
	for _, f := range c.Funcs("rwriter") {
		for _, cs := range c.Calls(f.SSA, Call("strings.Cut", Any(), Const(`","`))) {
			call, isCall := cs.In.(*ssa.Call)
			if !isCall {
				continue
			}
			var loop *natLoop
			for _, l := range naturalLoops(cs.Fn) {
				if l.Body[call.Block()] && (loop == nil || len(l.Body) < len(loop.Body)) {
					loop = l
				}
			}
			if loop == nil {
				continue
			}
			byFound := true
			nExit := 0
			for u := range loop.Body {
				iff, isIf := u.Instrs[len(u.Instrs)-1].(*ssa.If)
				if !isIf || u != loop.Head {
					continue // (an early break once both media types are settled is the original's too)
				}
				leaves := false
				for _, v := range u.Succs {
					if !loop.Body[v] {
						if ret, isRet := v.Instrs[len(v.Instrs)-1].(*ssa.Return); isRet && len(ret.Results) > 0 && c.RetX(ret, len(ret.Results)-1).Op != "nil" {
							continue // the invalid-header error
						}
						leaves = true
					}
				}
				if !leaves {
					continue
				}
				nExit++
				cond := c.E(iff.Cond)
				if !cond.Contains(func(y *X) bool {
					return y.Op == "extract" && y.Name == "2" && len(y.Args) == 1 && y.Args[0].V == ssa.Value(call)
				}) {
					byFound = false
				}
			}
			c.Check(byFound && nExit > 0, "C19.W6-accept-header", c.short(cs.Fn.String())+" › every element of a value parsed", call.Pos(), "the element walk continues while strings.Cut finds a separator", "the walk over the elements of an Accept value stops when nothing is left rather than when no separator was found: a trailing empty element is not parsed and a malformed list is accepted")
		}
	}
	c.Floor("C19.W6-accept-header", 8)

	// ---- W7 API error across the wire ------------------------------------------------------------------------
	ee, de := c.Func("apierror", "EncodeError"), c.Func("apierror", "DecodeError")
	if ee == nil || de == nil {
		c.Unk("C19.W7-error-fields", "apierror.EncodeError/DecodeError", token.NoPos, "not found")
		return
	}
	nMsg, okMsg, okSt := 0, false, false
	instrs(ee.SSA, func(in ssa.Instruction) {
		st, ok := in.(*ssa.Store)
		if !ok {
			return
		}
		a := c.E(st.Addr)
		if a.Op != "field" || fieldOwner(a) != "ErrorMessage" {
			return
		}
		switch a.Name {
		case "Message":
			nMsg++
			_, m := Match(Invoke("error.Error", Op("param", ee.SSA.Params[0].Name())), c.E(st.Val))
			okMsg = m && len(c.FactsAt(st.Block())) <= 1 // only the err != nil guard
		case "Status":
			_, okSt = Match(Call("apierror.Error).Status"), c.E(st.Val))
			// whatever the status is: the store lies under "it is an API error" (and err != nil) only — a filter on the
			// status value (known to net/http, in some range) sends other API errors out as plain errors
			for _, fct := range c.FactsAt(st.Block()) {
				if fct.If == nil || fct.If.Parent() != st.Parent() {
					continue
				}
				cx := strip(fct.Cond)
				if cx.Op == "call" && nameMatches(cx.Name, "errors.As") && fct.Val {
					continue
				}
				if _, isNil := Match(EqNil(Op("param", "")), cx); isNil && !fct.Val {
					continue
				}
				okSt = false
			}
		}
	})
	c.Check(nMsg == 1 && okMsg && okSt, "C19.W7-error-fields", ee.Name+" › message and status stored", ee.SSA.Pos(), "Message = err.Error() unconditionally (one store), Status = the API error's status", "the encoded error does not always carry err.Error() as message (and the API status): a status-only error loses its text across the wire")
	okDec := false
	for _, b := range de.SSA.Blocks {
		if ret, ok := b.Instrs[len(b.Instrs)-1].(*ssa.Return); ok {
			// (directly, or through a helper shared with the response reader: some value it can return)
			for _, l := range c.Leaves(c.RetX(ret, 0), ret) {
				if _, m := Match(Call("apierror.New", Call("errors.New", Field("Message", Any())), Field("Status", Any())), l); m {
					okDec = true
				}
			}
		}
	}
	c.Check(okDec, "C19.W7-error-fields", de.Name+" › rebuilt from message and status", de.SSA.Pos(), "decoder returns New(errors.New(Message), Status)", "decoder does not rebuild the error from both fields")
	// a status-only error's text is its status text, so that Message is never empty for an API error
	if em := c.Func("apierror", "Error.Error"); em != nil {
		ok := false
		for _, b := range em.SSA.Blocks {
			if ret, isRet := b.Instrs[len(b.Instrs)-1].(*ssa.Return); isRet {
				if _, g := c.GuardedB(b, EqNil(Field("err", Any())), true); g {
					for _, x := range c.Leaves(c.RetX(ret, 0), ret) {
						x = strip(x)
						if x != nil && x.Op == "call" && (nameMatches(x.Name, "fmt.Sprintf") || nameMatches(x.Name, "strconv.Itoa") || nameMatches(x.Name, "strconv.FormatInt")) {
							ok = true
						}
					}
				}
			}
		}
		c.Check(ok, "C19.W7-error-fields", em.Name+" › status-only text", em.SSA.Pos(), "an API error without wrapped error renders its status", "a status-only API error has no text")
	}
	c.Floor("C19.W7-error-fields", 3)
}

// firstDo finds the http.Client.Do call that sends req in fn.
func firstDo(c *Ctx, fn *ssa.Function, req *X) ssa.Instruction {
	for _, cs := range c.Calls(fn, Call("net/http.Client).Do", Any(), Is(req))) {
		return cs.In
	}
	// not sent here: ordering vacuous, use the function's last instruction
	b := fn.Blocks[len(fn.Blocks)-1]
	return b.Instrs[len(b.Instrs)-1]
}
