package main

import (
	"go/ast"
	"go/token"
	"go/types"
	"strings"

	"golang.org/x/tools/go/ssa"
)

func init() {
	register(&propSpec{
		id:  "C07",
		run: runC07,
		explanation: "A complete ownership partition of the provider cache's state, checked on every access in package pcache: " +
			"(i) configuration fields are stored only by the constructor; (ii) the snapshot pointer and the refresh flag are touched only through sync/atomic methods; " +
			"(iii) the writer-side fields (sequence number, write map, and every field of the cacheInfo records reached from it) are accessed only while the one-slot write token is held (lockset on the AST CFG), and the token is released on every path; " +
			"(iv) every snapshot published through the atomic pointer consists of maps that are either fresh in the publishing function and never written after publication, or the unchanged map of the snapshot just loaded; no map obtained from a loaded snapshot is ever written and no field of a published record is stored to outside its constructor (expected count 0, with a positive example analysed on every run); " +
			"(v) the read API (Get, List, Len, GetResults) reaches a may-block operation only on the edge where both snapshot maps miss, starts the automatic refresh only in a goroutine guarded by compare-and-swap, and loads the snapshot pointer once per operation. " +
			"Together: race freedom and wait freedom of the package's own accesses. Monotonicity of successive reads is a history property and is not decided.",
		assumptions: []string{"sync/atomic.Pointer gives release/acquire ordering", "callers do not mutate returned *ProviderInfo values"},
	})
}

const pcachePkg = "pcache"

func tokenHeld(h map[string]bool) bool {
	for k := range h {
		if strings.HasSuffix(k, ".writeLock") || k == "writeLock" {
			return true
		}
	}
	return false
}

// ownInspect walks body without entering function literals.
func ownInspect(body ast.Node, f func(ast.Node) bool) {
	ast.Inspect(body, func(n ast.Node) bool {
		if _, ok := n.(*ast.FuncLit); ok && n != body {
			return false
		}
		return f(n)
	})
}

func runC07(c *Ctx) {
	c.Trust("go/cfg + lockset dataflow", "go/ssa", "sync/atomic")
	p := c.pkg(pcachePkg)
	if p == nil {
		c.Unk("C07.iii-writer-owned", "pcache", token.NoPos, "package pcache not found")
		return
	}
	pcType, _ := p.Types.Scope().Lookup("ProviderCache").(*types.TypeName)
	if pcType == nil {
		c.Unk("C07.iii-writer-owned", "pcache.ProviderCache", token.NoPos, "type ProviderCache not found")
		return
	}

	// ---- (iii) token pairing + lockset -------------------------------------
	all := c.LockPairing("C07.iii-token-pairing", pcachePkg, []string{"ProviderCache.writeLock"})
	// the token is one token: the channel used as the writers' lock holds exactly one element (with room for more,
	// that many writers run at once, each publishing a snapshot built without the others' updates)
	{
		nTok := 0
		for _, f := range c.Funcs(pcachePkg) {
			instrsDeep(f.SSA, func(_ *ssa.Function, in ssa.Instruction) {
				st, ok := in.(*ssa.Store)
				if !ok {
					return
				}
				a := c.E(st.Addr)
				if a.Op != "field" || canonName(a.Name) != "writeLock" || fieldOwner(a) != "ProviderCache" {
					return
				}
				nTok++
				one := false
				if mk, isMk := st.Val.(*ssa.MakeChan); isMk {
					if k, isC := mk.Size.(*ssa.Const); isC && k.Value != nil && k.Value.ExactString() == "1" {
						one = true
					}
				}
				c.Check(one, "C07.iii-token-pairing", c.short(topFunc(st.Parent()).String())+" › the write token's channel holds one element", st.Pos(), "make(chan struct{}, 1)", "the channel used as the writers' lock is not made with capacity exactly 1: more than one writer can hold 'the' token, and their publications overwrite one another")
			})
		}
		if nTok == 0 {
			c.Unk("C07.iii-token-pairing", "pcache › write token channel", token.NoPos, "no store to the token field found")
		}
	}
	c.Floor("C07.iii-token-pairing", 3)

	owned := map[*types.Var]string{}
	for _, f := range []string{"seq", "write"} {
		if v := c.fieldVar(pcachePkg, "ProviderCache."+f); v != nil {
			owned[v] = "ProviderCache." + f
		} else {
			c.Unk("C07.iii-writer-owned", "ProviderCache."+f, token.NoPos, "writer-owned field not found")
		}
	}
	if tn, ok := p.Types.Scope().Lookup(c.ActualType(pcachePkg, "cacheInfo")).(*types.TypeName); ok {
		st := tn.Type().Underlying().(*types.Struct)
		for i := 0; i < st.NumFields(); i++ {
			owned[st.Field(i)] = "cacheInfo." + canonField(st.Field(i))
		}
	} else {
		c.Unk("C07.iii-writer-owned", "cacheInfo", token.NoPos, "writer-side record type not found")
	}
	for _, fn := range c.Funcs(pcachePkg) {
		for _, a := range all[fn.Name] {
			ownInspect(a.Body, func(n ast.Node) bool {
				sel, ok := n.(*ast.SelectorExpr)
				if !ok {
					return true
				}
				v, ok := p.TypesInfo.ObjectOf(sel.Sel).(*types.Var)
				if !ok {
					return true
				}
				name, isOwned := owned[v]
				if !isOwned {
					return true
				}
				key := a.Name + " › " + name
				h, seen := a.HeldAt[sel]
				switch {
				case !seen:
					c.Unk("C07.iii-writer-owned", key, sel.Pos(), "access lies in code the lockset analysis did not reach")
				case tokenHeld(h):
					c.OK("C07.iii-writer-owned", key, sel.Pos(), "write token held on every path to this access")
				default:
					c.Bad("C07.iii-writer-owned", key, sel.Pos(), "writer-owned state accessed without holding the write token: races with Refresh / miss-fetch")
				}
				return true
			})
		}
	}
	c.Floor("C07.iii-writer-owned", 20)

	// ---- (i) immutable after construction, (ii) atomics -------------------------
	immutable := map[string]bool{"sources": true, "ttl": true, "refreshIn": true, "refreshTimer": true, "writeLock": true}
	atomics := map[string]bool{"read": true, "needsRefresh": true}
	isPC := func(v ssa.Value) bool {
		t := deref(v.Type())
		n, ok := t.(*types.Named)
		return ok && n.Obj() == pcType
	}
	for _, fn := range c.Funcs(pcachePkg) {
		instrsDeep(fn.SSA, func(g *ssa.Function, in ssa.Instruction) {
			fa, ok := in.(*ssa.FieldAddr)
			if !ok || !isPC(fa.X) {
				return
			}
			fname := canonField(deref(fa.X.Type()).Underlying().(*types.Struct).Field(fa.Field))
			refs := fa.Referrers()
			if refs == nil {
				return
			}
			constructing := false
			if al, ok := fa.X.(*ssa.Alloc); ok && al.Comment == "complit" {
				constructing = true
			}
			// the constructor also assigns pc.refreshTimer after building the literal
			if topFunc(g).Name() == "New" && topFunc(g).Signature.Recv() == nil {
				constructing = true
			}
			for _, r := range *refs {
				switch {
				case immutable[fname]:
					if st, ok := r.(*ssa.Store); ok && st.Addr == fa {
						c.Check(constructing, "C07.i-immutable-config", c.short(topFunc(g).String())+" › store "+fname, st.Pos(),
							"configuration field stored by the constructor only", "configuration field "+fname+" is stored outside the constructor while readers use it without synchronisation")
					}
				case atomics[fname]:
					ok := false
					if ci, isCall := r.(ssa.CallInstruction); isCall {
						if sc := ci.Common().StaticCallee(); sc != nil && sc.Pkg != nil && sc.Pkg.Pkg.Path() == "sync/atomic" {
							ok = true
						} else if sc != nil && strings.HasPrefix(sc.String(), "(*sync/atomic.") {
							ok = true
						}
					}
					if _, isDbg := r.(*ssa.DebugRef); isDbg {
						continue
					}
					c.Check(ok, "C07.ii-atomics-only", c.short(topFunc(g).String())+" › "+fname, r.Pos(),
						"accessed through a sync/atomic method", "atomic field "+fname+" is accessed other than through its sync/atomic methods")
				}
			}
		})
	}
	c.Floor("C07.i-immutable-config", 1)
	c.Floor("C07.ii-atomics-only", 4)

	// ---- (iv) published snapshots ---------------------------------------------------
	c07Snapshots(c)

	// ---- (vi) shared with C06: merge precedence, snapshot loaded under the token
	pcacheMergePrecedence(c, "C07.vi-merge-precedence")
	pcacheLoadUnderToken(c, "C07.vi-snapshot-loaded-under-token")
	pcacheNewestWins(c, "C07.vi-newest-wins")
	c.Floor("C07.vi-newest-wins", 4) // (the writers may share one comparing helper)

	// ---- (v) readers ---------------------------------------------------------------------
	c07Readers(c, pcType)
}

// fieldOwner returns the name of the struct type a field expression projects from.
func fieldOwner(x *X) string {
	if x == nil || x.Op != "field" {
		return ""
	}
	var t types.Type
	switch v := x.V.(type) {
	case *ssa.FieldAddr:
		t = deref(v.X.Type())
	case *ssa.Field:
		t = v.X.Type()
	case *ssa.UnOp:
		if fa, ok := v.X.(*ssa.FieldAddr); ok {
			t = deref(fa.X.Type())
		}
	}
	if n, ok := t.(*types.Named); ok {
		return canonType(n.Obj())
	}
	return ""
}

// snapshotMapWrites lists writes (m[k]=v, delete(m,k)) to a map that is a
// field of a value of struct type snapType — i.e. to a published snapshot.
func snapshotMapWrites(c *Ctx, fns []*ssa.Function, snapType string) []ssa.Instruction {
	var out []ssa.Instruction
	for _, fn := range fns {
		instrsDeep(fn, func(g *ssa.Function, in ssa.Instruction) {
			var m *X
			switch in := in.(type) {
			case *ssa.MapUpdate:
				m = c.E(in.Map)
			case ssa.CallInstruction:
				if b, ok := in.Common().Value.(*ssa.Builtin); ok && (b.Name() == "delete" || b.Name() == "clear") && len(in.Common().Args) > 0 {
					m = c.E(in.Common().Args[0])
				}
				// the standard maps package's writers of their first argument
				if sc := in.Common().StaticCallee(); sc != nil && sc.Object() != nil && sc.Object().Pkg() != nil && sc.Object().Pkg().Path() == "maps" && len(in.Common().Args) > 0 {
					switch sc.Object().Name() {
					case "Copy", "Insert", "DeleteFunc":
						m = c.E(in.Common().Args[0])
					}
				}
			}
			if m == nil {
				return
			}
			// literal being constructed is not yet published: base is the complit itself
			if strip(m).Op == "field" && fieldOwner(strip(m)) == snapType {
				if base := strip(m).Args[0]; base.Op != "complit" {
					out = append(out, in)
				}
			}
		})
	}
	return out
}

func c07Snapshots(c *Ctx) {
	var fns []*ssa.Function
	for _, f := range c.Funcs(pcachePkg) {
		fns = append(fns, f.SSA)
	}
	// publication sites
	storePat := Call("atomic.Pointer[pcache.readOnly]).Store[pcache.readOnly]", Field("read", Any()), Bind("snap"))
	for _, fn := range fns {
		for _, cs := range c.Calls(fn, storePat) {
			b, _ := Match(storePat, cs.X)
			snap := b["snap"]
			key := c.short(topFunc(cs.Fn).String()) + " › publish"
			if snap.Op != "complit" {
				c.Bad("C07.iv-snapshot-immutable", key, cs.In.Pos(), "published snapshot is not a fresh readOnly literal: "+snap.String())
				continue
			}
			for _, fi := range snap.Args {
				mk := key + " › " + fi.Name
				mv := fi.Args[0]
				// (a) unchanged map of the snapshot just loaded
				if mv.Op == "field" && fieldOwner(mv) == "readOnly" {
					c.OK("C07.iv-snapshot-immutable", mk, cs.In.Pos(), "re-publishes the unchanged map "+mv.String()+" of the loaded snapshot")
					continue
				}
				// (b') parameter of a publishing helper: lifted to every call site of the helper
				if vals, ats := c.ActualsAt(mv); len(vals) > 0 {
					bad := ""
					// inside the helper: no write to the parameter after publication
					if pv, isP := strip(mv).V.(*ssa.Parameter); isP {
						walkUses(pv, func(in ssa.Instruction) {
							if u, ok := in.(*ssa.MapUpdate); ok && MayFollow(cs.In, u) {
								bad = "map parameter is updated at " + c.pos(u.Pos()) + " after it was published"
							}
						})
					}
					for i, av := range vals {
						var am ssa.Value
						if k, ok := av.V.(*ssa.MakeMap); ok {
							am = k
						} else if call, ok := strip(av).V.(*ssa.Call); ok && returnsFreshMap(c, call.Call.StaticCallee(), 0) {
							am = call // made for this caller by a helper that returns a fresh map
						}
						if am == nil {
							bad = "caller at " + c.pos(ats[i].Pos()) + " passes a map it did not make itself: " + abbreviate(av.String())
							continue
						}
						if w := freshMapMisuse(c, am, ats[i], ats[i]); w != "" {
							bad = w
						}
					}
					c.Check(bad == "", "C07.iv-snapshot-immutable", mk, cs.In.Pos(), "map made by each caller of the publishing helper, not written after the call, no other escaping use", bad)
					continue
				}
				// (b) fresh map of this function (made here, or returned by a helper that makes it), never written after
				// publication, no other escape
				var mm ssa.Value
				if k, ok := mv.V.(*ssa.MakeMap); ok && k.Parent() == cs.Fn {
					mm = k
				} else if call, ok := strip(mv).V.(*ssa.Call); ok && returnsFreshMap(c, call.Call.StaticCallee(), 0) {
					mm = call
				} else if ph, ok := strip(mv).V.(*ssa.Phi); ok && ph.Parent() == cs.Fn {
					// 'm := maps.Clone(old); if m == nil { m = make(…) }': fresh on every edge
					all := len(ph.Edges) > 0
					for _, e := range ph.Edges {
						switch ev := unwrapV(e).(type) {
						case *ssa.MakeMap:
						case *ssa.Call:
							if !returnsFreshMap(c, ev.Call.StaticCallee(), 0) {
								all = false
							}
						default:
							all = false
						}
					}
					if all {
						mm = ph
					}
				}
				if mm == nil {
					c.Bad("C07.iv-snapshot-immutable", mk, cs.In.Pos(), "published map is neither fresh in this function nor the unchanged map of the loaded snapshot: "+mv.String())
					continue
				}
				bad := freshMapMisuse(c, mm, cs.In, nil)
				c.Check(bad == "", "C07.iv-snapshot-immutable", mk, cs.In.Pos(), "fresh map, no write reachable after the atomic Store, no other escaping use", bad)
			}
		}
	}
	c.Floor("C07.iv-snapshot-immutable", 3)

	// no write to a loaded snapshot's maps: expected 0, with a positive example
	ws := snapshotMapWrites(c, fns, "readOnly")
	for _, w := range ws {
		c.Bad("C07.iv-no-write-to-published", c.short(topFunc(w.Parent()).String())+" › map write", w.Pos(), "a map obtained from a published snapshot is written: readers iterate it without synchronisation")
	}
	if pc := c.posex(); pc == nil {
		c.Unk("C07.iv-no-write-to-published", "positive example", token.NoPos, "positive example package could not be loaded")
	} else {
		var pf []*ssa.Function
		for _, f := range pc.Funcs("ipnicheck/testdata/posex") {
			pf = append(pf, f.SSA)
		}
		n := len(snapshotMapWrites(pc, pf, "readOnly"))
		c.Check(n == 2, "C07.iv-no-write-to-published", "positive example fires", token.NoPos,
			"rule found the 2 seeded writes to a published snapshot in the embedded example (and none in /repo)", "rule did not find the seeded writes in its positive example: it would pass vacuously")
	}
	c.Floor("C07.iv-no-write-to-published", 1)

	// no store to fields of published record types outside a literal under construction
	recordTypes := map[string]bool{"readProviderInfo": true, "ctxExtendedInfo": true, "ProviderInfo": true, "readOnly": true}
	n := 0
	for _, fn := range fns {
		instrsDeep(fn, func(g *ssa.Function, in ssa.Instruction) {
			st, ok := in.(*ssa.Store)
			if !ok {
				return
			}
			a := c.E(st.Addr)
			if a.Op != "field" || !recordTypes[fieldOwner(a)] {
				return
			}
			n++
			fresh := a.Args[0].Op == "complit"
			c.Check(fresh, "C07.iv-records-immutable", c.short(topFunc(g).String())+" › "+fieldOwner(a)+"."+a.Name, st.Pos(),
				"field initialised in a literal under construction", "field of a published record is stored to after construction")
		})
	}
	c.Floor("C07.iv-records-immutable", 3)

	sourcesDecodeFresh(c, "C07.iv-sources-return-fresh")
	c.Floor("C07.iv-sources-return-fresh", 2)
}

// posex loads the checker's positive-example package (stdlib only).
func (c *Ctx) posex() *Ctx {
	if c.posCtx != nil {
		return c.posCtx
	}
	dir := posexDir()
	pc, err := loadDir(dir, "./testdata/posex")
	if err != nil {
		c.Note("positive example load failed: " + err.Error())
		return nil
	}
	c.posCtx = pc
	return pc
}

// mayBlockFns computes the functions of pcache that may block: blocking
// channel ops (outside go literals), token acquisition, calls through the
// ProviderSource interface, and callers of such functions.
func mayBlockFns(c *Ctx) map[*ssa.Function]string {
	res := map[*ssa.Function]string{}
	fns := c.Funcs(pcachePkg)
	for _, f := range fns {
		for _, op := range c.BlockingOps(f.SSA) {
			if isInGoLit(op.Fn) {
				continue
			}
			// a select whose clauses are only sends on the token with a default is non-blocking; BlockingOps lists blocking selects only
			res[f.SSA] = op.Kind + " at " + c.pos(op.Pos)
		}
		for _, cs := range c.Calls(f.SSA, Invoke("pcache.ProviderSource")) {
			if !isInGoLit(cs.Fn) {
				res[f.SSA] = "calls " + cs.X.Name
			}
		}
	}
	for changed := true; changed; {
		changed = false
		for _, f := range fns {
			if _, ok := res[f.SSA]; ok {
				continue
			}
			instrsDeep(f.SSA, func(g *ssa.Function, in ssa.Instruction) {
				if isInGoLit(g) {
					return
				}
				if _, isGo := in.(*ssa.Go); isGo {
					return
				}
				if ci, ok := in.(ssa.CallInstruction); ok {
					if sc := ci.Common().StaticCallee(); sc != nil {
						if why, ok := res[sc]; ok && res[f.SSA] == "" {
							res[f.SSA] = "calls " + c.short(sc.String()) + " (" + why + ")"
							changed = true
						}
					}
				}
			})
		}
	}
	return res
}

// isInGoLit reports whether fn is a literal started by a go statement.
func isInGoLit(fn *ssa.Function) bool {
	for f := fn; f != nil && f.Parent() != nil; f = f.Parent() {
		isGo := false
		instrs(f.Parent(), func(in ssa.Instruction) {
			if g, ok := in.(*ssa.Go); ok {
				if mc, ok := g.Common().Value.(*ssa.MakeClosure); ok && mc.Fn == f {
					isGo = true
				}
				if g.Common().Value == ssa.Value(f) {
					isGo = true
				}
			}
		})
		if isGo {
			return true
		}
	}
	return false
}

func c07Readers(c *Ctx, pcType *types.TypeName) {
	blocks := mayBlockFns(c)
	missU := Extract("1", Op("lookup", "", Field("u", Any())))
	missM := Extract("1", Op("lookup", "", Field("m", Any())))
	// the provider a read is about: the function's peer.ID parameter
	keyOf := func(fn *ssa.Function) *ssa.Parameter {
		for _, p := range fn.Params {
			if strings.HasSuffix(p.Type().String(), "peer.ID") {
				return p
			}
		}
		return nil
	}
	var visit func(reader string, fn *ssa.Function, seen map[*ssa.Function]bool)
	visit = func(reader string, fn *ssa.Function, seen map[*ssa.Function]bool) {
		if seen[fn] {
			return
		}
		seen[fn] = true
		key := keyOf(fn)
		// direct blocking operations in a reader-side function
		for _, op := range c.BlockingOps(fn) {
			if isInGoLit(op.Fn) {
				continue
			}
			c.Bad("C07.v-readers-never-wait", reader+" › "+c.short(fn.String())+" › "+op.Kind, op.Pos, "read path contains a blocking operation")
		}
		instrsDeep(fn, func(g *ssa.Function, in ssa.Instruction) {
			if isInGoLit(g) {
				return
			}
			ci, ok := in.(ssa.CallInstruction)
			if !ok {
				return
			}
			if _, isGo := in.(*ssa.Go); isGo {
				return
			}
			sc := ci.Common().StaticCallee()
			if sc == nil {
				if ci.Common().IsInvoke() && strings.Contains(ci.Common().Value.Type().String(), "ProviderSource") {
					c.Bad("C07.v-readers-never-wait", reader+" › "+c.short(fn.String())+" › source call", in.Pos(), "read path calls a provider source directly")
				}
				return
			}
			why, blocking := blocks[sc]
			if !blocking {
				return
			}
			// a may-block step on the read path is about the provider being read, not about another one (a read
			// of a cached provider must not wait because some other provider is missing)
			if ck := keyOf(sc); ck != nil && sc.Pkg == fn.Pkg {
				for i, p := range sc.Params {
					if p != ck || i >= len(ci.Common().Args) {
						continue
					}
					if key == nil || ci.Common().Args[i] != ssa.Value(key) {
						c.Bad("C07.v-readers-never-wait", reader+" › "+c.short(fn.String())+" → "+c.short(sc.String())+" › same provider", in.Pos(), "the read path looks up another provider ("+abbreviate(c.E(ci.Common().Args[i]).String())+") through a routine that may wait ("+why+"): reading a cached provider waits for the write lock whenever that other provider is not cached")
					}
				}
			}
			_, g1 := c.Guarded(in, missU, false)
			_, g2 := c.Guarded(in, missM, false)
			key := reader + " › " + c.short(fn.String()) + " → " + c.short(sc.String())
			if g1 && g2 {
				c.OK("C07.v-readers-never-wait", key, in.Pos(), "may-block callee ("+why+") reached only on the edge where both snapshot maps miss")
				return
			}
			// not guarded here: the callee itself must confine its blocking to the miss edge
			if sc.Pkg == fn.Pkg {
				visit(reader, sc, seen)
			} else {
				c.Bad("C07.v-readers-never-wait", key, in.Pos(), "read path calls a may-block function outside the miss edge: "+why)
			}
		})
	}
	for _, name := range []string{"Get", "List", "Len", "GetResults"} {
		f := c.Func(pcachePkg, "ProviderCache."+name)
		if f == nil {
			c.Unk("C07.v-readers-never-wait", "pcache.(*ProviderCache)."+name, token.NoPos, "exported reader not found")
			continue
		}
		before := len(c.obls)
		visit(name, f.SSA, map[*ssa.Function]bool{})
		if len(c.obls) == before {
			c.OK("C07.v-readers-never-wait", name+" › no may-block callee", f.SSA.Pos(), "no blocking operation or may-block callee reachable")
		}
	}
	c.Floor("C07.v-readers-never-wait", 4)

	// automatic refresh: only in a goroutine, guarded by CompareAndSwap(true,false)
	refresh := c.Func(pcachePkg, "ProviderCache.Refresh")
	n := 0
	for _, f := range c.Funcs(pcachePkg) {
		if refresh == nil {
			break
		}
		for _, cs := range c.Calls(f.SSA, Any()) {
			if cs.In.Common().StaticCallee() != refresh.SSA {
				continue
			}
			top := topFunc(cs.Fn)
			if top.Name() == "New" || !isReaderSide(c, top) {
				continue
			}
			n++
			key := c.short(top.String()) + " › automatic refresh"
			points := c.goPoints(cs.Fn)
			if len(points) == 0 {
				c.Bad("C07.v-auto-refresh-async", key, cs.In.Pos(), "read path runs Refresh synchronously")
				continue
			}
			ok := true
			for _, goi := range points {
				if _, g1 := c.Guarded(goi, Call("atomic.Bool).CompareAndSwap", Field("needsRefresh", Any()), Const("true"), Const("false")), true); !g1 {
					ok = false
				}
			}
			c.Check(ok, "C07.v-auto-refresh-async", key, cs.In.Pos(), "refresh runs in a goroutine started only when needsRefresh.CompareAndSwap(true,false) succeeded", "refresh goroutine is not guarded by the compare-and-swap: every read may start one")
		}
	}
	c.Floor("C07.v-auto-refresh-async", 1)

	// snapshot pointer loaded once per read operation
	loadPat := Or(c.RoleCall("pcache.load"), Call("atomic.Pointer[pcache.readOnly]).Load[pcache.readOnly]"))
	for _, f := range c.Funcs(pcachePkg) {
		if !isReaderSide(c, f.SSA) {
			continue
		}
		cs := c.Calls(f.SSA, loadPat)
		if len(cs) == 0 {
			continue
		}
		inLoop := false
		for _, s := range cs {
			if ReachableFromSucc(s.In.Block(), s.In.Block()) {
				inLoop = true
			}
		}
		c.Check(len(cs) == 1 && !inLoop, "C07.v-one-snapshot-per-read", f.Name+" › snapshot loads", cs[0].In.Pos(),
			"snapshot pointer loaded exactly once, outside any loop", "read operation loads the snapshot pointer more than once: it can combine two different snapshots")
	}
	c.Floor("C07.v-one-snapshot-per-read", 3)
}

// isReaderSide: functions reachable from the read API without passing
// through the write-side entry points (those that take the token).
func isReaderSide(c *Ctx, fn *ssa.Function) bool {
	if c.readerSide == nil {
		c.readerSide = map[*ssa.Function]bool{}
		writer := map[*ssa.Function]bool{}
		// writers: functions that take the write token, directly or through a lock wrapper (lockset analysis)
		las := c.LockAnalyses(pcachePkg, []string{"ProviderCache.writeLock"})
		for _, f := range c.Funcs(pcachePkg) {
			for _, a := range las[f.Name] {
				for _, acq := range a.Acquires {
					if strings.HasSuffix(acq.lock, ".writeLock") || acq.lock == "writeLock" {
						writer[f.SSA] = true
					}
				}
			}
		}
		var rec func(f *ssa.Function)
		rec = func(f *ssa.Function) {
			if c.readerSide[f] || writer[f] {
				return
			}
			c.readerSide[f] = true
			instrsDeep(f, func(g *ssa.Function, in ssa.Instruction) {
				if ci, ok := in.(ssa.CallInstruction); ok {
					if sc := ci.Common().StaticCallee(); sc != nil && sc.Pkg == f.Pkg && sc.Parent() == nil {
						rec(sc)
					}
				}
			})
		}
		for _, name := range []string{"Get", "List", "Len", "GetResults"} {
			if f := c.Func(pcachePkg, "ProviderCache."+name); f != nil {
				rec(f.SSA)
			}
		}
	}
	return c.readerSide[fn]
}

// freshMapMisuse checks the uses of a freshly made map in its function: no
// update/delete may follow the publication point, and the only call it may be
// passed to is allowedCall (the publishing helper). Returns "" if fine.
func freshMapMisuse(c *Ctx, mm ssa.Value, pubPoint ssa.Instruction, allowedCall ssa.Instruction) string {
	bad := ""
	walkUses(mm, func(in ssa.Instruction) {
		switch u := in.(type) {
		case *ssa.MapUpdate:
			if MayFollow(pubPoint, u) {
				bad = "map is updated at " + c.pos(u.Pos()) + " after it was published"
			}
		case *ssa.Lookup, *ssa.Range, *ssa.DebugRef:
		case *ssa.Store:
			if a := c.E(u.Addr); a.Op != "field" || fieldOwner(a) != "readOnly" {
				bad = "map escapes through a store at " + c.pos(u.Pos())
			}
		case ssa.CallInstruction:
			if in == allowedCall {
				return
			}
			if readOnlyMapParam(c, u, mm) {
				return // handed to a helper that only reads it
			}
			if sc := u.Common().StaticCallee(); sc != nil && sc.Object() != nil && sc.Object().Pkg() != nil && sc.Object().Pkg().Path() == "maps" {
				// the standard maps package keeps no reference; Copy/Insert/DeleteFunc write their first argument
				writes := false
				switch sc.Object().Name() {
				case "Copy", "Insert", "DeleteFunc":
					writes = len(u.Common().Args) > 0 && u.Common().Args[0] == mm
				}
				if writes && MayFollow(pubPoint, u) {
					bad = "map is written by maps." + sc.Object().Name() + " at " + c.pos(u.Pos()) + " after it was published"
				}
				return
			}
			if bi, ok := u.Common().Value.(*ssa.Builtin); ok {
				if bi.Name() == "delete" && MayFollow(pubPoint, u) {
					bad = "map entry deleted at " + c.pos(u.Pos()) + " after publication"
				}
				if bi.Name() == "len" || bi.Name() == "delete" {
					return
				}
			}
			bad = "map escapes to a call at " + c.pos(u.Pos())
		case *ssa.Phi:
			bad = "map flows through a phi (aliased) at " + c.pos(u.Pos())
		default:
			bad = "unrecognised use of the published map at " + c.pos(in.Pos())
		}
	})
	return bad
}

// sourcesDecodeFresh: records handed to the cache by its own sources are
// fresh — the decode target is a new local value per record list (or per
// element), not memory kept from an earlier call or an earlier iteration.
// Shared by C07 (published records are never rewritten) and C17 (a record is
// expanded from its own fields only).
func sourcesDecodeFresh(c *Ctx, rule string) {
	// records handed to the cache by its own sources are fresh: the decode target is a new local value, not memory
	// kept from an earlier call (decoding into a retained slice rewrites, in place, records already published)
	nDec := 0
	for _, f := range c.Funcs(pcachePkg) {
		if f.SSA.Signature.Recv() == nil || (f.SSA.Name() != "Fetch" && f.SSA.Name() != "FetchAll") {
			continue
		}
		recv := f.SSA.Params[0]
		for _, cs := range c.Calls(f.SSA, Or(Call("encoding/json.Unmarshal"), Call("encoding/json.Decoder).Decode"))) {
			nDec++
			tgt := cs.X.Args[len(cs.X.Args)-1]
			why := ""
			// through the interface conversion, the target must be the address of a local
			var al *ssa.Alloc
			if v, ok := tgt.V.(ssa.Value); ok {
				al, _ = unwrapV(v).(*ssa.Alloc)
			}
			if al == nil && tgt.Cell != nil {
				al = tgt.Cell
			}
			if al == nil {
				why = "the decode target is not a local variable: " + abbreviate(tgt.String())
			} else if ReachableFromSucc(cs.In.Block(), cs.In.Block()) && !ReachableFromSucc(al.Block(), al.Block()) {
				why = "the decode target is one variable reused for every element of the list: fields absent from a later element keep the previous element's values"
			} else {
				stores, esc := c.xb.storesTo(al, map[ssa.Value]bool{})
				_ = esc
				for _, st := range stores {
					v := strip(c.E(st.Val))
					if v.Op == "nil" || (v.Op == "const" && strings.HasPrefix(v.Name, "zero")) {
						continue
					}
					if v.Contains(func(y *X) bool { return y.V == ssa.Value(recv) }) {
						why = "the decode target starts from state kept in the source (" + abbreviate(v.String()) + ")"
					}
				}
			}
			// and what was decoded is not retained in the source
			instrs(f.SSA, func(in ssa.Instruction) {
				st, ok := in.(*ssa.Store)
				if !ok || al == nil {
					return
				}
				a := c.E(st.Addr)
				if a.Op == "field" && strip(a.Args[0]).V == ssa.Value(recv) {
					if v := c.E(st.Val); v.Cell == al || v.Contains(func(y *X) bool { return y.Cell == al || y.V == ssa.Value(al) }) {
						why = "the decoded records are retained in the source (" + a.Name + ")"
					}
				}
			})
			c.Check(why == "", rule, f.Name+" › decode target", cs.In.Pos(), "records are decoded into a new local value and not retained", why+": a later fetch decodes into records readers already hold (published records are rewritten in place, without synchronisation)")
		}
	}
}

// readOnlyMapParam: call passes map m to a same-package unexported function
// that only reads it (lookups, ranges, len): not an escape.
func readOnlyMapParam(c *Ctx, call ssa.CallInstruction, m ssa.Value) bool {
	callee := call.Common().StaticCallee()
	if callee == nil || !samePkgBody(call.Parent(), callee) || callee.Object() == nil || callee.Object().Exported() {
		return false
	}
	okAll, used := true, false
	for i, a := range call.Common().Args {
		if a != m {
			continue
		}
		used = true
		if i >= len(callee.Params) {
			return false
		}
		walkUses(callee.Params[i], func(in ssa.Instruction) {
			switch u := in.(type) {
			case *ssa.Lookup, *ssa.Range, *ssa.DebugRef:
			case ssa.CallInstruction:
				if bi, ok := u.Common().Value.(*ssa.Builtin); ok && bi.Name() == "len" {
					return
				}
				okAll = false
			default:
				okAll = false
			}
		})
	}
	return used && okAll
}

// returnsFreshMap: every return of the unexported helper fn yields a map made
// in fn that fn itself does not store anywhere or hand on.
func returnsFreshMap(c *Ctx, fn *ssa.Function, idx int) bool {
	// maps.Clone: a new map with the same entries (nil for nil)
	if fn != nil && idx == 0 && strings.HasPrefix(fn.Name(), "Clone") {
		if o := fn.Origin(); (fn.Pkg != nil && fn.Pkg.Pkg.Path() == "maps") || (o != nil && o.Pkg != nil && o.Pkg.Pkg.Path() == "maps") {
			return true
		}
	}
	if fn == nil || len(fn.Blocks) == 0 || fn.Object() == nil || fn.Object().Exported() || fn.Pkg == nil || !strings.HasPrefix(fn.Pkg.Pkg.Path(), modPath) {
		return false
	}
	n := 0
	for _, b := range fn.Blocks {
		ret, ok := b.Instrs[len(b.Instrs)-1].(*ssa.Return)
		if !ok || idx >= len(ret.Results) {
			continue
		}
		n++
		mk, isMk := unwrapV(ret.Results[idx]).(*ssa.MakeMap)
		if !isMk {
			return false
		}
		clean := true
		walkUses(mk, func(in ssa.Instruction) {
			switch u := in.(type) {
			case *ssa.MapUpdate, *ssa.Lookup, *ssa.Range, *ssa.DebugRef, *ssa.Return:
			case ssa.CallInstruction:
				if bi, ok := u.Common().Value.(*ssa.Builtin); ok && (bi.Name() == "len" || bi.Name() == "delete") {
					return
				}
				clean = false
			default:
				clean = false
			}
		})
		if !clean {
			return false
		}
	}
	return n > 0
}
