package main

import (
	"fmt"
	"go/ast"
	"go/token"
	"go/types"
	"os"
	"path/filepath"
	"sort"
	"strings"

	"golang.org/x/tools/go/packages"
	"golang.org/x/tools/go/ssa"
	"golang.org/x/tools/go/ssa/ssautil"
)

// load type-checks the CURRENT working tree of repo and builds SSA for it.
// Any load or type error aborts the run with exit status 2 (= check broken,
// which the harness counts as failing): an analysis of a tree that does not
// build would be meaningless.
func load(repo string, allDeps bool) (*Ctx, error) {
	return loadPattern(repo, "./...", allDeps)
}

// loadDir loads one package pattern from dir (used for the positive examples).
func loadDir(dir, pattern string) (*Ctx, error) {
	return loadPattern(dir, pattern, false)
}

// posexDir is the checker's source directory (holds testdata/posex).
func posexDir() string {
	if d := os.Getenv("IPNICHECK_SRC"); d != "" {
		return d
	}
	exe, err := os.Executable()
	if err == nil {
		return filepath.Join(filepath.Dir(filepath.Dir(exe)), "checker")
	}
	return "/verif/checker"
}

func loadPattern(repo, pattern string, allDeps bool) (*Ctx, error) {
	mode := packages.LoadSyntax
	if allDeps {
		mode = packages.LoadAllSyntax
	}
	cfg := &packages.Config{Mode: mode | packages.NeedModule, Dir: repo, Tests: false, Env: append(os.Environ(), "GOWORK=off")}
	pkgs, err := packages.Load(cfg, pattern)
	if err != nil {
		return nil, err
	}
	if len(pkgs) == 0 {
		return nil, fmt.Errorf("no packages loaded from %s", repo)
	}
	var errs []string
	packages.Visit(pkgs, nil, func(p *packages.Package) {
		for _, e := range p.Errors {
			errs = append(errs, e.Error())
		}
	})
	if len(errs) > 0 {
		sort.Strings(errs)
		if len(errs) > 10 {
			errs = errs[:10]
		}
		return nil, fmt.Errorf("load/type errors:\n  %s", strings.Join(errs, "\n  "))
	}
	prog, spkgs := ssautil.AllPackages(pkgs, ssa.InstantiateGenerics)
	prog.Build()
	c := &Ctx{
		Repo: repo, Fset: prog.Fset, Prog: prog,
		Pkgs: map[string]*packages.Package{}, SSAPkgs: map[string]*ssa.Package{},
		rules: map[string]*ruleStat{}, funcsSeen: map[string]bool{},
		declIndex: map[*types.Func]*ast.FuncDecl{}, filePkg: map[*ast.File]*packages.Package{},
		AllDeps: allDeps,
	}
	for i, p := range pkgs {
		c.Pkgs[p.PkgPath] = p
		c.SSAPkgs[p.PkgPath] = spkgs[i]
		for _, f := range p.Syntax {
			c.filePkg[f] = p
			for _, d := range f.Decls {
				if fd, ok := d.(*ast.FuncDecl); ok {
					if obj, ok := p.TypesInfo.Defs[fd.Name].(*types.Func); ok {
						c.declIndex[obj] = fd
					}
				}
			}
		}
	}
	if allDeps {
		packages.Visit(pkgs, nil, func(p *packages.Package) {
			if _, ok := c.Pkgs[p.PkgPath]; !ok {
				c.Pkgs[p.PkgPath] = p
				c.SSAPkgs[p.PkgPath] = prog.Package(p.Types)
			}
		})
	}
	c.buildCanon()
	c.buildFuncCanon()
	c.notes = append(c.notes, c.canon.notes...)
	c.xb = newXBuilder(c)
	return c, nil
}

// Fn is a source function of the repo with all its representations.
type Fn struct {
	Name string // short name "pkg.(*T).M" relative to the module
	Obj  *types.Func
	Decl *ast.FuncDecl
	SSA  *ssa.Function
	Pkg  *packages.Package
}

func (c *Ctx) pkg(rel string) *packages.Package {
	path := modPath
	if rel != "" && rel != "." {
		path = modPath + "/" + rel
	}
	if p, ok := c.Pkgs[path]; ok {
		return p
	}
	if p, ok := c.Pkgs[rel]; ok { // absolute path of a dependency
		return p
	}
	return nil
}

// Func resolves "T.M" / "(*T).M" / "f" in package rel (module relative).
// Returns nil if it does not exist (callers report an undecided obligation).
func (c *Ctx) Func(rel, name string) *Fn {
	p := c.pkg(rel)
	if p == nil {
		return nil
	}
	var obj *types.Func
	name = strings.NewReplacer("(", "", "*", "", ")", "").Replace(name)
	name = c.ActualFunc(rel, name)
	recv, meth := "", name
	if i := strings.LastIndex(name, "."); i >= 0 {
		recv, meth = name[:i], name[i+1:]
		recv = strings.Trim(recv, "(*)")
	}
	if recv == "" {
		if o, ok := p.Types.Scope().Lookup(meth).(*types.Func); ok {
			obj = o
		}
	} else {
		if tn, ok := p.Types.Scope().Lookup(c.ActualType(rel, recv)).(*types.TypeName); ok {
			o, _, _ := types.LookupFieldOrMethod(types.NewPointer(tn.Type()), true, p.Types, meth)
			if f, ok := o.(*types.Func); ok {
				obj = f
			}
		}
	}
	if obj == nil {
		return nil
	}
	return c.fnOf(obj)
}

func (c *Ctx) fnOf(obj *types.Func) *Fn {
	sf := c.Prog.FuncValue(obj)
	if sf == nil {
		return nil
	}
	p := c.Pkgs[obj.Pkg().Path()]
	f := &Fn{Name: c.short(sf.String()), Obj: obj, Decl: c.declIndex[obj], SSA: sf, Pkg: p}
	c.funcsSeen[f.Name] = true
	return f
}

// short strips the module path from a qualified name.
func (c *Ctx) short(s string) string {
	s = strings.ReplaceAll(s, modPath+"/", "")
	s = strings.ReplaceAll(s, modPath+".", "libipni.")
	if c.canon != nil {
		for _, r := range c.canon.renames {
			if strings.Contains(s, r[0]) {
				s = replaceIdent(s, r[0], r[1])
			}
		}
		for _, r := range c.canon.fnRenames {
			if strings.Contains(s, r[0]) {
				s = replaceName(s, r[0], r[1])
			}
		}
	}
	return s
}

// Funcs returns all source functions (incl. methods) of package rel.
func (c *Ctx) Funcs(rel string) []*Fn {
	p := c.pkg(rel)
	if p == nil {
		return nil
	}
	var out []*Fn
	for _, f := range p.Syntax {
		for _, d := range f.Decls {
			if fd, ok := d.(*ast.FuncDecl); ok && fd.Body != nil {
				if obj, ok := p.TypesInfo.Defs[fd.Name].(*types.Func); ok {
					if fn := c.fnOf(obj); fn != nil {
						out = append(out, fn)
					}
				}
			}
		}
	}
	sort.Slice(out, func(i, j int) bool { return out[i].Name < out[j].Name })
	return out
}

// repoPkgs lists the module-relative paths of the repo's own packages.
func (c *Ctx) repoPkgs() []string {
	var out []string
	for path := range c.Pkgs {
		if path == modPath {
			out = append(out, ".")
		} else if strings.HasPrefix(path, modPath+"/") {
			out = append(out, strings.TrimPrefix(path, modPath+"/"))
		}
	}
	sort.Strings(out)
	return out
}

// allFuncs returns fn and all functions literally nested in it.
func allFuncs(fn *ssa.Function) []*ssa.Function {
	out := []*ssa.Function{fn}
	for _, a := range fn.AnonFuncs {
		out = append(out, allFuncs(a)...)
	}
	return out
}

// instrs iterates over all instructions of fn (not nested functions).
func instrs(fn *ssa.Function, f func(ssa.Instruction)) {
	for _, b := range fn.Blocks {
		for _, in := range b.Instrs {
			f(in)
		}
	}
}

// instrsDeep iterates over fn and every function literal nested in it.
func instrsDeep(fn *ssa.Function, f func(*ssa.Function, ssa.Instruction)) {
	for _, g := range allFuncs(fn) {
		for _, b := range g.Blocks {
			for _, in := range b.Instrs {
				f(g, in)
			}
		}
	}
}

func posOf(in ssa.Instruction) token.Pos {
	if in == nil {
		return token.NoPos
	}
	if p := in.Pos(); p.IsValid() {
		return p
	}
	// Fall back to any positioned instruction of the block.
	if v, ok := in.(ssa.Value); ok {
		_ = v
	}
	if b := in.Block(); b != nil {
		for _, o := range b.Instrs {
			if o.Pos().IsValid() {
				return o.Pos()
			}
		}
		return in.Parent().Pos()
	}
	return token.NoPos
}
