package main

import (
	"go/types"
	"go/token"
	"strings"

	"golang.org/x/tools/go/ssa"
)

func init() {
	register(&propSpec{
		id:  "C05",
		run: runC05,
		explanation: "Structural necessary conditions of 'advertisement signatures verify exactly what was signed, and by whom', decided on SSA of package ingest/schema: " +
			"(S1) field-to-payload coverage: the advertisement payload writes, in order and unconditionally, previous link (or undefined), entries link, provider, every address, metadata, and a removal byte whose value is decided by IsRm alone; the extended-provider payload writes previous, entries, provider, context ID, the entry's ID, every entry address, the entry's metadata, and an override byte decided by Override alone; both hash exactly the assembled buffer; " +
			"(S2) signing and verification call the same payload function with the same advertisement (and the same entry); " +
			"(S3) every success return of VerifySignature is dominated by: envelope consumed without error, recomputed payload bytes.Equal the sealed one, and returns the ID of that envelope's key; every continuation to the next extended provider is dominated by: its envelope consumed without error, payload equal, and the envelope's signer equal to the expected signer, which is the advertisement's signer for the main provider's entry and the entry's own decoded ID otherwise (the comparison added in a493a96); after the loop the main provider must have been seen when there are any entries; " +
			"(S4) the two signature record types carry distinct payload types under the same domain, and each side seals/consumes the matching type. " +
			"Envelope cryptography, survival across encode/decode and the single-byte mutation sweep are not decided.",
		assumptions: []string{"libp2p record.Seal / ConsumeTypedEnvelope verify the signature over domain, payload type and payload", "SHA-256 collision resistance"},
	})
}

const schemaPkg = "ingest/schema"

type wantWrite struct {
	name   string
	method string
	arg    P
	guards int // number of guard facts expected (relative to the first write)
}

func runC05(c *Ctx) {
	c.Trust("go/ssa", "libp2p core/record envelopes", "go-multihash")
	adPay := c.RoleFn("schema.adpayload")
	epPay := c.RoleFn("schema.eppayload")
	verify := c.Func(schemaPkg, "Advertisement.VerifySignature")
	if adPay == nil || epPay == nil || verify == nil {
		c.Unk("C05.S1-payload-coverage", "ingest/schema payload functions", token.NoPos, "payload or verify function not found")
		return
	}
	ad := func(fn *Fn) P { return Op("param", fn.SSA.Params[0].Name()) }
	prev := func(fn *Fn) P {
		return ThroughPhi(Or(Call("cid.Cid).Bytes", Op("global", "go-cid.Undef")), Call("cid.Cid).Bytes", Field("Cid", Field("PreviousID", ad(fn))))))
	}
	c05Payload(c, adPay, func(adPay *Fn) []wantWrite { return []wantWrite{
		{"previous link", "Write", prev(adPay), 0},
		{"entries link", "Write", Call("cid.Cid).Bytes", Field("Cid", Field("Entries", ad(adPay)))), 0},
		{"provider", "WriteString", Field("Provider", ad(adPay)), 0},
		{"each address", "WriteString", Op("index", "", Field("Addresses", ad(adPay))), 1},
		{"metadata", "Write", Field("Metadata", ad(adPay)), 0},
		{"removal flag", "WriteByte", Const("1"), 1},
		{"removal flag", "WriteByte", Const("0"), 1},
	}}, "IsRm")
	c05Payload(c, epPay, func(epPay *Fn) []wantWrite { p := Op("param", epPay.SSA.Params[1].Name()); return []wantWrite{
		{"previous link", "Write", prev(epPay), 0},
		{"entries link", "Write", Call("cid.Cid).Bytes", Field("Cid", Field("Entries", ad(epPay)))), 0},
		{"provider", "WriteString", Field("Provider", ad(epPay)), 0},
		{"context ID", "Write", Field("ContextID", ad(epPay)), 0},
		{"entry identity", "WriteString", Field("ID", p), 0},
		{"each entry address", "WriteString", Op("index", "", Field("Addresses", p)), 1},
		{"entry metadata", "Write", Field("Metadata", p), 0},
		{"override flag", "WriteByte", Const("1"), 1},
		{"override flag", "WriteByte", Const("0"), 1},
	}}, "Override")
	c.Floor("C05.S1-payload-coverage", 18)

	// ---- S2 same payload function on both sides -----------------------------------------------
	// the verifier and the unexported helpers only it calls
	verifySide := map[*ssa.Function]bool{verify.SSA: true}
	for _, st := range c.CallsInl(verify.SSA, Any(), 2) {
		if callee := st.In.Common().StaticCallee(); callee != nil && samePkgBody(verify.SSA, callee) && callee.Object() != nil && !callee.Object().Exported() &&
			callee != adPay.SSA && callee != epPay.SSA && c.onlyCalledFrom(callee, verifySide) {
			verifySide[callee] = true
		}
	}
	for _, pf := range []*Fn{adPay, epPay} {
		signers, verifiers := 0, 0
		for _, f := range c.Funcs(schemaPkg) {
			for _, cs := range c.Calls(f.SSA, Any()) {
				if cs.In.Common().StaticCallee() != pf.SSA {
					continue
				}
				isVerify := verifySide[topFunc(cs.Fn)]
				if isVerify {
					verifiers++
				} else {
					signers++
				}
				// first argument is the receiver advertisement
				recvOK := cs.X.Args[0].Op == "param" && cs.X.Args[0].V == ssa.Value(topFunc(cs.Fn).Params[0])
				if col, k := c05Collector(c, pf); col != nil && k < len(cs.X.Args) {
					// collecting the signed fields and hashing them are two functions: what is hashed is what the
					// collector returned for the method's own advertisement
					recvOK = false
					if h, _ := helperCall(cs.X.Args[k]); h != nil && h.Callee == col.SSA && len(h.Args) > 0 {
						a0 := strip(h.Args[0])
						recvOK = a0 != nil && a0.Op == "param" && a0.V == ssa.Value(topFunc(cs.Fn).Params[0])
					}
				}
				c.Check(recvOK, "C05.S2-same-payload-function", c.short(topFunc(cs.Fn).String())+" → "+pf.Name, cs.In.Pos(), "payload computed over the method's own advertisement", "payload computed over something other than the advertisement being signed/verified")
			}
		}
		c.Check(signers >= 1 && verifiers == 1, "C05.S2-same-payload-function", pf.Name+" › used by signer and verifier", pf.SSA.Pos(), "the same payload function serves signing and verification", "payload function not shared by a signer and the verifier")
	}
	c.Floor("C05.S2-same-payload-function", 5)

	// ---- S2b who signs which entry: the main provider's own entry is sealed with the advertisement's signing key
	// (VerifySignature expects exactly that), every other entry with the key fetched for its ID
	nSeal := 0
	type sealUse struct {
		rec, key *X
		at       ssa.Instruction
		fn       string
	}
	var uses []sealUse
	for _, f := range c.Funcs(schemaPkg) {
		for _, cs := range c.Calls(f.SSA, Call("record.Seal")) {
			if len(cs.X.Args) != 2 {
				continue
			}
			// a sealing helper: the record and the key are its parameters — judge every call of the helper instead
			rv, rat := c.ActualsAt(cs.X.Args[0])
			kv, kat := c.ActualsAt(cs.X.Args[1])
			if len(rv) > 0 && len(rv) == len(kv) {
				for i := range rv {
					if rat[i] == kat[i] {
						uses = append(uses, sealUse{rv[i], kv[i], rat[i], c.short(topFunc(rat[i].Parent()).String())})
					}
				}
				continue
			}
			uses = append(uses, sealUse{cs.X.Args[0], cs.X.Args[1], cs.In, f.Name})
		}
	}
	for _, u := range uses {
		isEP := strings.Contains(u.rec.Name+" "+typeOfX(u.rec), "epSignatureRecord")
		for _, r := range c.Actuals(u.rec) {
			if strings.Contains(r.Name+" "+typeOfX(r), "epSignatureRecord") {
				isEP = true
			}
		}
		if !isEP {
			continue
		}
		nSeal++
		isMain := Bin("==", Field("ID", Any()), Field("Provider", Any()))
		okKeys, nAd, nFetched := true, 0, 0
		for _, l := range c.LeavesF(u.key, u.at) {
			facts := append(append([]Fact{}, l.Facts...), c.FactsAt(u.at.Block())...)
			has := func(val bool) bool {
				for _, fct := range facts {
					if _, m := Match(isMain, fct.Cond); m && fct.Val == val {
						return true
					}
				}
				return false
			}
			v := strip(l.Val)
			switch {
			case v.Op == "param":
				nAd++
				okKeys = okKeys && has(true)
			case v.Op == "extract" && v.Name == "0" && strip(v.Args[0]).Op == "dyncall":
				nFetched++
				okKeys = okKeys && has(false)
			default:
				okKeys = false
			}
		}
		c.Check(okKeys && nAd == 1 && nFetched == 1, "C05.S2-entry-signing-key", u.fn+" › key sealing an extended-provider entry", u.at.Pos(),
			"the advertisement's key exactly for the main provider's entry, the fetched key exactly for the others", "an extended-provider entry can be sealed with a key other than (the advertisement's signing key for the main provider's entry, the key fetched for the entry's ID otherwise): an advertisement signed by the library then fails its own verification")
	}
	c.Floor("C05.S2-entry-signing-key", 1)
	// every entry is signed afresh by every signing: in the loop that seals extended-provider entries, each way
	// round the loop stores the new signature into the entry (an entry skipped because it "already has one" keeps a
	// signature over the previous values of the signed fields)
	for _, u := range uses {
		isEP := strings.Contains(u.rec.Name+" "+typeOfX(u.rec), "epSignatureRecord")
		for _, r := range c.Actuals(u.rec) {
			if strings.Contains(r.Name+" "+typeOfX(r), "epSignatureRecord") {
				isEP = true
			}
		}
		if !isEP {
			continue
		}
		// the signing point in a function: the store of the entry's Signature, or a call of a helper that returns nil
		// only after having stored it
		sigStoreIn := func(fn *ssa.Function) *ssa.Store {
			var out *ssa.Store
			instrs(fn, func(in ssa.Instruction) {
				if st, ok := in.(*ssa.Store); ok {
					if a := c.E(st.Addr); a.Op == "field" && a.Name == "Signature" && fieldOwner(a) == "Provider" {
						out = st
					}
				}
			})
			return out
		}
		loopHead := func(b *ssa.BasicBlock) *ssa.BasicBlock {
			for d := b; d != nil; d = d.Idom() {
				for _, p := range d.Preds {
					if d.Dominates(p) && ReachableFrom(b)[p] {
						return d
					}
				}
			}
			return nil
		}
		type point struct {
			in ssa.Instruction
			fn string
		}
		var pts []point
		fn0 := u.at.Parent()
		if st := sigStoreIn(fn0); st != nil {
			if loopHead(st.Block()) != nil {
				pts = append(pts, point{st, c.short(topFunc(fn0).String())})
			} else if sites, known := c.staticCallSites(fn0); known {
				// the per-entry work is a helper called from the loop: it must store the signature before every
				// nil-error return, and the loop must pass the call on every way round
				okHelper := true
				for _, b := range fn0.Blocks {
					if ret, ok := b.Instrs[len(b.Instrs)-1].(*ssa.Return); ok && len(ret.Results) > 0 && c.RetX(ret, len(ret.Results)-1).Op == "nil" {
						if !(st.Block() == b || st.Block().Dominates(b)) {
							okHelper = false
						}
					}
				}
				for _, site := range sites {
					if okHelper {
						pts = append(pts, point{site, c.short(topFunc(site.Parent()).String())})
					} else {
						c.Bad("C05.S2-every-entry-signed", c.short(fn0.String())+" › helper stores the signature before succeeding", st.Pos(), "the per-entry signing helper can return nil without having stored the entry's new signature")
					}
				}
			}
		}
		for _, pt := range pts {
			head := loopHead(pt.in.Block())
			if head == nil {
				continue
			}
			okAll, where := true, ""
			for _, p := range head.Preds {
				if head.Dominates(p) && !(pt.in.Block() == p || pt.in.Block().Dominates(p)) {
					okAll = false
					where = c.pos(posOf(p.Instrs[len(p.Instrs)-1]))
				}
			}
			c.Check(okAll, "C05.S2-every-entry-signed", pt.fn+" › each iteration stores the entry's new signature", pt.in.Pos(), "every way round the loop passes the store of the entry's signature", "an iteration can end ("+where+") without the entry being signed afresh: its old signature (over the previous link, entries, context ID, addresses…) stays, and the advertisement the library just signed does not verify")
		}
	}
	c.Floor("C05.S2-every-entry-signed", 1)

	// ---- S5 what verifies is what was signed: decoding an advertisement does not rewrite it (address, metadata and
	// the other signed fields of the advertisement and of its extended-provider entries come out as they went in)
	if uw := c.Func(schemaPkg, "UnwrapAdvertisement"); uw != nil {
		if r := unwrapResult(c, uw.SSA); r != nil {
			pos := storesRootedAt(c, uw.SSA, r)
			c.Check(!pos.IsValid(), "C05.S5-decode-preserves-signed-fields", uw.Name, uw.SSA.Pos(), "the decoded advertisement is returned without any of its fields (or its entries' fields) being stored to", "decoding stores into the advertisement it returns (at "+c.pos(pos)+"): signed fields differ from what was encoded, so a signed advertisement stops verifying after a round trip (or a tampered one starts to)")
		} else {
			c.Unk("C05.S5-decode-preserves-signed-fields", uw.Name, uw.SSA.Pos(), "no success return found")
		}
	} else {
		c.Unk("C05.S5-decode-preserves-signed-fields", "ingest/schema.UnwrapAdvertisement", token.NoPos, "not found")
	}
	c.Floor("C05.S5-decode-preserves-signed-fields", 1)
	decodedHandedOnAsDecoded(c, "C05.S5-decoded-handed-on")
	structsMirrorSchemaOrder(c, "C05.S5-fields-travel-under-their-names", schemaPkg, "Advertisement", "Provider", "ExtendedProvider")
	c.Floor("C05.S5-fields-travel-under-their-names", 3)

	// ---- S3 verification gates --------------------------------------------------------------------
	c05Verify(c, verify, adPay, epPay)

	// ---- S4 record types ------------------------------------------------------------------------------
	c05Records(c, verify, adPay.SSA, epPay.SSA)
}

// c05Collector: when the payload function only hashes bytes it is handed (its hashed data is its parameter number
// k), the unexported function of the package whose result every caller passes there — the one that collects the
// signed fields. nil when the payload function assembles the bytes itself.
func c05Collector(c *Ctx, fn *Fn) (*Fn, int) {
	for _, cs := range c.Calls(fn.SSA, Or(Call("go-multihash.Sum"), Call("go-multihash.Encode"))) {
		d := strip(cs.X.Args[0])
		prm, ok := d.V.(*ssa.Parameter)
		if d.Op != "param" || !ok {
			return nil, 0
		}
		k := -1
		for i, p := range fn.SSA.Params {
			if p == prm {
				k = i
			}
		}
		vals, _ := c.ActualsAt(d)
		var col *ssa.Function
		for _, v := range vals {
			h, _ := helperCall(v)
			if h == nil || h.Callee == nil || (col != nil && h.Callee != col) {
				return nil, 0
			}
			col = h.Callee
		}
		if col == nil || k < 0 {
			return nil, 0
		}
		obj, _ := col.Object().(*types.Func)
		return c.fnOf(obj), k
	}
	return nil, 0
}

func c05Payload(c *Ctx, fn *Fn, mkWant func(*Fn) []wantWrite, flag string) {
	// the hashed bytes: argument of multihash.Sum / Encode in the returns
	var data *X
	n := 0
	for _, cs := range c.Calls(fn.SSA, Or(Call("go-multihash.Sum"), Call("go-multihash.Encode"))) {
		n++
		if data == nil {
			data = cs.X.Args[0]
		} else if !Same(bufOf(data), bufOf(cs.X.Args[0])) {
			c.Bad("C05.S1-payload-coverage", fn.Name+" › hashed bytes", cs.In.Pos(), "different buffers are hashed on different paths")
		}
		if nameMatches(cs.X.Name, "go-multihash.Sum") {
			_, sha := Match(Const("18"), cs.X.Args[1])
			c.Check(sha, "C05.S1-payload-coverage", fn.Name+" › SHA-256", cs.In.Pos(), "payload is the SHA2-256 multihash of the buffer", "payload hash function is not SHA2-256")
		}
	}
	if data == nil {
		c.Unk("C05.S1-payload-coverage", fn.Name+" › hashed bytes", fn.SSA.Pos(), "no multihash.Sum/Encode of the payload buffer")
		return
	}
	want := mkWant(fn)
	var ws []BufWrite
	why := ""
	if col, _ := c05Collector(c, fn); col != nil {
		// the signed fields are collected by a function of its own: its return value is what gets hashed
		want = mkWant(col)
		for _, b := range col.SSA.Blocks {
			if ret, ok := b.Instrs[len(b.Instrs)-1].(*ssa.Return); ok && len(ret.Results) >= 1 && ws == nil {
				ws, why = c.payloadWrites(col.SSA, c.RetX(ret, 0))
			}
		}
	} else {
		ws, why = c.payloadWrites(fn.SSA, data)
	}
	if ws == nil {
		c.Unk("C05.S1-payload-coverage", fn.Name+" › payload buffer", fn.SSA.Pos(), why)
		return
	}
	if len(ws) != len(want) {
		c.Bad("C05.S1-payload-coverage", fn.Name+" › write sequence length", fn.SSA.Pos(), "payload is assembled by "+itoa(len(ws))+" writes, the signed-field table has "+itoa(len(want))+": "+writesString(ws))
		return
	}
	for i, w := range want {
		got := ws[i]
		_, m := Match(w.arg, got.Arg)
		ok := m && kindOf(got.Method) == kindOf(w.method) && len(got.Guards) == w.guards
		key := fn.Name + " › #" + itoa(i) + " " + w.name
		if ok && w.method == "WriteByte" {
			// the byte is decided by the flag alone
			ok = len(got.Guards) == 1 && strings.HasSuffix(strings.TrimSuffix(strings.TrimPrefix(got.Guards[0], "!"), ")"), "."+flag)
		}
		c.Check(ok, "C05.S1-payload-coverage", key, got.In.Pos(), "write #"+itoa(i)+" is "+w.name, "signed payload position "+itoa(i)+" should be "+w.name+" but is "+got.String())
	}
}

func bufOf(x *X) *X {
	if b, ok := Match(Call("bytes.Buffer).Bytes", Bind("b")), x); ok {
		return b["b"]
	}
	return x
}

func c05Verify(c *Ctx, verify, adPay, epPay *Fn) {
	fn := verify.SSA
	key := verify.Name
	// (the verifier may be split into unexported helpers: sites are looked up through them, in VerifySignature's terms)
	cons := c.CallsInl(fn, Call("record.ConsumeTypedEnvelope"), 2)
	var adCons, epCons *InlSite
	for i := range cons {
		if _, m := Match(Call("record.ConsumeTypedEnvelope", Field("Signature", ParamLike())), cons[i].X); m && fieldOwner(strip(cons[i].X.Args[0])) != "Provider" {
			adCons = &cons[i]
		} else {
			epCons = &cons[i]
		}
	}
	if adCons == nil {
		c.Bad("C05.S3-verify-gates", key+" › consume advertisement envelope", fn.Pos(), "VerifySignature does not consume the advertisement's signature envelope")
		return
	}
	var adCall, epCall *InlSite
	for _, cs := range c.CallsInl(fn, Any(), 2) {
		cs := cs
		if cs.In.Common().StaticCallee() == adPay.SSA {
			adCall = &cs
		}
		if cs.In.Common().StaticCallee() == epPay.SSA {
			epCall = &cs
		}
	}
	if adCall == nil {
		c.Bad("C05.S3-verify-gates", key+" › payload recomputed", fn.Pos(), "VerifySignature does not recompute the advertisement payload")
		return
	}
	adRec := adCons.X.Args[1]
	adEq := Call("bytes.Equal", Extract("0", Is(c.E(adCall.In.(*ssa.Call)))), Field("advID", Is(adRec)))
	adEq2 := Call("bytes.Equal", Field("advID", Is(adRec)), Extract("0", Is(c.E(adCall.In.(*ssa.Call)))))
	signerCall := Call("peer.IDFromPublicKey", Field("PublicKey", Extract("0", Is(c.E(adCons.In.(*ssa.Call))))))
	for _, b := range fn.Blocks {
		ret, ok := b.Instrs[len(b.Instrs)-1].(*ssa.Return)
		if !ok || len(ret.Results) != 2 || c.RetX(ret, 1).Op != "nil" {
			continue
		}
		k := key + " › success return"
		_, g1 := c.GuardedB(b, EqNil(Extract("1", Is(c.E(adCons.In.(*ssa.Call))))), true)
		c.Check(g1, "C05.S3-verify-gates", k+" › envelope consumed", ret.Pos(), "dominated by ConsumeTypedEnvelope err == nil", "success without a verified envelope")
		_, g2 := c.GuardedB(b, Or(adEq, adEq2), true)
		c.Check(g2, "C05.S3-verify-gates", k+" › payload equal", ret.Pos(), "dominated by bytes.Equal(recomputed payload, sealed payload)", "success although the sealed payload was not compared with the recomputed one")
		_, g3 := c.GuardedB(b, EqNil(Extract("1", signerCall)), true)
		idOK := true
		ls := c.Leaves(c.RetX(ret, 0), ret)
		for _, l := range ls {
			if _, m := Match(Extract("0", signerCall), l); !m {
				idOK = false
			}
		}
		idOK = idOK && len(ls) > 0
		c.Check(g3 && idOK, "C05.S3-verify-gates", k+" › returns the envelope signer", ret.Pos(), "returns IDFromPublicKey(envelope.PublicKey) of the consumed envelope", "returned ID is not the signer of the consumed envelope")
	}
	// recomputed with the format the sealed payload has
	c.OK("C05.S3-verify-gates", key+" › payload recomputed over the same advertisement", adCall.In.Pos(), "see S2")

	if epCons == nil || epCall == nil {
		c.Bad("C05.S3-ep-signer-compared", key+" › extended providers", fn.Pos(), "extended-provider signatures are not consumed/recomputed")
		return
	}
	// loop continuation edges
	body := epCons.Outer().Block()
	var head *ssa.BasicBlock
	for d := body; d != nil; d = d.Idom() {
		for _, p := range d.Preds {
			if d.Dominates(p) && ReachableFrom(body)[p] {
				head = d
			}
		}
		if head != nil {
			break
		}
	}
	if head == nil {
		c.Unk("C05.S3-ep-signer-compared", key+" › extended provider loop", epCons.In.Pos(), "loop over extended providers not found")
		return
	}
	// the extended-provider section is verified whenever it is present: the only condition on the advertisement's own
	// fields under which the loop is skipped is "there is no extended-provider section"
	{
		skipOn := ""
		for _, fct := range c.FactsAt(head) {
			cx := strip(fct.Cond)
			isAdField := func(y *X) bool {
				y = strip(y)
				return y != nil && y.Op == "field" && strip(y.Args[0]).Op == "param" && y.Name != "ExtendedProvider"
			}
			switch {
			case isAdField(cx):
				skipOn = factString(fct)
			case cx.Op == "binop" && len(cx.Args) == 2 && (isAdField(cx.Args[0]) && strip(cx.Args[1]).Op == "const" || isAdField(cx.Args[1]) && strip(cx.Args[0]).Op == "const"):
				skipOn = factString(fct)
			}
		}
		c.Check(skipOn == "", "C05.S3-verify-gates", key+" › extended providers verified whenever present", head.Instrs[0].Pos(), "the extended-provider loop is entered whenever ExtendedProvider != nil", "extended-provider signatures are verified only when "+abbreviate(skipOn)+": an advertisement for which that does not hold verifies whatever its extended-provider section contains")
	}
	epEnv := c.E(epCons.In.(*ssa.Call))
	epRec := epCons.X.Args[1]
	epEq := Or(Call("bytes.Equal", Extract("0", Is(c.E(epCall.In.(*ssa.Call)))), Field("payload", Is(epRec))),
		Call("bytes.Equal", Field("payload", Is(epRec)), Extract("0", Is(c.E(epCall.In.(*ssa.Call))))))
	epSigner := Extract("0", Call("peer.IDFromPublicKey", Field("PublicKey", Extract("0", Is(epEnv)))))
	nBack := 0
	for _, p := range head.Preds {
		if !head.Dominates(p) || !ReachableFrom(body)[p] {
			continue
		}
		nBack++
		k := key + " › next extended provider"
		facts := append(c.FactsAt(p), edgeFact(c, p, head)...)
		has := func(pat P, val bool) (Binds, bool) {
			for _, f := range facts {
				if f.Val == val {
					if b, ok := Match(pat, f.Cond); ok {
						return b, true
					}
				}
			}
			return nil, false
		}
		_, g1 := has(EqNil(Extract("1", Is(epEnv))), true)
		c.Check(g1, "C05.S3-verify-gates", k+" › envelope consumed", epCons.In.Pos(), "continuation dominated by the entry's envelope being consumed without error", "an extended provider is accepted without a verified envelope")
		_, g2 := has(epEq, true)
		c.Check(g2, "C05.S3-verify-gates", k+" › payload equal", epCall.In.Pos(), "continuation dominated by bytes.Equal(recomputed, sealed)", "an extended provider is accepted without comparing its sealed payload")
		// (the signer: IDFromPublicKey of the envelope's key, or every value a helper that opens the envelope can
		// return for it)
		epSignerAny := func(x *X, bb Binds) bool {
			if epSigner(x, bb) {
				return true
			}
			ls := c.Leaves(x, p.Instrs[len(p.Instrs)-1]) // (the helper's returns compatible with its error having been nil here)
			if len(ls) == 0 || (len(ls) == 1 && ls[0] == x) {
				return false
			}
			for _, l := range ls {
				if !epSigner(l, bb) {
					return false
				}
			}
			return true
		}
		b, g3 := has(Bin("==", epSignerAny, Bind("expect")), true)
		if !g3 {
			// the comparison may be made separately for the main provider's entry and for the others: then every way
			// to the continuation passes one of the two — signer == the advertisement's signer, made under
			// ID == Provider, or signer == the entry's own decoded ID, made under ID != Provider
			adSigner := Extract("0", Call("peer.IDFromPublicKey", Field("PublicKey", Extract("0", Is(c.E(adCons.In.(*ssa.Call)))))))
			ownID := Extract("0", Call("peer.Decode", Field("ID", Any())))
			altMain := Alt{Bin("==", epSigner, adSigner), true}
			altOwn := Alt{Bin("==", epSigner, ownID), true}
			if c.PathsCarryDAG(p, []Alt{altMain, altOwn}) {
				okBranches, nMain, nOwn := true, 0, 0
				for _, blk := range fn.Blocks {
					iff, isIf := blk.Instrs[len(blk.Instrs)-1].(*ssa.If)
					if !isIf {
						continue
					}
					cx, _ := normFact(c.E(iff.Cond), true)
					_, isMain := Match(altMain.Pat, cx)
					_, isOwn := Match(altOwn.Pat, cx)
					if !isMain && !isOwn {
						continue
					}
					_, underMain := c.GuardedB(blk, Bin("==", Field("ID", Any()), Field("Provider", Any())), true)
					_, underOther := c.GuardedB(blk, Bin("==", Field("ID", Any()), Field("Provider", Any())), false)
					if isMain {
						nMain++
						okBranches = okBranches && underMain
					}
					if isOwn {
						nOwn++
						okBranches = okBranches && underOther
					}
				}
				if okBranches && nMain == 1 && nOwn == 1 {
					c.OK("C05.S3-ep-signer-compared", k+" › signer compared", epCons.In.Pos(), "every way to the continuation passes envelope signer == expected signer (compared per branch)")
					c.OK("C05.S3-ep-signer-compared", k+" › expected signer", epCons.In.Pos(), "the advertisement's signer under ID == Provider, the entry's own decoded ID otherwise")
					continue
				}
			}
			c.Bad("C05.S3-ep-signer-compared", k+" › signer compared", epCons.In.Pos(), "the key that signed an extended provider's envelope is never compared with the identity the entry names: any key can sign for any provider")
			continue
		}
		c.OK("C05.S3-ep-signer-compared", k+" › signer compared", epCons.In.Pos(), "continuation dominated by envelope signer == expected signer")
		// expected signer: ad signer for the main provider's entry, the entry's decoded ID otherwise
		exp := b["expect"]
		nMain, nOwn := 0, 0
		okGuard := true
		for _, l := range c.LeavesF(exp, p.Instrs[len(p.Instrs)-1]) {
			s := l.Val
			if _, m := Match(Extract("0", Call("peer.IDFromPublicKey", Field("PublicKey", Extract("0", Is(c.E(adCons.In.(*ssa.Call))))))), s); m {
				nMain++
			} else if _, m := Match(Extract("0", Call("peer.Decode", Field("ID", Any()))), s); m {
				nOwn++
				// the own-ID alternative is taken exactly when p.ID != ad.Provider
				g := false
				for _, f := range l.Facts {
					if _, m := Match(Bin("==", Field("ID", Any()), Field("Provider", Any())), f.Cond); m && !f.Val {
						g = true
					}
				}
				if !g {
					okGuard = false
				}
			} else {
				nMain = -100
			}
		}
		okExp := nMain == 1 && nOwn == 1 && okGuard
		c.Check(okExp, "C05.S3-ep-signer-compared", k+" › expected signer", epCons.In.Pos(),
			"expected signer = the advertisement's signer for the main provider's entry, the entry's own decoded ID otherwise", "the expected signer of an extended-provider entry is not (advertisement signer for the main provider's entry, entry's own ID otherwise): "+abbreviate(exp.String()))
	}
	c.Check(nBack >= 1, "C05.S3-verify-gates", key+" › loop continuation edges", head.Instrs[0].Pos(), "loop over extended providers analysed", "no continuation edge in the extended-provider loop")
	// main provider must be among the extended providers
	okMain := false
	for _, b := range fn.Blocks {
		ret, ok := b.Instrs[len(b.Instrs)-1].(*ssa.Return)
		if !ok || c.RetX(ret, 1).Op == "nil" {
			continue
		}
		notSeen := false
		for _, fct := range c.FactsAt(b) {
			if !fct.Val && c05MainSeenWitness(c, fct.Cond) {
				notSeen = true
			}
			// slices.IndexFunc(providers, isMain) < 0: not found
			if m, isLt := Match(Op("binop", "<", Bind("ix"), Const("0")), fct.Cond); isLt && fct.Val {
				if ix := strip(m["ix"]); ix != nil && ix.Op == "call" && strings.Contains(ix.Name, "slices.IndexFunc") && len(ix.Args) == 2 {
					as := &X{Op: "call", Name: strings.Replace(ix.Name, "slices.IndexFunc", "slices.ContainsFunc", 1), Args: ix.Args, V: ix.V}
					if c05MainSeenWitness(c, as) {
						notSeen = true
					}
				}
			}
		}
		_, some := c.GuardedB(b, Op("binop", ">", Op("builtin", "len", Field("Providers", Any())), Const("0")), true)
		if notSeen && some {
			okMain = true
		}
	}
	c.Check(okMain, "C05.S3-verify-gates", key+" › main provider listed", fn.Pos(), "error when there are extended providers and none is the advertisement's provider", "missing test that the main provider is among the extended providers")
	c.Floor("C05.S3-verify-gates", 8)
	c.Floor("C05.S3-ep-signer-compared", 2)
}

func c05Records(c *Ctx, verify *Fn, adPayFn, epPayFn *ssa.Function) {
	// Domain()/Codec() of the two record types
	type rec struct{ domain, codec string }
	recs := map[string]rec{}
	for _, tn := range []string{"advSignatureRecord", "epSignatureRecord"} {
		d := c.Func(schemaPkg, tn+".Domain")
		k := c.Func(schemaPkg, tn+".Codec")
		if d == nil || k == nil {
			c.Unk("C05.S4-record-types", "ingest/schema."+tn, token.NoPos, "Domain/Codec method not found")
			continue
		}
		r := rec{}
		for _, b := range d.SSA.Blocks {
			if ret, ok := b.Instrs[len(b.Instrs)-1].(*ssa.Return); ok {
				if v := c.RetX(ret, 0); v.Op == "const" {
					r.domain = v.Name
				}
			}
		}
		for _, b := range k.SSA.Blocks {
			if ret, ok := b.Instrs[len(b.Instrs)-1].(*ssa.Return); ok {
				if v := c.RetX(ret, 0); v.Op == "const" {
					r.codec = v.Name
				}
			}
		}
		recs[tn] = r
	}
	a, e := recs["advSignatureRecord"], recs["epSignatureRecord"]
	c.Check(a.domain != "" && a.domain == e.domain && a.codec != "" && e.codec != "" && a.codec != e.codec, "C05.S4-record-types", "ingest/schema › record domains and payload types", token.NoPos,
		"both signature records use domain "+a.domain+" with distinct payload types "+a.codec+" / "+e.codec, "signature records do not have (same domain, distinct payload types): an advertisement signature could be replayed as an extended-provider signature")
	// seal: the advertisement payload goes into an advertisement record, the
	// extended-provider payload into an extended-provider record; consume: the
	// advertisement's signature is read into the former, an entry's into the latter
	for _, f := range c.Funcs(schemaPkg) {
		for _, cs := range c.Calls(f.SSA, Call("record.Seal")) {
			recs := c.Actuals(cs.X.Args[0])
			for _, r := range recs {
				fs := c.CellFields(r)
				tn := r.Name + " " + typeOfX(r)
				key := c.short(topFunc(cs.Fn).String()) + " › seal"
				switch {
				case strings.Contains(tn, "advSignatureRecord"):
					v := fs["advID"]
					ok := v != nil && v.Op == "extract" && v.Args[0].Op == "call" && v.Args[0].Callee == adPayFn
					c.Check(ok, "C05.S4-record-types", key+" advertisement record", cs.In.Pos(), "advertisement record sealed with the advertisement payload", "advertisement signature record is not filled with the advertisement payload")
				case strings.Contains(tn, "epSignatureRecord"):
					v := fs["payload"]
					ok := v != nil && v.Op == "extract" && v.Args[0].Op == "call" && v.Args[0].Callee == epPayFn
					c.Check(ok, "C05.S4-record-types", key+" extended-provider record", cs.In.Pos(), "extended-provider record sealed with the extended-provider payload", "extended-provider signature record is not filled with the extended-provider payload")
				default:
					c.Bad("C05.S4-record-types", key, cs.In.Pos(), "sealed record is neither of the two signature record types: "+abbreviate(r.String()))
				}
			}
		}
		if f.SSA != verify.SSA {
			continue
		}
		// (in the verifier's terms, also when consuming is done by a helper shared by both signature kinds)
		for _, cs := range c.CallsInl(f.SSA, Call("record.ConsumeTypedEnvelope"), 2) {
			r := cs.X.Args[1]
			want := "epSignatureRecord"
			if _, m := Match(Field("Signature", Op("param", "")), cs.X.Args[0]); m {
				want = "advSignatureRecord"
			}
			ok := strings.HasSuffix(r.Name, want) || strings.Contains(r.String(), want)
			c.Check(ok, "C05.S4-record-types", c.short(topFunc(cs.Fn).String())+" › consume "+want, cs.In.Pos(), "record type matches the signature kind", "wrong record type for this signature kind: "+abbreviate(r.String()))
		}
	}
	c.Floor("C05.S4-record-types", 5)
}

// c05MainSeenWitness: x is true exactly when some extended-provider entry is
// the advertisement's own provider — a flag set in the loop on the
// p.ID == ad.Provider edge, or slices.ContainsFunc over the entries with
// that comparison as predicate.
func c05MainSeenWitness(c *Ctx, x *X) bool {
	x = strip(x)
	if x == nil {
		return false
	}
	same := Bin("==", Field("ID", Any()), Field("Provider", Any()))
	if ph, ok := x.V.(*ssa.Phi); ok {
		set := false
		var walk func(ph *ssa.Phi, d int) bool
		walk = func(ph *ssa.Phi, d int) bool {
			for i, e := range ph.Edges {
				switch v := e.(type) {
				case *ssa.Const:
					if v.Value != nil && v.Value.ExactString() == "true" {
						pred := ph.Block().Preds[i]
						okEdge := false
						for _, f := range append(c.FactsAt(pred), edgeFact(c, pred, ph.Block())...) {
							if _, m := Match(same, f.Cond); m && f.Val {
								okEdge = true
							}
							// or the boolean result of a per-entry helper that is true only as that comparison
							if h, _ := helperCall(f.Cond); h != nil && f.Val {
								all, n := true, 0
								for _, l := range c.Leaves(f.Cond, nil) {
									if v, isConst := boolConst(l); isConst && !v {
										continue
									}
									n++
									if _, m := Match(same, l); !m {
										all = false
									}
								}
								if all && n > 0 {
									okEdge = true
								}
							}
						}
						if !okEdge {
							return false // set to true somewhere else
						}
						set = true
					}
				case *ssa.Phi:
					if v != ph && d < 4 && !walk(v, d+1) {
						return false
					}
				default:
					return false
				}
			}
			return true
		}
		return walk(ph, 0) && set
	}
	if x.Op == "call" && strings.Contains(x.Name, "slices.ContainsFunc") && len(x.Args) == 2 {
		if _, m := Match(Field("Providers", Any()), x.Args[0]); !m {
			return false
		}
		pred := funcValueTarget(x.Args[1].V)
		if pred == nil || len(pred.Params) != 1 {
			return false
		}
		ok := false
		for _, b := range pred.Blocks {
			if ret, isRet := b.Instrs[len(b.Instrs)-1].(*ssa.Return); isRet && len(ret.Results) == 1 {
				_, ok = Match(Bin("==", Field("ID", ParamLike()), Field("Provider", Any())), c.RetX(ret, 0))
				if !ok {
					return false
				}
			}
		}
		return ok
	}
	return false
}
