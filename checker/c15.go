package main

import (
	"fmt"
	"go/types"
	"go/token"
	"strings"

	"golang.org/x/tools/go/ssa"
)

func init() {
	register(&propSpec{
		id:  "C15",
		run: runC15,
		explanation: "Structural necessary conditions of 'subscriber shutdown is clean, idempotent and final', decided on SSA of package dagsync: " +
			"(Q1) the shutdown routine runs under sync.Once and performs, in this order on every path: signal closing ≺ set the explicit-sync closed flag under its mutex ≺ wait for explicit syncs ≺ close the receiver ≺ wait for the watcher ≺ wait for announce-triggered syncs ≺ close the event channel; " +
			"(Q2) every function that starts an explicit sync through the per-publisher handler registers in the explicit-sync wait group while holding the mutex, on the closed-flag-false edge, with a deferred Done, before the sync; " +
			"(Q3) every blocking operation in the package (send, receive, blocking select, Wait) fits a tabled class: a select with a clause on the closing channel or a context; a wait whose counterpart's termination is ordered by Q1/Q4; a send that cannot block by construction — anything else is a violation (this is where OnSyncFinished blocking forever after Close, fixed in 4eb7747, was found); " +
			"(Q4) every go statement's target has its termination witness (the watcher leaves its loop when the receiver reports closed and cancels pending syncs on exit; the distributor returns when the event channel is closed; the idle cleaner returns on closing), and every close(ch) runs at most once. " +
			"Deadlock freedom over all interleavings and goroutines of dependencies are not decided.",
		assumptions: []string{"announce.Receiver.Close makes Next return (property C16)", "explicit syncs terminate (they are not cancelled by design)"},
	})
}

// orderedBefore: whenever both execute, a executes before b (acyclic region).
func orderedBefore(a, b ssa.Instruction) bool {
	return a != nil && b != nil && MayFollow(a, b) && !MayFollow(b, a)
}

func findInstr(c *Ctx, fn *ssa.Function, pred func(ssa.Instruction) bool) ssa.Instruction {
	var out ssa.Instruction
	instrs(fn, func(in ssa.Instruction) {
		if out == nil && pred(in) {
			out = in
		}
	})
	return out
}

func isCallTo(c *Ctx, in ssa.Instruction, pat P) bool {
	ci, ok := in.(ssa.CallInstruction)
	if !ok {
		return false
	}
	_, m := Match(pat, c.CallX(ci))
	return m
}

func isRecvFrom(c *Ctx, in ssa.Instruction, field string) bool {
	u, ok := in.(*ssa.UnOp)
	if !ok || u.Op != token.ARROW {
		return false
	}
	x := c.E(u.X)
	return x.Op == "field" && x.Name == field
}

func runC15(c *Ctx) {
	c.Trust("go/ssa", "sync.Once / WaitGroup semantics", "property C16 for the receiver's own shutdown")
	closeFn := c.Func(dagsyncPkg, "Subscriber.Close")
	if closeFn == nil {
		c.Unk("C15.Q1-shutdown-order", "dagsync.(*Subscriber).Close", token.NoPos, "exported Close not found")
		return
	}
	// the shutdown routine: the function that closes the closing channel
	var doClose *ssa.Function
	for _, f := range c.Funcs(dagsyncPkg) {
		for _, cs := range c.Calls(f.SSA, Op("builtin", "close", Field("closing", Any()))) {
			doClose = cs.Fn
		}
	}
	if doClose == nil {
		c.Unk("C15.Q1-shutdown-order", "dagsync › shutdown routine", token.NoPos, "no function closes the closing channel")
		return
	}
	// Once: all call sites of the shutdown routine are inside a closure passed to sync.Once.Do
	nSites := 0
	for _, f := range c.Funcs(dagsyncPkg) {
		instrsDeep(f.SSA, func(g *ssa.Function, in ssa.Instruction) {
			ci, ok := in.(ssa.CallInstruction)
			if !ok || ci.Common().StaticCallee() != doClose {
				return
			}
			nSites++
			once := false
			if p := g.Parent(); p != nil {
				for _, cs := range c.Calls(p, Call("sync.Once).Do")) {
					for _, a := range cs.X.Args {
						if a.Op == "closure" && a.V.(*ssa.MakeClosure).Fn == g {
							once = true
						}
					}
				}
			}
			c.Check(once, "C15.Q1-once", c.short(topFunc(g).String())+" › shutdown call", in.Pos(), "shutdown routine called only inside sync.Once.Do", "shutdown routine can run more than once (double close panics)")
		})
	}
	// Close itself: every return is dominated by the Once.Do call, so that a
	// concurrent second caller waits for the shutdown in progress
	for _, cs := range c.Calls(closeFn.SSA, Call("sync.Once).Do")) {
		if cs.Fn != closeFn.SSA {
			continue
		}
		ok := true
		for _, b := range closeFn.SSA.Blocks {
			if _, isRet := b.Instrs[len(b.Instrs)-1].(*ssa.Return); isRet && b.Comment != "recover" {
				if !(cs.In.Block() == b || cs.In.Block().Dominates(b)) {
					ok = false
				}
			}
		}
		c.Check(ok, "C15.Q1-once", c.short(closeFn.SSA.String())+" › every return after Once.Do", cs.In.Pos(),
			"every return of Close is dominated by closeOnce.Do (which blocks until the first shutdown has completed)", "Close has a return path that bypasses closeOnce.Do: a concurrent caller returns while shutdown is still in progress")
	}
	if doClose == closeFn.SSA {
		c.Unk("C15.Q1-once", "dagsync.(*Subscriber).Close", closeFn.SSA.Pos(), "Close performs the shutdown inline; the once-only idiom is not recognised")
	}
	c.Floor("C15.Q1-once", 2)

	// field names of the explicit-sync accounting are derived from their use, not assumed
	asyncWG, expWG, expFlag, expMu := "asyncWG", "expSyncWG", "expSyncClosed", "expSyncMutex"
	handleFn0 := c15HandleFn(c)
	for _, f := range c.Funcs(dagsyncPkg) {
		isWatcher := len(c.Calls(f.SSA, Call("Swap[announce.Announce]", Any(), Op("alloc", "")))) > 0 || len(c.Calls(f.SSA, Call("announce.Receiver).Next"))) > 0
		callsHandle := handleFn0 != nil && func() bool {
			direct := false
			instrs(f.SSA, func(in ssa.Instruction) {
				if ci, ok := in.(ssa.CallInstruction); ok && ci.Common().StaticCallee() == handleFn0 {
					direct = true
				}
			})
			return direct
		}()
		for _, cs := range c.Calls(f.SSA, Call("sync.WaitGroup).Add")) {
			if cs.Fn != f.SSA {
				continue
			}
			if x := cs.X.Args[0]; x.Op == "field" {
				if isWatcher {
					asyncWG = x.Name
				} else if callsHandle {
					expWG = x.Name
				}
			}
		}
	}
	instrs(doClose, func(in ssa.Instruction) {
		if st, ok := in.(*ssa.Store); ok {
			if cv, isC := st.Val.(*ssa.Const); isC && cv.Value != nil && cv.Value.ExactString() == "true" {
				if a := c.E(st.Addr); a.Op == "field" {
					expFlag = a.Name
				}
			}
		}
		if ci, ok := in.(ssa.CallInstruction); ok {
			if m, ok := Match(Call("sync.Mutex).Lock", Bind("mu")), c.CallX(ci)); ok && m["mu"].Op == "field" {
				expMu = m["mu"].Name
			}
		}
	})
	closeClosing := findInstr(c, doClose, func(in ssa.Instruction) bool {
		return isCallTo(c, in, Op("builtin", "close", Field("closing", Any())))
	})
	setClosed := findInstr(c, doClose, func(in ssa.Instruction) bool {
		st, ok := in.(*ssa.Store)
		if !ok {
			return false
		}
		a := c.E(st.Addr)
		return a.Op == "field" && a.Name == expFlag
	})
	waitExp := findInstr(c, doClose, func(in ssa.Instruction) bool {
		return isCallTo(c, in, Call("sync.WaitGroup).Wait", Field(expWG, Any())))
	})
	rcvClose := findInstr(c, doClose, func(in ssa.Instruction) bool {
		return isCallTo(c, in, Call("announce.Receiver).Close"))
	})
	waitWatch := findInstr(c, doClose, func(in ssa.Instruction) bool { return isRecvFrom(c, in, "watchDone") })
	waitAsync := findInstr(c, doClose, func(in ssa.Instruction) bool {
		return isCallTo(c, in, Call("sync.WaitGroup).Wait", Field(asyncWG, Any())))
	})
	closeEvents := findInstr(c, doClose, func(in ssa.Instruction) bool {
		return isCallTo(c, in, Op("builtin", "close", Field("inEvents", Any())))
	})
	steps := []struct {
		name string
		in   ssa.Instruction
	}{
		{"close(closing)", closeClosing}, {"expSyncClosed = true", setClosed}, {"expSyncWG.Wait", waitExp}, {"receiver.Close", rcvClose},
		{"<-watchDone", waitWatch}, {"asyncWG.Wait", waitAsync}, {"close(inEvents)", closeEvents},
	}
	key0 := c.short(doClose.String())
	for i := 0; i+1 < len(steps); i++ {
		a, b := steps[i], steps[i+1]
		key := key0 + " › " + a.name + " ≺ " + b.name
		if a.in == nil || b.in == nil {
			c.Bad("C15.Q1-shutdown-order", key, doClose.Pos(), "shutdown step missing")
			continue
		}
		c.Check(orderedBefore(a.in, b.in), "C15.Q1-shutdown-order", key, b.in.Pos(), "ordered on every path", "shutdown steps out of order: "+b.name+" can run before "+a.name)
	}
	// unconditional steps dominate the exit
	for _, s := range steps {
		if s.in == nil || s.name == "receiver.Close" || s.name == "<-watchDone" {
			continue
		}
		dom := true
		for _, b := range doClose.Blocks {
			if _, ok := b.Instrs[len(b.Instrs)-1].(*ssa.Return); ok && b.Comment != "recover" {
				if !(s.in.Block() == b || s.in.Block().Dominates(b)) {
					dom = false
				}
			}
		}
		c.Check(dom, "C15.Q1-shutdown-order", key0+" › "+s.name+" on every path", s.in.Pos(), "step executed on every path to the exit", "shutdown step is skipped on some path")
	}
	// the flag is set under its mutex
	if setClosed != nil {
		var lock, unlock ssa.Instruction
		instrs(doClose, func(in ssa.Instruction) {
			if isCallTo(c, in, Call("sync.Mutex).Lock", Field(expMu, Any()))) {
				lock = in
			}
			if isCallTo(c, in, Call("sync.Mutex).Unlock", Field(expMu, Any()))) {
				unlock = in
			}
		})
		c.Check(orderedBefore(lock, setClosed) && orderedBefore(setClosed, unlock), "C15.Q1-shutdown-order", key0+" › flag set under mutex", setClosed.Pos(),
			"closed flag set between Lock and Unlock of its mutex", "closed flag set without holding its mutex: a sync can register after the drain")
	}
	c.Floor("C15.Q1-shutdown-order", 10)

	// ---- Q2 explicit-sync registration --------------------------------------------------------
	handleFn := c15HandleFn(c)
	if handleFn == nil {
		c.Unk("C15.Q2-registration", "dagsync › per-publisher sync routine", token.NoPos, "cannot find the function that invokes Syncer.Sync")
	} else {
		for _, f := range c.Funcs(dagsyncPkg) {
			var hcalls []ssa.Instruction
			instrs(f.SSA, func(in ssa.Instruction) {
				if ci, ok := in.(ssa.CallInstruction); ok && ci.Common().StaticCallee() == handleFn {
					hcalls = append(hcalls, in)
				}
			})
			if len(hcalls) == 0 {
				continue
			}
			// announce-triggered path is accounted for by the async wait group (C08.L2)
			if len(c.Calls(f.SSA, Call("Swap[announce.Announce]"))) > 0 {
				continue
			}
			key := f.Name + " › registration"
			var add, done, lock ssa.Instruction
			doneDeferred := false
			instrs(f.SSA, func(in ssa.Instruction) {
				if isCallTo(c, in, Call("sync.WaitGroup).Add", Field(expWG, Any()))) {
					add = in
				}
				if isCallTo(c, in, Call("sync.WaitGroup).Done", Field(expWG, Any()))) {
					done = in
					_, doneDeferred = in.(*ssa.Defer)
				}
				if isCallTo(c, in, Call("sync.Mutex).Lock", Field(expMu, Any()))) && lock == nil {
					lock = in
				}
			})
			// the admission step may be a helper shared by the entry points: it registers on the closed-flag-false edge
			// under the mutex and reports success (nil) exactly on the paths that registered; the entry point goes on
			// only on that nil edge
			addHost := f.SSA
			var admit *ssa.Call
			if add == nil {
				for _, cs := range c.Calls(f.SSA, Any()) {
					sc := cs.In.Common().StaticCallee()
					call, isCall := cs.In.(*ssa.Call)
					if sc == nil || !isCall || sc.Pkg != f.SSA.Pkg || cs.Fn != f.SSA || len(sc.Blocks) == 0 {
						continue
					}
					var a2, l2 ssa.Instruction
					instrs(sc, func(in ssa.Instruction) {
						if isCallTo(c, in, Call("sync.WaitGroup).Add", Field(expWG, Any()))) {
							a2 = in
						}
						if isCallTo(c, in, Call("sync.Mutex).Lock", Field(expMu, Any()))) && l2 == nil {
							l2 = in
						}
					})
					if a2 == nil {
						continue
					}
					add, lock, addHost, admit = a2, l2, sc, call
				}
			}
			if add == nil {
				c.Bad("C15.Q2-registration", key, f.SSA.Pos(), "explicit sync entry point does not register in the explicit-sync wait group: Close can return while it is running")
				continue
			}
			if admit != nil {
				// nil result ⇔ registered: every nil-returning exit of the helper is dominated by the Add, every other exit is not reached through it
				okNil := true
				for _, b := range addHost.Blocks {
					ret, ok := b.Instrs[len(b.Instrs)-1].(*ssa.Return)
					if !ok || len(ret.Results) == 0 {
						continue
					}
					isNil := c.RetX(ret, len(ret.Results)-1).Op == "nil"
					passes := add.Block() == b || add.Block().Dominates(b)
					if !isNil && passes {
						// a failure after registering is fine when the registration is taken back on the way out
						undone := false
						instrs(addHost, func(o ssa.Instruction) {
							if _, isDefer := o.(*ssa.Defer); !isDefer && isCallTo(c, o, Call("sync.WaitGroup).Done", Field(expWG, Any()))) &&
								Precedes(add, o) && (o.Block() == b || o.Block().Dominates(b)) {
								undone = true
							}
						})
						if undone {
							continue
						}
					}
					if isNil != passes {
						okNil = false
					}
				}
				c.Check(okNil, "C15.Q2-registration", key+" › admission helper reports what it did", admit.Pos(), "the admission helper returns nil exactly on the paths that registered", "the admission helper can return nil without having registered (or an error after registering): the entry point's Done and Close's Wait no longer match")
				for _, h := range hcalls {
					admitErr := Is(c.E(admit))
					if n := addHost.Signature.Results().Len(); n > 1 {
						admitErr = Extract(itoa(n-1), Is(c.E(admit)))
					}
					_, g := c.Guarded(h, EqNil(admitErr), true)
					c.Check(g, "C15.Q2-registration", key+" › sync only when admitted", h.Pos(), "the sync is reached only on the admission helper's nil edge", "the sync can start although admission failed")
				}
			}
			_, flagFalse := c.Guarded(add, Field(expFlag, Any()), false)
			c.Check(flagFalse, "C15.Q2-registration", key+" › closed flag tested", add.Pos(), "Add on the closed-flag-false edge", "registration does not test the closed flag: a sync can start after shutdown drained the group")
			// mutex held at Add: Lock precedes, and no Unlock between Lock and Add on the path (Unlock calls that precede Add must be in blocks not leading to Add)
			held := lock != nil && Precedes(lock, add)
			instrs(addHost, func(in ssa.Instruction) {
				if isCallTo(c, in, Call("sync.Mutex).Unlock", Field(expMu, Any()))) && Precedes(in, add) {
					held = false
				}
			})
			c.Check(held, "C15.Q2-registration", key+" › under mutex", add.Pos(), "Add performed while the mutex that shutdown flips is held", "registration not atomic with the closed-flag test")
			var regPoint ssa.Instruction = add
			if admit != nil {
				regPoint = admit
			}
			c.Check(done != nil && doneDeferred && Precedes(regPoint, done), "C15.Q2-registration", key+" › deferred Done", add.Pos(), "Done deferred right after registration", "wait group not released on every exit (Done not deferred)")
			for _, h := range hcalls {
				c.Check(Precedes(regPoint, h), "C15.Q2-registration", key+" › before sync", h.Pos(), "registration precedes the sync", "sync can start before registration")
			}
		}
	}
	c.Floor("C15.Q2-registration", 8)

	// ---- Q2b announce-triggered syncs: wait group released on every exit of the handling goroutine
	c15AsyncRegistration(c)

	// ---- Q3 blocking operations -----------------------------------------------------------------
	c15Blocking(c, doClose)

	// ---- Q4 goroutines and closes -------------------------------------------------------------------
	c15Goroutines(c)
	for _, f := range c.Funcs(dagsyncPkg) {
		for _, cs := range c.Calls(f.SSA, Op("builtin", "close")) {
			key := c.short(topFunc(cs.Fn).String()) + " › close(" + cs.X.Args[0].String() + ")"
			switch {
			case cs.Fn == doClose:
				c.OK("C15.Q4-close-once", key, cs.In.Pos(), "inside the once-only shutdown routine (Q1)")
			default:
				c15CloseOnce(c, key, cs)
			}
		}
	}
	// (a listener's queue closed through its Close method is the close of its input channel)
	for _, f := range c.Funcs(dagsyncPkg) {
		for _, cs := range c.Calls(f.SSA, CallLike([]string{"chanqueue.ChanQueue[", ").Close["}, Any())) {
			key := c.short(topFunc(cs.Fn).String()) + " › " + cs.X.Args[0].String() + ".Close()"
			if cs.Fn == doClose {
				c.OK("C15.Q4-close-once", key, cs.In.Pos(), "inside the once-only shutdown routine (Q1)")
			} else {
				c15CloseOnce(c, key, cs)
			}
		}
	}
	c.Floor("C15.Q4-close-once", 5)
}

// c15HandleFn: the function of package dagsync that invokes Syncer.Sync.
func c15HandleFn(c *Ctx) *ssa.Function {
	if c.handleFn != nil {
		return c.handleFn
	}
	for _, f := range c.Funcs(dagsyncPkg) {
		if len(c.Calls(f.SSA, Invoke("dagsync.Syncer.Sync"))) > 0 {
			// the per-publisher sync routine is the outermost function the sync call belongs to: a step helper called
			// from one function only is part of that function
			fn := f.SSA
			for d := 0; d < 3; d++ {
				sites, known := c.staticCallSites(fn)
				if !known || len(sites) == 0 {
					break
				}
				var caller *ssa.Function
				one := true
				for _, s := range sites {
					g := topFunc(s.Parent())
					if caller != nil && g != caller {
						one = false
					}
					caller = g
				}
				if !one || caller == nil || caller == fn || (caller.Object() != nil && caller.Object().Exported()) {
					break
				}
				fn = caller
			}
			c.handleFn = fn
			return fn
		}
	}
	return nil
}

func c15Blocking(c *Ctx, doClose *ssa.Function) {
	closing := Field("closing", Any())
	for _, f := range c.Funcs(dagsyncPkg) {
		for _, op := range c.BlockingOps(f.SSA) {
			top := topFunc(op.Fn)
			key := c.short(top.String()) + " › " + op.Kind
			switch op.Kind {
			case "select":
				switch {
				case op.HasCase(false, closing):
					c.OK("C15.Q3-shutdown-alternative", key+" (closing)", op.Pos, "class i: select has a clause on the subscriber's closing channel")
				case op.HasCase(false, ctxDone()):
					c.OK("C15.Q3-shutdown-alternative", key+" (ctx)", op.Pos, "class i: select has a clause on a context that shutdown cancels")
				case op.HasCase(false, Field("inEvents", Any())):
					// the distributor loop: ends when inEvents is closed (Q4 checks the witness)
					c.OK("C15.Q3-shutdown-alternative", key+" (distributor)", op.Pos, "class ii: the owner loop of the event channel; leaves on close(inEvents), see Q4")
				default:
					c.Bad("C15.Q3-shutdown-alternative", key, op.Pos, "blocking select without a clause on closing, a context or the event channel")
				}
			case "send":
				ch := op.Chan
				key += " " + ch.String()
				switch {
				case ch.Op == "field" && ch.Name == "inEvents":
					// senders are finished before close(inEvents): they run inside explicit or announce syncs
					c.OK("C15.Q3-shutdown-alternative", key, op.Pos, "class ii: event send inside a sync; the distributor outlives all syncs by Q1 (both waits precede close(inEvents)); who-may-send is C14.N3")
				case c15IsListenerSend(c, op):
					c.OK("C15.Q3-shutdown-alternative", key, op.Pos, "class iii: send to a listener channel, which is the input side of an unbounded queue (C14.N1)")
				default:
					c.Bad("C15.Q3-shutdown-alternative", key, op.Pos, "bare channel send with no shutdown alternative: blocks forever once its reader is gone")
				}
			case "recv":
				ch := op.Chan
				key += " " + ch.String()
				switch {
				case top == doClose && ch.Op == "field" && ch.Name == "watchDone":
					c.OK("C15.Q3-shutdown-alternative", key, op.Pos, "class ii: awaits the watcher after receiver.Close (Q1); watcher exit is Q4")
				case ch.Op == "field" && ch.Name == "syncSem":
					c.OK("C15.Q3-shutdown-alternative", key, op.Pos, "class iii: semaphore release, never blocks (token was put by this goroutine)")
				default:
					c.Bad("C15.Q3-shutdown-alternative", key, op.Pos, "bare channel receive with no shutdown alternative")
				}
			case "wait":
				if top == doClose {
					c.OK("C15.Q3-shutdown-alternative", key+" "+op.Chan.String(), op.Pos, "class ii: drain inside the shutdown routine; registration discipline is Q2 / C08.L2")
				} else {
					c.Bad("C15.Q3-shutdown-alternative", key, op.Pos, "WaitGroup.Wait outside the shutdown routine")
				}
			}
		}
	}
	c.Floor("C15.Q3-shutdown-alternative", 9)
}

// c15IsListenerSend: send to an element of the distributor's local listener slice.
func c15IsListenerSend(c *Ctx, op BlockOp) bool {
	x := op.Chan
	// (the list may hold the listeners' queues: the send is on In() of the element)
	if m, ok := Match(CallLike([]string{"chanqueue.ChanQueue[", ").In["}, Bind("q")), x); ok {
		x = strip(m["q"])
	}
	// ranging over a local slice: index(phi/slice...) or next(range)
	return x.Op == "index" || x.Op == "extract"
}

func c15Goroutines(c *Ctx) {
	n := 0
	for _, f := range c.Funcs(dagsyncPkg) {
		instrsDeep(f.SSA, func(g *ssa.Function, in ssa.Instruction) {
			goi, ok := in.(*ssa.Go)
			if !ok {
				return
			}
			n++
			var target *ssa.Function
			if mc, ok := goi.Common().Value.(*ssa.MakeClosure); ok {
				target = mc.Fn.(*ssa.Function)
			} else {
				target = goi.Common().StaticCallee()
			}
			key := c.short(topFunc(g).String()) + " › go " + c.short(strings.TrimPrefix(target.String(), "(*dagsync.Subscriber)."))
			// does the target loop forever?
			hasLoop := false
			for _, b := range target.Blocks {
				if ReachableFromSucc(b, b) {
					hasLoop = true
				}
			}
			if !hasLoop {
				c.OK("C15.Q4-goroutine-terminates", key, goi.Pos(), "goroutine body has no loop; its blocking operations are classified by Q3")
				return
			}
			witness := ""
			// (a) receiver.Next error leaves the loop
			for _, cs := range c.Calls(target, Call("announce.Receiver).Next")) {
				if cs.Fn != target {
					continue
				}
				errv := c.Result(cs, 1)
				for _, b := range target.Blocks {
					if _, ok := c.GuardedB(b, EqNil(Is(errv)), false); ok && !ReachableFrom(b)[cs.In.Block()] {
						witness = "leaves its loop when the receiver's Next returns an error (receiver closed)"
					}
				}
				// and cancels pending syncs on exit
				cancelDeferred := false
				instrs(target, func(o ssa.Instruction) {
					if d, ok := o.(*ssa.Defer); ok {
						if x := c.CallX(d); x.Op == "dyncall" && len(x.Args) > 0 {
							if _, ok := Match(Extract("1", Call("context.WithCancel")), x.Args[0]); ok {
								cancelDeferred = true
							}
						}
					}
				})
				if !cancelDeferred {
					// or called explicitly on every path from the WithCancel to a return
					for _, wc := range c.Calls(target, Call("context.WithCancel")) {
						if wc.Fn != target {
							continue
						}
						cancelDeferred, _ = pathsFromPass(wc.In, func(o ssa.Instruction) bool {
							ci, ok := o.(*ssa.Call)
							if !ok {
								return false
							}
							x := c.CallX(ci)
							if x.Op != "dyncall" || len(x.Args) == 0 {
								return false
							}
							_, m := Match(Extract("1", Is(wc.X)), x.Args[0])
							return m
						})
					}
				}
				c.Check(cancelDeferred, "C15.Q4-goroutine-terminates", key+" › cancels pending syncs on exit", goi.Pos(),
					"watcher defers the cancel of the context handed to announce-triggered syncs", "watcher exit does not cancel pending announce-triggered syncs: shutdown waits for them to run to completion")
			}
			// (b) comma-ok false on the event channel returns
			for _, op := range c.BlockingOps(target) {
				if op.Kind != "select" || op.Fn != target {
					continue
				}
				sel := c.E(op.In.(*ssa.Select))
				if i := op.CaseIndex(false, Field("inEvents", Any())); i >= 0 {
					for _, b := range target.Blocks {
						if _, isRet := b.Instrs[len(b.Instrs)-1].(*ssa.Return); !isRet {
							continue
						}
						if _, ok := c.GuardedB(b, Bin("==", Extract("0", Is(sel)), Const(itoa(i))), true); ok {
							witness = "returns when the event channel is closed"
						}
					}
				}
				if i := op.CaseIndex(false, Field("closing", Any())); i >= 0 {
					for _, b := range target.Blocks {
						if _, isRet := b.Instrs[len(b.Instrs)-1].(*ssa.Return); !isRet {
							continue
						}
						if _, ok := c.GuardedB(b, Bin("==", Extract("0", Is(sel)), Const(itoa(i))), true); ok {
							witness = "returns on the closing signal"
						}
					}
				}
			}
			// (b') the same through a step helper: the loop returns when the helper says "stop", and the helper says
			// so (a constant true result) only in the event clause of its select, i.e. when the event channel is closed
			if witness == "" {
				for _, cs := range c.Calls(target, Any()) {
					H := cs.In.Common().StaticCallee()
					call, isCall := cs.In.(*ssa.Call)
					if H == nil || !isCall || cs.Fn != target || H.Pkg != target.Pkg || len(H.Blocks) == 0 {
						continue
					}
					for _, op := range c.BlockingOps(H) {
						if op.Kind != "select" || op.Fn != H {
							continue
						}
						i := op.CaseIndex(false, Field("inEvents", Any()))
						if i < 0 {
							continue
						}
						sel := c.E(op.In.(*ssa.Select))
						for k := 0; k < H.Signature.Results().Len(); k++ {
							if b, ok := H.Signature.Results().At(k).Type().Underlying().(*types.Basic); !ok || b.Kind() != types.Bool {
								continue
							}
							nTrue, okTrue := 0, true
							for _, hb := range H.Blocks {
								ret, isRet := hb.Instrs[len(hb.Instrs)-1].(*ssa.Return)
								if !isRet || len(ret.Results) <= k {
									continue
								}
								v, isConst := boolConst(c.RetX(ret, k))
								if !isConst {
									okTrue = false
									continue
								}
								if v {
									nTrue++
									if _, g := c.GuardedB(hb, Bin("==", Extract("0", Is(sel)), Const(itoa(i))), true); !g {
										okTrue = false
									}
								}
							}
							if nTrue == 0 || !okTrue {
								continue
							}
							for _, tb := range target.Blocks {
								if _, isRet := tb.Instrs[len(tb.Instrs)-1].(*ssa.Return); !isRet {
									continue
								}
								if _, g := c.GuardedB(tb, Extract(itoa(k), Is(c.E(call))), true); g {
									witness = "returns when its step helper reports that the event channel is closed"
								}
							}
						}
					}
				}
			}
			c.Check(witness != "", "C15.Q4-goroutine-terminates", key, goi.Pos(), witness, "looping goroutine has no recognised exit on shutdown")
		})
	}
	c.Floor("C15.Q4-goroutine-terminates", 4)
	// the watcher's exit depends on the receiver's Close waking Next: see receiverCloseSignals
	receiverCloseSignals(c, "C15.Q4-receiver-close-wakes-next")
	closeReleasesWhatWasCreated(c, "C15.Q4-receiver-releases-what-it-created")
	// the receiver's Close (which Subscriber.Close waits for) holds the receiver's mutex over no wait: the watcher it
	// waits for needs that mutex to get out of the announcement it is handling
	{
		rlocks := c.LockPairing("C15.Q5-receiver-lock-pairing", "announce", nil)
		c.NoBlockingWhileHolding("C15.Q5-receiver-no-wait-under-mutex", "announce", rlocks, []string{"announceMutex"})
		c.Floor("C15.Q5-receiver-no-wait-under-mutex", 1)
	}
	// a timer callback that re-arms its own timer looks at the shutdown signal after doing so: Stop (from Close) does
	// not reach a callback that is already running, and an unconditional Reset in it brings the timer back to life
	// after Close has returned — the callback then keeps firing for good
	{
		nCb, nReset := 0, 0
		for _, f := range c.Funcs(dagsyncPkg) {
			for _, cs := range c.Calls(f.SSA, Call("time.AfterFunc")) {
				if len(cs.X.Args) != 2 || cs.X.Args[1].V == nil {
					continue
				}
				cb := funcValueTarget(cs.X.Args[1].V)
				if cb == nil || len(cb.Blocks) == 0 {
					continue
				}
				nCb++
				for _, rs := range c.Calls(cb, Call("time.Timer).Reset")) {
					if rs.Fn != cb {
						continue
					}
					nReset++
					ok, path := pathsFromPass(rs.In, func(in ssa.Instruction) bool {
						switch v := in.(type) {
						case *ssa.Select:
							for _, st := range v.States {
								if x := c.E(st.Chan); st.Dir == types.RecvOnly && x.Op == "field" && x.Name == "closing" {
									return true
								}
							}
						case *ssa.UnOp:
							if x := c.E(v.X); v.Op == token.ARROW && x.Op == "field" && x.Name == "closing" {
								return true
							}
						}
						return false
					})
					c.Check(ok, "C15.Q4-goroutine-terminates", c.short(cb.String())+" › re-armed timer checks for shutdown", rs.In.Pos(), "after Reset the callback tests the closing signal (and stops the timer)", "the timer callback re-arms its timer and returns without looking at the shutdown signal ("+path+"): a callback running while Close stops the timer revives it, and it keeps firing after Close has returned")
				}
			}
		}
		if nReset == 0 {
			c.OK("C15.Q4-goroutine-terminates", "dagsync › timer callbacks", token.NoPos, fmt.Sprint(nCb)+" time.AfterFunc callbacks, none re-arms its own timer")
		}
	}
	c.Floor("C15.Q4-receiver-releases-what-it-created", 2)
	c.Floor("C15.Q4-receiver-close-wakes-next", 1)
}

func c15CloseOnce(c *Ctx, key string, cs CallSite) {
	fn := cs.Fn
	arg := cs.X.Args[0]
	// deferred close in a goroutine body started exactly once (constructor)
	if _, isDefer := cs.In.(*ssa.Defer); isDefer {
		sites := 0
		for _, f := range c.Funcs(dagsyncPkg) {
			instrsDeep(f.SSA, func(g *ssa.Function, in ssa.Instruction) {
				if ci, ok := in.(ssa.CallInstruction); ok && ci.Common().StaticCallee() == fn {
					sites++
					if ReachableFromSucc(in.Block(), in.Block()) {
						sites += 100
					}
				}
			})
		}
		c.Check(sites == 1, "C15.Q4-close-once", key, cs.In.Pos(), "deferred close in a function with a single non-loop call site", "channel may be closed more than once")
		return
	}
	// listener channels in the distributor: closed either when leaving for good, or after removal from the list
	blk := cs.In.Block()
	// (a) on the path to return without going round the loop again
	if !ReachableFromSucc(blk, blk) || returnsWithoutLoop(blk) {
		c.OK("C15.Q4-close-once", key, cs.In.Pos(), "closed while leaving the function for good")
		return
	}
	// (b) removal: guarded by equality with the removed channel (or by a successful search for it)
	//     and preceded in the block by the slice shrink
	_, byEq := c.Guarded(cs.In, Bin("==", Any(), Is(arg)), true)
	_, byIdx := c.Guarded(cs.In, Bin("==", CallLike([]string{"slices.Index"}, Any(), Is(arg)), Const("-1")), false)
	if !byIdx {
		_, byIdx = c.Guarded(cs.In, Op("binop", ">=", CallLike([]string{"slices.Index"}, Any(), Is(arg)), Const("0")), true)
	}
	if byEq || byIdx {
		shrunk := false
		for _, in := range blk.Instrs {
			if in == cs.In {
				break
			}
			if _, ok := in.(*ssa.Slice); ok {
				shrunk = true
			}
		}
		c.Check(shrunk, "C15.Q4-close-once", key, cs.In.Pos(), "closed after being removed from the listener list", "channel closed while still in the listener list: closed again at shutdown")
		return
	}
	c.Bad("C15.Q4-close-once", key, cs.In.Pos(), "close may execute more than once")
}

// returnsWithoutLoop: from blk every path reaches a return without re-entering blk, via a loop that only closes (range over listeners).
func returnsWithoutLoop(blk *ssa.BasicBlock) bool {
	// the close sits in a range loop whose exit leads to a return and which is entered only on the channel-closed edge
	for _, b := range blk.Parent().Blocks {
		if _, ok := b.Instrs[len(b.Instrs)-1].(*ssa.Return); ok && ReachableFrom(blk)[b] {
			// no path from blk back to the function's outer loop head (block with the Select)
			for _, o := range blk.Parent().Blocks {
				for _, in := range o.Instrs {
					if _, isSel := in.(*ssa.Select); isSel && ReachableFrom(blk)[o] {
						return false
					}
				}
			}
			return true
		}
	}
	return false
}

// c15AsyncRegistration: every goroutine started after asyncWG.Add releases the group on every exit.
func c15AsyncRegistration(c *Ctx) {
	for _, f := range c.Funcs(dagsyncPkg) {
		instrs(f.SSA, func(in ssa.Instruction) {
			goi, ok := in.(*ssa.Go)
			if !ok {
				return
			}
			var add ssa.Instruction
			instrs(f.SSA, func(o ssa.Instruction) {
				if isCallTo(c, o, Call("sync.WaitGroup).Add", FieldT("sync.WaitGroup", Any()))) && Precedes(o, goi) {
					add = o
				}
			})
			if add == nil {
				return
			}
			var g *ssa.Function
			if mc, ok := goi.Common().Value.(*ssa.MakeClosure); ok {
				g = mc.Fn.(*ssa.Function)
			} else {
				g = goi.Common().StaticCallee()
			}
			if g == nil || len(g.Blocks) == 0 {
				c.Unk("C15.Q2b-async-registration", f.Name+" › go", goi.Pos(), "registered goroutine's body cannot be resolved; cannot check its exits")
				return
			}
			var done ssa.Instruction
			deferred := false
			instrs(g, func(o ssa.Instruction) {
				if isCallTo(c, o, Call("sync.WaitGroup).Done", FieldT("sync.WaitGroup", Any()))) {
					done = o
					_, deferred = o.(*ssa.Defer)
				}
			})
			ok = done != nil && deferred
			if done != nil && !deferred {
				// every path from the entry to a return passes a Done call (one call dominating the exits, or one per exit)
				ok, _ = allPathsPass(g, func(o ssa.Instruction) bool {
					_, isDefer := o.(*ssa.Defer)
					return !isDefer && isCallTo(c, o, Call("sync.WaitGroup).Done", FieldT("sync.WaitGroup", Any())))
				})
			}
			c.Check(ok, "C15.Q2b-async-registration", f.Name+" › registered goroutine releases asyncWG", goi.Pos(),
				"asyncWG.Done is executed on every exit of the goroutine registered with asyncWG.Add", "an exit of the registered goroutine skips asyncWG.Done: Close waits forever")
		})
	}
	c.Floor("C15.Q2b-async-registration", 1)
	// Close waits for running syncs, a sync waits for the distributor to take its event, and the distributor hands each
	// event to every listener: a listener that is not being read must never block it, i.e. listener queues are unbounded
	// a token given back that was never taken hangs the real holder's release, and with it asyncWG.Done and Close:
	// the mutexes and the sync-slot semaphore of the package are paired on every path
	c.LockPairing("C15.Q5-lock-pairing", dagsyncPkg, []string{"Subscriber.syncSem"})
	c.Floor("C15.Q5-lock-pairing", 8)
	// a sync that is running when Close begins is allowed to finish: the per-publisher sync routine (and what it calls)
	// never looks at the shutdown signal
	if h := c15HandleFn(c); h != nil {
		fns := map[*ssa.Function]bool{h: true}
		for _, st := range c.CallsInl(h, Any(), 2) {
			if callee := st.In.Common().StaticCallee(); callee != nil && samePkgBody(h, callee) {
				fns[callee] = true
			}
		}
		bad := ""
		for fn := range fns {
			instrsDeep(fn, func(g *ssa.Function, in ssa.Instruction) {
				var chans []ssa.Value
				switch in := in.(type) {
				case *ssa.Select:
					for _, st := range in.States {
						chans = append(chans, st.Chan)
					}
				case *ssa.UnOp:
					if in.Op == token.ARROW {
						chans = append(chans, in.X)
					}
				}
				for _, ch := range chans {
					if x := strip(c.E(ch)); x.Op == "field" && (x.Name == "closing") && fieldOwner(x) == "Subscriber" {
						bad = c.short(topFunc(g).String()) + " at " + c.pos(in.Pos())
					}
				}
			})
		}
		c.Check(bad == "", "C15.Q6-running-syncs-finish", c.short(h.String())+" › ignores the shutdown signal", h.Pos(), "the sync routine never receives from the closing channel", "the sync routine consults the shutdown signal ("+bad+"): an explicit sync that is running when Close begins is aborted instead of being waited for")
	} else {
		c.Unk("C15.Q6-running-syncs-finish", "dagsync › per-publisher sync routine", token.NoPos, "not found")
	}
	c.Floor("C15.Q6-running-syncs-finish", 1)
	listenerQueuesUnbounded(c, "C15.Q3-distributor-never-blocks-on-listener")
	c.Floor("C15.Q3-distributor-never-blocks-on-listener", 2)
}
