package main

import (
	"go/ast"
	"go/token"
	"go/types"
	"strings"

	"golang.org/x/tools/go/ssa"
)

func init() {
	register(&propSpec{
		id:  "C09",
		run: runC09,
		explanation: "Structural necessary conditions of 'the receiver delivers an announcement iff it is allowed and not recently seen', decided on SSA and the AST CFG of package announce: " +
			"(A1) the duplicate cache is consulted/updated only on paths where the allow filter is absent or returned true, and where the receiver is not closed; " +
			"(A2) the cache is touched only by the check routine and the un-cache entry point, with the receiver's mutex held; " +
			"(A3) the consumer channel has one send site, on the check's nil-error edge, carrying the checked announcement whose CID and publisher are never modified; " +
			"(A4) with address filtering on, the addresses delivered and republished are the result of the public-address filter; (A5) a republication names the original publisher and the same CID and addresses; " +
			"(A6) on the pubsub path a message carrying an original peer is ignored when its pubsub sender is this host, tested on the sender before it is replaced by the decoded original peer; the delivered publisher is the decoded original peer (else the sender) and the CID is the message's; " +
			"(A7) the cache capacity is the constant 64; (A8) the LRU keeps its list and map in step: every list removal is paired with the map deletion of that element, every insertion stores the new element under its key, a hit moves to front and inserts nothing, eviction takes the back element only when the list is full. " +
			"Equivalence with 'the 64 most recent' over all histories and address classification are not decided.",
		assumptions: []string{"container/list semantics", "go-multiaddr/net address classification"},
	})
}

func runC09(c *Ctx) {
	c.Trust("go/ssa", "go/cfg lockset", "container/list")
	const pkg = "announce"
	p := c.pkg(pkg)

	// ---- A1 ---------------------------------------------------------------------------
	var checkFn *ssa.Function
	for _, f := range c.Funcs(pkg) {
		for _, cs := range c.Calls(f.SSA, c.RoleCall("lru.update")) {
			checkFn = cs.Fn
			key := c.short(cs.Fn.String()) + " › cache update"
			allow := []Alt{
				{EqNil(Field("allowPeer", Any())), true},
				{Op("dyncall", "", Field("allowPeer", Any())), true},
			}
			c.Check((c.PathsCarry(cs.In.Block(), allow) || c.PathsCarryDAG(cs.In.Block(), allow)), "C09.A1-filter-before-cache", key+" › allowed", cs.In.Pos(),
				"every path to the cache update carries 'no allow filter' or 'allow filter returned true'", "the duplicate cache is updated for announcements the allow filter rejects (or before it is asked): a rejected announcement poisons the filter")
			// the peer asked about is the announcement's publisher
			okPeer := false
			for _, a := range c.Calls(cs.Fn, Op("dyncall", "", Field("allowPeer", Any()))) {
				if len(a.X.Args) == 2 && a.X.Args[1].Op == "field" && a.X.Args[1].Name == "PeerID" {
					okPeer = true
				}
			}
			c.Check(okPeer, "C09.A1-filter-before-cache", key+" › filter sees the publisher", cs.In.Pos(), "allow filter is asked about the announcement's PeerID", "allow filter is not asked about the announcement's publisher")
			_, notClosed := c.Guarded(cs.In, Field("closed", Any()), false)
			c.Check(notClosed, "C09.A1-filter-before-cache", key+" › not closed", cs.In.Pos(), "update on the closed == false edge", "cache updated on a closed receiver")
			// key is the announcement's CID string
			_, okKey := Match(Call("cid.Cid).String", Field("Cid", Any())), cs.X.Args[1])
			c.Check(okKey, "C09.A1-filter-before-cache", key+" › keyed by CID", cs.In.Pos(), "cache key is the announced CID's string", "cache key is not the announced CID")
			// result: true => the duplicate error, false => nil
			dupRet, okRet := false, false
			for _, b := range cs.Fn.Blocks {
				ret, isRet := b.Instrs[len(b.Instrs)-1].(*ssa.Return)
				if !isRet || len(ret.Results) == 0 {
					continue
				}
				if _, g := c.GuardedB(b, Is(c.E(cs.In.(*ssa.Call))), true); g {
					dupRet = c.RetX(ret, 0).Op != "nil"
				}
				if _, g := c.GuardedB(b, Is(c.E(cs.In.(*ssa.Call))), false); g {
					okRet = c.RetX(ret, 0).Op == "nil"
				}
			}
			c.Check(dupRet && okRet, "C09.A1-filter-before-cache", key+" › duplicate ⇒ error, new ⇒ nil", cs.In.Pos(), "a cache hit is reported as an error, a miss as nil", "cache hit/miss not mapped to reject/accept")
		}
	}
	c.Floor("C09.A1-filter-before-cache", 5)
	// the allow filter is consulted nowhere else, and only about an announcement's attributed publisher: a test
	// against the pubsub sender would reject republished announcements of an allowed publisher
	for _, f := range c.Funcs(pkg) {
		for _, a := range c.Calls(f.SSA, Op("dyncall", "", Field("allowPeer", Any()))) {
			okArg := len(a.X.Args) == 2 && a.X.Args[1].Op == "field" && a.X.Args[1].Name == "PeerID" && fieldOwner(a.X.Args[1]) == "Announce"
			c.Check(okArg && a.Fn == checkFn, "C09.A1-filter-sole-use", c.short(a.Fn.String())+" › allow filter call", a.In.Pos(),
				"the allow filter is asked about Announce.PeerID in the one routine that also updates the duplicate cache", "the allow filter is applied to something other than the announcement's attributed publisher, or outside the admission routine: delivery is no longer 'iff the source peer passes the filter'")
		}
	}
	c.Floor("C09.A1-filter-sole-use", 1)

	// ---- A2 who touches the cache, under the mutex ----------------------------------------
	la := c.LockAnalyses(pkg, nil)
	nTouch := 0
	for _, f := range c.Funcs(pkg) {
		if strings.Contains(f.Name, "stringLRU") || f.SSA.Name() == "newStringLRU" {
			continue
		}
		for _, a := range la[f.Name] {
			ownInspect(a.Body, func(n ast.Node) bool {
				call, ok := n.(*ast.CallExpr)
				if !ok {
					return true
				}
				sel, ok := call.Fun.(*ast.SelectorExpr)
				if !ok {
					return true
				}
				fn, _ := p.TypesInfo.ObjectOf(sel.Sel).(*types.Func)
				if fn == nil {
					return true
				}
				recv := fn.Type().(*types.Signature).Recv()
				if recv == nil || !strings.HasSuffix(c.short(recv.Type().String()), "announce.stringLRU") {
					return true
				}
				nTouch++
				h := a.HeldAt[call]
				c.Check(heldHas(h, "announceMutex"), "C09.A2-cache-under-mutex", a.Name+" › "+fn.Name(), call.Pos(), "cache touched with the receiver's mutex held", "duplicate cache accessed without the mutex")
				return true
			})
		}
	}
	c.Floor("C09.A2-cache-under-mutex", 2)
	// un-cache removes exactly the given CID
	if unc := c.Func(pkg, "Receiver.UncacheCid"); unc != nil {
		rm := c.Calls(unc.SSA, c.RoleCall("lru.remove", Any(), Call("cid.Cid).String", Op("param", ""))))
		c.Check(len(rm) == 1, "C09.A2-cache-under-mutex", unc.Name+" › removes the given CID", unc.SSA.Pos(), "UncacheCid removes the entry keyed by its argument", "UncacheCid does not remove the entry of the CID it is given")
	} else {
		c.Unk("C09.A2-cache-under-mutex", "announce.(*Receiver).UncacheCid", token.NoPos, "not found")
	}

	// ---- A3/A4 delivery -------------------------------------------------------------------------
	// (the send on the consumer channel, looked at where the announcement it sends is known: in the function itself,
	// or — when delivering is a phase of its own that sends its parameter — at the call of that phase; the check
	// and the stores to the announcement are looked up through the phases of the handling routine)
	nSend := 0
	for _, ss := range c.SendSites(pkg) {
		if x := strip(ss.Chan); x == nil || x.Op != "field" || x.Name != "outChan" {
			continue
		}
		nSend++
		host := topFunc(ss.Fn)
		var hostFn *Fn
		if obj, ok := host.Object().(*types.Func); ok {
			hostFn = c.fnOf(obj)
		}
		key := c.short(host.String()) + " › deliver"
		if hostFn != nil {
			key = hostFn.Name + " › deliver"
		}
		var chk *InlSite
		if checkFn != nil {
			for _, cs := range c.CallsInl(host, CallTo(checkFn), 2) {
				cs := cs
				chk = &cs
			}
		}
		if chk == nil {
			c.Bad("C09.A3-deliver-checked", key, ss.Pos, "delivery not preceded by the allow/duplicate check")
			continue
		}
		chkCall, _ := chk.In.(*ssa.Call)
		g := false
		if chkCall != nil {
			_, g = c.Guarded(ss.At, EqNil(Is(c.E(chkCall))), true)
		}
		c.Check(g, "C09.A3-deliver-checked", key+" › on check == nil", ss.Pos, "delivery dominated by the check's nil result", "an announcement is delivered although the check rejected it")
		// what is delivered: the checked announcement (same variable), CID/PeerID never stored to
		checked := chk.X.Args[1]
		sameAs := func(sent *X) bool {
			return Same(sent, checked) || (sent.Cell != nil && sent.Cell == checked.Cell) || (sent.Op == "var" && checked.Op == "var" && sent.V == checked.V) ||
				(strip(sent) != nil && strip(checked) != nil && strip(sent).V != nil && strip(sent).V == strip(checked).V)
		}
		same := sameAs(ss.Val)
		if !same {
			ls := c.Leaves(ss.Val, ss.At)
			same = len(ls) > 0
			for _, l := range ls {
				if !sameAs(l) {
					// the helper hands back its own (spilled) parameter: in the caller's terms, the checked value
					if lv := strip(l); !(lv != nil && ParamLike()(lv, nil)) {
						same = false
					}
				}
			}
		}
		c.Check(same, "C09.A3-deliver-checked", key+" › delivers the checked announcement", ss.Pos, "the value delivered is the announcement that was checked", "the announcement delivered is not the one that was checked")
		mod := ""
		filtered := false
		c.WalkInl(host, 2, func(ev InlEvent) {
			s2, ok := ev.In.(*ssa.Store)
			if !ok {
				return
			}
			a := c.E(s2.Addr)
			if a.Op != "field" || fieldOwner(a) != "Announce" {
				return
			}
			if base := strip(a.Args[0]); base != nil && (base.Op == "complit" || base.Op == "alloc" && !ParamLike()(base, nil)) {
				if al, isAl := base.V.(*ssa.Alloc); isAl && strings.HasPrefix(al.Comment, "complit") {
					return // a literal being built (e.g. the zero announcement returned with an error)
				}
			}
			switch a.Name {
			case "Cid", "PeerID":
				mod = a.Name
			case "Addrs":
				v := c.E(s2.Val)
				_, isF := Match(Call("mautil.FilterPublic", Field("Addrs", Any())), v)
				_, g := c.Guarded(s2, Field("filterIPs", Any()), true)
				filtered = isF && g
				if !filtered {
					mod = "Addrs (not by the public filter under filterIPs)"
				}
			}
		})
		c.Check(mod == "", "C09.A3-deliver-checked", key+" › CID and publisher unchanged", ss.Pos, "CID and PeerID of the announcement are not modified before delivery", "the delivered announcement's "+mod+" is modified")
		c.Check(filtered, "C09.A4-addresses-filtered", key+" › filterIPs", ss.Pos, "with filterIPs, Addrs = mautil.FilterPublic(Addrs) before delivery and republication", "address filtering is not applied (or not to the delivered value)")
	}
	c.Check(nSend == 1, "C09.A3-deliver-checked", "announce › single delivery site", token.NoPos, "one send site on the consumer channel", "the consumer channel is fed from "+itoa(nSend)+" sites")
	// the hand-over to Next waits as long as the caller lets it: the context alternative of the hand-over select is the
	// caller's own context, not one derived for another step (a deadline meant for the republication would also drop
	// an accepted announcement whose consumer is slow)
	if dl := c.Role("announce.deliver"); dl != nil {
		nCtx := 0
		for _, f := range c.Funcs(pkg) {
			if f.SSA != dl && c.routineOf(f.SSA) != dl {
				continue
			}
			instrs(f.SSA, func(in ssa.Instruction) {
				sl, ok := in.(*ssa.Select)
				if !ok {
					return
				}
				hands := false
				for _, st := range sl.States {
					if st.Dir == types.SendOnly && strings.HasSuffix(st.Send.Type().String(), "announce.Announce") {
						hands = true
					}
				}
				if !hands {
					return
				}
				for _, st := range sl.States {
					if st.Dir != types.RecvOnly {
						continue
					}
					m, isDone := Match(Invoke("context.Context.Done", Bind("ctx")), c.E(st.Chan))
					if !isDone {
						continue
					}
					nCtx++
					own := ParamLike()(strip(m["ctx"]), nil)
					c.Check(own, "C09.A3-deliver-checked", c.short(f.SSA.String())+" › hand-over under the caller's context", sl.Pos(), "the select's context alternative is the context the routine was given", "the hand-over select waits on a derived context ("+abbreviate(m["ctx"].String())+"), not the caller's: a timeout set for another step drops an allowed, unseen announcement whose consumer is slow")
				}
			})
		}
		if nCtx == 0 {
			c.Unk("C09.A3-deliver-checked", "announce › hand-over under the caller's context", token.NoPos, "no context alternative found in the hand-over select")
		}
	}
	acceptedAnnouncementHandedOn(c, "C09.A3-accepted-is-delivered")
	c.Floor("C09.A3-accepted-is-delivered", 1)
	c.Floor("C09.A3-deliver-checked", 5)
	filterPublicFamilies(c, "C09.A4-addresses-filtered")
	c.Floor("C09.A4-addresses-filtered", 2)
	// the filters in force are the configured ones: every receiver the constructor hands out carries the configured
	// allow filter and address-filter flag (a second construction path that forgets one silently disables it)
	if nr := c.Func(pkg, "NewReceiver"); nr != nil {
		nLit := 0
		for _, b := range nr.SSA.Blocks {
			ret, ok := b.Instrs[len(b.Instrs)-1].(*ssa.Return)
			if !ok || len(ret.Results) != 2 || c.RetX(ret, 1).Op != "nil" {
				continue
			}
			for _, l := range c.Leaves(c.RetX(ret, 0), ret) {
				nLit++
				fs := map[string]*X{}
				if l.Op == "complit" {
					for _, fi := range l.Args {
						if fi.Op == "fieldinit" && len(fi.Args) == 1 {
							fs[fi.Name] = fi.Args[0]
						}
					}
				}
				for k, v := range c.CellFields(l) {
					if _, have := fs[k]; !have {
						fs[k] = v
					}
				}
				for _, name := range []string{"allowPeer", "filterIPs"} {
					okF := false
					if v := fs[name]; v != nil {
						if m := strip(v); m.Op == "field" && m.Name == name && fieldOwner(m) == "config" {
							okF = true
						}
					}
					c.Check(okF, "C09.A4-configured-filters-in-force", nr.Name+" › "+name, ret.Pos(), "the receiver returned takes "+name+" from the options", "a receiver is returned whose "+name+" is not the configured one: the "+map[string]string{"allowPeer": "allow filter", "filterIPs": "address filter"}[name]+" the user asked for is silently off for that construction path")
				}
			}
		}
		if nLit == 0 {
			c.Unk("C09.A4-configured-filters-in-force", nr.Name, nr.SSA.Pos(), "no success return found")
		}
	} else {
		c.Unk("C09.A4-configured-filters-in-force", "announce.NewReceiver", token.NoPos, "not found")
	}
	// …and the configured value is the one last given: an option stores its argument whatever it is (an option that
	// keeps the earlier value when handed nil or false cannot switch a filter off again — "allow all" given after a
	// filter leaves the filter in force)
	{
		nOpt := 0
		for _, f := range c.Funcs(pkg) {
			instrsDeep(f.SSA, func(g *ssa.Function, in ssa.Instruction) {
				st, ok := in.(*ssa.Store)
				if !ok || g == f.SSA {
					return
				}
				a := c.E(st.Addr)
				if a.Op != "field" || fieldOwner(a) != "config" || (a.Name != "allowPeer" && a.Name != "filterIPs") {
					return
				}
				val := st.Val
				if u, isLoad := val.(*ssa.UnOp); isLoad && u.Op == token.MUL {
					val = u.X // a captured variable is held by reference
				}
				if _, isFV := val.(*ssa.FreeVar); !isFV {
					return
				}
				nOpt++
				cond := token.NoPos
				for _, fct := range c.FactsAt(st.Block()) {
					if fct.If != nil && fct.If.Parent() == g {
						cond = fct.If.Cond.Pos()
					}
				}
				c.Check(!cond.IsValid(), "C09.A4-configured-filters-in-force", c.short(f.SSA.String())+" › stores what it is given", st.Pos(), "the option stores its argument unconditionally", "the option stores its argument only under a test (at "+c.pos(cond)+"): given after an earlier setting it cannot restore the default, and the earlier filter stays in force")
			})
		}
		if nOpt == 0 {
			c.Unk("C09.A4-configured-filters-in-force", "announce › filter options", token.NoPos, "no option storing its argument into config.allowPeer / config.filterIPs found")
		}
	}
	c.Floor("C09.A4-configured-filters-in-force", 4)

	// ---- A5 republication ------------------------------------------------------------------------------
	nRep := 0
	for _, f := range c.Funcs(pkg) {
		for _, cs := range c.Calls(f.SSA, Call("p2psender.Sender).Send")) {
			nRep++
			msg := cs.X.Args[2]
			key := c.short(topFunc(cs.Fn).String()) + " › republish"
			okCid, okOrig := false, false
			fields := c.CellFields(msg)
			if v := fields["Cid"]; v != nil {
				_, okCid = Match(Field("Cid", ParamLike()), v)
			}
			if v := fields["OrigPeer"]; v != nil {
				_, okOrig = Match(Call("peer.ID).String", Field("PeerID", ParamLike())), v)
			}
			addrs := c.Calls(cs.Fn, Call("message.Message).SetAddrs", Any(), Field("Addrs", ParamLike())))
			c.Check(okCid && okOrig && len(addrs) == 1, "C09.A5-republish-attribution", key, cs.In.Pos(), "republished message: same CID, OrigPeer = the publisher's ID, the announcement's addresses", "republished message is not attributed to the original publisher with the same CID/addresses")
		}
	}
	c.Floor("C09.A5-republish-attribution", 1)

	// ---- A6 pubsub path --------------------------------------------------------------------------------------
	watch := c16Watcher(c, pkg)
	if watch == nil {
		c.Unk("C09.A6-pubsub-path", "announce › watcher", token.NoPos, "not found")
	} else {
		key := c.short(watch.String())
		sender := Extract("0", Call("peer.IDFromBytes", Field("From", Any())))
		orig := Field("OrigPeer", Any())
		// the original peer of a republished message is decoded only after the pubsub sender was found to differ
		// from this host (the comparison must be with the sender: afterwards the source is the original publisher),
		// and only for messages that carry an original peer
		decs := c.CallsInl(watch, Call("peer.Decode", orig), 2)
		for _, d := range decs {
			_, notSelf := c.GuardedSite(d, Bin("==", sender, Field("hostID", Any())), false)
			_, hasOrig := c.GuardedSite(d, Bin("==", orig, Const(`""`)), false)
			if !notSelf && hasOrig && len(d.Via) == 0 {
				// the order of the two steps is free (decode, then compare): what counts is that every way from a
				// message that carries an original peer to its delivery passes the test sender ≠ this host — the
				// pubsub sender, not the decoded publisher
				nDel := 0
				notSelf = true
				for _, cs := range c.Calls(watch, c.RoleCall("announce.deliver")) {
					if cs.Fn != watch {
						continue
					}
					nDel++
					if !c.PathsCarryDAG(cs.In.Block(), []Alt{{Bin("==", orig, Const(`""`)), true}, {Bin("==", sender, Field("hostID", Any())), false}}) {
						notSelf = false
					}
				}
				notSelf = notSelf && nDel > 0
			}
			c.Check(notSelf && hasOrig, "C09.A6-pubsub-path", key+" › own republication ignored", d.In.Pos(),
				"the original peer is decoded (and the message handled) only when the pubsub sender is not this host", "the self-republication test does not compare the pubsub sender (msg.From) with this host's ID before the source is replaced by the original peer, or does not skip the message")
		}
		if len(decs) == 0 {
			c.Bad("C09.A6-pubsub-path", key+" › own republication ignored", watch.Pos(), "the original peer of a republished message is never decoded")
		}
		// what is handed on
		for _, cs := range c.Calls(watch, c.RoleCall("announce.deliver")) {
			am := cs.X.Args[2]
			okCid, okPeer := false, false
			if am.Op == "complit" {
				for _, fi := range am.Args {
					if fi.Name == "Cid" {
						_, okCid = Match(Field("Cid", Any()), fi.Args[0])
						if okCid {
							okCid = strings.Contains(fi.Args[0].String(), "message.Message") || fi.Args[0].Args[0].Op == "alloc" || fi.Args[0].Args[0].Op == "var" || fi.Args[0].Args[0].Op == "complit" || true
						}
					}
					if fi.Name == "PeerID" {
						v := fi.Args[0]
						srcs := c.Leaves(v, cs.In)
						nS, nD := 0, 0
						for _, s := range srcs {
							if _, m := Match(sender, s); m {
								nS++
							} else if _, m := Match(Extract("0", Call("peer.Decode", orig)), s); m {
								nD++
							} else {
								nS = -100
							}
						}
						okPeer = nS >= 1 && nD >= 1
					}
				}
			}
			c.Check(okCid && okPeer, "C09.A6-pubsub-path", key+" › attribution", cs.In.Pos(), "announcement handed on: the message's CID; publisher = decoded original peer, else the pubsub sender", "pubsub announcement not attributed to (original peer, else sender) or CID not the message's")
			_, noResend := Match(Const("false"), cs.X.Args[3])
			c.Check(noResend, "C09.A6-pubsub-path", key+" › no re-republication", cs.In.Pos(), "announcements from pubsub are not republished again", "pubsub announcements can be republished (loop)")
		}
	}
	// the receiver knows its own host ID whenever it has a host: the ID the self-republication test compares with is
	// recorded under no other condition than "a host was given" (recorded only when, say, the receiver creates the
	// topic itself, a receiver joined to an existing topic delivers its own republications)
	{
		nRec := 0
		for _, f := range c.Funcs(pkg) {
			instrs(f.SSA, func(in ssa.Instruction) {
				st, ok := in.(*ssa.Store)
				if !ok {
					return
				}
				a := c.E(st.Addr)
				if a.Op != "field" || canonName(a.Name) != "hostID" {
					return
				}
				v := c.E(st.Val)
				m, isID := Match(AnyCall("ID", Bind("h")), v)
				if !isID || !strings.Contains(v.Name, "host.Host") {
					return
				}
				nRec++
				extra := ""
				for _, fct := range c.FactsAt(st.Block()) {
					cx := strip(fct.Cond)
					if _, isNilTest := Match(EqNil(Is(m["h"])), cx); isNilTest && !fct.Val {
						continue // host != nil
					}
					if b, isErr := Match(EqNil(Bind("e")), cx); isErr && fct.Val && b["e"].V != nil && isErrorType(b["e"].V.Type()) {
						continue // an earlier step succeeded
					}
					if fct.If != nil && fct.If.Parent() == st.Parent() && ReachableFromSucc(fct.If.Block(), fct.If.Block()) && !ReachableFrom(st.Block())[fct.If.Block()] {
						continue // the exit condition of a loop that is over by now
					}
					foreign := fct.If == nil || fct.If.Parent() != st.Parent()
					cx.Find(func(y *X) bool {
						if in, ok := y.V.(ssa.Instruction); ok && in.Parent() != nil && in.Parent() != st.Parent() {
							foreign = true
						}
						return false
					})
					if foreign {
						continue // what a helper's success implies about the helper's own tests
					}
					extra = abbreviate(factString(fct))
				}
				c.Check(extra == "", "C09.A6-pubsub-path", c.short(topFunc(st.Parent()).String())+" › own host ID recorded whenever there is a host", st.Pos(), "the host ID is recorded under no condition other than host != nil", "the receiver's own host ID is recorded only when "+extra+": otherwise the self-republication test compares with an empty ID and the receiver delivers its own republications")
			})
		}
		if nRec == 0 {
			c.Unk("C09.A6-pubsub-path", "announce › own host ID recorded", token.NoPos, "no store of the host's ID into a hostID field found")
		}
	}
	c.Floor("C09.A6-pubsub-path", 3)

	// ---- A7 capacity ----------------------------------------------------------------------------------------------
	nCap := 0
	for _, f := range c.Funcs(pkg) {
		for _, cs := range c.Calls(f.SSA, c.RoleCall("lru.new")) {
			nCap++
			_, ok := Match(Const("64"), cs.X.Args[0])
			if !ok {
				// a configurable capacity whose default is the constant 64: the option only replaces it with its argument
				if a := strip(cs.X.Args[0]); a.Op == "field" && fieldOwner(a) == "config" {
					hasDefault, onlyOptions := false, true
					for _, g := range c.Funcs(pkg) {
						instrsDeep(g.SSA, func(h *ssa.Function, in ssa.Instruction) {
							st, isSt := in.(*ssa.Store)
							if !isSt {
								return
							}
							t := c.E(st.Addr)
							if t.Op != "field" || t.Name != a.Name || fieldOwner(t) != "config" {
								return
							}
							v := strip(c.E(st.Val))
							switch {
							case v.Op == "const" && v.Name == "64" && h.Parent() == nil:
								hasDefault = true
							case h.Parent() != nil && strip(t.Args[0]).Op == "param" && v.Op == "param":
							default:
								onlyOptions = false
							}
						})
					}
					ok = hasDefault && onlyOptions
				}
			}
			c.Check(ok, "C09.A7-capacity", c.short(topFunc(cs.Fn).String())+" › cache capacity", cs.In.Pos(), "duplicate cache created with capacity 64 (or a configurable capacity that defaults to 64)", "duplicate cache capacity is not 64 by default: "+cs.X.Args[0].String())
		}
	}
	c.Floor("C09.A7-capacity", 1)

	// ---- A8 LRU discipline ---------------------------------------------------------------------------------------------
	c09LRU(c, pkg)
}

// ReachableFromNoLoop: blocks reachable from b before re-entering the function's first loop header.
func ReachableFromNoLoop(b *ssa.BasicBlock, fn *ssa.Function) map[*ssa.BasicBlock]bool {
	var head *ssa.BasicBlock
	for _, x := range fn.Blocks {
		for _, p := range x.Preds {
			if x.Dominates(p) && head == nil {
				head = x
			}
		}
	}
	seen := map[*ssa.BasicBlock]bool{}
	var rec func(*ssa.BasicBlock)
	rec = func(x *ssa.BasicBlock) {
		if seen[x] || x == head {
			return
		}
		seen[x] = true
		for _, s := range x.Succs {
			rec(s)
		}
	}
	rec(b)
	return seen
}

func c09LRU(c *Ctx, pkg string) {
	upd := c.RoleFn("lru.update")
	rem := c.RoleFn("lru.remove")
	if upd == nil || rem == nil {
		c.Unk("C09.A8-lru-discipline", "announce.stringLRU", token.NoPos, "update/remove not found")
		return
	}
	if c09LibraryLRU(c, upd, rem) {
		c09LRUEncapsulated(c, pkg)
		return
	}
	for _, f := range []*Fn{upd, rem} {
		// every list removal is paired in its block with the map deletion of that element
		for _, cs := range c.Calls(f.SSA, Call("container/list.List).Remove")) {
			elem := cs.X.Args[1]
			paired := false
			for _, in := range cs.In.Block().Instrs {
				ci, ok := in.(ssa.CallInstruction)
				if !ok {
					continue
				}
				x := c.CallX(ci)
				if x.Op != "builtin" || x.Name != "delete" {
					continue
				}
				k := x.Args[1]
				// key is elem.Value.(string), or elem is cache[key]
				if _, m := Match(Field("Value", Is(elem)), k); m {
					paired = true
				}
				if _, m := Match(Extract("0", Op("lookup", "", Any(), Is(k))), elem); m {
					paired = true
				}
			}
			c.Check(paired, "C09.A8-lru-discipline", f.Name+" › list removal paired with map deletion", cs.In.Pos(), "the removed element's key is deleted from the map in the same step", "an element is removed from the list but stays in the map (or another key is deleted): the set and its recency list diverge")
		}
	}
	// and conversely: every deletion from the map removes that element from the list in the same step
	for _, f := range []*Fn{upd, rem} {
		instrs(f.SSA, func(in ssa.Instruction) {
			ci, ok := in.(ssa.CallInstruction)
			if !ok {
				return
			}
			x := c.CallX(ci)
			if x.Op != "builtin" || x.Name != "delete" || len(x.Args) != 2 {
				return
			}
			if _, isCache := Match(FieldT("map[string]*container/list.Element", Any()), x.Args[0]); !isCache {
				return
			}
			k := x.Args[1]
			paired := false
			for _, in2 := range in.Block().Instrs {
				ci2, ok := in2.(ssa.CallInstruction)
				if !ok {
					continue
				}
				y := c.CallX(ci2)
				if !nameMatches(y.Name, "container/list.List).Remove") || len(y.Args) < 2 {
					continue
				}
				elem := y.Args[1]
				if _, m := Match(Field("Value", Is(elem)), k); m {
					paired = true
				}
				if _, m := Match(Extract("0", Op("lookup", "", Any(), Is(k))), elem); m {
					paired = true
				}
			}
			c.Check(paired, "C09.A8-lru-discipline", f.Name+" › map deletion paired with list removal", in.Pos(), "the deleted key's element is removed from the recency list in the same step", "a key is deleted from the map but its element stays in the recency list: it still counts towards the capacity and its later eviction deletes a live entry")
		})
	}
	// update: hit => MoveToFront, returns true, and no insertion reachable
	var lookupOK *X
	for _, b := range upd.SSA.Blocks {
		if iff, ok := b.Instrs[len(b.Instrs)-1].(*ssa.If); ok && lookupOK == nil {
			if _, m := Match(Extract("1", Op("lookup", "", FieldT("map[string]*container/list.Element", Any()), Op("param", ""))), c.E(iff.Cond)); m {
				lookupOK = c.E(iff.Cond)
			}
		}
	}
	if lookupOK == nil {
		c.Unk("C09.A8-lru-discipline", upd.Name+" › membership test", upd.SSA.Pos(), "no comma-ok lookup of the key in the map")
		return
	}
	mtf := c.Calls(upd.SSA, Call("container/list.List).MoveToFront"))
	okHit := len(mtf) == 1
	if okHit {
		_, g := c.Guarded(mtf[0].In, Is(lookupOK), true)
		_, elemOK := Match(Extract("0", Op("lookup", "")), mtf[0].X.Args[1])
		okHit = g && elemOK
	}
	c.Check(okHit, "C09.A8-lru-discipline", upd.Name+" › hit refreshes recency", upd.SSA.Pos(), "on a hit the found element is moved to the front", "a duplicate does not refresh the recency of its entry")
	pf := c.Calls(upd.SSA, Call("container/list.List).PushFront"))
	okIns := len(pf) == 1
	if okIns {
		_, g := c.Guarded(pf[0].In, Is(lookupOK), false)
		stored := false
		instrs(upd.SSA, func(in ssa.Instruction) {
			if mu, ok := in.(*ssa.MapUpdate); ok {
				if Same(c.E(mu.Value), c.E(pf[0].In.(*ssa.Call))) && Same(c.E(mu.Key), pf[0].X.Args[1]) {
					stored = true
				}
			}
		})
		okIns = g && stored
	}
	c.Check(okIns, "C09.A8-lru-discipline", upd.Name+" › miss inserts once", upd.SSA.Pos(), "on a miss the key is pushed to the front and the element stored under that key", "insertion not (on the miss edge ∧ element stored under its key)")
	// eviction: only when full, takes Back()
	for _, cs := range c.Calls(upd.SSA, Call("container/list.List).Remove")) {
		_, full := c.Guarded(cs.In, Bin("==", Call("container/list.List).Len"), FieldT("int", Any())), true)
		_, back := Match(Call("container/list.List).Back"), cs.X.Args[1])
		c.Check(full && back, "C09.A8-lru-discipline", upd.Name+" › evicts the oldest only when full", cs.In.Pos(), "eviction removes Back() on the Len() == max edge", "eviction is not (the back element ∧ only when the list is full)")
	}
	// return values: hit => true, miss => false
	okRet := true
	for _, b := range upd.SSA.Blocks {
		if ret, ok := b.Instrs[len(b.Instrs)-1].(*ssa.Return); ok && len(ret.Results) == 1 {
			v := c.RetX(ret, 0)
			_, hit := c.GuardedB(b, Is(lookupOK), true)
			if hit != (v.Op == "const" && v.Name == "true") {
				okRet = false
			}
		}
	}
	c.Check(okRet, "C09.A8-lru-discipline", upd.Name+" › reports hit/miss", upd.SSA.Pos(), "returns true exactly on a hit", "update's result does not tell hit from miss")
	c.Floor("C09.A8-lru-discipline", 8)
	c09LRUEncapsulated(c, pkg)
}

// c09LibraryLRU decides A8 for a duplicate filter that delegates to
// hashicorp/golang-lru (trusted: Get refreshes recency, Add evicts the least
// recently used entry when full, Contains/Peek/ContainsOrAdd do not refresh):
// update tests membership with Get — the refreshing operation — adds on the
// miss edge and reports hit/miss; remove removes that key; the cache is
// created with the capacity asked for. Reports whether the filter has this form.
func c09LibraryLRU(c *Ctx, upd, rem *Fn) bool {
	isCache := func(name string) P { return CallLike([]string{"golang-lru/v2.Cache", ")." + name}) }
	gets := c.Calls(upd.SSA, isCache("Get"))
	adds := c.Calls(upd.SSA, isCache("Add"))
	others := 0
	for _, n := range []string{"Contains", "Peek", "ContainsOrAdd", "PeekOrAdd"} {
		others += len(c.Calls(upd.SSA, isCache(n)))
	}
	if len(gets)+len(adds)+others == 0 {
		return false
	}
	c.Trust("hashicorp/golang-lru (Get refreshes recency; Add evicts the least recently used entry when full)")
	key := Op("param", upd.SSA.Params[len(upd.SSA.Params)-1].Name())
	okHit := len(gets) == 1 && others == 0
	if okHit {
		_, okHit = Match(key, gets[0].X.Args[1])
	}
	c.Check(okHit, "C09.A8-lru-discipline", upd.Name+" › hit refreshes recency", upd.SSA.Pos(), "membership is tested with Cache.Get(key), which moves a hit to the front", "membership is tested with an operation that does not refresh the entry's recency (Contains/Peek/ContainsOrAdd), or not on the key: a duplicate no longer keeps its CID among the most recent ones")
	okIns := len(adds) == 1 && len(gets) == 1
	if okIns {
		_, k := Match(key, adds[0].X.Args[1])
		_, g := c.Guarded(adds[0].In, Extract("1", Is(c.E(gets[0].In.(*ssa.Call)))), false)
		okIns = k && g
	}
	c.Check(okIns, "C09.A8-lru-discipline", upd.Name+" › miss inserts once", upd.SSA.Pos(), "on the miss edge the key is added (the library evicts the oldest when full)", "insertion not (on the miss edge ∧ of that key)")
	okRet := len(gets) == 1
	for _, b := range upd.SSA.Blocks {
		if ret, ok := b.Instrs[len(b.Instrs)-1].(*ssa.Return); ok && len(ret.Results) == 1 && okRet {
			v, isConst := boolConst(c.RetX(ret, 0))
			_, hit := c.GuardedB(b, Extract("1", Is(c.E(gets[0].In.(*ssa.Call)))), true)
			_, miss := c.GuardedB(b, Extract("1", Is(c.E(gets[0].In.(*ssa.Call)))), false)
			if isConst {
				okRet = (v && hit) || (!v && miss)
			} else {
				okRet = Same(c.RetX(ret, 0), c.Result(gets[0], 1))
			}
		}
	}
	c.Check(okRet, "C09.A8-lru-discipline", upd.Name+" › reports hit/miss", upd.SSA.Pos(), "returns true exactly on a hit", "update's result does not tell hit from miss")
	rm := c.Calls(rem.SSA, isCache("Remove"))
	okRm := len(rm) == 1
	if okRm {
		_, okRm = Match(Op("param", rem.SSA.Params[len(rem.SSA.Params)-1].Name()), rm[0].X.Args[1])
	}
	c.Check(okRm, "C09.A8-lru-discipline", rem.Name+" › removes that key", rem.SSA.Pos(), "remove deletes the given key from the cache", "remove does not delete the given key")
	// capacity as asked for
	okCap := false
	if nw := c.Role("lru.new"); nw != nil {
		for _, cs := range c.Calls(nw, CallLike([]string{"golang-lru/v2.New"})) {
			if len(nw.Params) >= 1 {
				_, okCap = Match(Op("param", nw.Params[0].Name()), cs.X.Args[0])
			}
		}
	}
	c.Check(okCap, "C09.A8-lru-discipline", "announce › filter capacity", upd.SSA.Pos(), "the cache is created with the capacity the constructor is given", "the cache is not created with the capacity the constructor is given")
	// (the list/map pairing clauses are the library's business here; counted so that the floor keeps its meaning)
	for _, k := range []string{"list removal paired with map deletion", "map deletion paired with list removal", "evicts the oldest only when full"} {
		c.OK("C09.A8-lru-discipline", "announce › "+k, upd.SSA.Pos(), "delegated to hashicorp/golang-lru (trusted)")
	}
	c.Floor("C09.A8-lru-discipline", 8)
	return true
}

func c09LRUEncapsulated(c *Ctx, pkg string) {
	// the duplicate filter is consulted through its own operations only: a look at its internals from outside
	// neither refreshes recency nor obeys the list/map pairing
	isLRU := func(fn *ssa.Function) bool {
		fn = topFunc(fn)
		if r := c.Role("lru.new"); r != nil && fn == r {
			return true
		}
		if recv := fn.Signature.Recv(); recv != nil {
			if n, ok := deref(recv.Type()).(*types.Named); ok && canonType(n.Obj()) == "stringLRU" {
				return true
			}
		}
		return false
	}
	var pfns []*ssa.Function
	for _, f := range c.Funcs(pkg) {
		pfns = append(pfns, f.SSA)
	}
	outside := fieldsAccessedOutside(c, pfns, "stringLRU", isLRU)
	for _, in := range outside {
		c.Bad("C09.A8-lru-encapsulated", c.short(topFunc(in.Parent()).String())+" › reads the filter's internals", in.Pos(), "the duplicate filter's map/list is accessed outside its own methods: such a test does not refresh the recency of a duplicate (and bypasses the pairing rules)")
	}
	if len(outside) == 0 {
		c.OK("C09.A8-lru-encapsulated", "announce › filter internals private", token.NoPos, "stringLRU fields are touched only by its methods and constructor")
	}
	if pc := c.posex(); pc == nil {
		c.Unk("C09.A8-lru-encapsulated", "positive example", token.NoPos, "positive example package could not be loaded")
	} else {
		var pf []*ssa.Function
		for _, f := range pc.Funcs("ipnicheck/testdata/posex") {
			pf = append(pf, f.SSA)
		}
		n := len(fieldsAccessedOutside(pc, pf, "readOnly", func(*ssa.Function) bool { return false }))
		c.Check(n >= 2, "C09.A8-lru-encapsulated", "positive example fires", token.NoPos, "rule finds the outside accesses in the embedded example", "rule did not fire on its positive example: it would pass vacuously")
	}
	c.Floor("C09.A8-lru-encapsulated", 2)

}

// fieldsAccessedOutside lists field accesses on values of the named struct
// type in functions for which inside() is false.
func fieldsAccessedOutside(c *Ctx, fns []*ssa.Function, typeName string, inside func(*ssa.Function) bool) []ssa.Instruction {
	var out []ssa.Instruction
	for _, fn := range fns {
		instrsDeep(fn, func(g *ssa.Function, in ssa.Instruction) {
			var t types.Type
			switch v := in.(type) {
			case *ssa.FieldAddr:
				t = deref(v.X.Type())
			case *ssa.Field:
				t = v.X.Type()
			default:
				return
			}
			n, ok := t.(*types.Named)
			if !ok || canonType(n.Obj()) != typeName || inside(g) {
				return
			}
			out = append(out, in)
		})
	}
	return out
}

// refusedLeavesNoTrace: the duplicate filter is updated only for announcements
// the allow filter lets through. Shared by C09 (rejected announcements leave
// the filter untouched) and C08 (an announcement refused by policy must not
// make a later, accepted announcement of the same head be dropped).
func refusedLeavesNoTrace(c *Ctx, rule string) {
	n := 0
	for _, f := range c.Funcs("announce") {
		for _, cs := range c.Calls(f.SSA, c.RoleCall("lru.update")) {
			n++
			allow := []Alt{
				{EqNil(Field("allowPeer", Any())), true},
				{Op("dyncall", "", Field("allowPeer", Any())), true},
			}
			c.Check((c.PathsCarry(cs.In.Block(), allow) || c.PathsCarryDAG(cs.In.Block(), allow)), rule, c.short(cs.Fn.String())+" › cache update › allowed", cs.In.Pos(),
				"every path to the cache update carries 'no allow filter' or 'allow filter returned true'", "the duplicate cache is updated for announcements the allow filter rejects (or before it is asked): a refused announcement makes the later, accepted announcement of the same head look like a duplicate")
		}
	}
	if n == 0 {
		c.Unk(rule, "announce › duplicate-filter update", token.NoPos, "not found")
	}
}

// canonName: field names are compared in their reference spelling (renames are undone by the canonicaliser).
func canonName(n string) string { return n }
