package main

import (
	"go/token"
	"go/types"
	"strings"

	"golang.org/x/tools/go/ssa"
)

func init() {
	register(&propSpec{
		id:  "C04",
		run: runC04,
		explanation: "Structural necessary conditions of 'a failed sync changes nothing durable and does not impair later syncs', decided on SSA: " +
			"(E1) error discipline along the named chain from the HTTP round trip to the entry points: at every link the callee's error is returned directly, or compared with nil with every path of the non-nil edge returning a non-nil error (or re-issuing the request); the hook-signalled failure is tested after every segment before any success return; " +
			"(E2) the latest-synced map is written only by the success notifier, the explicit setter and the last-known seeding, and the success notifier is called only on the err == nil edge of the per-publisher sync; " +
			"(E3) on the failure edge of an announce-triggered sync exactly the failure path runs (one error event, CID un-cached) and no success notification is reachable; explicit syncs emit nothing on failure; " +
			"(E4) the kept per-publisher sync client is replaced only when it is absent or its addresses differ, and only by a client whose construction succeeded; " +
			"(E5) client state switched by the legacy no-path fallback is restored on every error return of the request that switched it (fixed in 2acc6ee). " +
			"That a retry converges to the same stored blocks and the HTTP library's behaviour on stalls/resets are not decided.",
		assumptions: []string{"ipld-prime traversal propagates errors returned by the storage read opener", "net/http returns an error or a response"},
	})
}

type errLink struct {
	pkg, fn string // fn: "role:<name>" or an exported method name
	callee  P
	what    string
	direct  bool // look only in the function itself (and its literals), not in helpers it calls
}

func runC04(c *Ctx) {
	c.Trust("go/ssa dominators", "ipld-prime traversal error propagation", "net/http")
	c.allowRetry = true
	defer func() { c.allowRetry = false }()

	// ---- E1 error chain -------------------------------------------------------------------
	links := []errLink{
		{ipnisyncPkg, "role:ipnisync.request", Call("net/http.Client).Do"), "HTTP round trip", false},
		{ipnisyncPkg, "role:ipnisync.request", Call("net/http.NewRequestWithContext"), "request construction", false},
		{ipnisyncPkg, "role:ipnisync.request", Op("dyncall", "", Op("param", "")), "response callback", false},
		{ipnisyncPkg, "role:ipnisync.blockfetch", c.RoleCall("ipnisync.request"), "block request", false},
		{ipnisyncPkg, "role:ipnisync.blockfetch", Op("dyncall", "", Field("StorageWriteOpener", Any())), "store write opener", false},
		{ipnisyncPkg, "role:ipnisync.blockfetch", Call("go-multihash.SumStream"), "digest of streamed body", false},
		{ipnisyncPkg, "role:ipnisync.blockfetch", Op("dyncall", "", Extract("1", Op("dyncall", "", Field("StorageWriteOpener", Any())))), "store commit", false},
		{ipnisyncPkg, "role:ipnisync.walk", c.RoleCall("ipnisync.blockfetch"), "verified block fetch in the read opener", false},
		{ipnisyncPkg, "role:ipnisync.walk", Op("dyncall", "", Field("StorageReadOpener", Any())), "read from the real store", false},
		{ipnisyncPkg, "role:ipnisync.walk", Call("linking.LinkSystem).Load"), "root load", true},
		{ipnisyncPkg, "role:ipnisync.walk", Call("traversal.Progress).WalkMatching"), "selector walk", false},
		{ipnisyncPkg, "Syncer.Sync", c.RoleCall("ipnisync.walk"), "traversal", false},
		{ipnisyncPkg, "Syncer.Sync", Call("selector.CompileSelector"), "selector compilation", false},
		{ipnisyncPkg, "Syncer.GetHead", c.RoleCall("ipnisync.request"), "head request", false},
		{ipnisyncPkg, "Syncer.GetHead", Call("head.SignedHead).Validate"), "head validation", false},
		{dagsyncPkg, "role:dagsync.handle", Invoke("dagsync.Syncer.Sync"), "sync client", false},
		{dagsyncPkg, "Subscriber.SyncAdChain", c.RoleCall("dagsync.handle"), "per-publisher sync", false},
		{dagsyncPkg, "Subscriber.SyncAdChain", Invoke("dagsync.Syncer.GetHead"), "head query", false},
		{dagsyncPkg, "Subscriber.SyncAdChain", c.RoleCall("dagsync.factory"), "sync client construction", false},
		{dagsyncPkg, "Subscriber.syncEntries", c.RoleCall("dagsync.handle"), "per-publisher sync", false},
		{dagsyncPkg, "Subscriber.syncEntries", c.RoleCall("dagsync.factory"), "sync client construction", false},
	}
	for _, l := range links {
		var fn *Fn
		if strings.HasPrefix(l.fn, "role:") {
			fn = c.RoleFn(strings.TrimPrefix(l.fn, "role:"))
		} else {
			fn = c.Func(l.pkg, l.fn)
		}
		key0 := l.pkg + " " + strings.TrimPrefix(l.fn, "role:") + " ← " + l.what
		if fn == nil {
			c.Unk("C04.E1-error-chain", key0, token.NoPos, "function of the chain not found")
			continue
		}
		var sites []CallSite
		d := 2
		if l.direct {
			d = 0
		}
		for _, st := range c.CallsInl(fn.SSA, l.callee, d) {
			sites = append(sites, st.CallSite)
		}
		if len(sites) == 0 && !l.direct {
			// the link may sit in a callback the function installs as a named function or method value
			for _, vf := range valueFuncs(fn.SSA) {
				for _, st := range c.CallsInl(vf, l.callee, 1) {
					sites = append(sites, st.CallSite)
				}
			}
		}
		if len(sites) == 0 {
			c.Unk("C04.E1-error-chain", key0, fn.SSA.Pos(), "link of the error chain not found (callee no longer called here)")
			continue
		}
		for _, cs := range sites {
			if _, isCall := cs.In.(*ssa.Call); !isCall {
				continue
			}
			if errIndex(cs.In.Common()) < 0 {
				continue
			}
			h := c.ErrPropagates(cs)
			switch h.Kind {
			case "returned-directly", "checked-return":
				c.OK("C04.E1-error-chain", key0, cs.In.Pos(), h.Why)
			case "unknown":
				c.Unk("C04.E1-error-chain", key0, h.Pos, h.Why)
			default:
				c.Bad("C04.E1-error-chain", key0, h.Pos, "error of the "+l.what+" is "+h.Kind+": "+h.Why)
			}
		}
	}
	c.Floor("C04.E1-error-chain", 20)

	// hook-signalled failure: tested before every success return that follows a sync
	c04HookFailure(c)

	// ---- E2 who writes latest-sync ------------------------------------------------------------
	nW := 0
	handle := c15HandleFn(c)
	for _, f := range c.Funcs(dagsyncPkg) {
		for _, cs := range c.Calls(f.SSA, c.RoleCall("latest.set")) {
			nW++
			top := topFunc(cs.Fn)
			key := c.short(top.String()) + " › setLatestSync"
			switch {
			case c08Classify(c, top) == "success":
				c.OK("C04.E2-latest-sync-writers", key, cs.In.Pos(), "success notifier (its call sites are gated below)")
			case c08Classify(c, top) == "unified":
				c.OK("C04.E2-latest-sync-writers", key, cs.In.Pos(), "the notifier for both outcomes: recorded only on the nil edge of the error it is handed (its nil-error call sites are gated below)")
			case top.Name() == "SetLatestSync":
				_, g := c.Guarded(cs.In, Bin("==", Op("param", ""), Any()), false)
				c.Check(g, "C04.E2-latest-sync-writers", key, cs.In.Pos(), "explicit setter, rejects the undefined CID", "explicit setter stores an undefined CID")
			case top.Name() == "GetLatestSync":
				_, g1 := c.Guarded(cs.In, Extract("1", Op("dyncall", "", Field("lastKnownSync", Any()))), true)
				c.Check(g1, "C04.E2-latest-sync-writers", key, cs.In.Pos(), "seeding from the last-known callback, only when it reports a value", "latest-sync written in the getter without a value from the last-known callback")
			default:
				c.Bad("C04.E2-latest-sync-writers", key, cs.In.Pos(), "latest-synced value written outside the success notifier / setter / seeding: a failed sync can change it")
			}
		}
		// direct writes of the map behind it
		instrsDeep(f.SSA, func(g *ssa.Function, in ssa.Instruction) {
			if mu, ok := in.(*ssa.MapUpdate); ok {
				if m := c.E(mu.Map); strings.Contains(m.String(), "latestSync") {
					c.Bad("C04.E2-latest-sync-writers", c.short(topFunc(g).String())+" › map write", mu.Pos(), "latest-sync map written directly")
				}
			}
		})
	}
	// success notifier call sites gated by handle err == nil
	for _, f := range c.Funcs(dagsyncPkg) {
		for _, cs := range c.Calls(f.SSA, Any()) {
			sc := cs.In.Common().StaticCallee()
			if sc == nil || c08ClassifySite(c, cs.In) != "success" {
				continue
			}
			var herr *X
			for _, hs := range c.Calls(f.SSA, Any()) {
				if hs.In.Common().StaticCallee() == handle && handle != nil {
					herr = c.Result(hs, 1)
				}
			}
			key := f.Name + " › success notification"
			if herr == nil {
				c.Bad("C04.E2-latest-sync-writers", key, cs.In.Pos(), "success notifier called in a function that does not run the per-publisher sync")
				continue
			}
			_, g := c.Guarded(cs.In, EqNil(Is(herr)), true)
			c.Check(g, "C04.E2-latest-sync-writers", key, cs.In.Pos(), "dominated by the per-publisher sync's err == nil", "success notification (and latest-sync update) reachable although the sync failed")
		}
	}
	c.Floor("C04.E2-latest-sync-writers", 5)

	// ---- E3 failure paths ------------------------------------------------------------------------
	for _, f := range c.Funcs(dagsyncPkg) {
		for _, hs := range c.Calls(f.SSA, Any()) {
			if hs.In.Common().StaticCallee() != handle || handle == nil || hs.Fn != f.SSA {
				continue
			}
			herr := c.Result(hs, 1)
			// blocks on the err != nil edge
			var region []*ssa.BasicBlock
			for _, b := range f.SSA.Blocks {
				if _, g := c.GuardedB(b, EqNil(Is(herr)), false); g {
					region = append(region, b)
				}
			}
			if len(region) == 0 {
				c.Unk("C04.E3-failure-path", f.Name+" › failure edge", hs.In.Pos(), "no code on the err != nil edge of the per-publisher sync")
				continue
			}
			nFail, nSucc, nSend := 0, 0, 0
			for _, b := range region {
				for _, in := range b.Instrs {
					if snd, ok := in.(*ssa.Send); ok {
						if x := c.E(snd.Chan); x.Op == "field" && x.Name == "inEvents" {
							nSend++
						}
					}
					if ci, ok := in.(ssa.CallInstruction); ok {
						if sc := ci.Common().StaticCallee(); sc != nil {
							switch c08ClassifySite(c, ci) {
							case "failure":
								nFail++
							case "success":
								nSucc++
							}
						}
					}
				}
			}
			escapes := regionEscapes(region[0]) != nil
			isAnnounce := len(c.Calls(f.SSA, Call("Swap[announce.Announce]"))) > 0
			key := f.Name + " › failure edge"
			if isAnnounce {
				c.Check(nFail+nSend == 1 && nSucc == 0 && !escapes, "C04.E3-failure-path", key, hs.In.Pos(),
					"announce failure edge: exactly one failure notification, no success notification, then return", "announce failure edge does not (notify failure exactly once, never success, and return)")
				// the failure is reported with the sync's own error and CID
				for _, b := range region {
					for _, in := range b.Instrs {
						if ci, ok := in.(ssa.CallInstruction); ok {
							if sc := ci.Common().StaticCallee(); sc != nil && c08ClassifySite(c, ci) == "failure" {
								x := c.CallX(ci)
								okArgs := false
								for _, a := range x.Args {
									if Same(a, herr) {
										okArgs = true
									}
								}
								c.Check(okArgs, "C04.E3-failure-path", key+" › carries the error", in.Pos(), "failure notification carries the sync's error", "failure notification does not carry the error of the failed sync")
							}
						}
					}
				}
			} else {
				c.Check(nFail+nSend+nSucc == 0 && !escapes, "C04.E3-failure-path", key, hs.In.Pos(),
					"explicit failure edge returns the error and emits nothing", "explicit sync emits a notification on failure or continues after it")
			}
		}
	}
	c.Floor("C04.E3-failure-path", 3)

	// ---- E4 kept sync client ------------------------------------------------------------------------
	c04KeptClient(c)
	// ---- E1b the stock hook signals failure only with an error in hand, and continuation only without one: the last
	// FailSync call wins, so an unconditional FailSync(err) lets a later successful block erase an earlier failure
	if mk, hook := c.Func(dagsyncPkg, "MakeGeneralBlockHook"), stockHook(c); mk != nil && hook != nil {
		for _, cs := range c.Calls(hook, Invoke("SegmentSyncActions.FailSync")) {
			okF := false
			if len(cs.X.Args) == 2 {
				_, okF = c.Guarded(cs.In, EqNil(Is(cs.X.Args[1])), false)
			}
			c.Check(okF, "C04.E1-hook-failure", c.short(mk.SSA.String())+" › FailSync only with an error", cs.In.Pos(), "the stock hook calls FailSync on the err != nil edge of its lookup", "the stock hook calls FailSync without knowing that the error is non-nil: FailSync(nil) after an earlier failure in the same segment erases it and the sync reports success")
		}
		for _, cs := range c.Calls(hook, Invoke("SegmentSyncActions.SetNextSyncCid")) {
			_, okN := c.Guarded(cs.In, EqNil(Extract("1", Op("dyncall", ""))), true)
			c.Check(okN, "C04.E1-hook-failure", c.short(mk.SSA.String())+" › continuation only without an error", cs.In.Pos(), "the stock hook sets the next CID on the err == nil edge of its lookup", "the stock hook continues the traversal although its lookup failed")
		}
	}

	// ---- E7 "later syncs unimpaired": an announce-triggered sync that failed can be retried by announcing the same
	// head again — the failure path removes the CID from the receiver's duplicate filter whatever the error was
	uncacheUnconditional(c, "C04.E7-failed-announce-retriable")
	c.Floor("C04.E7-failed-announce-retriable", 1)

	// ---- E6 a stalled publisher becomes a failed sync: every HTTP client a sync client is built around carries the
	// configured request timeout (the libp2p-HTTP client comes back from NamespacedClient without one)
	if ns := c.Func(ipnisyncPkg, "Sync.NewSyncer"); ns != nil {
		var tset []*ssa.Store
		instrs(ns.SSA, func(in ssa.Instruction) {
			if st, ok := in.(*ssa.Store); ok {
				if a := c.E(st.Addr); a.Op == "field" && a.Name == "Timeout" && strings.HasSuffix(typeOfX(a.Args[0]), "net/http.Client") {
					if _, m := Match(Field("httpTimeout", Any()), c.E(st.Val)); m {
						tset = append(tset, st)
					}
				}
			}
		})
		for _, b := range ns.SSA.Blocks {
			ret, ok := b.Instrs[len(b.Instrs)-1].(*ssa.Return)
			if !ok || len(ret.Results) != 2 || c.RetX(ret, 1).Op != "nil" {
				continue
			}
			okT := false
			for _, st := range tset {
				if st.Block().Dominates(b) {
					okT = true
				}
			}
			why := ""
			if !okT {
				// acceptable only if every client that can be used is the subscriber's own pre-configured one
				okT = true
				for _, l := range c.Leaves(c.RetX(ret, 0), ret) {
					fs := c.CellFields(l)
					cl := fs["client"]
					if cl == nil {
						okT, why = false, "client of the returned sync client not found"
						continue
					}
					for _, cv := range c.Leaves(cl, ret) {
						cv = strip(cv)
						if !(cv.Op == "field" && cv.Addr && fieldOwner(cv) == "Sync") {
							okT, why = false, abbreviate(cv.String())
						}
					}
				}
			}
			c.Check(okT, "C04.E6-client-timeout", ns.Name+" › request timeout", ret.Pos(), "the configured HTTP timeout is stored into the client before the sync client is returned", "a sync client can be built around an HTTP client ("+why+") that never gets the configured timeout: a stalled response hangs the sync instead of failing it, no error is reported and later syncs of the publisher stay blocked")
		}
	}
	c.Floor("C04.E6-client-timeout", 1)

	// ---- E5 fallback state ---------------------------------------------------------------------------
	c04Fallback(c)
}

// c04HookFailure: in the per-publisher sync routine every success return that
// can follow a call of the sync client is dominated by "hook-signalled error == nil".
func c04HookFailure(c *Ctx) {
	h := c15HandleFn(c)
	if h == nil {
		c.Unk("C04.E1-hook-failure", "dagsync › per-publisher sync routine", token.NoPos, "not found")
		return
	}
	// (sync calls are also found inside unexported helpers of the routine; such a site stands where the helper is called)
	var syncs []CallSite
	for _, st := range c.CallsInl(h, Invoke("dagsync.Syncer.Sync"), 2) {
		if o, ok := st.Outer().(ssa.CallInstruction); ok && o.Parent() == h {
			syncs = append(syncs, CallSite{In: o, Fn: h, X: c.CallX(o)})
		}
	}
	hookErr := Field("err", Any())
	for _, b := range h.Blocks {
		ret, ok := b.Instrs[len(b.Instrs)-1].(*ssa.Return)
		if !ok || len(ret.Results) != 2 || c.RetX(ret, 1).Op != "nil" || b.Comment == "recover" {
			continue
		}
		for si, s := range syncs {
			if s.Fn != h || !ReachableFrom(s.In.Block())[b] {
				continue
			}
			key := c.short(h.String()) + " › success return after sync call #" + itoa(si)
			_, g := c.GuardedB(b, EqNil(hookErr), true)
			if !g {
				// accept: return directly dominated by the test in the same loop iteration
				g = false
			}
			c.Check(g, "C04.E1-hook-failure", key, ret.Pos(),
				"success return dominated by the hook-signalled error being nil", "a sync whose hook signalled failure can return success (latest-synced updated, success notification sent)")
		}
	}
	// …and only FailSync raises it, only the per-segment reset lowers it: no other action the hook can take (choosing
	// where to continue, say) writes the failure slot — else a failure reported for one block is wiped by what the
	// hook does for the next, and the sync returns success
	nSlot := 0
	for _, f := range c.Funcs(dagsyncPkg) {
		instrsDeep(f.SSA, func(g *ssa.Function, in ssa.Instruction) {
			st, ok := in.(*ssa.Store)
			if !ok {
				return
			}
			a := c.E(st.Addr)
			whole := false
			if _, isFA := st.Addr.(*ssa.FieldAddr); !isFA {
				if pt, ok := st.Addr.Type().Underlying().(*types.Pointer); ok {
					if nm, ok := pt.Elem().(*types.Named); ok && canonType(nm.Obj()) == "segmentedSync" {
						if _, fresh := st.Addr.(*ssa.Alloc); !fresh {
							whole = true // *ss = segmentedSync{…}: writes the slot with the rest
						}
					}
				}
			}
			if !whole {
				if a.Op != "field" || canonName(a.Name) != "err" || fieldOwner(a) != "segmentedSync" {
					return
				}
				if _, fresh := strip(a.Args[0]).V.(*ssa.Alloc); fresh {
					return // a literal being built
				}
			}
			nSlot++
			top := topFunc(g)
			byHook := top.Object() != nil && top.Object().Exported() && top.Signature.Recv() != nil
			okW := !byHook || top.Name() == "FailSync"
			c.Check(okW, "C04.E1-hook-failure", c.short(top.String())+" › writes the failure slot", st.Pos(), "the hook-signalled failure is written by FailSync and by the per-segment reset only", "an action the block hook can take other than FailSync writes the failure slot: a failure signalled for an earlier block is lost when the hook goes on, and the sync reports success")
		})
	}
	c.Floor("C04.E1-hook-failure", 6)
	// the hook-signalled failure belongs to one sync: whatever state of a running sync lives in the handler (shared by
	// all syncs of the publisher) is written only after the per-publisher lock is taken — (re)initialised before it, a
	// second sync queued behind a running one wipes that one's failure, and the failed sync returns success
	{
		var lock ssa.Instruction
		for _, st := range c.CallsInl(h, Call("sync.Mutex).Lock", Field("syncMutex", Any())), 2) {
			if o := st.Outer(); o.Parent() == h {
				lock = o
			}
		}
		early := token.NoPos
		nSt := 0
		instrs(h, func(in ssa.Instruction) {
			st, ok := in.(*ssa.Store)
			if !ok {
				return
			}
			if _, isLocal := st.Addr.(*ssa.Alloc); isLocal {
				return // a local variable (e.g. an alias 's := h.subscriber'), not the handler
			}
			a := c.E(st.Addr)
			root := a
			for d := 0; d < 4 && root != nil && root.Op == "field" && len(root.Args) == 1; d++ {
				if fieldOwner(root) == "handler" {
					break
				}
				root = root.Args[0]
			}
			if root == nil || root.Op != "field" || fieldOwner(root) != "handler" {
				return
			}
			if base := strip(root.Args[0]); base == nil || base.Op != "param" {
				return
			}
			nSt++
			if lock == nil || !Precedes(lock, st) {
				early = st.Pos()
			}
		})
		if nSt == 0 {
			c.OK("C04.E1-per-sync-state", c.short(h.String())+" › per-sync state", h.Pos(), "the per-publisher routine keeps the state of a running sync in locals (nothing of it is stored in the handler)")
		} else {
			c.Check(!early.IsValid(), "C04.E1-per-sync-state", c.short(h.String())+" › per-sync state written under the lock", h.Pos(), "state of the running sync kept in the handler is written only after the per-publisher lock is taken", "state of the running sync is stored in the handler at "+c.pos(early)+" before the per-publisher lock is taken: a sync queued behind a running one resets it (a failure the hook signalled is lost and the failed sync returns success)")
		}
		c.Floor("C04.E1-per-sync-state", 1)
	}
}

func c04KeptClient(c *Ctx) {
	var f *ssa.Function
	for _, fn := range c.Funcs(dagsyncPkg) {
		if len(c.Calls(fn.SSA, Call("ipnisync.Sync).NewSyncer"))) > 0 {
			f = fn.SSA
		}
	}
	if f == nil {
		c.Unk("C04.E4-kept-client", "dagsync › sync-client factory", token.NoPos, "not found")
		return
	}
	for ci, cs := range c.Calls(f, Call("ipnisync.Sync).NewSyncer")) {
		key := c.short(f.String()) + " › replace client #" + itoa(ci)
		// every edge into the constructing block carries "no client kept" or "addresses differ"
		blk := cs.In.Block()
		ok := len(blk.Preds) > 0
		for _, p := range blk.Preds {
			pok := false
			for _, fct := range append(c.FactsAt(p), edgeFact(c, p, blk)...) {
				if _, m := Match(EqNil(Field("syncer", Any())), fct.Cond); m && fct.Val {
					pok = true
				}
				if _, m := Match(Invoke("dagsync.Syncer.SameAddrs", Field("syncer", Any())), fct.Cond); m && !fct.Val {
					pok = true
				}
			}
			if !pok {
				ok = false
			}
		}
		c.Check(ok, "C04.E4-kept-client", key+" › only when absent or addresses differ", cs.In.Pos(),
			"a new client is made only if none is kept or SameAddrs is false", "the kept sync client (and its learnt state) is replaced although its addresses are unchanged, or kept although they changed")
		// the kept client is overwritten only with a successfully constructed one
		nerr := c.Result(cs, 1)
		nval := c.Result(cs, 0)
		stored := false
		instrs(f, func(in ssa.Instruction) {
			st, isSt := in.(*ssa.Store)
			if !isSt {
				return
			}
			if a := c.E(st.Addr); a.Op == "field" && a.Name == "syncer" && Same(c.E(st.Val), nval) {
				stored = true
				_, g := c.Guarded(st, EqNil(Is(nerr)), true)
				c.Check(g, "C04.E4-kept-client", key+" › stored only when constructed", st.Pos(),
					"kept client assigned on the constructor's err == nil edge", "kept client is overwritten with the result of a failed construction (a typed nil): the next sync of this publisher dereferences it")
			}
		})
		if !stored {
			c.Unk("C04.E4-kept-client", key+" › stored only when constructed", cs.In.Pos(), "constructed client is not stored in the handler")
		}
	}
	c.Floor("C04.E4-kept-client", 2) // (one construction site with both conditions is enough: the two address kinds may share it)
}

// c04Fallback: every store that switches the sync client to the legacy
// no-path form is followed, on every path to an error return of the same
// request, by the restoring call — unless a response was handed to the callback.
func c04Fallback(c *Ctx) {
	fetch := c.RoleFn("ipnisync.request")
	if fetch == nil {
		c.Unk("C04.E5-fallback-committed-on-success", "ipnisync.(*Syncer).fetch", token.NoPos, "request routine not found")
		return
	}
	// the per-client request state: fields of the request routine's receiver that the routine
	// (or a helper only it calls) stores to; the fallback flag is the bool among them that it sets to true
	recvType := ""
	if r := fetch.SSA.Signature.Recv(); r != nil {
		if n, ok := deref(r.Type()).(*types.Named); ok {
			recvType = canonType(n.Obj())
		}
	}
	state := map[string]bool{}
	flag := ""
	collect := func(g *ssa.Function) {
		instrs(g, func(in ssa.Instruction) {
			if st, ok := in.(*ssa.Store); ok {
				if a := c.E(st.Addr); a.Op == "field" && fieldOwner(a) == recvType && a.Args[0].Op != "complit" {
					state[a.Name] = true
					if cv, isC := st.Val.(*ssa.Const); isC && cv.Value != nil && cv.Value.ExactString() == "true" {
						flag = a.Name
					}
				}
			}
		})
	}
	collect(fetch.SSA)
	for _, f := range c.Funcs(ipnisyncPkg) {
		if callsOnlyFrom(c, f.SSA, fetch.SSA) {
			collect(f.SSA)
		}
	}
	if flag == "" {
		c.OK("C04.E5-fallback-committed-on-success", c.short(fetch.SSA.String())+" › no fallback switch", fetch.SSA.Pos(), "the request routine never switches a mode flag on")
		return
	}
	// who writes the request state
	for _, f := range c.Funcs(ipnisyncPkg) {
		instrsDeep(f.SSA, func(g *ssa.Function, in ssa.Instruction) {
			st, ok := in.(*ssa.Store)
			if !ok {
				return
			}
			a := c.E(st.Addr)
			if a.Op != "field" || fieldOwner(a) != recvType || !state[a.Name] {
				return
			}
			if a.Args[0].Op == "complit" {
				return
			}
			top := topFunc(g)
			okWho := top == fetch.SSA || callsOnlyFrom(c, top, fetch.SSA)
			c.Check(okWho, "C04.E5-fallback-who-writes", c.short(top.String())+" › "+a.Name, st.Pos(), "written by the request routine (or a helper only it calls)", "sync client address/fallback state written outside the request routine")
		})
	}
	c.Floor("C04.E5-fallback-who-writes", 2)

	isUndo := func(in ssa.Instruction) bool {
		ci, ok := in.(ssa.CallInstruction)
		if !ok {
			return false
		}
		sc := ci.Common().StaticCallee()
		if sc == nil {
			return false
		}
		resets := false
		instrs(sc, func(o ssa.Instruction) {
			if st, ok := o.(*ssa.Store); ok {
				if a := c.E(st.Addr); a.Op == "field" && a.Name == flag {
					if cv, ok := st.Val.(*ssa.Const); ok && cv.Value != nil && cv.Value.ExactString() == "false" {
						resets = true
					}
				}
			}
		})
		return resets
	}
	isCallback := func(in ssa.Instruction) bool {
		ci, ok := in.(ssa.CallInstruction)
		if !ok {
			return false
		}
		x := c.CallX(ci)
		return x.Op == "dyncall" && len(x.Args) > 0 && x.Args[0].Op == "param"
	}
	n := 0
	instrs(fetch.SSA, func(in ssa.Instruction) {
		st, ok := in.(*ssa.Store)
		if !ok {
			return
		}
		a := c.E(st.Addr)
		if a.Op != "field" || a.Name != flag {
			return
		}
		if cv, ok := st.Val.(*ssa.Const); !ok || cv.Value == nil || cv.Value.ExactString() != "true" {
			return
		}
		n++
		key := c.short(fetch.SSA.String()) + " › switch to no-path #" + itoa(n)
		// forward search for an error return not preceded by undo / callback
		type item struct {
			b    *ssa.BasicBlock
			path []string
		}
		seen := map[*ssa.BasicBlock]bool{}
		var queue []item
		for _, s := range st.Block().Succs {
			queue = append(queue, item{s, []string{"block " + itoa(s.Index)}})
		}
		var bad []string
		for len(queue) > 0 && bad == nil {
			it := queue[0]
			queue = queue[1:]
			if seen[it.b] {
				continue
			}
			seen[it.b] = true
			stop := false
			for _, o := range it.b.Instrs {
				if isUndo(o) || isCallback(o) {
					stop = true
					break
				}
				if _, isRet := o.(*ssa.Return); isRet {
					bad = append(it.path, "error return at "+c.pos(posOf(o))+" with the client left in no-path mode")
				}
				if _, isRD := o.(*ssa.RunDefers); isRD {
					// the return follows
					continue
				}
			}
			if stop || bad != nil {
				continue
			}
			for _, s := range it.b.Succs {
				queue = append(queue, item{s, append(append([]string{}, it.path...), "block "+itoa(s.Index)+" "+c.pos(posOf(s.Instrs[0])))})
			}
		}
		if bad != nil {
			c.Bad("C04.E5-fallback-committed-on-success", key, st.Pos(), "the legacy no-path fallback persists after the request that triggered it failed: every later request of this client goes to the wrong path", bad...)
		} else {
			c.OK("C04.E5-fallback-committed-on-success", key, st.Pos(), "every path from the switch to a return passes the restoring call or hands a response to the callback")
		}
	})
	if n == 0 {
		c.OK("C04.E5-fallback-committed-on-success", c.short(fetch.SSA.String())+" › no fallback switch", fetch.SSA.Pos(), "the request routine never switches to a legacy form")
	}
	c.Floor("C04.E5-fallback-committed-on-success", 1)
	// what the restoring call puts back must be a snapshot taken before the switch, not an alias of the live state:
	// restoring a field from its own address restores nothing
	aliasOfState := func(x *X) bool {
		x = strip(x)
		return x != nil && x.Op == "field" && x.Addr && fieldOwner(x) == recvType
	}
	var leaves func(x *X, depth int, out *[]*X)
	leaves = func(x *X, depth int, out *[]*X) {
		if x == nil || depth > 4 {
			return
		}
		if x.Op == "phi" {
			for _, a := range x.Args {
				leaves(a, depth+1, out)
			}
			return
		}
		*out = append(*out, x)
	}
	nRestore := 0
	instrs(fetch.SSA, func(in ssa.Instruction) {
		if !isUndo(in) {
			return
		}
		ci := in.(ssa.CallInstruction)
		x := c.CallX(ci)
		for ai, arg := range x.Args {
			if ai == 0 || !strings.HasPrefix(typeOfX(arg), "*") {
				continue
			}
			nRestore++
			var ls []*X
			leaves(arg, 0, &ls)
			bad := ""
			for _, l := range ls {
				switch {
				case aliasOfState(l):
					bad = "the live field " + l.String() + " itself"
				case l.Op == "call" && l.Callee != nil && l.Callee.Pkg == fetch.SSA.Pkg:
					for _, b := range l.Callee.Blocks {
						if ret, ok := b.Instrs[len(b.Instrs)-1].(*ssa.Return); ok && len(ret.Results) > 0 {
							if r := c.RetX(ret, 0); aliasOfState(r) {
								bad = "the address of the live field returned by " + c.short(l.Callee.String())
							}
						}
					}
				}
			}
			key := c.short(fetch.SSA.String()) + " › restore source"
			c.Check(bad == "", "C04.E5-restore-from-snapshot", key, in.Pos(), "the value put back on failure is a copy taken before the switch (or nil: nothing to undo)", "the restoring call is handed "+bad+": the state saved for the undo aliases the state that the fallback then overwrites, so a failed request leaves the client on the legacy path")
		}
	})
	if n > 0 {
		// state kept behind an atomic pointer is replaced, never edited: what Load hands out may be the very object a
	// saved "go back to" pointer refers to — writing through it changes the saved state as well, and restoring it
	// restores nothing
	{
		bad := token.NoPos
		for _, f := range c.Funcs(ipnisyncPkg) {
			instrsDeep(f.SSA, func(_ *ssa.Function, in ssa.Instruction) {
				st, ok := in.(*ssa.Store)
				if !ok {
					return
				}
				fa, isFA := st.Addr.(*ssa.FieldAddr)
				if !isFA {
					return
				}
				root := fa.X
				for d := 0; d < 4; d++ {
					if f2, ok := root.(*ssa.FieldAddr); ok {
						root = f2.X
						continue
					}
					break
				}
				if call, isCall := root.(*ssa.Call); isCall {
					if callee := call.Call.StaticCallee(); callee != nil && strings.HasPrefix(callee.Name(), "Load") && strings.Contains(callee.String(), "sync/atomic.Pointer") {
						bad = st.Pos()
					}
				}
			})
		}
		c.Check(!bad.IsValid(), "C04.E5-restore-from-snapshot", "ipnisync › atomically published state is copied before it is changed", token.NoPos, "no field is written through a pointer obtained from an atomic Load", "a field is written through the pointer an atomic Load returned (at "+c.pos(bad)+"): the object is shared with whoever loaded it before — a saved copy of the state to go back to is edited along with the live one")
	}
	c.Floor("C04.E5-restore-from-snapshot", 1)
	}
}

// callsOnlyFrom reports whether every static call site of fn lies in caller.
func callsOnlyFrom(c *Ctx, fn, caller *ssa.Function) bool {
	n := 0
	ok := true
	for _, rel := range c.repoPkgs() {
		for _, f := range c.Funcs(rel) {
			instrsDeep(f.SSA, func(g *ssa.Function, in ssa.Instruction) {
				if ci, isCall := in.(ssa.CallInstruction); isCall && ci.Common().StaticCallee() == fn {
					n++
					if topFunc(g) != caller {
						ok = false
					}
				}
			})
		}
	}
	return ok && n > 0
}
