package main

import (
	"go/token"

	"golang.org/x/tools/go/ssa"
)

// BlockOp is a potentially blocking channel/wait operation in a function.
type BlockOp struct {
	Kind   string // "send", "recv", "select", "wait", "range"
	In     ssa.Instruction
	Fn     *ssa.Function
	Chan   *X // for send/recv/range
	States []SelState
	Pos    token.Pos
}

// SelState is one communication clause of a select.
type SelState struct {
	Send bool
	Chan *X
}

// BlockingOps lists the blocking operations of fn and its nested literals:
// channel sends/receives outside select, selects without default, ranges
// over channels and WaitGroup.Wait calls. Mutex acquisition is handled by
// the pairing rule, not here.
func (c *Ctx) BlockingOps(fn *ssa.Function) []BlockOp {
	var out []BlockOp
	instrsDeep(fn, func(g *ssa.Function, in ssa.Instruction) {
		switch in := in.(type) {
		case *ssa.Send:
			out = append(out, BlockOp{Kind: "send", In: in, Fn: g, Chan: c.E(in.Chan), Pos: in.Pos()})
		case *ssa.UnOp:
			if in.Op == token.ARROW {
				out = append(out, BlockOp{Kind: "recv", In: in, Fn: g, Chan: c.E(in.X), Pos: in.Pos()})
			}
		case *ssa.Select:
			if !in.Blocking {
				return
			}
			op := BlockOp{Kind: "select", In: in, Fn: g, Pos: in.Pos()}
			for _, st := range in.States {
				op.States = append(op.States, SelState{Send: st.Dir == 1 /* types.SendOnly */, Chan: c.E(st.Chan)})
			}
			out = append(out, op)
		case *ssa.Range:
			if _, ok := in.X.Type().Underlying().(interface{ Dir() int }); ok {
				_ = ok
			}
		case ssa.CallInstruction:
			if sc := in.Common().StaticCallee(); sc != nil && sc.String() == "(*sync.WaitGroup).Wait" {
				out = append(out, BlockOp{Kind: "wait", In: in, Fn: g, Chan: c.CallX(in).Args[0], Pos: in.Pos()})
			}
		}
	})
	return out
}

// HasCase reports whether a select has a clause on a channel matching pat.
func (op BlockOp) HasCase(send bool, pat P) bool {
	for _, s := range op.States {
		if s.Send == send {
			if _, ok := Match(pat, s.Chan); ok {
				return true
			}
		}
	}
	return false
}

// CaseIndex returns the index of the first clause matching, or -1.
func (op BlockOp) CaseIndex(send bool, pat P) int {
	for i, s := range op.States {
		if s.Send == send {
			if _, ok := Match(pat, s.Chan); ok {
				return i
			}
		}
	}
	return -1
}

// ctxDone matches <ctx>.Done() for any context value.
func ctxDone() P { return Invoke("context.Context.Done") }
