package main

import (
	"go/token"

	"golang.org/x/tools/go/ssa"
)

// BlockOp is a potentially blocking channel/wait operation in a function.
type BlockOp struct {
	Kind   string // "send", "recv", "select", "wait", "range"
	In     ssa.Instruction
	Fn     *ssa.Function
	Chan   *X // for send/recv/range
	States []SelState
	Pos    token.Pos
}

// SelState is one communication clause of a select.
type SelState struct {
	Send bool
	Chan *X
}

// BlockingOps lists the blocking operations of fn and its nested literals:
// channel sends/receives outside select, selects without default, ranges
// over channels and WaitGroup.Wait calls. Mutex acquisition is handled by
// the pairing rule, not here.
func (c *Ctx) BlockingOps(fn *ssa.Function) []BlockOp {
	var out []BlockOp
	instrsDeep(fn, func(g *ssa.Function, in ssa.Instruction) {
		switch in := in.(type) {
		case *ssa.Send:
			out = append(out, BlockOp{Kind: "send", In: in, Fn: g, Chan: c.E(in.Chan), Pos: in.Pos()})
		case *ssa.UnOp:
			if in.Op == token.ARROW {
				out = append(out, BlockOp{Kind: "recv", In: in, Fn: g, Chan: c.E(in.X), Pos: in.Pos()})
			}
		case *ssa.Select:
			if !in.Blocking {
				return
			}
			op := BlockOp{Kind: "select", In: in, Fn: g, Pos: in.Pos()}
			for _, st := range in.States {
				op.States = append(op.States, SelState{Send: st.Dir == 1 /* types.SendOnly */, Chan: c.E(st.Chan)})
			}
			out = append(out, op)
		case *ssa.Range:
			if _, ok := in.X.Type().Underlying().(interface{ Dir() int }); ok {
				_ = ok
			}
		case ssa.CallInstruction:
			if sc := in.Common().StaticCallee(); sc != nil && sc.String() == "(*sync.WaitGroup).Wait" {
				out = append(out, BlockOp{Kind: "wait", In: in, Fn: g, Chan: c.CallX(in).Args[0], Pos: in.Pos()})
			}
		}
	})
	return out
}

// HasCase reports whether a select has a clause on a channel matching pat.
func (op BlockOp) HasCase(send bool, pat P) bool {
	for _, s := range op.States {
		if s.Send == send {
			if _, ok := Match(pat, s.Chan); ok {
				return true
			}
		}
	}
	return false
}

// CaseIndex returns the index of the first clause matching, or -1.
func (op BlockOp) CaseIndex(send bool, pat P) int {
	for i, s := range op.States {
		if s.Send == send {
			if _, ok := Match(pat, s.Chan); ok {
				return i
			}
		}
	}
	return -1
}

// ctxDone matches <ctx>.Done() for any context value.
func ctxDone() P { return Invoke("context.Context.Done") }

// SendSite is a channel send (plain or as a select clause), lifted out of
// unexported helpers: when the channel is a parameter of a helper all of whose
// call sites are known, the site is reported once per call site, in the
// caller's terms.
type SendSite struct {
	Fn       *ssa.Function   // function the send belongs to after lifting
	At       ssa.Instruction // the send/select, or the helper call it was lifted to
	Chan     *X
	Val      *X
	Pos      token.Pos
	InSelect bool
}

func (c *Ctx) SendSites(rel string) []SendSite {
	var out []SendSite
	var lift func(s SendSite, d int)
	lift = func(s SendSite, d int) {
		ch := strip(s.Chan)
		p, isParam := ch.V.(*ssa.Parameter)
		if v := strip(s.Val); !(isParam && p.Parent() == s.Fn) && v != nil && (v.Op == "param" || ParamLike()(v, nil)) && (s.Fn.Parent() != nil || c.outermost(s.Fn) != s.Fn) {
			// a closure, or a phase of one routine (single caller), that sends its parameter: the send is looked at where it is called
			if vp, ok := v.V.(*ssa.Parameter); ok && vp.Parent() == s.Fn {
				ch, p, isParam = v, vp, true
			} else if v.Op != "param" {
				// the parameter's spill cell
				al := v.Cell
				if al == nil {
					al, _ = v.V.(*ssa.Alloc)
				}
				if al != nil {
					for _, pp := range s.Fn.Params {
						if pp.Name() == al.Comment {
							ch, p, isParam = &X{Op: "param", Name: pp.Name(), V: pp}, pp, true
						}
					}
				}
			}
		}
		if d < 2 && ch.Op == "param" && isParam && p.Parent() == s.Fn {
			if sites, known := c.staticCallSites(s.Fn); known && len(sites) > 0 {
				for _, site := range sites {
					env := c.callEnv(site, s.Fn, nil)
					lift(SendSite{Fn: site.Parent(), At: site, Chan: subst(s.Chan, env), Val: subst(s.Val, env), Pos: site.Pos(), InSelect: s.InSelect}, d+1)
				}
				return
			}
		}
		out = append(out, s)
	}
	for _, f := range c.Funcs(rel) {
		instrsDeep(f.SSA, func(g *ssa.Function, in ssa.Instruction) {
			switch in := in.(type) {
			case *ssa.Send:
				lift(SendSite{Fn: g, At: in, Chan: c.E(in.Chan), Val: c.E(in.X), Pos: in.Pos()}, 0)
			case *ssa.Select:
				for _, st := range in.States {
					if st.Send != nil {
						lift(SendSite{Fn: g, At: in, Chan: c.E(st.Chan), Val: c.E(st.Send), Pos: in.Pos(), InSelect: true}, 0)
					}
				}
			}
		})
	}
	return out
}
