// ipnicheck decides structural necessary conditions of the given properties
// of ipni/go-libipni from the source of /repo's current working tree. It
// never executes repository code.
package main

import (
	"flag"
	"fmt"
	"os"
	"runtime/debug"
	"sort"
	"strings"
	"time"

	"golang.org/x/tools/go/ssa"
)

type propSpec struct {
	id          string
	run         func(c *Ctx)
	explanation string
	assumptions []string
}

var registry = map[string]*propSpec{}

func register(p *propSpec) { registry[p.id] = p }

func main() {
	prop := flag.String("property", "", "property id (C01..C20)")
	tier := flag.String("tier", "quick", "quick|thorough")
	repo := flag.String("repo", "/repo", "repository root")
	verif := flag.String("verif", "/verif", "verif root (evidence, known findings)")
	out := flag.String("out", "", "directory for evidence/ (default: the verif root)")
	dump := flag.String("dump", "", "debug: dump calls and facts of pkg:Func")
	explain := flag.String("explain", "", "replay: print the obligation stored in this violation file, re-derived")
	list := flag.Bool("list", false, "list implemented properties")
	dumpSt := flag.String("dump-ref", "", "structs|funcs: print the reference table of struct declarations / unexported functions (checker/ref_*.json)")
	verbose := flag.Bool("v", false, "print every obligation")
	flag.Parse()

	if *list {
		var ids []string
		for id := range registry {
			ids = append(ids, id)
		}
		sort.Strings(ids)
		fmt.Println(strings.Join(ids, " "))
		return
	}

	start := time.Now()
	if *dumpSt != "" {
		c, err := load(*repo, false)
		if err != nil {
			fmt.Println("LOAD FAILED:", err)
			os.Exit(2)
		}
		if *dumpSt == "funcs" {
			dumpFuncs(c)
		} else if *dumpSt == "wire" {
			dumpWire(c)
		} else {
			dumpStructs(c)
		}
		return
	}
	if *dump != "" {
		c, err := load(*repo, false)
		if err != nil {
			fmt.Println("LOAD FAILED:", err)
			os.Exit(2)
		}
		dumpFunc(c, *dump)
		return
	}
	spec := registry[*prop]
	if spec == nil {
		fmt.Printf("unknown or unimplemented property %q\n", *prop)
		os.Exit(2)
	}
	allDeps := *tier == "thorough" && (needsDeps[*prop] || len(sinks[*prop]) > 0)
	c, err := load(*repo, allDeps)
	if err != nil {
		// A tree that does not load cannot be analysed: broken check, not a
		// verdict on the property.
		fmt.Println("LOAD FAILED:", err)
		os.Exit(2)
	}
	c.Prop, c.Tier, c.VerifD, c.explain = *prop, *tier, *verif, *explain
	c.OutD = *verif
	if *out != "" {
		c.OutD = *out
	}
	code := func() (code int) {
		defer func() {
			if r := recover(); r != nil {
				// A panic inside a rule is an undecided obligation, never a pass.
				c.add("INTERNAL", "panic", 0, Undecided, fmt.Sprintf("checker panic: %v\n%s", r, debug.Stack()))
			}
		}()
		spec.run(c)
		if c.Tier == "thorough" {
			c.wholeProgramCallers()
			c.bceCrossCheck()
		}
		return 0
	}()
	_ = code
	if *verbose {
		for _, o := range c.obls {
			fmt.Printf("  %-10s [%s] %s %s — %s\n", o.Status, o.Rule, o.Key, o.Pos, o.Why)
		}
	}
	exit := c.finish(start, spec.explanation, spec.assumptions)
	if *explain != "" {
		explainObligation(c, *explain)
	}
	os.Exit(exit)
}

// needsDeps lists the properties whose thorough tier analyses dependency source.
var needsDeps = map[string]bool{}

func explainObligation(c *Ctx, path string) {
	b, err := os.ReadFile(path)
	if err != nil {
		fmt.Println("cannot read", path, err)
		return
	}
	fmt.Printf("--- stored violation %s ---\n%s\n--- re-derived on the current tree ---\n", path, b)
	for _, o := range c.obls {
		if o.Status != Discharged {
			fmt.Printf("%s [%s] %s %s: %s\n", o.Status, o.Rule, o.Key, o.Pos, o.Why)
			for _, p := range o.Path {
				fmt.Println("    path:", p)
			}
		}
	}
}

func dumpFunc(c *Ctx, spec string) {
	i := strings.Index(spec, ":")
	if i < 0 {
		fmt.Println("usage: -dump pkg:Func")
		return
	}
	fn := c.Func(spec[:i], spec[i+1:])
	if fn == nil {
		fmt.Println("not found")
		return
	}
	for _, g := range allFuncs(fn.SSA) {
		fmt.Printf("=== %s\n", g)
		for _, b := range g.Blocks {
			fmt.Printf(" block %d (%s) preds=%v succs=%v\n", b.Index, b.Comment, idx(b.Preds), idx(b.Succs))
			for _, f := range c.FactsAt(b) {
				fmt.Printf("    fact %v: %s\n", f.Val, f.Cond)
			}
			for _, in := range b.Instrs {
				switch in := in.(type) {
				case ssa.CallInstruction:
					fmt.Printf("    %s: %T %s\n", c.pos(in.Pos()), in, c.CallX(in))
				case *ssa.Store:
					fmt.Printf("    %s: store %s <- %s\n", c.pos(in.Pos()), c.E(in.Addr), c.E(in.Val))
				case *ssa.Return:
					var rs []string
					for i := range in.Results {
						rs = append(rs, c.RetX(in, i).String())
					}
					fmt.Printf("    %s: return %s\n", c.pos(in.Pos()), strings.Join(rs, " ; "))
				case *ssa.If:
					fmt.Printf("    if %s\n", c.E(in.Cond))
				case *ssa.MapUpdate:
					fmt.Printf("    %s: mapupdate %s[%s] = %s\n", c.pos(in.Pos()), c.E(in.Map), c.E(in.Key), c.E(in.Value))
				case *ssa.Send:
					fmt.Printf("    %s: send %s <- %s\n", c.pos(in.Pos()), c.E(in.Chan), c.E(in.X))
				}
			}
		}
	}
}

func idx(bs []*ssa.BasicBlock) []int {
	var out []int
	for _, b := range bs {
		out = append(out, b.Index)
	}
	return out
}
