package main

import (
	"go/types"
	"go/token"
	"strings"

	"golang.org/x/tools/go/ssa"
)

func init() {
	register(&propSpec{
		id:  "C14",
		run: runC14,
		explanation: "Structural necessary conditions of 'every sync notification reaches every registered listener once, in order', decided on SSA of package dagsync: " +
			"(N1) the channel a listener registers with the distributor is always the input side of an unbounded chanqueue created without capacity options, so forwarding never blocks on a reader; " +
			"(N2) in the success notifier the latest-synced store precedes the event send and both use the same CID; " +
			"(N3) the only senders on the event channel are the success notifier and the announce failure path, the only closer is the shutdown routine, the only receiver is the distributor; " +
			"(N4) the distributor owns the listener list (a local of its function, reached by no other function); an event is sent unconditionally to every element of the list in list order (no break, no select/default, no filter); when the event channel closes every listener channel is closed and the function returns; removal closes exactly the removed channel after taking it off the list; registrations and removals are served by the same loop (so they are ordered with events); " +
			"(N5) the event's fields come from the sync's own values (CID, handler's peer, counted blocks; the error for failures). " +
			"Exactly-once delivery and per-publisher order over all schedules are history properties and are not decided; the per-publisher order under concurrent syncs of one publisher is affected by known finding F15 (C08).",
		assumptions: []string{"gammazero/chanqueue with no capacity option is unbounded and preserves order", "channel FIFO semantics"},
	})
}

func runC14(c *Ctx) {
	c.Trust("go/ssa", "gammazero/chanqueue (unbounded, order preserving)")

	// ---- N1 listener channel = input side of an unbounded queue --------------------------
	listenerQueuesUnbounded(c, "C14.N1-unbounded-listener")
	c.Floor("C14.N1-unbounded-listener", 2)

	// ---- N3b the count an event carries is the number of blocks handed to the hook during that sync ---------------
	if inc := hookCounterInc(c); inc != nil {
		others := counterOtherWrites(c, inc)
		c.Check(len(others) == 0, "C14.N3-count-accumulates", c.short(inc.Parent().String())+" › block counter", inc.Pos(),
			"the counter reported in SyncFinished.Count is written only by its per-block increment", "the block counter is also written at "+strings.Join(others, ", ")+" (e.g. reset per segment): SyncFinished.Count is not the number of blocks synced")
	} else {
		c.Unk("C14.N3-count-accumulates", "dagsync › hook wrapper", token.NoPos, "per-block counter increment not found")
	}
	c.Floor("C14.N3-count-accumulates", 1)
	// …and the blocks handed to the hook are those of this traversal alone: the list replayed is the result of this
	// sync's own walk (on its err == nil edge), not state of the sync client that survives a failed sync
	hookAfterWalk(c, "C14.N3-count-is-this-syncs-blocks")
	// …counted by the one handler of that publisher (a second handler overwrites and deletes the count hook)
	handlerExpiryRefreshed(c, "C14.N3-one-handler-per-publisher")
	handlerLookupCreateAtomic(c, "C14.N3-handler-created-once")
	c.Floor("C14.N3-count-is-this-syncs-blocks", 1)

	// ---- N1b registration is a handshake: the add/remove channels are unbuffered, so OnSyncFinished returns only
	// after the distributor has taken the listener (a buffered channel lets a sync that finishes right after
	// registration be distributed before the listener is added)
	for _, f := range c.Funcs(dagsyncPkg) {
		instrs(f.SSA, func(in ssa.Instruction) {
			st, ok := in.(*ssa.Store)
			if !ok {
				return
			}
			a := c.E(st.Addr)
			if a.Op != "field" || a.Name != "addEventChan" || fieldOwner(a) != "Subscriber" {
				return
			}
			mk, isMk := unwrapV(st.Val).(*ssa.MakeChan)
			sz := int64(-1)
			if isMk {
				if k, ok := constInt(c.E(mk.Size)); ok {
					sz = k
				}
			}
			c.Check(isMk && sz == 0, "C14.N1-registration-handshake", f.Name+" › "+a.Name, st.Pos(), "listener registration channel is unbuffered", "listener registration channel is not an unbuffered channel made here: registering no longer waits for the distributor, so a listener registered before a sync finished can miss its notification")
		})
	}
	c.Floor("C14.N1-registration-handshake", 1)
	// what is queued for a listener is the listener's: inside the package the output side of a listener queue is only
	// handed out, never received from (draining it on cancel swallows notifications that were already queued)
	nOut := 0
	for _, f := range c.Funcs(dagsyncPkg) {
		instrsDeep(f.SSA, func(g *ssa.Function, in ssa.Instruction) {
			var chans []ssa.Value
			switch in := in.(type) {
			case *ssa.UnOp:
				if in.Op == token.ARROW {
					chans = append(chans, in.X)
				}
			case *ssa.Select:
				for _, st := range in.States {
					if st.Send == nil {
						chans = append(chans, st.Chan)
					}
				}
			}
			for _, ch := range chans {
				if _, m := Match(CallLike([]string{"chanqueue.ChanQueue[", ").Out["}), c.E(ch)); m {
					nOut++
					c.Bad("C14.N6-queued-notifications-kept", c.short(topFunc(g).String())+" › receives from a listener queue", in.Pos(), "the package itself receives from the output side of a listener's queue: notifications already queued for that listener are consumed by the library instead of being delivered")
				}
			}
		})
	}
	if nOut == 0 {
		c.OK("C14.N6-queued-notifications-kept", "dagsync › listener queue outputs", token.NoPos, "no receive from a listener queue's output inside the package (it is only returned to the listener)")
	}
	c.Floor("C14.N6-queued-notifications-kept", 1)

	// ---- N2/N3/N5 senders -----------------------------------------------------------------------
	var sendFns []*ssa.Function
	for _, f := range c.Funcs(dagsyncPkg) {
		instrsDeep(f.SSA, func(g *ssa.Function, in ssa.Instruction) {
			snd, ok := in.(*ssa.Send)
			if !ok {
				return
			}
			if x := c.E(snd.Chan); x.Op != "field" || x.Name != "inEvents" {
				return
			}
			sendFns = append(sendFns, g)
			key := c.short(topFunc(g).String()) + " › event send"
			ev := c.E(snd.X)
			if ev.Op != "complit" {
				c.Bad("C14.N3-who-sends", key, snd.Pos(), "event sent is not a SyncFinished literal built here: "+ev.String())
				return
			}
			fields := map[string]*X{}
			for _, fi := range ev.Args {
				fields[fi.Name] = fi.Args[0]
			}
			var setLatest ssa.Instruction
			var setX *X
			instrs(g, func(o ssa.Instruction) {
				if ci, ok := o.(ssa.CallInstruction); ok {
					if x := c.CallX(ci); x.Callee != nil && x.Callee == c.Role("latest.set") {
						setLatest, setX = o, x
					}
				}
			})
			peerOK := fields["PeerID"] != nil && fields["PeerID"].Op == "field" && fields["PeerID"].Name == "peerID"
			if c08Classify(c, g) == "unified" && setLatest != nil {
				// one routine for both outcomes: the event's Err is the error it is handed, and the latest-synced value is
				// stored — before the send, the same CID for the same publisher — only where that error is nil
				c.OK("C14.N3-who-sends", key+" (success)", snd.Pos(), "the notifier for both outcomes, handed a nil error")
				c.OK("C14.N3-who-sends", key+" (failure)", snd.Pos(), "the notifier for both outcomes, handed the sync's error")
				_, onNil := c.Guarded(setLatest, EqNil(Is(fields["Err"])), true)
				c.Check(onNil, "C14.N2-latest-before-event", key+" (failure) › latest untouched", snd.Pos(), "the latest-synced value is stored only on the nil edge of the error handed in", "failure path stores a latest-synced value")
				c.Check(MayFollow(setLatest, snd) && !MayFollow(snd, setLatest), "C14.N2-latest-before-event", key+" › store ≺ send", snd.Pos(), "latest-synced value stored before the event is sent", "event sent before the latest-synced value is stored: a listener reacting to it reads a stale value")
				sameCid := fields["Cid"] != nil && len(setX.Args) >= 3 && Same(setX.Args[2], fields["Cid"])
				samePeer := peerOK && len(setX.Args) >= 2 && Same(setX.Args[1], fields["PeerID"])
				c.Check(sameCid && samePeer, "C14.N2-latest-before-event", key+" › same CID and publisher", snd.Pos(), "the value stored and the value announced are the same CID for the same publisher", "event announces a different CID/publisher than the one stored as latest")
				cidOK := fields["Cid"] != nil && fields["Cid"].Op == "param"
				cntOK := fields["Count"] != nil && fields["Count"].Op == "param"
				c.Check(peerOK && cidOK && cntOK, "C14.N5-event-fields", key+" (success)", snd.Pos(), "event carries the notifier's CID and count parameters and the handler's publisher", "success event fields do not come from the finished sync")
				// a failure carries no count: every call site that hands in an error hands in the constant 0
				zeroCnt, nFailSites := true, 0
				if sites, known := c.staticCallSites(g); known {
					for _, site := range sites {
						if c08ClassifySite(c, site) != "failure" {
							continue
						}
						nFailSites++
						for i, prm := range g.Params {
							if cp, isP := fields["Count"].V.(*ssa.Parameter); isP && prm == cp && i < len(site.Common().Args) {
								if k, isC := site.Common().Args[i].(*ssa.Const); !isC || k.Value == nil || k.Value.ExactString() != "0" {
									zeroCnt = false
								}
							}
						}
					}
				}
				c.Check(peerOK && cidOK && zeroCnt && nFailSites > 0, "C14.N5-event-fields", key+" (failure)", snd.Pos(),
					"event carries the announced CID, the handler's publisher and the error; no count", "failure event fields do not come from the failed sync")
				return
			}
			if fields["Err"] != nil {
				// failure path
				c.OK("C14.N3-who-sends", key+" (failure)", snd.Pos(), "announce failure path")
				c.Check(setLatest == nil, "C14.N2-latest-before-event", key+" (failure) › latest untouched", snd.Pos(), "failure path does not store a latest-synced value", "failure path stores a latest-synced value")
				cidOK := fields["Cid"] != nil && fields["Cid"].Op == "param"
				errOK := fields["Err"].Op == "param"
				c.Check(peerOK && cidOK && errOK && fields["Count"] == nil, "C14.N5-event-fields", key+" (failure)", snd.Pos(),
					"event carries the announced CID, the handler's publisher and the error; no count", "failure event fields do not come from the failed sync")
				return
			}
			c.OK("C14.N3-who-sends", key+" (success)", snd.Pos(), "success notifier")
			if setLatest == nil {
				c.Bad("C14.N2-latest-before-event", key, snd.Pos(), "success event sent without storing the latest-synced value")
				return
			}
			c.Check(Precedes(setLatest, snd), "C14.N2-latest-before-event", key+" › store ≺ send", snd.Pos(), "latest-synced value stored before the event is sent", "event sent before the latest-synced value is stored: a listener reacting to it reads a stale value")
			sameCid := fields["Cid"] != nil && len(setX.Args) >= 3 && Same(setX.Args[2], fields["Cid"])
			samePeer := peerOK && len(setX.Args) >= 2 && Same(setX.Args[1], fields["PeerID"])
			c.Check(sameCid && samePeer, "C14.N2-latest-before-event", key+" › same CID and publisher", snd.Pos(), "the value stored and the value announced are the same CID for the same publisher", "event announces a different CID/publisher than the one stored as latest")
			cntOK := fields["Count"] != nil && fields["Count"].Op == "param"
			if !cntOK && fields["Count"] != nil && ParamSlot()(fields["Count"], nil) {
				cntOK = true // a field of the result struct the notifier is given
			}
			c.Check(peerOK && cntOK && ParamSlot()(fields["Cid"], nil), "C14.N5-event-fields", key+" (success)", snd.Pos(), "event carries the notifier's CID and count parameters and the handler's publisher", "success event fields do not come from the finished sync")
		})
	}
	// a notification must not be droppable: no select offers the event send as one alternative among others
	for _, f := range c.Funcs(dagsyncPkg) {
		instrsDeep(f.SSA, func(g *ssa.Function, in ssa.Instruction) {
			if sel, ok := in.(*ssa.Select); ok {
				for _, st := range sel.States {
					if x := c.E(st.Chan); x.Op == "field" && x.Name == "inEvents" && st.Send != nil {
						c.Bad("C14.N3-who-sends", c.short(topFunc(g).String())+" › event send in select", sel.Pos(),
							"the event send is one alternative of a select: the notification of a finished sync can be dropped although its latest-synced value was recorded")
					}
				}
			}
		})
	}
	c.Floor("C14.N3-who-sends", 2)
	// every announce-triggered sync that was started ends in exactly one notification — also one that fails while the
	// subscriber is closing (listeners get the error, then their channel closes)
	{
		n := 0
		for _, f := range c.Funcs(dagsyncPkg) {
			for _, cs := range c.Calls(f.SSA, Call("Swap[announce.Announce]")) {
				if len(cs.X.Args) < 2 || cs.X.Args[1].Op != "nil" {
					continue
				}
				n++
				c08OneOutcome(c, "C14.N3-every-outcome-notified", topFunc(cs.Fn), cs)
			}
		}
		if n == 0 {
			c.Unk("C14.N3-every-outcome-notified", "dagsync › announce handler", token.NoPos, "no function takes the pending announcement")
		}
		c.Floor("C14.N3-every-outcome-notified", 3)
	}
	// the count notified is the number of blocks synced: the sync client hands every block it fetched to the hook —
	// the hook loop runs to the end of the list whatever happens meanwhile (left early, a finished sync is notified
	// with a smaller count and the remaining blocks are never reported)
	hookLoopVisitsAll(c, "C14.N3-count-accumulates")
	c.Floor("C14.N2-latest-before-event", 3)
	c.Floor("C14.N5-event-fields", 2)
	// callers of the success notifier pass the sync's own head and count
	syncedHeadRecorded(c, "C14.N5-event-fields", sendFns)

	// closers / receivers of the event channel
	for _, f := range c.Funcs(dagsyncPkg) {
		for _, cs := range c.Calls(f.SSA, Op("builtin", "close", Field("inEvents", Any()))) {
			isShutdown := len(c.Calls(cs.Fn, Op("builtin", "close", Field("closing", Any())))) > 0
			c.Check(isShutdown, "C14.N3-who-closes", c.short(topFunc(cs.Fn).String())+" › close(inEvents)", cs.In.Pos(), "event channel closed only by the shutdown routine", "event channel closed outside the shutdown routine")
		}
	}
	c.Floor("C14.N3-who-closes", 1)

	// ---- N4 the distributor ------------------------------------------------------------------------
	var dist *ssa.Function
	for _, f := range c.Funcs(dagsyncPkg) {
		for _, op := range c.BlockingOps(f.SSA) {
			if op.Kind == "select" && op.HasCase(false, Field("inEvents", Any())) {
				if dist != nil && dist != op.Fn {
					c.Bad("C14.N4-distributor", "dagsync › second receiver of inEvents", op.Pos, "more than one function receives from the event channel: events are split between them")
				}
				dist = op.Fn
			}
		}
		instrsDeep(f.SSA, func(g *ssa.Function, in ssa.Instruction) {
			if u, ok := in.(*ssa.UnOp); ok && u.Op == token.ARROW {
				if x := c.E(u.X); x.Op == "field" && x.Name == "inEvents" {
					c.Bad("C14.N4-distributor", c.short(topFunc(g).String())+" › bare receive from inEvents", u.Pos(), "event channel is read outside the distributor loop")
				}
			}
		})
	}
	if dist == nil {
		c.Unk("C14.N4-distributor", "dagsync › distributor", token.NoPos, "no function selects on the event channel")
		return
	}
	c14Distributor(c, dist)
	c.Floor("C14.N4-distributor", 6)
}

func c14Distributor(c *Ctx, dist *ssa.Function) {
	key := c.short(dist.String())
	var sel *ssa.Select
	instrs(dist, func(in ssa.Instruction) {
		if s, ok := in.(*ssa.Select); ok && sel == nil {
			sel = s
		}
	})
	if sel == nil {
		return
	}
	selX := c.E(sel)
	idx := map[string]int{"inEvents": -1, "addEventChan": -1, "rmEventChan": -1}
	for i, st := range sel.States {
		if x := c.E(st.Chan); x.Op == "field" {
			if _, ok := idx[x.Name]; ok {
				idx[x.Name] = i
			}
		}
	}
	c.Check(idx["inEvents"] >= 0 && idx["addEventChan"] >= 0 && idx["rmEventChan"] >= 0 && len(sel.States) == 3 && sel.Blocking,
		"C14.N4-distributor", key+" › one loop serves events, registrations and removals", sel.Pos(),
		"a single blocking select serves the event, registration and removal channels", "distributor select does not serve exactly {events, registrations, removals}")
	inCase := func(b *ssa.BasicBlock, i int) bool {
		_, ok := c.GuardedB(b, Bin("==", Extract("0", Is(selX)), Const(itoa(i))), true)
		return ok
	}
	// the listener list: the slice ranged over for sending
	var sends []*ssa.Send
	instrs(dist, func(in ssa.Instruction) {
		if s, ok := in.(*ssa.Send); ok {
			sends = append(sends, s)
		}
	})
	if len(sends) != 1 {
		c.Bad("C14.N4-distributor", key+" › forward", dist.Pos(), "expected exactly one forwarding send in the distributor")
		return
	}
	snd := sends[0]
	chx := c.E(snd.Chan)
	// (the list may hold the listeners' queues rather than their input channels: the send is then on In() of the element)
	if m, ok := Match(CallLike([]string{"chanqueue.ChanQueue[", ").In["}, Bind("q")), chx); ok {
		chx = strip(m["q"])
	}
	var list *X
	if chx.Op == "index" {
		list = chx.Args[0]
	}
	// forwarded value is the received event (extract of the select for the inEvents case)
	evx := c.E(snd.X)
	_, evOK := Match(Extract("", Is(selX)), evx)
	c.Check(evOK && inCase(snd.Block(), idx["inEvents"]), "C14.N4-distributor", key+" › forwards the received event", snd.Pos(),
		"the value forwarded is the one received from the event channel, in the event clause", "forwarded value is not the received event")
	// unconditional in the loop body: the send's block is a range body whose only predecessor is the loop head,
	// and the loop head's condition is the index bound (no filter between head and send)
	uncond := false
	if list != nil && len(snd.Block().Preds) == 1 {
		head := snd.Block().Preds[0]
		if iff, ok := head.Instrs[len(head.Instrs)-1].(*ssa.If); ok {
			cond := c.E(iff.Cond)
			if _, ok := Match(Bin("<", Any(), Op("builtin", "len", Is(list))), cond); ok && head.Succs[0] == snd.Block() {
				// body returns to the head only
				uncond = len(snd.Block().Succs) == 1 && snd.Block().Succs[0] == head
				if !uncond {
					// the send is the first thing the body does; what follows it (a log line under some test, say)
					// stays inside the loop: no block of the body leaves it
					for _, l := range naturalLoops(dist) {
						if l.Head != head || !l.Body[snd.Block()] {
							continue
						}
						uncond = true
						for u := range l.Body {
							if u == head {
								continue
							}
							for _, v := range u.Succs {
								if !l.Body[v] {
									uncond = false
								}
							}
							// nothing else in the body blocks or sends
							for _, in := range u.Instrs {
								switch in.(type) {
								case *ssa.Select, *ssa.Go, *ssa.Defer:
									uncond = false
								case *ssa.Send:
									if in != ssa.Instruction(snd) {
										uncond = false
									}
								}
							}
						}
					}
				}
			}
		}
	}
	c.Check(uncond, "C14.N4-distributor", key+" › every listener, in list order", snd.Pos(),
		"plain range over the listener list; the send is the whole loop body (no filter, break or default)", "forwarding loop can skip a listener (conditional send, break or non-blocking select)")
	// the list is local: a phi/alloc of this function, never stored to a field or passed to a call — or, when the
	// select lives in a step helper of the distributor loop, the helper's parameter: then private in the helper
	// (only handed back as its result) and a local of the loop that goes nowhere but into that helper
	escapesFrom := func(root ssa.Value, allowed *ssa.Function) bool {
		escapes := false
		seen := map[ssa.Value]bool{}
		var walk func(v ssa.Value)
		walk = func(v ssa.Value) {
			if seen[v] {
				return
			}
			seen[v] = true
			if refs := v.Referrers(); refs != nil {
				for _, r := range *refs {
					switch r := r.(type) {
					case *ssa.Store:
						if r.Val == v {
							escapes = true
						}
					case *ssa.Phi:
						walk(r)
					case *ssa.Slice:
						walk(r)
					case *ssa.Extract:
						walk(r)
					case ssa.CallInstruction:
						if b, ok := r.Common().Value.(*ssa.Builtin); ok && (b.Name() == "append" || b.Name() == "len") {
							if rv, ok := r.(ssa.Value); ok {
								walk(rv)
							}
						} else if sc := r.Common().StaticCallee(); sc != nil && readOnlySliceFunc(sc) {
							// read-only standard library search over the list
						} else if sc != nil && allowed != nil && sc == allowed {
							if rv, ok := r.(ssa.Value); ok {
								walk(rv) // what the step helper hands back is the list again
							}
						} else {
							escapes = true
						}
					case *ssa.MakeClosure:
						escapes = true
					}
				}
			}
		}
		walk(root)
		return escapes
	}
	local := list != nil && (list.Op == "phi" || list.Op == "var" || list.Op == "alloc")
	if local {
		if ph, ok := list.V.(*ssa.Phi); ok {
			local = !escapesFrom(ph, nil)
		}
	} else if list != nil {
		// rooted at a parameter of a step helper
		var prm *ssa.Parameter
		list.Find(func(y *X) bool {
			if p, ok := y.V.(*ssa.Parameter); ok && p.Parent() == dist {
				prm = p
			}
			return false
		})
		if p, ok := strip(list).V.(*ssa.Parameter); ok && p.Parent() == dist {
			prm = p
		}
		if outer := c.outermost(dist); prm != nil && outer != dist && !escapesFrom(prm, nil) {
			local = true
			sites, _ := c.staticCallSites(dist)
			for _, site := range sites {
				for i, a := range site.Common().Args {
					if i < len(dist.Params) && dist.Params[i] == prm {
						root := a
						if _, isPhi := root.(*ssa.Phi); !isPhi {
							if _, isConst := root.(*ssa.Const); !isConst {
								local = false
							}
						}
						if escapesFrom(root, dist) {
							local = false
						}
					}
				}
			}
			if len(sites) == 0 {
				local = false
			}
		}
	}
	c.Check(local, "C14.N4-distributor", key+" › listener list is private", snd.Pos(), "listener list is a local of the distributor, never stored or passed elsewhere", "listener list escapes the distributor goroutine")
	// registration appends to the same list
	appended := false
	instrs(dist, func(in ssa.Instruction) {
		if ci, ok := in.(*ssa.Call); ok {
			if b, ok := ci.Call.Value.(*ssa.Builtin); ok && b.Name() == "append" && inCase(ci.Block(), idx["addEventChan"]) {
				appended = true
			}
		}
	})
	c.Check(appended, "C14.N4-distributor", key+" › registration appends", sel.Pos(), "a registered channel is appended to the listener list in the registration clause", "registration clause does not add the channel to the list")
	// closed event channel: all listener channels closed, then return
	closedAll := false
	for _, cs := range c.Calls(dist, Op("builtin", "close")) {
		a := cs.X.Args[0]
		if a.Op == "index" && list != nil && inCase(cs.In.Block(), idx["inEvents"]) {
			// guarded by comma-ok false of the receive
			if _, ok := c.Guarded(cs.In, Extract("", Is(selX)), false); ok {
				closedAll = true
			}
		}
	}
	for _, cs := range c.Calls(dist, CallLike([]string{"chanqueue.ChanQueue[", ").Close["}, Any())) {
		if a := strip(cs.X.Args[0]); a != nil && a.Op == "index" && list != nil && Same(a.Args[0], list) && inCase(cs.In.Block(), idx["inEvents"]) {
			if _, ok := c.Guarded(cs.In, Extract("", Is(selX)), false); ok {
				closedAll = true // Close() of the queue closes its input side
			}
		}
	}
	c.Check(closedAll, "C14.N4-distributor", key+" › closes every listener on shutdown", sel.Pos(), "when the event channel is closed every listener channel is closed", "listener channels are not all closed when the event channel closes")
}

// readOnlySliceFunc: functions of package slices that only read their slice argument.
func readOnlySliceFunc(fn *ssa.Function) bool {
	if fn.Pkg == nil || fn.Pkg.Pkg.Path() != "slices" {
		// instantiations have no package of their own: look at the origin
		if o := fn.Origin(); o == nil || o.Pkg == nil || o.Pkg.Pkg.Path() != "slices" {
			return false
		}
	}
	name := fn.Name()
	if o := fn.Origin(); o != nil {
		name = o.Name()
	}
	switch name {
	case "Index", "IndexFunc", "Contains", "ContainsFunc", "Equal", "EqualFunc", "Max", "Min", "BinarySearch":
		return true
	}
	return false
}

// listenerQueuesUnbounded: the channel a listener registers with the
// distributor is the input side of an option-less (unbounded) chanqueue whose
// output side the listener reads. Shared by C14 (no event is lost or delayed
// behind a slow listener) and C15 (the distributor, and with it every sync
// and Close, never blocks on a listener that does not read).
func listenerQueuesUnbounded(c *Ctx, rule string) {
	nReg := 0
	// a listener's queue is ended with Close (what is queued is still delivered), never with Shutdown (which discards
	// it: notifications already accepted for a slow listener would vanish when it is cancelled)
	for _, f := range c.Funcs(dagsyncPkg) {
		for _, cs := range c.Calls(f.SSA, CallLike([]string{"chanqueue.ChanQueue[", ").Shutdown["}, Any())) {
			c.Bad(rule, c.short(topFunc(cs.Fn).String())+" › queue discarded", cs.In.Pos(), "a listener's queue is shut down rather than closed: the notifications still queued for it are discarded instead of delivered before its channel closes")
		}
	}
	{
		for _, ss := range c.SendSites(dagsyncPkg) {
			if cx := strip(ss.Chan); cx.Op != "field" || cx.Name != "addEventChan" {
				continue
			}
			g, in, pos := ss.Fn, ss.At, ss.Pos
			nReg++
			x := ss.Val
			if r := c.ReachingStore(x, in); r != nil {
				x = r
			}
			key := c.short(topFunc(g).String()) + " › registered channel"
			b, ok := Match(CallLike([]string{"chanqueue.ChanQueue[", ").In["}, BindP("q", CallLike([]string{"chanqueue.New["}))), x)
			isIn := ok && strings.Contains(strip(x).Name, ").In[")
			if !isIn {
				// the queue itself is registered (the distributor takes its input side when it forwards)
				if b2, ok2 := Match(BindP("q", CallLike([]string{"chanqueue.New["})), x); ok2 {
					b, isIn = b2, true
				}
			}
			if !isIn {
				c.Bad(rule, key, pos, "channel registered with the distributor is not the input side of a chanqueue: "+x.String())
				continue
			}
			// New called with no options (variadic slice is nil)
			noOpts := true
			for _, a := range b["q"].Args {
				if a.Op != "nil" {
					noOpts = false
				}
			}
			c.Check(noOpts, rule, key, pos, "listener channel is In() of chanqueue.New() with no capacity option (unbounded)",
				"listener queue is created with options (bounded or ring): a slow listener blocks the distributor or loses events")
			// the listener reads Out() of the same queue
			rets := 0
			for _, blk := range topFunc(g).Blocks {
				if r, ok := blk.Instrs[len(blk.Instrs)-1].(*ssa.Return); ok && len(r.Results) > 0 {
					rx := c.RetX(r, 0)
					if _, ok := Match(CallLike([]string{"chanqueue.ChanQueue[", ").Out["}, Is(b["q"])), rx); ok {
						rets++
					} else if m2, ok2 := Match(CallLike([]string{"chanqueue.ChanQueue[", ").Out["}, Bind("r")), rx); ok2 && rx.V != nil {
						// Out() taken early from the variable that holds the queue (which a later cancel may clear)
						rr := m2["r"]
						if at, isIn := rx.V.(ssa.Instruction); isIn {
							if v := c.ReachingStore(rr, at); v != nil {
								rr = v
							}
						}
						if Same(rr, b["q"]) {
							rets++
						} else {
							rets -= 100
						}
					} else {
						rets -= 100
					}
				}
			}
			c.Check(rets > 0, rule, key+" › returned channel", pos, "every return hands out Out() of the same queue", "a return path hands out a channel that is not the output side of the registered queue")
		}
	}
}

// syncedHeadRecorded: every call of the success notifier (which records the
// latest-synced CID — the stop point of the next sync — and notifies the
// listeners) passes the root CID the per-publisher sync routine was given and
// that routine's own count, on its err == nil edge. Shared by C14 (what is
// notified) and C01 (what the next sync stops at).
func syncedHeadRecorded(c *Ctx, rule string, sendFns []*ssa.Function) {
	handle := c15HandleFn(c)
	for _, sf := range sendFns {
		if k := c08Classify(c, sf); k != "success" && k != "unified" {
			continue
		}
		for _, f := range c.Funcs(dagsyncPkg) {
			instrs(f.SSA, func(in ssa.Instruction) {
				ci, ok := in.(ssa.CallInstruction)
				if !ok || ci.Common().StaticCallee() != sf || c08ClassifySite(c, ci) != "success" {
					return
				}
				x := c.CallX(ci)
				key := f.Name + " › success notification"
				// count = result 0 of the handler call whose error is nil here; cid = the cid given to it
				var hcall *X
				for _, a := range x.Args {
					if b, ok := Match(Extract("0", BindP("h", Op("call", ""))), a); ok {
						if hc, ok := b["h"].V.(*ssa.Call); ok && hc.Call.StaticCallee() == handle {
							hcall = b["h"]
						}
					}
				}
				if hcall == nil {
					c.Bad(rule, key, in.Pos(), "count passed to the success notifier is not the handler's result")
					return
				}
				// the per-publisher routine may hand back a result struct (head and count together) that is passed on
				// whole: then every success return of the routine fills its CID field with the root CID parameter
				// itself (not a variable the segment loop advances) — and the notifier reads the fields of what it is given
				if hc, ok := hcall.V.(*ssa.Call); ok && handle != nil && handle.Signature.Results().Len() == 2 {
					if _, isStruct := handle.Signature.Results().At(0).Type().Underlying().(*types.Struct); isStruct {
						_, g := c.Guarded(in, EqNil(Extract("1", Is(hcall))), true)
						okHead, n := true, 0
						var rootP *ssa.Parameter
						for _, p := range handle.Params {
							if strings.HasSuffix(types.Unalias(p.Type()).String(), "go-cid.Cid") && rootP == nil {
								rootP = p
							}
						}
						for _, hb := range handle.Blocks {
							ret, isRet := hb.Instrs[len(hb.Instrs)-1].(*ssa.Return)
							if !isRet || len(ret.Results) != 2 || c.RetX(ret, 1).Op != "nil" {
								continue
							}
							n++
							found := false
							for _, v := range c.CellFields(c.RetX(ret, 0)) {
								if v.V != nil && strings.HasSuffix(types.Unalias(v.V.Type()).String(), "go-cid.Cid") {
									found = rootP != nil && strip(v).V == ssa.Value(rootP)
									if sv := strip(v); !found && rootP != nil && ParamLike()(sv, nil) {
										// the parameter's spill cell (its address is taken): fine if it is assigned only once, from the parameter
										al := sv.Cell
										if al == nil {
											al, _ = sv.V.(*ssa.Alloc)
										}
										nSt := 0
										if al != nil && al.Referrers() != nil && al.Comment == rootP.Name() {
											for _, r := range *al.Referrers() {
												if st, isSt := r.(*ssa.Store); isSt && st.Addr == ssa.Value(al) {
													nSt++
												}
											}
										}
										found = nSt == 1
									}
								}
							}
							if !found {
								okHead = false
							}
						}
						_ = hc
						c.Check(g && okHead && n > 0, rule, key, in.Pos(), "the result struct notified is the routine's own, on its err == nil edge, and carries the root CID parameter itself",
							"success notification not tied to the sync that finished (the result handed on does not carry the root CID the routine was given, or is used on error)")
						return
					}
				}
				_, g := c.Guarded(in, EqNil(Extract("1", Is(hcall))), true)
				// the CID notified is the root CID the handler was given (positional, or in a parameter object — then
				// read back from it only if the handler cannot have written it)
				sameCid := false
				var root *X
				if hc, ok := hcall.V.(*ssa.Call); ok {
					root = slotOf(c.SlotArgs(CallSite{In: hc, Fn: f.SSA, X: hcall}), "go-cid.Cid", 0)
				}
				var isCid func(a *X) bool
				isCid = func(a *X) bool {
					if a == nil {
						return false
					}
					if a.V == nil && a.Op == "phi" {
						// a merge of the stores reaching a field read: typed like what is stored
						for _, e := range a.Args {
							if isCid(e) {
								return true
							}
						}
						return false
					}
					return a.V != nil && strings.HasSuffix(types.Unalias(a.V.Type()).String(), "go-cid.Cid")
				}
				for i, a := range x.Args {
					if i == 0 || root == nil || !(isCid(a) || isCid(root)) {
						continue
					}
					if Same(a, root) || (a.V != nil && a.V == root.V) {
						sameCid = true
					}
				}
				c.Check(g && sameCid, rule, key, in.Pos(), "notified CID is the one synced, count is the handler's result, call dominated by handler err == nil",
					"success notification not tied to the sync that finished (wrong CID/count or reachable on error)")
			})
		}
	}
}

// hookLoopVisitsAll: the loop in which the sync client calls the block hook is left only when the list of fetched
// blocks is exhausted. Shared by C14 and C01.
func hookLoopVisitsAll(c *Ctx, rule string) {
	sites := c.CallsInPkg("dagsync/ipnisync", Op("dyncall", "", Field("blockHook", Any())))
	n := 0
	for _, cs := range sites {
		call, ok := cs.In.(*ssa.Call)
		if !ok {
			continue
		}
		var loop *natLoop
		for _, l := range naturalLoops(call.Parent()) {
			if l.Body[call.Block()] && (loop == nil || len(l.Body) < len(loop.Body)) {
				loop = l
			}
		}
		if loop == nil {
			continue
		}
		n++
		bad := token.NoPos
		for u := range loop.Body {
			if u == loop.Head {
				continue
			}
			for _, v := range u.Succs {
				if !loop.Body[v] {
					bad = u.Instrs[len(u.Instrs)-1].Pos()
					if !bad.IsValid() {
						bad = call.Pos()
					}
				}
			}
		}
		c.Check(!bad.IsValid(), rule, c.short(call.Parent().String())+" › hook loop runs to the end", call.Pos(), "the loop over the fetched blocks is left only when they are exhausted", "the loop that hands fetched blocks to the hook can be left early (at "+c.pos(bad)+"): blocks that were fetched and stored are not reported, and the count notified is too small")
	}
	if n == 0 {
		c.Unk(rule, "ipnisync › hook loop", token.NoPos, "no loop calling the block hook found")
	}
}
