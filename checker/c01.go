package main

import (
	"go/token"
	"go/types"
	"strings"

	"golang.org/x/tools/go/ssa"
)

func init() {
	register(&propSpec{
		id:  "C01",
		run: runC01,
		explanation: "Structural necessary conditions of 'chain sync fetches and reports exactly the requested chain segment', decided on SSA: " +
			"(a) a block is requested over HTTP only on the failure edge of a local load of the same CID; the HTTP round trip has a single call site, reached with a CID-derived resource only from the verified block fetch; " +
			"(b) hooks replay the traversal order: the order slice has one append site, on the nil-error edge of the read, appending the CID of the link being opened; the hook is called in a forward range over exactly that slice after the walk returned nil; the subscriber-side wrapper counts once per hook call and passes the same CID on; " +
			"(c) one stop point: in every caller of the per-publisher sync the stop CID handed to it is the CID of the very link given to the selector builder, absent together; the selector builder attaches the stop condition iff a stop link is given, with that link; " +
			"(e) the segmented loop re-tests, after every segment and before the next, in this order: hook failure, no next CID / undefined, next == stop (when a stop is defined), depth exhausted (in depth mode); each test leaves the loop on its positive edge; the next segment starts at the CID the hook set, read before the per-segment reset; the depth of the next segment is derived from (limit − depth synced so far) where the latter accumulates each segment's depth; " +
			"(f) choice of stop point and limit: the 'head equals stop point' test guards the sync on every path that has a stop link, for explicit and queried heads alike; the explicit stop wins, else the latest-synced value unless resync; the scoped limit wins, else first-sync depth iff there is no stop link, else the subscriber's; the latest-synced value is updated only when the head was queried; " +
			"(g) rewriting the selector's limit copies every other entry. " +
			"Equality of the reported set with the chain segment, counts, the correctness of the depth arithmetic's bounds, independence from pre-stored subsets and ipld-prime's selector semantics are not decided.",
		assumptions: []string{"ipld-prime traverses links in selector order and honours the stop condition and recursion limit", "the local store's Load fails exactly when the block is absent"},
	})
}

func runC01(c *Ctx) {
	c.Trust("go/ssa dominators", "ipld-prime traversal and selector semantics", "go-cid")
	c01NoRefetch(c)
	c01HookOrder(c)
	c01StopPoint(c)
	c01SegmentLoop(c)
	c01Choice(c)
	c01SelectorRewrite(c)
	c01StockHookAndVariants(c)
	// (i) the hook slot and the count belong to one handler per publisher, and the stop point is never forgotten
	handlerLookupCreateAtomic(c, "C01.i-one-handler-per-publisher")
	c01LatestNeverForgotten(c)
}

// c01LatestNeverForgotten: the latest-synced record is the stop point of the
// next sync ("back to, but excluding, the publisher's last synced
// advertisement"): it is only ever replaced by a newer value, never deleted.
func c01LatestNeverForgotten(c *Ctx) {
	del := Or(Call("sync.Map).Delete"), Call("sync.Map).LoadAndDelete"), Call("sync.Map).CompareAndDelete"), Call("sync.Map).Clear"))
	find := func(cc *Ctx, fns []*Fn) []CallSite {
		var out []CallSite
		for _, f := range fns {
			for _, cs := range cc.Calls(f.SSA, del) {
				if len(cs.X.Args) > 0 {
					m := strip(cs.X.Args[0])
					if m.Op == "field" && fieldOwner(m) == "latestSyncHandler" {
						out = append(out, cs)
					}
				}
			}
		}
		return out
	}
	sites := find(c, c.Funcs(dagsyncPkg))
	for _, cs := range sites {
		c.Bad("C01.c-latest-sync-never-forgotten", c.short(topFunc(cs.Fn).String())+" › delete", cs.In.Pos(), "the recorded latest sync of a publisher is deleted: the next sync of that publisher has no stop point and hands the stop block and everything older to the hook again")
	}
	if len(sites) == 0 {
		c.OK("C01.c-latest-sync-never-forgotten", "dagsync › latest-sync record", token.NoPos, "no deletion from the latest-sync record anywhere in the package")
	}
	if pc := c.posex(); pc == nil {
		c.Unk("C01.c-latest-sync-never-forgotten", "positive example", token.NoPos, "positive example package could not be loaded")
	} else {
		c.Check(len(find(pc, pc.Funcs("ipnicheck/testdata/posex"))) == 1, "C01.c-latest-sync-never-forgotten", "positive example fires", token.NoPos, "rule finds the seeded deletion in the embedded example", "rule did not fire on its positive example: it would pass vacuously")
	}
	c.Floor("C01.c-latest-sync-never-forgotten", 2)
}

// (a)
func c01NoRefetch(c *Ctx) {
	// who may issue HTTP requests in the sync client package
	dos := c.CallsInPkg(ipnisyncPkg, Call("net/http.Client).Do"))
	var reqFn *ssa.Function
	for _, cs := range dos {
		top := topFunc(cs.Fn)
		if strings.Contains(top.String(), "Publisher") {
			continue
		}
		if reqFn != nil && reqFn != top {
			c.Bad("C01.a-no-refetch", "ipnisync › second HTTP call site "+c.short(top.String()), cs.In.Pos(), "more than one function of the sync client issues HTTP requests: a request path that bypasses the local-presence test")
		}
		reqFn = top
	}
	if reqFn == nil {
		c.Unk("C01.a-no-refetch", "ipnisync › HTTP round trip", token.NoPos, "no http.Client.Do call found")
		return
	}
	c.OK("C01.a-no-refetch", "ipnisync › single HTTP call site in "+c.short(reqFn.String()), reqFn.Pos(), "one request routine")
	// callers of the request routine with a CID-derived resource
	for _, f := range c.Funcs(ipnisyncPkg) {
		for _, cs := range c.Calls(f.SSA, Any()) {
			if cs.In.Common().StaticCallee() != reqFn {
				continue
			}
			rs := cs.X.Args[2]
			b, isCid := Match(Call("cid.Cid).String", Bind("c")), rs)
			key := c.short(topFunc(cs.Fn).String()) + " › request " + rs.String()
			if !isCid {
				if rs.Op == "const" {
					c.OK("C01.a-no-refetch", key, cs.In.Pos(), "fixed resource (head query), not a block")
				} else {
					c.Bad("C01.a-no-refetch", key, cs.In.Pos(), "request for a resource that is neither a constant nor the string of a CID")
				}
				continue
			}
			// every edge into the requesting block carries "local load failed" for the same CID
			blk := cs.In.Block()
			loadPat := Call("linking.LinkSystem).Load", Field("lsys", Any()), Any(), Op("complit", "linking/cid.Link", Op("fieldinit", "Cid", Is(b["c"]))))
			ok := len(blk.Preds) > 0
			var edgeOK func(p, to *ssa.BasicBlock, depth int) bool
			edgeOK = func(p, to *ssa.BasicBlock, depth int) bool {
				pok := false
				for _, fct := range append(c.FactsAt(p), edgeFact(c, p, to)...) {
					if _, m := Match(EqNil(Extract("0", loadPat)), fct.Cond); m && fct.Val {
						pok = true // node == nil
					}
					if _, m := Match(EqNil(Extract("1", loadPat)), fct.Cond); m && !fct.Val {
						pok = true // err != nil
					}
					if call, isCall := cs.In.(*ssa.Call); isCall {
						if _, m := Match(EqNil(Is(c.E(call))), fct.Cond); m && !fct.Val {
							pok = true // round a retry loop: the previous attempt of this very request failed (nothing was stored)
						}
					}
				}
				if !pok && depth < 3 && len(p.Succs) == 1 && len(p.Preds) > 0 {
					// a plain block in between (it builds the callback, say): judged by the edges into it
					pok = true
					for _, pp := range p.Preds {
						if !edgeOK(pp, p, depth+1) {
							pok = false
						}
					}
				}
				return pok
			}
			for _, p := range blk.Preds {
				if !edgeOK(p, blk, 0) {
					ok = false
				}
			}
			c.Check(ok, "C01.a-no-refetch", key+" › only when absent locally", cs.In.Pos(),
				"the block request is reached only on the failure edge (nil node or error) of a local Load of the same CID", "a block can be requested from the publisher although it is (or may be) present locally, or the presence test is for another CID")
		}
	}
	c.Floor("C01.a-no-refetch", 3)
}

// (b)
func c01HookOrder(c *Ctx) {
	hookAfterWalk(c, "C01.b-hook-after-walk")
	// the order slice: single append, guarded by the read's nil error, appending the opened link's CID
	walk := (*ssa.Function)(nil)
	for _, f := range c.Funcs(ipnisyncPkg) {
		if len(c.Calls(f.SSA, Call("traversal.Progress).WalkMatching"))) > 0 {
			walk = f.SSA
		}
	}
	if walk == nil {
		c.Unk("C01.b-order-slice", "ipnisync › traversal routine", token.NoPos, "no function calls WalkMatching")
		return
	}
	// the slice returned on success
	var order *X
	for _, b := range walk.Blocks {
		if ret, ok := b.Instrs[len(b.Instrs)-1].(*ssa.Return); ok && len(ret.Results) == 2 && c.RetX(ret, 1).Op == "nil" {
			order = c.RetX(ret, 0)
		}
	}
	var cell *ssa.Alloc
	if order != nil {
		cell = order.Cell
		if al, ok := order.V.(*ssa.Alloc); ok && order.Op == "var" {
			cell = al
		}
	}
	var stores []*ssa.Store
	if cell != nil {
		stores, _ = c.xb.storesTo(cell, map[ssa.Value]bool{})
	} else if o := strip(order); o != nil && o.Op == "field" {
		// the list is a field of a per-call object made in this function (the read opener is then a method of it):
		// its append sites are the stores to that field anywhere in the package
		base := strip(o.Args[0])
		_, fresh := base.V.(*ssa.Alloc)
		if base.Op == "complit" || fresh || base.Cell != nil {
			var fld *types.Var
			switch v := o.V.(type) {
			case *ssa.FieldAddr:
				fld = deref(v.X.Type()).Underlying().(*types.Struct).Field(v.Field)
			case *ssa.UnOp:
				if fa, ok := v.X.(*ssa.FieldAddr); ok {
					fld = deref(fa.X.Type()).Underlying().(*types.Struct).Field(fa.Field)
				}
			case *ssa.Field:
				fld = v.X.Type().Underlying().(*types.Struct).Field(v.Field)
			}
			if fld != nil {
				for _, pf := range c.Funcs(ipnisyncPkg) {
					instrsDeep(pf.SSA, func(_ *ssa.Function, in ssa.Instruction) {
						if st, ok := in.(*ssa.Store); ok {
							if fa, ok := st.Addr.(*ssa.FieldAddr); ok && deref(fa.X.Type()).Underlying().(*types.Struct).Field(fa.Field) == fld {
								if _, init := fa.X.(*ssa.Alloc); init && st.Block() == fa.X.(*ssa.Alloc).Block() && isNilConst(st.Val) {
									return
								}
								stores = append(stores, st)
							}
						}
					})
				}
				cell = nil
			}
		}
	}
	if cell == nil && len(stores) == 0 {
		c.Unk("C01.b-order-slice", c.short(walk.String())+" › order slice", walk.Pos(), "cannot identify the traversal-order slice returned on success")
		return
	}
	nApp := 0
	for _, st := range stores {
		v := c.E(st.Val)
		key := c.short(walk.String()) + " › append to order slice"
		b, ok := Match(Op("builtin", "append", Any(), Bind("elems")), v)
		if !ok {
			c.Bad("C01.b-order-slice", key, st.Pos(), "traversal-order slice assigned other than by append: "+v.String())
			continue
		}
		nApp++
		// appended element: the CID of the link parameter of the read opener
		g := st.Parent()
		okElem := false
		if len(g.Params) >= 2 {
			lnk := g.Params[len(g.Params)-1]
			instrs(g, func(in ssa.Instruction) {
				if s2, ok := in.(*ssa.Store); ok {
					if a := c.E(s2.Addr); a.Op == "index" && strings.Contains(a.String(), "varargs") {
						if _, m := Match(Field("Cid", Op("param", lnk.Name())), c.E(s2.Val)); m {
							okElem = true
						}
					}
				}
			})
		}
		_ = b
		c.Check(okElem, "C01.b-order-slice", key+" › element", st.Pos(), "appends the CID of the link being opened", "appended element is not the CID of the link being opened")
		_, guarded := c.Guarded(st, EqNil(Extract("1", Op("dyncall", "", Field("StorageReadOpener", Any())))), true)
		c.Check(guarded, "C01.b-order-slice", key+" › on successful read", st.Pos(), "append dominated by the store read's err == nil", "a block whose read failed is recorded as synced")
	}
	c.Check(nApp == 1, "C01.b-order-slice", c.short(walk.String())+" › single append site", walk.Pos(), "exactly one append site", "the traversal-order slice is appended at "+itoa(nApp)+" sites (a block can be recorded twice or never)")
	c.Floor("C01.b-order-slice", 3)

	// forward range in Sync: hook(cids[i]) with i from the range index
	for _, cs := range c.CallsInPkg(ipnisyncPkg, Op("dyncall", "", Field("blockHook", Any()))) {
		arg := cs.X.Args[len(cs.X.Args)-1]
		b, ok := Match(Op("index", "", Bind("slice"), Bind("i")), arg)
		fwd := false
		if ok {
			_, fwd = Match(Bin("+", Op("phi", ""), Const("1")), b["i"])
			if ph, isPhi := strip(b["i"]).V.(*ssa.Phi); !fwd && isPhi && len(ph.Edges) == 2 {
				// counter-controlled loop: i starts at 0, steps by 1, and the call runs while i < len(slice)
				zero, step := false, false
				for _, e := range ph.Edges {
					if cst, ok := e.(*ssa.Const); ok && cst.Value != nil && cst.Value.ExactString() == "0" {
						zero = true
					}
					if bo, ok := e.(*ssa.BinOp); ok && bo.Op == token.ADD && bo.X == ssa.Value(ph) {
						if cst, ok := bo.Y.(*ssa.Const); ok && cst.Value != nil && cst.Value.ExactString() == "1" {
							step = true
						}
					}
				}
				_, inBounds := c.Guarded(cs.In, Op("binop", "<", Is(b["i"]), Op("builtin", "len", Is(b["slice"]))), true)
				fwd = zero && step && inBounds
			}
		}
		c.Check(fwd, "C01.b-hook-order", c.short(topFunc(cs.Fn).String())+" › forward range", cs.In.Pos(), "hook called for element i of the order slice, i ascending by 1", "hooks are not replayed in traversal order")
		// first argument is the publisher this client syncs
		_, pid := Match(Field("ID", Field("peerInfo", Any())), cs.X.Args[1])
		c.Check(pid, "C01.b-hook-order", c.short(topFunc(cs.Fn).String())+" › publisher", cs.In.Pos(), "hook receives the client's publisher ID", "hook receives another peer ID")
	}
	c.Floor("C01.b-hook-order", 2)

	// subscriber-side wrapper: count once per call, same CID passed on
	h := c15HandleFn(c)
	if h == nil {
		return
	}
	for _, lit := range hookWrappers(c, h) {
		calls := c.Calls(lit, Op("dyncall", "", Any()))
		var inc []*ssa.Store
		instrs(lit, func(in ssa.Instruction) {
			if st, ok := in.(*ssa.Store); ok {
				if _, m := Match(Bin("+", Any(), Const("1")), c.E(st.Val)); m {
					inc = append(inc, st)
				}
			}
		})
		if len(calls) == 0 || len(lit.Params) < 2 {
			continue
		}
		key := c.short(lit.String()) + " › hook wrapper"
		uncond := len(inc) == 1 && inc[0].Block() == lit.Blocks[0]
		c.Check(uncond, "C01.b-count-once", key+" › count", lit.Pos(), "synced count incremented exactly once, unconditionally, per hook invocation", "synced count is not incremented exactly once per reported block")
		// the counter accumulates over the whole sync: apart from the increment nothing writes it (a per-segment
		// reset would make the reported count that of the last segment only)
		if len(inc) == 1 {
			others := counterOtherWrites(c, inc[0])
			c.Check(len(others) == 0, "C01.b-count-once", key+" › counter only incremented", inc[0].Pos(), "the synced-block counter is written only by its increment (and its zero initialisation)", "the synced-block counter is also written at "+strings.Join(others, ", ")+": the count reported for a sync is not the number of blocks handed to the hook")
		}
		for _, cs := range calls {
			po := 0
			if lit.Signature.Recv() != nil {
				po = 1 // a method of the handler: its receiver comes first
			}
			same := len(cs.X.Args) >= 3 && len(lit.Params) >= po+2 && cs.X.Args[1].V == ssa.Value(lit.Params[po]) && cs.X.Args[2].V == ssa.Value(lit.Params[po+1])
			c.Check(same, "C01.b-count-once", key+" › passes publisher and CID on", cs.In.Pos(), "user hook receives the wrapper's own (peer, CID)", "user hook is called with a different peer/CID than the block reported")
		}
	}
	c.Floor("C01.b-count-once", 3)
}

// (c)
func c01StopPoint(c *Ctx) {
	h := c15HandleFn(c)
	if h == nil {
		c.Unk("C01.c-one-stop-point", "dagsync › per-publisher sync routine", token.NoPos, "not found")
		return
	}
	for _, f := range c.Funcs(dagsyncPkg) {
		for _, cs := range c.Calls(f.SSA, Any()) {
			if cs.In.Common().StaticCallee() != h || cs.Fn != f.SSA {
				continue
			}
			// (selector and stop CID picked by type: the selector node, and the last CID — positional parameters
			// or the fields of a parameter object alike)
			slots := c.SlotArgs(cs)
			sel, stop := slotOf(slots, "go-ipld-prime/datamodel.Node", 0), slotOf(slots, "go-cid.Cid", -1)
			key := f.Name + " › stop CID ↔ selector stop link"
			if sel == nil || stop == nil || slotOf(slots, "go-cid.Cid", 0) == stop {
				c.Unk("C01.c-one-stop-point", key, cs.In.Pos(), "the per-publisher sync routine is not given a selector node and a stop CID (after the root CID)")
				continue
			}
			sb, isBuilt := Match(Call("dagsync.ExploreRecursiveWithStopNode", Any(), Any(), Bind("lnk")), sel)
			if !isBuilt {
				// entries syncs: fixed selectors, no stop link; the stop CID must be undefined
				_, undef := Match(Op("global", "go-cid.Undef"), stop)
				if t := strip(stop); t != nil && t.Op == "const" && strings.HasPrefix(t.Name, "zero:") {
					undef = true // the zero CID is cid.Undef
				}
				c.Check(undef, "C01.c-one-stop-point", key, cs.In.Pos(), "no stop link in the selector and an undefined stop CID", "a stop CID is given although the selector carries no stop link: "+stop.String())
				continue
			}
			sp := c01SyncPoint(c, f, cs, nil, sb["lnk"])
			lnk, stop := sp.lnk, sp.stop
			// stop = phi(zero, lnk.(Link).Cid) with the Cid edge under lnk != nil, or directly lnk.Cid
			ok := false
			check := func(x *X) bool {
				_, m := Match(Field("Cid", Is(lnk)), x)
				return m
			}
			switch {
			case check(stop):
				ok = true
			case stop.Op == "phi":
				ok = true
				n := 0
				for _, e := range stop.Args {
					switch {
					case check(e):
						n++
					case e.Op == "const" && strings.HasPrefix(e.Name, "zero:"):
					default:
						ok = false
					}
				}
				ok = ok && n >= 1
			}
			c.Check(ok, "C01.c-one-stop-point", key, cs.In.Pos(), "the stop CID is the CID of the link given to the selector builder (undefined when there is none)", "the stop CID used by the segmented loop and the selector's stop link are not the same point: "+stop.String())
		}
	}
	// the entries of an advertisement are a chain of chunks linked by their Next field: the subscriber-wide entries
	// selector explores that field and nothing else (exploring every link fetches, stores and reports blocks that are
	// not on the chain, and counts them against the depth limit)
	{
		nEnt := 0
		for _, f := range c.Funcs(dagsyncPkg) {
			instrs(f.SSA, func(in ssa.Instruction) {
				st, ok := in.(*ssa.Store)
				if !ok {
					return
				}
				a := c.E(st.Addr)
				if a.Op != "field" || canonName(a.Name) != "selectorEnts" || fieldOwner(a) != "Subscriber" {
					return
				}
				nEnt++
				v := c.E(st.Val)
				// (the selector may be built by an unexported helper: what it returns is looked at as well)
				exprs := []*X{v}
				lits := append([]*ssa.Function{}, f.SSA.AnonFuncs...)
				v.Find(func(y *X) bool {
					if call, ok := y.V.(*ssa.Call); ok && y.Op == "call" {
						if callee := call.Call.StaticCallee(); callee != nil && samePkgBody(f.SSA, callee) {
							for _, b := range callee.Blocks {
								if ret, isRet := b.Instrs[len(b.Instrs)-1].(*ssa.Return); isRet && len(ret.Results) >= 1 {
									exprs = append(exprs, c.RetX(ret, 0))
								}
							}
							lits = append(lits, callee.AnonFuncs...)
						}
					}
					return false
				})
				anyHas := func(suffix string) bool {
					for _, e := range exprs {
						if e != nil && e.Contains(func(y *X) bool {
							return (y.Op == "invoke" || y.Op == "call") && strings.HasSuffix(y.Name, suffix)
						}) {
							return true
						}
					}
					return false
				}
				byFields := anyHas("ExploreFields")
				all := anyHas("ExploreAll")
				next := false
				for _, lit := range lits {
					for _, cs := range c.Calls(lit, Any()) {
						if strings.HasSuffix(cs.X.Name, "ExploreFieldsSpecBuilder.Insert") && len(cs.X.Args) >= 2 && cs.X.Args[1].Op == "const" && cs.X.Args[1].Name == `"Next"` {
							next = true
						}
					}
				}
				c.Check(byFields && !all && next, "C01.c-entries-follow-next-only", f.Name+" › entries selector", st.Pos(), "explores the field \"Next\" recursively, nothing else", "the subscriber-wide entries selector does not explore exactly the Next field of a chunk: links that are not part of the chain are followed (or the chain is not)")
			})
		}
		if nEnt == 0 {
			c.Unk("C01.c-entries-follow-next-only", "dagsync › entries selector", token.NoPos, "no store to the entries selector found")
		}
		c.Floor("C01.c-entries-follow-next-only", 1)
	}
	// what a sync sets up under the per-publisher lock it takes down under that lock: deferred calls run last-in
	// first-out, so a clean-up deferred BEFORE the deferred Unlock runs after the lock is gone — the next sync of the
	// publisher, already holding the lock, has its freshly installed hook mapping deleted and sees none of its blocks
	if h := c15HandleFn(c); h != nil {
		var defers []*ssa.Defer
		instrs(h, func(in ssa.Instruction) {
			if d, ok := in.(*ssa.Defer); ok {
				defers = append(defers, d)
			}
		})
		writesState := func(d *ssa.Defer) bool {
			fn := d.Call.StaticCallee()
			if fn == nil {
				fn = funcValueTarget(d.Call.Value)
			}
			if fn == nil || !samePkgBody(h, fn) {
				return false
			}
			found := false
			instrsDeep(fn, func(_ *ssa.Function, in ssa.Instruction) {
				switch v := in.(type) {
				case *ssa.MapUpdate:
					found = true
				case *ssa.Call:
					if b, ok := v.Call.Value.(*ssa.Builtin); ok && b.Name() == "delete" {
						found = true
					}
				case *ssa.Store:
					if _, ok := v.Addr.(*ssa.FieldAddr); ok {
						found = true
					}
				}
			})
			return found
		}
		late := token.NoPos
		nUnlock := 0
		for i, d := range defers {
			if _, isUnlock := Match(Call("sync.Mutex).Unlock", Field("syncMutex", Any())), c.CallX(d)); !isUnlock {
				continue
			}
			nUnlock++
			for _, e := range defers[:i] {
				if Precedes(e, d) && writesState(e) {
					late = e.Pos()
				}
			}
		}
		if nUnlock > 0 {
			c.Check(!late.IsValid(), "C01.b-hook-order", c.short(h.String())+" › per-sync state taken down under the lock", h.Pos(), "no state-writing clean-up is deferred before the deferred unlock of the per-publisher mutex", "a clean-up that writes shared state is deferred before the deferred Unlock (at "+c.pos(late)+") and so runs after it: the next sync of the same publisher can install its hook in between and have it deleted — it completes without any of its blocks reaching its hook")
		}
	}
	hookLoopVisitsAll(c, "C01.b-hook-order")
	c.Floor("C01.c-one-stop-point", 3)

	// the selector builder attaches the stop condition iff a link is given, with that link
	b := c.Func(dagsyncPkg, "ExploreRecursiveWithStopNode")
	if b == nil {
		c.Unk("C01.c-stop-in-selector", "dagsync.ExploreRecursiveWithStopNode", token.NoPos, "not found")
		return
	}
	stopParam := b.SSA.Params[len(b.SSA.Params)-1]
	const selPkg = "github.com/ipld/go-ipld-prime/traversal/selector"
	stopKey, ok1 := c.ConstString(selPkg, "SelectorKey_StopAt")
	if !ok1 {
		c.Unk("C01.c-stop-in-selector", "selector.SelectorKey_StopAt", token.NoPos, "selector key constant not found in ipld-prime")
		return
	}
	n := 0
	for _, cs := range c.Calls(b.SSA, Invoke("fluent.MapAssembler.AssembleEntry", Any(), Const(stopKey))) {
		n++
		_, g := c.Guarded(cs.In, EqNil(Op("param", stopParam.Name())), false)
		c.Check(g, "C01.c-stop-in-selector", b.Name+" › stopAt entry", cs.In.Pos(), "stop condition attached only when a stop link is given", "stop condition attached unconditionally or never")
	}
	links := c.Calls(b.SSA, Invoke("NodeAssembler.AssignLink", Any(), Op("param", stopParam.Name())))
	c.Check(n == 1 && len(links) == 1, "C01.c-stop-in-selector", b.Name+" › stop link", b.SSA.Pos(), "exactly one stopAt entry, assigned the stop link parameter", "the selector's stop condition is not built from the given stop link")
	// the limit written is the limit given
	lim := b.SSA.Params[0]
	depth := c.CallsInl(b.SSA, Invoke("NodeAssembler.AssignInt", Any(), Call("selector.RecursionLimit).Depth", Op("param", lim.Name()))), 2)
	seq := c.Calls(b.SSA, Invoke("NodeAssembler.AssignNode", Any(), Op("param", b.SSA.Params[1].Name())))
	if len(seq) == 0 {
		// the sequence parameter is reassigned to a default when nil: accept the variable cell of that parameter
		for _, cs := range c.Calls(b.SSA, Invoke("NodeAssembler.AssignNode")) {
			if a := strip(cs.X.Args[1]); a.Op == "var" && a.Name == b.SSA.Params[1].Name() {
				seq = append(seq, cs)
			}
		}
	}
	c.Check(len(depth) == 1 && len(seq) >= 1, "C01.c-stop-in-selector", b.Name+" › limit and sequence", b.SSA.Pos(), "depth entry = limit.Depth() of the given limit; sequence assigned", "selector does not carry the given depth limit / sequence")
	c.Floor("C01.c-stop-in-selector", 3)
}

// (e)
func c01SegmentLoop(c *Ctx) {
	h := c15HandleFn(c)
	if h == nil {
		return
	}
	// the sync call inside a loop
	// (the per-segment step may be an unexported helper called from the loop: the sync call is looked up through it;
	// S is the block of the loop that executes the step, seg the sync call itself)
	var seg *CallSite
	var segOuter ssa.Instruction
	for _, st := range c.CallsInl(h, Invoke("dagsync.Syncer.Sync"), 2) {
		o := st.Outer()
		if o.Parent() == h && ReachableFromSucc(o.Block(), o.Block()) {
			cs := st.CallSite
			seg = &cs
			segOuter = o
		}
	}
	key := c.short(h.String()) + " › segment loop"
	if seg == nil {
		c.Unk("C01.e-loop-tests", key, h.Pos(), "no sync call inside a loop (segmented traversal not recognised)")
		return
	}
	S := segOuter.Block()
	viaHelper := segOuter != seg.In
	// a test "X == nil" where X is the value itself or, when the step is a helper, the helper's error result one of
	// whose return sites hands X on
	errTest := func(direct P) P {
		return func(x *X, b Binds) bool {
			if direct(x, b) {
				return true
			}
			if !viaHelper {
				return false
			}
			m, ok := Match(EqNil(Bind("e")), x)
			if !ok {
				return false
			}
			hc, _ := helperCall(m["e"])
			if hc == nil || hc.V != ssa.Value(segOuter.(*ssa.Call)) {
				return false
			}
			for _, a := range c.RetAlts(m["e"]) {
				for _, l := range c.Leaves(a.Val, nil) {
					// in the helper's own terms
					if direct(&X{Op: "binop", Name: "==", Args: []*X{l, {Op: "nil"}}}, b) {
						return true
					}
				}
			}
			return false
		}
	}
	// loop header: the block dominating S that is the target of back edges from blocks reachable from S
	var head *ssa.BasicBlock
	for d := S; d != nil; d = d.Idom() {
		for _, p := range d.Preds {
			if ReachableFrom(S)[p] && d.Dominates(p) {
				head = d
			}
		}
		if head != nil {
			break
		}
	}
	if head == nil {
		c.Unk("C01.e-loop-tests", key, seg.In.Pos(), "loop header not found")
		return
	}
	var backPreds []*ssa.BasicBlock
	for _, p := range head.Preds {
		if ReachableFrom(S)[p] && head.Dominates(p) {
			backPreds = append(backPreds, p)
		}
	}
	type test struct {
		name string
		pat  P
		exit bool // truth value of the condition on which the loop is left
	}
	nextCid := Field("nextSyncCid", Any())
	tests := []test{
		{"sync error", errTest(EqNil(Is(c.Result(*seg, 0)))), false},
		{"hook-signalled failure", errTest(EqNil(Field("err", Any()))), false},
		{"no next CID", EqNil(nextCid), true},
		{"next CID undefined", Call("cid.Cid).Equals", nextCid, Op("global", "go-cid.Undef")), true},
		{"stop CID defined", Bin("==", ParamSlot(), Op("global", "go-cid.Undef")), true}, // handled specially below
	}
	var testBlocks []*ssa.BasicBlock
	for i, t := range tests {
		var tb *ssa.BasicBlock
		var iffExit *ssa.BasicBlock
		for _, b := range h.Blocks {
			iff, ok := b.Instrs[len(b.Instrs)-1].(*ssa.If)
			if !ok || !ReachableFrom(S)[b] || !head.Dominates(b) {
				continue
			}
			cx, val := normFact(c.E(iff.Cond), true)
			if _, m := Match(t.pat, cx); !m {
				continue
			}
			tb = b
			// successor taken when cond (normalised) == t.exit
			if val == t.exit {
				iffExit = b.Succs[0]
			} else {
				iffExit = b.Succs[1]
			}
		}
		k := key + " › " + t.name
		if tb == nil {
			c.Bad("C01.e-loop-tests", k, seg.In.Pos(), "the loop does not test '"+t.name+"' after a segment")
			testBlocks = append(testBlocks, nil)
			continue
		}
		testBlocks = append(testBlocks, tb)
		if i == 4 {
			// "stop defined": not an exit by itself; the inner comparison is
			continue
		}
		leaves := !ReachableFrom(iffExit)[head]
		dom := true
		for _, p := range backPreds {
			if !(tb == p || tb.Dominates(p)) {
				dom = false
			}
		}
		c.Check(leaves && dom, "C01.e-loop-tests", k, posOf(tb.Instrs[len(tb.Instrs)-1]),
			"tested on every path from a segment to the next one; the positive edge leaves the loop", "'"+t.name+"' is not tested on every path back to the next segment, or its positive edge does not leave the loop")
	}
	// order of the tests
	for i := 0; i+1 < len(testBlocks); i++ {
		a, b := testBlocks[i], testBlocks[i+1]
		if a == nil || b == nil {
			continue
		}
		if a == b && viaHelper && i == 0 {
			// one test of the helper's result covers both: inside the helper the sync's error is returned before the
			// hook-signalled one is looked at
			okOrd := false
			for _, cs := range c.Calls(seg.In.Parent(), Invoke("dagsync.Syncer.Sync")) {
				h0 := c.ErrPropagates(cs)
				okOrd = h0.Kind == "checked-return" || h0.Kind == "returned-directly"
			}
			c.Check(okOrd, "C01.e-loop-tests", key+" › order: "+tests[i].name+" ≺ "+tests[i+1].name, posOf(b.Instrs[0]),
				"the per-segment helper returns the sync's error first, the hook-signalled one otherwise", "the per-segment helper does not return the sync's error before the hook-signalled one")
			continue
		}
		c.Check(a != b && a.Dominates(b), "C01.e-loop-tests", key+" › order: "+tests[i].name+" ≺ "+tests[i+1].name, posOf(b.Instrs[0]),
			"tests run in the specified order", "loop tests out of order: '"+tests[i+1].name+"' can run before '"+tests[i].name+"' (e.g. a hook failure in the last segment is reported as success)")
	}
	// next == stop, under "stop defined", leaves the loop
	if sd := testBlocks[4]; sd != nil {
		found := false
		for _, b := range h.Blocks {
			iff, ok := b.Instrs[len(b.Instrs)-1].(*ssa.If)
			if !ok || !sd.Dominates(b) || b == sd {
				continue
			}
			cx, val := normFact(c.E(iff.Cond), true)
			if _, m := Match(Bin("==", nextCid, ParamSlot()), cx); !m {
				continue
			}
			if _, g := c.GuardedB(b, Bin("==", ParamSlot(), Op("global", "go-cid.Undef")), false); !g {
				continue
			}
			exit := b.Succs[0]
			if !val {
				exit = b.Succs[1]
			}
			found = !ReachableFrom(exit)[head]
		}
		c.Check(found, "C01.e-loop-tests", key+" › next == stop", posOf(sd.Instrs[len(sd.Instrs)-1]),
			"when a stop CID is defined, next == stop leaves the loop", "reaching the stop CID does not end the segmented traversal: the stop block and older ones are requested")
	}
	// depth mode: depthSoFar >= limit leaves the loop; dominates the back edges of depth mode
	depthTest := false
	depthPat := Op("binop", ">=", Bind("sofar"), Call("selector.RecursionLimit).Depth"))
	for _, b := range h.Blocks {
		iff, ok := b.Instrs[len(b.Instrs)-1].(*ssa.If)
		if !ok || !ReachableFrom(S)[b] || !head.Dominates(b) || depthTest {
			continue
		}
		// the test itself, or the test made by a helper whose boolean result is branched on here
		var bb Binds
		leaves := false
		for edge := 0; edge < 2 && bb == nil; edge++ {
			cx, v := normFact(c.E(iff.Cond), edge == 0)
			facts := append([]Fact{{Cond: cx, Val: v}}, c.impliedFacts(Fact{Cond: cx, Val: v})...)
			for _, f := range facts {
				if m, ok := Match(depthPat, f.Cond); ok && f.Val {
					bb = m
					leaves = !ReachableFrom(b.Succs[edge])[head]
				}
			}
		}
		if bb == nil {
			continue
		}
		// sofar = (accumulated so far) + (this segment's depth), both carried around the loop
		_, acc := Match(Bin("+", Op("phi", ""), Op("phi", "")), bb["sofar"])
		depthTest = true
		c.Check(acc && leaves, "C01.e-loop-tests", key+" › depth exhausted", iff.Pos(),
			"in depth mode, (depth so far + this segment's depth) >= limit leaves the loop", "the depth test does not compare the accumulated depth with the limit, or does not leave the loop")
		// remaining depth: limit - accumulated (computed in the loop or in a helper it calls)
		remPat := Op("binop", "-", Call("selector.RecursionLimit).Depth"), Is(bb["sofar"]))
		okRem := false
		c.WalkInl(h, 2, func(ev InlEvent) {
			if bo, ok := ev.In.(*ssa.BinOp); ok && bo.Op == token.SUB {
				if _, m := Match(remPat, subst(c.E(bo), ev.Env)); m {
					okRem = true
				}
			}
		})
		c.Check(okRem, "C01.e-depth-flow", key+" › remaining depth", iff.Pos(),
			"the depth left for the next segment is computed as limit − (depth synced so far)", "the next segment's depth is not derived from limit − depth synced so far: the traversal over- or undershoots the depth limit for some segment sizes")
		// the next segment's depth (the loop-carried value handed to the per-segment selector) takes only: the
		// segment size, itself, or the remaining depth
		var nd *ssa.Phi
		for _, cs := range c.CallsInl(h, Call("selector.RecursionLimitDepth"), 2) {
			if len(cs.X.Args) == 1 {
				if ph, ok := cs.X.Args[0].V.(*ssa.Phi); ok && ph.Block() == head {
					nd = ph
				}
			}
		}
		if nd == nil {
			c.Unk("C01.e-depth-flow", key+" › next segment depth", head.Instrs[0].Pos(), "no loop-carried segment depth found")
			continue
		}
		var okVal func(x *X, d int) bool
		okVal = func(x *X, d int) bool {
			x = strip(x)
			switch {
			case x == nil || d > 4:
				return false
			case x.Op == "param":
				return true
			case ParamSlot()(x, nil):
				return true
			case x.V == ssa.Value(nd):
				return true
			}
			if _, m := Match(remPat, x); m {
				return true
			}
			if x.Op == "builtin" && x.Name == "min" && len(x.Args) > 0 {
				// the smaller of acceptable values is one of them
				for _, a := range x.Args {
					if !okVal(a, d+1) {
						return false
					}
				}
				return true
			}
			if x.Op == "phi" {
				for _, a := range x.Args {
					if !okVal(a, d+1) {
						return false
					}
				}
				return len(x.Args) > 0
			}
			if alts := c.RetAlts(x); len(alts) > 0 {
				for _, a := range alts {
					if !okVal(a.Val, d+1) {
						return false
					}
				}
				return true
			}
			return false
		}
		okEdges := true
		for _, e := range nd.Edges {
			if e == ssa.Value(nd) {
				continue
			}
			if !okVal(c.E(e), 0) {
				okEdges = false
			}
		}
		c.Check(okEdges, "C01.e-depth-flow", key+" › next segment depth", nd.Pos(),
			"segment depth is the configured segment size until the remaining depth is smaller, then the remaining depth", "segment depth takes a value other than the segment size or the remaining depth")
		// … and the segment size is kept only where it does not exceed the remaining depth: on every way round the
		// loop that has computed the remaining depth and keeps the previous value, the branch taken says remaining >= size
		if okEdges {
			var rems []*ssa.BinOp
			instrs(h, func(in ssa.Instruction) {
				if bo, ok := in.(*ssa.BinOp); ok && bo.Op == token.SUB {
					if _, m := Match(remPat, c.E(bo)); m {
						rems = append(rems, bo)
					}
				}
			})
			notLess := func(f Fact, rem *ssa.BinOp) bool {
				isRem := func(x *X) bool { x = strip(x); return x != nil && x.V == ssa.Value(rem) }
				x := strip(f.Cond)
				if x == nil || x.Op != "binop" || len(x.Args) != 2 {
					return false
				}
				l, r := x.Args[0], x.Args[1]
				switch {
				case isRem(l) && okVal(r, 0):
					return (x.Name == "<" && !f.Val) || (x.Name == ">=" && f.Val) || (x.Name == ">" && f.Val)
				case isRem(r) && okVal(l, 0):
					return (x.Name == ">" && !f.Val) || (x.Name == "<=" && f.Val) || (x.Name == "<" && f.Val)
				}
				return false
			}
			kept, where := true, token.NoPos
			var walk func(ph *ssa.Phi, d int)
			walk = func(ph *ssa.Phi, d int) {
				for i, e := range ph.Edges {
					pred := ph.Block().Preds[i]
					if inner, ok := e.(*ssa.Phi); ok && inner != nd && d < 4 {
						walk(inner, d+1)
						continue
					}
					_, isParam := e.(*ssa.Parameter)
					if e != ssa.Value(nd) && !isParam {
						continue
					}
					for _, rem := range rems {
						if !(rem.Block() == pred || rem.Block().Dominates(pred)) {
							continue
						}
						ok := false
						for _, f := range append(c.FactsAt(pred), edgeFact(c, pred, ph.Block())...) {
							if notLess(f, rem) {
								ok = true
							}
						}
						if !ok {
							kept, where = false, posOf(pred.Instrs[len(pred.Instrs)-1])
						}
					}
				}
			}
			walk(nd, 0)
			c.Check(kept, "C01.e-depth-flow", key+" › segment size kept only while it fits", nd.Pos(),
				"wherever the remaining depth has been computed and the segment depth keeps its value, the branch taken says remaining >= segment size", "the segment size is kept on a path ("+c.pos(where)+") on which the remaining depth may be smaller: the last segment goes deeper than the depth limit allows")
		}
	}
	if !depthTest {
		c.Bad("C01.e-loop-tests", key+" › depth exhausted", seg.In.Pos(), "no test of accumulated depth against the limit in the loop")
	}
	// next segment starts at the hook-set CID, read before the reset
	var reset ssa.Instruction
	var readNext ssa.Instruction
	for _, in := range seg.In.Block().Instrs {
		if ci, ok := in.(ssa.CallInstruction); ok {
			if r := c.Role("dagsync.seg.reset"); r != nil && ci.Common().StaticCallee() == r {
				reset = in
			}
		}
		if st, ok := in.(*ssa.Store); ok {
			if v := c.E(st.Val); v.Op == "field" && v.Name == "nextSyncCid" || (v.Op == "deref" && strings.Contains(v.String(), "nextSyncCid")) {
				readNext = in
			}
		}
		if u, ok := in.(*ssa.UnOp); ok && u.Op == token.MUL && readNext == nil {
			if x := c.E(u.X); x.Op == "field" && x.Name == "nextSyncCid" {
				readNext = in
			}
		}
	}
	c.Check(reset != nil && readNext != nil && Precedes(readNext, reset) && Precedes(reset, seg.In), "C01.e-loop-tests", key+" › next CID read before reset", seg.In.Pos(),
		"the hook-set next CID is read, then the per-segment state reset, then the segment synced", "the next segment does not start from the CID the hook set (read after reset, or state not reset between segments)")
	c.Floor("C01.e-loop-tests", 10)
	c.Floor("C01.e-depth-flow", 2)
}

// (f)
func c01Choice(c *Ctx) {
	h := c15HandleFn(c)
	for _, f := range c.Funcs(dagsyncPkg) {
		var hcall *CallSite
		for _, cs := range c.Calls(f.SSA, Any()) {
			if cs.In.Common().StaticCallee() == h && h != nil && cs.Fn == f.SSA {
				cs := cs
				hcall = &cs
			}
		}
		if hcall == nil {
			continue
		}
		selArg := slotOf(c.SlotArgs(*hcall), "go-ipld-prime/datamodel.Node", 0)
		if selArg == nil {
			continue
		}
		sb, isBuilt := Match(Call("dagsync.ExploreRecursiveWithStopNode", Bind("limit"), Any(), Bind("lnk")), selArg)
		if !isBuilt {
			continue
		}
		sp := c01SyncPoint(c, f, *hcall, sb["limit"], sb["lnk"])
		lnk, next := sp.lnk, sp.next
		key := f.Name
		if sp.fn != f {
			key = f.Name + " (via " + sp.fn.Name + ")"
		}
		callerF := f
		f := sp.fn
		_ = callerF
		// f1: on every path with a stop link, the sync is guarded by stop.Cid != head
		//     region: blocks where lnk != nil is known; the region's exits towards the sync must pass the comparison's false edge
		var region *ssa.BasicBlock
		for _, b := range f.SSA.Blocks {
			if len(b.Preds) == 1 {
				for _, fct := range edgeFact(c, b.Preds[0], b) {
					if _, m := Match(EqNil(Is(lnk)), fct.Cond); m && !fct.Val {
						region = b
					}
				}
			}
		}
		if region == nil {
			c.Bad("C01.f-head-equals-stop", key+" › stop-link region", sp.pos, "no branch on 'a stop link exists' before the sync")
		} else {
			cmp := Bin("==", Field("Cid", Is(lnk)), Any())
			ok := true
			n := 0
			for _, b := range regionBlocks(region) {
				for _, s := range b.Succs {
					if region.Dominates(s) {
						continue
					}
					// escape edge b→s (towards the sync): must carry cmp == false
					if !ReachableFrom(s)[sp.target] {
						continue
					}
					n++
					carried := false
					for _, fct := range append(c.FactsAt(b), edgeFact(c, b, s)...) {
						if bb, m := Match(cmp, fct.Cond); m && !fct.Val {
							_ = bb
							carried = true
						}
					}
					if !carried {
						ok = false
					}
				}
			}
			c.Check(ok && n > 0, "C01.f-head-equals-stop", key+" › head == stop short-circuits", hcall.In.Pos(),
				"with a stop link, the sync is reached only through the false edge of (stop CID == head CID), whatever way the head was obtained", "with a stop link equal to the head (explicit or queried) the sync is not short-circuited: the stop block and everything older are fetched and reported")
			// and the compared head is the CID that is synced
			cmpOK := false
			for _, b := range regionBlocks(region) {
				if iff, isIf := b.Instrs[len(b.Instrs)-1].(*ssa.If); isIf {
					if bb, m := Match(Bin("==", Field("Cid", Is(lnk)), Bind("head")), c.E(iff.Cond)); m {
						cmpOK = Same(bb["head"], next) || next.Contains(func(y *X) bool { return Same(y, bb["head"]) })
					}
				}
			}
			c.Check(cmpOK, "C01.f-head-equals-stop", key+" › compares the head that is synced", hcall.In.Pos(), "the CID compared with the stop CID is the one handed to the sync", "the head compared with the stop CID is not the head that is synced")
		}
		// f2: limit sources
		c01LimitSources(c, f, sp.limit, lnk, key)
		// f3: stop link sources
		c01StopSources(c, f, lnk, key)
	}
	// what is recorded as latest-synced — the stop point of the next sync — is the head this sync was given
	{
		var sendFns []*ssa.Function
		for _, f := range c.Funcs(dagsyncPkg) {
			instrsDeep(f.SSA, func(g *ssa.Function, in ssa.Instruction) {
				if snd, ok := in.(*ssa.Send); ok {
					if x := c.E(snd.Chan); x.Op == "field" && x.Name == "inEvents" {
						sendFns = append(sendFns, g)
					}
				}
			})
		}
		syncedHeadRecorded(c, "C01.f-synced-head-recorded", sendFns)
		c.Floor("C01.f-synced-head-recorded", 2)
	}
	c.Floor("C01.f-head-equals-stop", 4)
	c.Floor("C01.f-limit-choice", 4)
	c.Floor("C01.f-stop-choice", 3)
}

func flatten(x *X, out *[]*X, depth int) {
	if x.Op == "phi" && depth < 4 {
		for _, a := range x.Args {
			if a.Op != "cut" {
				flatten(a, out, depth+1)
			}
		}
		return
	}
	*out = append(*out, x)
}

func c01LimitSources(c *Ctx, f *Fn, limit, lnk *X, key string) {
	var srcs []*X
	flatten(limit, &srcs, 0)
	for _, s := range srcs {
		k := key + " › limit source " + abbreviate(s.String())
		switch {
		case s.Op == "field" && s.Name == "adsDepthLimit":
			c.OK("C01.f-limit-choice", k, f.SSA.Pos(), "default: the subscriber-wide advertisement depth limit")
		case s.Op == "call" && s.Callee != nil && s.Callee == c.Role("dagsync.limit"):
			arg := s.Args[0]
			in, _ := s.V.(ssa.Instruction)
			if in == nil {
				c.Unk("C01.f-limit-choice", k, f.SSA.Pos(), "limit source is not an instruction")
				continue
			}
			switch {
			case arg.Op == "field" && arg.Name == "depthLimit":
				_, g := c.Guarded(in, Bin("==", Field("depthLimit", Any()), Const("0")), false)
				c.Check(g, "C01.f-limit-choice", k, in.Pos(), "scoped limit used only when non-zero", "scoped depth limit applied although it is zero (unset)")
			case arg.Op == "field" && arg.Name == "firstSyncDepth":
				_, g1 := c.Guarded(in, EqNil(Is(lnk)), true)
				_, g2 := c.Guarded(in, Bin("==", Field("firstSyncDepth", Any()), Const("0")), false)
				scopedUnset := true
				if strings.Contains(f.Name, "SyncAdChain") && !strings.Contains(f.Name, "async") {
					_, scopedUnset = c.Guarded(in, Bin("==", Field("depthLimit", Any()), Const("0")), true)
				}
				c.Check(g1 && g2 && scopedUnset, "C01.f-limit-choice", k, in.Pos(), "first-sync depth used only with no stop link, when configured, and when no scoped limit is given", "first-sync depth applied outside (no stop link ∧ configured ∧ no scoped limit)")
			case arg.Op == "call" && strings.HasPrefix(arg.Name, "cmp.Or[") && len(arg.Args) == 1:
				// cmp.Or(scoped, firstSync): the first non-zero of the two — the scoped limit has priority, the
				// first-sync depth enters only where there is no stop link (it is zero otherwise), and the limit is
				// taken from the result only when that is non-zero
				es := variadicElems(c, arg.Args[0])
				okOr := len(es) == 2
				if okOr {
					e0 := strip(es[0])
					okOr = e0 != nil && e0.Op == "field" && e0.Name == "depthLimit"
					var srcs2 []*X
					flatten(es[1], &srcs2, 0)
					nFirst := 0
					for _, s2 := range srcs2 {
						s2 = strip(s2)
						switch {
						case s2 != nil && s2.Op == "const" && s2.Name == "0":
						case s2 != nil && s2.Op == "field" && s2.Name == "firstSyncDepth":
							nFirst++
							// chosen only with no stop link: the phi edge it comes in on lies under lnk == nil
							if ph, isPhi := strip(es[1]).V.(*ssa.Phi); isPhi {
								onNoLink := false
								for i, e := range ph.Edges {
									if ex := strip(c.E(e)); ex != nil && ex.Op == "field" && ex.Name == "firstSyncDepth" {
										pred := ph.Block().Preds[i]
										for _, fct := range append(c.FactsAt(pred), edgeFact(c, pred, ph.Block())...) {
											if _, m := Match(EqNil(Is(lnk)), fct.Cond); m && fct.Val {
												onNoLink = true
											}
										}
									}
								}
								okOr = okOr && onNoLink
							} else {
								okOr = false
							}
						default:
							okOr = false
						}
					}
					okOr = okOr && nFirst == 1
				}
				_, nonZero := c.Guarded(in, Bin("==", Is(arg), Const("0")), false)
				c.Check(okOr && nonZero, "C01.f-limit-choice", k, in.Pos(), "the first non-zero of (scoped limit, first-sync depth where there is no stop link), used only when non-zero", "depth limit derived from an unexpected value")
			default:
				c.Bad("C01.f-limit-choice", k, in.Pos(), "depth limit derived from an unexpected value")
			}
		default:
			c.Bad("C01.f-limit-choice", k, f.SSA.Pos(), "unexpected source of the depth limit")
		}
	}
}

func c01StopSources(c *Ctx, f *Fn, lnk *X, key string) {
	var srcs []*X
	flatten(lnk, &srcs, 0)
	for _, s := range srcs {
		k := key + " › stop source " + abbreviate(s.String())
		switch {
		case s.Op == "nil":
			c.OK("C01.f-stop-choice", k, f.SSA.Pos(), "no stop point")
		case s.Op == "complit" && strings.HasSuffix(s.Name, "cid.Link"):
			// explicit stop CID: only when defined
			var fi *X
			for _, a := range s.Args {
				if a.Name == "Cid" {
					fi = a.Args[0]
				}
			}
			in := firstInstr(s)
			okSrc := fi != nil && fi.Op == "field" && fi.Name == "stopAdCid"
			g := false
			if in != nil {
				_, g = c.Guarded(in, Bin("==", Field("stopAdCid", Any()), Op("global", "go-cid.Undef")), false)
			}
			c.Check(okSrc && g, "C01.f-stop-choice", k, posOfX(s), "explicit stop CID used only when defined", "explicit stop link built from something other than a defined stop option")
		case s.Op == "call" && nameMatches(s.Name, "dagsync.Subscriber).GetLatestSync"):
			in, _ := s.V.(ssa.Instruction)
			isExplicit := len(c.Calls(f.SSA, Invoke("dagsync.Syncer.GetHead"))) > 0
			if isExplicit && in != nil {
				_, noResync := c.Guarded(in, Field("resync", Any()), false)
				_, noExplicit := c.Guarded(in, Bin("==", Field("stopAdCid", Any()), Op("global", "go-cid.Undef")), true)
				c.Check(noResync && noExplicit, "C01.f-stop-choice", k, in.Pos(), "latest-synced value used as stop point only without resync and without an explicit stop", "latest-synced value used as stop point although resync or an explicit stop was requested")
			} else {
				c.OK("C01.f-stop-choice", k, posOfX(s), "announce path: the latest-synced value is the stop point")
			}
		default:
			c.Bad("C01.f-stop-choice", k, posOfX(s), "unexpected source of the stop link")
		}
	}
}

func firstInstr(x *X) ssa.Instruction {
	if in, ok := x.V.(ssa.Instruction); ok {
		return in
	}
	if x.Cell != nil {
		return x.Cell
	}
	for _, a := range x.Args {
		if in := firstInstr(a); in != nil {
			return in
		}
	}
	return nil
}

func posOfX(x *X) token.Pos {
	if in := firstInstr(x); in != nil {
		return posOf(in)
	}
	return token.NoPos
}

func abbreviate(s string) string {
	s = strings.ReplaceAll(s, "github.com/ipld/go-ipld-prime/", "")
	if len(s) > 70 {
		s = s[:70] + "…"
	}
	return s
}

// (g)
func c01SelectorRewrite(c *Ctx) {
	w := c.RoleFn("dagsync.rewrite")
	if w == nil {
		c.Unk("C01.g-selector-rewrite", "dagsync.withRecursionLimit", token.NoPos, "not found")
		return
	}
	limitParam := w.SSA.Params[len(w.SSA.Params)-1]
	limitKey, okk := c.ConstString("github.com/ipld/go-ipld-prime/traversal/selector", "SelectorKey_Limit")
	if !okk {
		c.Unk("C01.g-selector-rewrite", "selector.SelectorKey_Limit", token.NoPos, "selector key constant not found in ipld-prime")
		return
	}
	for _, lit := range allFuncs(w.SSA) {
		nexts := c.Calls(lit, Invoke("datamodel.MapIterator.Next"))
		if len(nexts) != 1 || nexts[0].Fn != lit {
			continue
		}
		nx := nexts[0]
		k := c.short(lit.String())
		// copies key and value of every entry…
		var copyBlk *ssa.BasicBlock
		nCopy := 0
		for _, cs := range c.Calls(lit, Invoke("NodeAssembler.AssignNode")) {
			arg := strip(cs.X.Args[1])
			if r := c.ReachingStore(arg, cs.In); r != nil {
				arg = r
			}
			if arg.Op == "extract" || arg.Op == "var" {
				nCopy++
				copyBlk = cs.In.Block()
			}
		}
		c.Check(nCopy == 2, "C01.g-selector-rewrite", k+" › copies key and value", nx.In.Pos(), "AssignNode(key) and AssignNode(value) of the iterated entry", "entries of the original selector are not copied as (key, value)")
		// …except the limit: every way back to the loop head from Next either passes the copy or carries key == "limit"
		head := nx.In.Block()
		for d := head; d != nil; d = d.Idom() {
			back := false
			for _, p := range d.Preds {
				if ReachableFrom(head)[p] && d.Dominates(p) {
					back = true
				}
			}
			if back {
				head = d
				break
			}
		}
		ok := copyBlk != nil
		for _, p := range head.Preds {
			if !ReachableFrom(nx.In.Block())[p] || !head.Dominates(p) {
				continue
			}
			if copyBlk != nil && (copyBlk == p || copyBlk.Dominates(p)) {
				continue
			}
			skipOK := false
			for _, fct := range append(c.FactsAt(p), edgeFact(c, p, head)...) {
				if _, m := Match(Bin("==", Any(), Const(limitKey)), fct.Cond); m && fct.Val {
					skipOK = true
				}
			}
			if !skipOK {
				ok = false
			}
		}
		c.Check(ok, "C01.g-selector-rewrite", k+" › skips only the limit entry", nx.In.Pos(), "an entry is skipped only when its key is the limit key", "an entry other than the limit is dropped when the selector's limit is rewritten (stop condition or sequence lost)")
	}
	depth := c.CallsInl(w.SSA, Invoke("NodeAssembler.AssignInt", Any(), Call("selector.RecursionLimit).Depth", Op("param", limitParam.Name()))), 2)
	c.Check(len(depth) == 1, "C01.g-selector-rewrite", w.Name+" › new limit", w.SSA.Pos(), "the depth written is the given limit's depth", "rewritten selector does not carry the given limit")
	c.Floor("C01.g-selector-rewrite", 3)
}

// (h) the stock hook and the all-links entry points
func c01StockHookAndVariants(c *Ctx) {
	// MakeGeneralBlockHook: the hook decides the continuation for EVERY block it sees — the next CID is whatever the
	// caller's function says precedes this block (cid.Undef at the end of the chain included), or the sync is failed.
	// Leaving the previous block's decision in place lets the next segment start at a block already reported.
	if mk, hook := c.Func(dagsyncPkg, "MakeGeneralBlockHook"), stockHook(c); mk != nil && hook != nil {
		setNext := Invoke("SegmentSyncActions.SetNextSyncCid")
		fail := Invoke("SegmentSyncActions.FailSync")
		decided := func(in ssa.Instruction) bool {
			ci, ok := in.(ssa.CallInstruction)
			if !ok {
				return false
			}
			x := c.CallX(ci)
			_, a := Match(setNext, x)
			_, b := Match(fail, x)
			return a || b
		}
		ok, path := allPathsPass(hook, decided)
		c.Check(ok, "C01.h-stock-hook-decides", c.short(mk.SSA.String())+" › every block sets the continuation", hook.Pos(),
			"every path through the hook calls SetNextSyncCid or FailSync", "a path through the stock hook leaves the continuation of the previous block in place ("+path+"): the next segment re-reports a block, so blocks and count depend on the segment size")
		// what it sets is what the caller's lookup returned for this block
		okArg := false
		for _, cs := range c.Calls(hook, setNext) {
			if len(cs.X.Args) == 2 {
				if _, m := Match(Extract("0", Op("dyncall", "")), cs.X.Args[1]); m {
					okArg = true
					_, g := c.Guarded(cs.In, EqNil(Extract("1", Op("dyncall", ""))), true)
					okArg = okArg && g
				}
			}
		}
		c.Check(okArg, "C01.h-stock-hook-decides", c.short(mk.SSA.String())+" › continuation is the looked-up predecessor", hook.Pos(),
			"SetNextSyncCid receives the predecessor returned by the caller's lookup, on its err == nil edge", "the stock hook does not continue with the predecessor its lookup returned")
	} else {
		c.Unk("C01.h-stock-hook-decides", "dagsync.MakeGeneralBlockHook", token.NoPos, "not found, or not a single function literal")
	}
	c.Floor("C01.h-stock-hook-decides", 2)

	// all-links and single-block selectors carry no depth to split: such syncs must not be segmented. Looked at
	// where the per-publisher sync routine is finally called, in the terms of each exported entry point (whatever
	// helpers and parameter structs the selector and the segment size travel through on the way)
	n := 0
	if hr := c.Role("dagsync.handle"); hr != nil {
		for _, f := range c.Funcs(dagsyncPkg) {
			if f.SSA.Object() == nil || !f.SSA.Object().Exported() {
				continue
			}
			for _, st := range c.CallsInl(f.SSA, CallTo(hr), 3) {
				slots := c.SlotArgsEnv(st.CallSite, st.Env)
				selArg, segArg := slotOf(slots, "go-ipld-prime/datamodel.Node", 0), slotOf(slots, "int64", 0)
				if selArg == nil || segArg == nil {
					continue
				}
				unlimited := selArg.Contains(func(y *X) bool {
					return y.Op == "field" && (y.Name == "selectorAll" || y.Name == "selectorOne") && fieldOwner(y) == "Subscriber"
				})
				if !unlimited {
					continue
				}
				n++
				segArg = c.throughCell(segArg, st.Outer(), st.Env)
				k, isConst := constInt(segArg)
				c.Check(isConst && k <= 0, "C01.h-all-links-unsegmented", f.Name+" › "+c.short(hr.String()), st.Outer().Pos(),
					"a sync with the all-links / single-block selector is started with segmentation off", "an all-links or single-block sync is started with a segment size ("+abbreviate(segArg.String())+"): the traversal is cut at the segment depth and nothing continues it, so deeper blocks are never fetched although the sync reports success")
			}
		}
	}
	c.Floor("C01.h-all-links-unsegmented", 2)

	// the depth options hand their argument on unchanged: negative values mean "no limit" to the code that chooses
	// the limit, so a setter that clamps or rewrites them silently re-imposes the subscriber-wide limit
	// (FirstSyncDepth documents 0 as unlimited and is not part of this table)
	passThrough := map[string]bool{"depthLimit": true, "adsDepthLimit": true, "entriesDepthLimit": true, "segDepthLimit": true}
	for _, f := range c.Funcs(dagsyncPkg) {
		instrsDeep(f.SSA, func(g *ssa.Function, in ssa.Instruction) {
			st, ok := in.(*ssa.Store)
			if !ok || g.Parent() == nil {
				return // only option closures: func(*config) / func(*syncCfg)
			}
			a := c.E(st.Addr)
			if a.Op != "field" || !passThrough[a.Name] || (fieldOwner(a) != "config" && fieldOwner(a) != "syncCfg") {
				return
			}
			if strip(a.Args[0]).Op != "param" {
				return // not a setter writing through its argument
			}
			ok2 := true
			for _, l := range c.Leaves(c.E(st.Val), st) {
				if strip(l).Op != "param" {
					ok2 = false
				}
			}
			c.Check(ok2, "C01.h-depth-options-pass-through", c.short(topFunc(g).String())+" › "+a.Name, st.Pos(), "the option stores its argument as given", "the option rewrites its argument before storing it ("+abbreviate(c.E(st.Val).String())+"): the documented 'negative = no limit' no longer reaches the limit choice")
		})
	}
	c.Floor("C01.h-depth-options-pass-through", 5)
}

// counterOtherWrites: positions of the writes, other than inc itself and
// zero-initialisation at allocation, to the cell that inc increments: a local
// (possibly captured) variable, or a struct field (then: all stores to that
// field in the package).
func counterOtherWrites(c *Ctx, inc *ssa.Store) []string {
	var out []string
	addr := inc.Addr
	// captured variable: resolve the free variable to the parent's cell
	if fv, ok := addr.(*ssa.FreeVar); ok {
		if mc := c.xb.makeClosureOf(fv.Parent()); mc != nil {
			for i, v := range fv.Parent().FreeVars {
				if v == fv && i < len(mc.Bindings) {
					addr = mc.Bindings[i]
				}
			}
		}
	}
	switch a := addr.(type) {
	case *ssa.Alloc:
		var visit func(v ssa.Value, seen map[ssa.Value]bool)
		visit = func(v ssa.Value, seen map[ssa.Value]bool) {
			if seen[v] {
				return
			}
			seen[v] = true
			refs := v.Referrers()
			if refs == nil {
				return
			}
			for _, r := range *refs {
				switch r := r.(type) {
				case *ssa.Store:
					if r.Addr == v && r != inc {
						if k, ok := r.Val.(*ssa.Const); ok && k.Value != nil && k.Value.ExactString() == "0" && r.Block() == r.Parent().Blocks[0] {
							continue
						}
						out = append(out, c.pos(r.Pos()))
					}
				case *ssa.MakeClosure:
					for i, b := range r.Bindings {
						if b == v {
							if fn, ok := r.Fn.(*ssa.Function); ok && i < len(fn.FreeVars) {
								visit(fn.FreeVars[i], seen)
							}
						}
					}
				}
			}
		}
		visit(a, map[ssa.Value]bool{})
	case *ssa.FieldAddr:
		fld := deref(a.X.Type()).Underlying().(*types.Struct).Field(a.Field)
		for _, pf := range c.Funcs(dagsyncPkg) {
			for _, f := range allFuncs(pf.SSA) {
				instrs(f, func(in ssa.Instruction) {
					st, ok := in.(*ssa.Store)
					if !ok || st == inc {
						return
					}
					// the whole struct overwritten (e.g. *ss = T{}) writes the field too
					if _, isFA := st.Addr.(*ssa.FieldAddr); !isFA {
						if pt, ok := st.Addr.Type().Underlying().(*types.Pointer); ok {
							if stt, ok := pt.Elem().Underlying().(*types.Struct); ok {
								for i := 0; i < stt.NumFields(); i++ {
									if stt.Field(i) == fld {
										if al, fresh := st.Addr.(*ssa.Alloc); (!fresh || al.Block() != st.Block()) && !keepsField(st, fld) {
											out = append(out, c.pos(st.Pos()))
										}
									}
								}
							}
						}
					}
					if fa, ok := st.Addr.(*ssa.FieldAddr); ok {
						// the struct holding the counter overwritten as a whole through its own field address
						// (h.cur = state{…}): a write of the counter unless it is the initialisation before any sync call
						if pt, ok := fa.Type().Underlying().(*types.Pointer); ok {
							if stt, ok := pt.Elem().Underlying().(*types.Struct); ok {
								for i := 0; i < stt.NumFields(); i++ {
									if stt.Field(i) == fld {
										before := true
										instrs(f, func(o ssa.Instruction) {
											if ci, isCall := o.(ssa.CallInstruction); isCall && ci.Common().IsInvoke() && ci.Common().Method.Name() == "Sync" && MayFollow(o, st) {
												before = false
											}
										})
										if !before {
											out = append(out, c.pos(st.Pos()))
										}
									}
								}
							}
						}
						if deref(fa.X.Type()).Underlying().(*types.Struct).Field(fa.Field) == fld {
							// the second half of *p = T{f: p.f} built in place
							restored := false
							for _, o := range st.Block().Instrs {
								if z, ok := o.(*ssa.Store); ok && z != st && z.Addr == fa.X && restoresField(st, z, fld) {
									restored = true
								}
							}
							if restored {
								return
							}
							// initialisation inside the composite literal that creates the value is fine
							if _, fresh := fa.X.(*ssa.Alloc); fresh && st.Block() == fa.X.(*ssa.Alloc).Block() {
								if k, ok := st.Val.(*ssa.Const); ok && k.Value != nil && k.Value.ExactString() == "0" {
									return
								}
								// T{count: p.count}: the new value carries the old count over (what happens to the new
								// value is judged where it is stored as a whole)
								if ld, ok := st.Val.(*ssa.UnOp); ok {
									if fa2, ok := ld.X.(*ssa.FieldAddr); ok && deref(fa2.X.Type()).Underlying().(*types.Struct).Field(fa2.Field) == fld && !fa.X.(*ssa.Alloc).Heap {
										return
									}
								}
							}
							out = append(out, c.pos(st.Pos()))
						}
					}
				})
			}
		}
	default:
		out = append(out, "an unrecognised counter cell")
	}
	return out
}

// hookCounterInc: the increment of the synced-block counter in the subscriber-side hook wrapper.
func hookCounterInc(c *Ctx) *ssa.Store {
	h := c15HandleFn(c)
	if h == nil {
		return nil
	}
	for _, lit := range hookWrappers(c, h) {
		if len(c.Calls(lit, Op("dyncall", "", Any()))) == 0 || len(lit.Params) < 2 {
			continue
		}
		var inc []*ssa.Store
		instrs(lit, func(in ssa.Instruction) {
			if st, ok := in.(*ssa.Store); ok {
				if _, m := Match(Bin("+", Any(), Const("1")), c.E(st.Val)); m {
					inc = append(inc, st)
				}
			}
		})
		if len(inc) == 1 {
			return inc[0]
		}
	}
	return nil
}

// stockHook: the function MakeGeneralBlockHook returns — a literal, a named
// function, or a method value (then: the method behind the bound-method wrapper).
func stockHook(c *Ctx) *ssa.Function {
	mk := c.Func(dagsyncPkg, "MakeGeneralBlockHook")
	if mk == nil {
		return nil
	}
	var out *ssa.Function
	for _, b := range mk.SSA.Blocks {
		ret, ok := b.Instrs[len(b.Instrs)-1].(*ssa.Return)
		if !ok || len(ret.Results) != 1 {
			continue
		}
		var fn *ssa.Function
		switch v := unwrapV(ret.Results[0]).(type) {
		case *ssa.MakeClosure:
			fn, _ = v.Fn.(*ssa.Function)
		case *ssa.Function:
			fn = v
		}
		if fn != nil && fn.Synthetic != "" {
			// bound-method (or thunk) wrapper: the single call inside is the method
			var callee *ssa.Function
			instrs(fn, func(in ssa.Instruction) {
				if ci, ok := in.(ssa.CallInstruction); ok && ci.Common().StaticCallee() != nil {
					callee = ci.Common().StaticCallee()
				}
			})
			fn = callee
		}
		if fn == nil || (out != nil && out != fn) {
			return nil
		}
		out = fn
	}
	return out
}

// syncPoint is where a caller of the per-publisher sync routine has fixed what
// to sync: normally the call itself; when the stop link, stop CID and limit are
// results of an unexported helper that computed them (and the call is reached
// only on one outcome of that helper), the helper's return site for that
// outcome, with everything expressed in the helper's terms.
type syncPoint struct {
	fn     *Fn
	target *ssa.BasicBlock
	pos    token.Pos
	lnk    *X
	next   *X
	stop   *X
	limit  *X
}

func c01SyncPoint(c *Ctx, f *Fn, hcall CallSite, limit, lnk *X) syncPoint {
	slots := c.SlotArgs(hcall) // (root and stop CID: the first and the last CID handed over, positionally or in a parameter object)
	sp := syncPoint{fn: f, target: hcall.In.Block(), pos: hcall.In.Pos(), lnk: lnk, next: slotOf(slots, "go-cid.Cid", 0), stop: slotOf(slots, "go-cid.Cid", -1), limit: limit}
	if sp.next == nil || sp.stop == nil {
		args := hcall.X.Args
		sp.next, sp.stop = args[2], args[len(args)-1]
	}
	call, idx := helperCall(lnk)
	if call == nil {
		return sp
	}
	alts := c.RetAlts(strip(lnk))
	if len(alts) == 0 {
		return sp
	}
	keep := c.feasible(hcall.In.Block(), call, idx, len(alts))
	var R *ssa.Return
	n := 0
	for i, k := range keep {
		if k {
			R = alts[i].Ret
			n++
		}
	}
	obj, _ := call.Callee.Object().(*types.Func)
	if n != 1 || obj == nil {
		return sp
	}
	hf := c.fnOf(obj)
	ci, _ := call.V.(ssa.CallInstruction)
	if hf == nil || ci == nil {
		return sp
	}
	env := c.callEnv(ci, call.Callee, nil)
	inHelper := func(x *X) *X {
		if x == nil {
			return nil
		}
		if h2, j := helperCall(x); h2 != nil && h2.V == call.V && j < len(R.Results) {
			return c.RetX(R, j)
		}
		// a caller value handed to the helper: the parameter that carries it
		for p, a := range env {
			if Same(a, x) {
				return c.E(p)
			}
		}
		// a projection of a helper result (e.g. the stop CID taken from the returned link)
		if len(x.Args) > 0 {
			y := *x
			y.Args = make([]*X, len(x.Args))
			ch := false
			for i, a := range x.Args {
				y.Args[i] = a
				if h2, j := helperCall(a); h2 != nil && h2.V == call.V && j < len(R.Results) {
					y.Args[i] = c.RetX(R, j)
					ch = true
				}
			}
			if ch {
				return &y
			}
		}
		return x
	}
	return syncPoint{fn: hf, target: R.Block(), pos: R.Pos(), lnk: inHelper(lnk), next: inHelper(sp.next), stop: inHelper(sp.stop), limit: inHelper(limit)}
}

// hookWrappers: the functions the per-publisher routine installs as block
// hook — its function literals, and the named functions and method values
// whose value it takes (a wrapper hoisted into a method of the handler).
func hookWrappers(c *Ctx, h *ssa.Function) []*ssa.Function {
	out := append([]*ssa.Function{}, h.AnonFuncs...)
	seen := map[*ssa.Function]bool{}
	for _, f := range out {
		seen[f] = true
	}
	for _, f := range valueFuncs(h) {
		if f != nil && !seen[f] && len(f.Blocks) > 0 && f.Pkg == h.Pkg {
			seen[f] = true
			out = append(out, f)
		}
	}
	return out
}

// keepsField: the whole-struct store *p = T{…, f: p.f, …} leaves field f as it was.
func keepsField(st *ssa.Store, fld *types.Var) bool {
	ld, ok := st.Val.(*ssa.UnOp)
	if !ok {
		// built in place: *p = T{} followed by p.f = (p.f as loaded before)
		if k, isC := st.Val.(*ssa.Const); isC && k.Value == nil {
			after := false
			for _, o := range st.Block().Instrs {
				if o == ssa.Instruction(st) {
					after = true
					continue
				}
				if s2, ok := o.(*ssa.Store); ok && after && restoresField(s2, st, fld) {
					return true
				}
			}
		}
		return false
	}
	al, ok := ld.X.(*ssa.Alloc)
	if !ok || al.Referrers() == nil {
		return false
	}
	fieldOf := func(fa *ssa.FieldAddr) *types.Var {
		if stt, ok := deref(fa.X.Type()).Underlying().(*types.Struct); ok && fa.Field < stt.NumFields() {
			return stt.Field(fa.Field)
		}
		return nil
	}
	kept, n := false, 0
	for _, r := range *al.Referrers() {
		fa, ok := r.(*ssa.FieldAddr)
		if !ok || fieldOf(fa) != fld || fa.Referrers() == nil {
			continue
		}
		for _, r2 := range *fa.Referrers() {
			s2, ok := r2.(*ssa.Store)
			if !ok || s2.Addr != ssa.Value(fa) {
				continue
			}
			n++
			if l2, ok := s2.Val.(*ssa.UnOp); ok && l2.Block() == st.Block() {
				if fa2, ok := l2.X.(*ssa.FieldAddr); ok && fa2.X == st.Addr && fieldOf(fa2) == fld {
					kept = true
				}
			}
		}
	}
	return kept && n == 1
}

// restoresField: s2 stores to field fld of the struct that whole (a store in the same block, earlier) has just
// overwritten, the value the field had before that overwrite.
func restoresField(s2, whole *ssa.Store, fld *types.Var) bool {
	fa, ok := s2.Addr.(*ssa.FieldAddr)
	if !ok || fa.X != whole.Addr || s2.Block() != whole.Block() {
		return false
	}
	stt, ok := deref(fa.X.Type()).Underlying().(*types.Struct)
	if !ok || fa.Field >= stt.NumFields() || stt.Field(fa.Field) != fld {
		return false
	}
	ld, ok := s2.Val.(*ssa.UnOp)
	if !ok || ld.Block() != whole.Block() {
		return false
	}
	fa2, ok := ld.X.(*ssa.FieldAddr)
	if !ok || fa2.X != whole.Addr || fa2.Field != fa.Field {
		return false
	}
	idx := func(in ssa.Instruction) int {
		for i, o := range whole.Block().Instrs {
			if o == in {
				return i
			}
		}
		return -1
	}
	return idx(ld) < idx(whole) && idx(whole) < idx(s2)
}
