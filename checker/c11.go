package main

import (
	"strconv"
	"fmt"
	"go/token"
	"go/types"
	"strings"

	"golang.org/x/tools/go/ssa"
)

func init() {
	register(&propSpec{
		id:  "C11",
		run: runC11,
		explanation: "Structural necessary conditions of 'metadata encoding is canonical, round-trips for any protocol set, and is safe', decided on SSA of package metadata: " +
			"(M1) the encoder sorts before it emits, the constructor sorts, and the order is by protocol ID; " +
			"(M2) in every Protocol.ReadFrom implementation an allocation whose size derives from a value read from the input is dominated by an upper-bound test on that very value (before any arithmetic that could overflow) — the unknown-protocol decoder had no bound (fixed in 338b6f1); " +
			"(M3) Validate's order test compares each ID with a loop-carried previous ID that is assigned in the loop, with the strict comparison that accepts exactly what the encoder can emit (non-decreasing IDs) — the previous ID was never assigned (fixed in 58ac863); " +
			"(M4) every factory of the default context returns a protocol whose ID() is the key it is registered under, and unknown codes fall back to the opaque protocol; " +
			"(M5) a ReadFrom that hands the shared reader to the DAG-CBOR decoder uses the configuration that stops at the end of its item, not the one that probes for trailing content (fixed in 1f08001; the table is validated against ipld-prime's source in the thorough tier); " +
			"(M6) the decode loop's cursor discipline: the remaining buffer is advanced by exactly the count the protocol just consumed, the loop runs while bytes remain, each protocol reads from the current remainder (fixed in 20afb27), and decoding ends in Validate. " +
			"Concatenation/round-trip equalities as such and totality of the dag-cbor decoder are not decided.",
		assumptions: []string{"go-varint decoders are bounded", "ipld-prime dag-cbor decoder with DontParseBeyondEnd reads no further than its item"},
	})
	needsDeps["C11"] = true
}

const metaPkg = "metadata"

func runC11(c *Ctx) {
	c.Trust("go/ssa", "sort.Sort", "go-varint", "ipld-prime dagcbor")
	p := c.pkg(metaPkg)
	if p == nil {
		c.Unk("C11.M1-sorted-before-emit", "metadata", token.NoPos, "package not found")
		return
	}
	// ---- M1 ---------------------------------------------------------------------------------
	marsh := c.Func(metaPkg, "Metadata.MarshalBinary")
	if marsh == nil {
		c.Unk("C11.M1-sorted-before-emit", "metadata.(*Metadata).MarshalBinary", token.NoPos, "not found")
	} else {
		sorts := c.Calls(marsh.SSA, Call("sort.Sort", Op("param", marsh.SSA.Params[0].Name())))
		emits := c.Calls(marsh.SSA, Invoke("encoding.BinaryMarshaler.MarshalBinary"))
		if len(emits) == 0 {
			emits = c.Calls(marsh.SSA, Invoke("metadata.Protocol.MarshalBinary"))
		}
		ok := len(sorts) == 1 && len(emits) >= 1
		for _, e := range emits {
			if ok && !Precedes(sorts[0].In, e.In) {
				ok = false
			}
		}
		c.Check(ok, "C11.M1-sorted-before-emit", marsh.Name+" › sort ≺ emit", marsh.SSA.Pos(), "sort.Sort(m) dominates the emit loop", "protocols are emitted without (or before) sorting: the encoding depends on construction order")
		// emitted in slice order, all of them, concatenated
		writes := c.Calls(marsh.SSA, Call("bytes.Buffer).Write"))
		okCat := len(writes) == 1 && len(emits) == 1
		if okCat {
			_, okCat = Match(Extract("0", Is(c.E(emits[0].In.(*ssa.Call)))), writes[0].X.Args[1])
		}
		c.Check(okCat, "C11.M1-sorted-before-emit", marsh.Name+" › concatenates each protocol's encoding", marsh.SSA.Pos(), "each protocol's MarshalBinary output is appended to one buffer in slice order", "encoder does not concatenate every protocol's own encoding")
	}
	// constructor sorts
	if nw := c.Func(metaPkg, "metadataContext.New"); nw != nil {
		c.Check(len(c.Calls(nw.SSA, Call("sort.Sort"))) == 1, "C11.M1-sorted-before-emit", nw.Name+" › sorts", nw.SSA.Pos(), "New sorts the given protocols", "New does not sort")
	} else {
		c.Unk("C11.M1-sorted-before-emit", "metadata.(*metadataContext).New", token.NoPos, "not found")
	}
	if less := c.Func(metaPkg, "Metadata.Less"); less != nil {
		ok := false
		for _, b := range less.SSA.Blocks {
			if ret, isRet := b.Instrs[len(b.Instrs)-1].(*ssa.Return); isRet {
				x := c.RetX(ret, 0)
				idOf := func(i int) P {
					return Invoke("metadata.Protocol.ID", Op("index", "", Field("protocols", Any()), Op("param", less.SSA.Params[i].Name())))
				}
				_, ok = Match(Op("binop", "<", idOf(1), idOf(2)), x)
			}
		}
		c.Check(ok, "C11.M1-sorted-before-emit", less.Name+" › orders by ID ascending", less.SSA.Pos(), "Less(i, j) = protocols[i].ID() < protocols[j].ID()", "sort order is not ascending protocol ID")
	} else {
		c.Unk("C11.M1-sorted-before-emit", "metadata.(*Metadata).Less", token.NoPos, "not found")
	}
	c.Floor("C11.M1-sorted-before-emit", 4)

	// ---- M2' decoding never panics in the varint writer: scratch arrays hold the varints put into them (expected 0,
	// with a positive example)
	{
		var fns []*ssa.Function
		for _, f := range c.Funcs(metaPkg) {
			fns = append(fns, f.SSA)
		}
		for _, in := range varintScratchOverflows(c, fns) {
			c.Bad("C11.M2-varint-scratch-holds", c.short(in.Parent().String())+" › PutUvarint", in.Pos(), "varints are written one after the other into a fixed-size array too small for them (10 bytes each for arbitrary values): for large values PutUvarint indexes past the array and decoding panics")
		}
		if pc := c.posex(); pc == nil {
			c.Unk("C11.M2-varint-scratch-holds", "positive example", token.NoPos, "positive example package could not be loaded")
		} else {
			var pf []*ssa.Function
			for _, f := range pc.Funcs("ipnicheck/testdata/posex") {
				pf = append(pf, f.SSA)
			}
			n := len(varintScratchOverflows(pc, pf))
			c.Check(n == 1, "C11.M2-varint-scratch-holds", "positive example fires", token.NoPos, "rule found the seeded two-varints-in-one-scratch example (and nothing in /repo)", "rule did not find the seeded example: it would pass vacuously")
		}
		c.Floor("C11.M2-varint-scratch-holds", 1)
	}
	// ---- M2'' the cap the Unknown decoder puts on a payload is not below what an advertisement may carry as metadata:
	// a payload the encoder (and the advertisement's own validation) lets through must decode again
	{
		capS, ok1 := c.ConstString(modPath+"/"+metaPkg, "MaxMetadataSize")
		adS, ok2 := c.ConstString(modPath+"/ingest/schema", "MaxMetadataLen")
		capV, e1 := strconv.Atoi(capS)
		adV, e2 := strconv.Atoi(adS)
		if !ok1 || !ok2 || e1 != nil || e2 != nil {
			c.Unk("C11.M2-cap-covers-advertisement-limit", "metadata.MaxMetadataSize / schema.MaxMetadataLen", token.NoPos, "constants not found")
		} else {
			c.Check(capV >= adV, "C11.M2-cap-covers-advertisement-limit", "metadata.MaxMetadataSize ≥ schema.MaxMetadataLen", token.NoPos, "decoder cap "+capS+" ≥ advertisement metadata limit "+adS, "the Unknown decoder refuses payloads above "+capS+" bytes although an advertisement may carry "+adS+" bytes of metadata: a payload in between encodes and is accepted into an advertisement but does not decode")
		}
		c.Floor("C11.M2-cap-covers-advertisement-limit", 1)
	}
	// ---- M10 varints are read strictly: the decoders rebuild what they consumed from the decoded values
	// (UvarintSize(v) bytes per prefix), which is right only if the reader rejects padded encodings. go-varint's
	// readers do; encoding/binary's accept them, so a padded prefix would decode, re-encode to other bytes and shift
	// the offset at which the next protocol is read.
	{
		lax := func(cc *Ctx, fns []*Fn) []ssa.Instruction {
			var out []ssa.Instruction
			for _, f := range fns {
				for _, cs := range cc.Calls(f.SSA, Or(Call("encoding/binary.ReadUvarint"), Call("encoding/binary.Uvarint"), Call("encoding/binary.ReadVarint"), Call("encoding/binary.Varint"))) {
					out = append(out, cs.In)
				}
			}
			return out
		}
		nStrict := 0
		for _, f := range c.Funcs(metaPkg) {
			nStrict += len(c.Calls(f.SSA, Or(Call("go-varint.ReadUvarint"), Call("go-varint.FromUvarint"))))
		}
		for _, in := range lax(c, c.Funcs(metaPkg)) {
			c.Bad("C11.M10-varints-read-strictly", c.short(in.Parent().String())+" › varint reader", in.Pos(), "a varint is read with encoding/binary's reader, which accepts padded encodings: input with a padded prefix decodes, re-encodes to different bytes and the next protocol is read at a shifted offset")
		}
		c.Check(nStrict >= 3, "C11.M10-varints-read-strictly", "metadata › strict readers", token.NoPos, fmt.Sprint(nStrict)+" varint reads, all through go-varint (minimal encodings only)", "fewer varint reads through go-varint than the decoders need (3): "+fmt.Sprint(nStrict))
		if pc := c.posex(); pc == nil {
			c.Unk("C11.M10-varints-read-strictly", "positive example", token.NoPos, "positive example package could not be loaded")
		} else {
			c.Check(len(lax(pc, pc.Funcs("ipnicheck/testdata/posex"))) == 1, "C11.M10-varints-read-strictly", "positive example fires", token.NoPos, "rule found the seeded encoding/binary read (and none in metadata)", "rule did not find its positive example: it would pass vacuously")
		}
		c.Floor("C11.M10-varints-read-strictly", 2)
	}
	// ---- M2 bounded allocation in every ReadFrom ------------------------------------------------
	iface, _ := p.Types.Scope().Lookup("Protocol").(*types.TypeName)
	nImpl := 0
	for _, f := range c.Funcs(metaPkg) {
		if f.SSA.Name() != "ReadFrom" || f.SSA.Signature.Recv() == nil {
			continue
		}
		if iface != nil && !types.Implements(f.SSA.Signature.Recv().Type(), iface.Type().Underlying().(*types.Interface)) &&
			!types.Implements(types.NewPointer(deref(f.SSA.Signature.Recv().Type())), iface.Type().Underlying().(*types.Interface)) {
			continue
		}
		nImpl++
		nMake := 0
		// (the decoder may be split into phases: allocations are looked for in its step helpers too; a size handed in
		// as a parameter is followed to the caller's value and the caller's tests)
		c.WalkInl(f.SSA, 2, func(ev InlEvent) {
			in := ev.In
			mk, ok := in.(*ssa.MakeSlice)
			if !ok {
				return
			}
			nMake++
			n := c.E(mk.Len)
			key := f.Name + " › make #" + itoa(nMake)
			capBlock := mk.Block()
			isInput := func(y *X) bool {
				return y.Op == "extract" && y.Args[0].Op == "call" && (nameMatches(y.Args[0].Name, "go-varint.ReadUvarint") || nameMatches(y.Args[0].Name, "go-varint.FromUvarint")) && y.Name == "0"
			}
			if len(ev.Via) > 0 && n.Find(isInput) == nil && n.Find(func(y *X) bool { return y.Op == "param" }) != nil {
				n = subst(n, ev.Env)
				capBlock = ev.Via[0].Block()
			}
			// values read from the input that the size depends on
			var inputs []*X
			n.Contains(func(y *X) bool {
				if y.Op == "extract" && y.Args[0].Op == "call" && (nameMatches(y.Args[0].Name, "go-varint.ReadUvarint") || nameMatches(y.Args[0].Name, "go-varint.FromUvarint")) && y.Name == "0" {
					inputs = append(inputs, y)
				}
				return false
			})
			if len(inputs) == 0 {
				c.OK("C11.M2-alloc-bounded", key, mk.Pos(), "size does not depend on decoded input ("+abbreviate(n.String())+")")
				return
			}
			for _, v := range inputs {
				// only the payload length (not the protocol code, whose contribution is its varint size) must be bounded
				usedAsLen := n.Contains(func(y *X) bool { return y == v }) && !onlyUnderUvarintSize(n, v)
				if !usedAsLen {
					continue
				}
				k, ok := c.capAt(capBlock, v)
				configured := false
				if !ok {
					// a limit that is configured (a field of the receiver, with a constant default) rather than a literal:
					// still a test on the decoded value itself, against something the input does not influence
					for _, fct := range c.FactsAt(capBlock) {
						if fct.Val {
							continue
						}
						m, isCap := Match(Op("binop", ">", Is(v), Bind("k")), fct.Cond)
						if !isCap {
							continue
						}
						lim := m["k"]
						fromInput := false
						for _, in2 := range inputs {
							if lim.Contains(func(y *X) bool { return y == in2 }) {
								fromInput = true
							}
						}
						at, _ := lim.V.(ssa.Instruction)
						okLeaves := !fromInput
						for _, l := range c.Leaves(lim, at) {
							ls := strip(l)
							for ls != nil && ls.Op == "convert" && len(ls.Args) == 1 {
								ls = strip(ls.Args[0])
							}
							if ls == nil || !(ls.Op == "const" || ls.Op == "field") {
								okLeaves = false
							}
						}
						if okLeaves {
							configured = true
						}
					}
				}
				if ok {
					c.OK("C11.M2-alloc-bounded", key+" › bound on decoded length", mk.Pos(), "allocation dominated by decoded length <= "+itoa(int(k))+", tested on the decoded value itself")
				} else if configured {
					c.OK("C11.M2-alloc-bounded", key+" › bound on decoded length", mk.Pos(), "allocation dominated by decoded length <= a configured limit (constant default), tested on the decoded value itself")
				} else {
					c.Bad("C11.M2-alloc-bounded", key+" › bound on decoded length", mk.Pos(), "buffer sized from a length prefix read from untrusted input without an upper-bound test on that value (a test on a derived sum can overflow): hostile metadata allocates arbitrarily or panics in makeslice")
				}
			}
		})
	}
	c.Check(nImpl >= 4, "C11.M2-alloc-bounded", "metadata › ReadFrom implementations", token.NoPos, itoa(nImpl)+" Protocol.ReadFrom implementations analysed", "expected at least 4 ReadFrom implementations, found "+itoa(nImpl))
	c.Floor("C11.M2-alloc-bounded", 4)

	// ---- M3 Validate ---------------------------------------------------------------------------------
	c11Validate(c)
	// ---- M4 registry -----------------------------------------------------------------------------------
	c11Registry(c)
	// ---- M5 incremental decoder ---------------------------------------------------------------------------
	c11Incremental(c)
	// ---- M6 cursor ---------------------------------------------------------------------------------------------
	c11Cursor(c)
	c11Fresh(c)
	c11FixedProtocols(c)
}

// onlyUnderUvarintSize: every occurrence of v inside n is an argument of varint.UvarintSize.
func onlyUnderUvarintSize(n, v *X) bool {
	ok := true
	var walk func(x *X, under bool)
	walk = func(x *X, under bool) {
		if x == v && !under {
			ok = false
		}
		// (the size of a varint, or the number of bytes PutUvarint wrote: at most 10 whatever the value)
		u := under || (x.Op == "call" && (nameMatches(x.Name, "go-varint.UvarintSize") || nameMatches(x.Name, "go-varint.PutUvarint") || nameMatches(x.Name, "encoding/binary.PutUvarint")))
		for _, a := range x.Args {
			walk(a, u)
		}
	}
	walk(n, false)
	return ok
}

func c11Validate(c *Ctx) {
	v := c.Func(metaPkg, "Metadata.Validate")
	if v == nil {
		c.Unk("C11.M3-order-test-live", "metadata.(*Metadata).Validate", token.NoPos, "not found")
		return
	}
	found := false
	for _, b := range v.SSA.Blocks {
		iff, ok := b.Instrs[len(b.Instrs)-1].(*ssa.If)
		if !ok {
			continue
		}
		cx := c.E(iff.Cond)
		id := Invoke("metadata.Protocol.ID", Op("index", "", Field("protocols", Any())))
		m, ok := Match(Op("binop", "", Bind("l"), Bind("r")), cx)
		if !ok {
			continue
		}
		_, lID := Match(id, m["l"])
		_, rID := Match(id, m["r"])
		if lID == rID {
			continue // not (previous vs current)
		}
		found = true
		prev, op := m["l"], strip(cx).Name
		if lID {
			prev = m["r"]
			op = map[string]string{">": "<", "<": ">", ">=": "<=", "<=": ">="}[op]
		}
		key := v.Name + " › order test"
		// previous is loop carried and assigned an ID in the loop
		ph, isPhi := prev.V.(*ssa.Phi)
		live := false
		if isPhi {
			for _, e := range ph.Edges {
				if _, m := Match(id, c.E(e)); m {
					live = true
				}
			}
		}
		c.Check(live, "C11.M3-order-test-live", key+" › previous ID is assigned in the loop", iff.Pos(), "the compared value is loop carried and takes the ID of the element just visited", "the 'previous ID' compared against is never assigned in the loop: the order test is vacuous and unsorted input is accepted")
		// strict: prev > cur ⇒ error (accepts equal IDs, which the encoder can emit)
		errEdge := b.Succs[0]
		retErr := false
		if r, ok := errEdge.Instrs[len(errEdge.Instrs)-1].(*ssa.Return); ok {
			retErr = c.RetX(r, 0).Op != "nil"
		}
		c.Check(op == ">" && retErr, "C11.M3-order-test-live", key+" › strict comparison", iff.Pos(), "error iff previous ID > current ID (equal IDs, which New/MarshalBinary can produce, are accepted)", "order test is not 'previous > current ⇒ error' (operator "+op+"): it rejects encodings the library itself produces, or accepts descending IDs")
	}
	if !found {
		// the same through the slices package: error iff !slices.IsSortedFunc(protocols, f) with f(a, b) = cmp.Compare(a.ID(), b.ID())
		// (ascending, equal IDs accepted — IsSortedFunc only rejects f(next, prev) < 0)
		for _, cs := range c.Calls(v.SSA, Any()) {
			if !strings.HasPrefix(cs.X.Name, "slices.IsSortedFunc[") || len(cs.X.Args) != 2 {
				continue
			}
			if fx := strip(cs.X.Args[0]); fx == nil || fx.Op != "field" || fx.Name != "protocols" {
				continue
			}
			cmpFn := funcValueTarget(cs.X.Args[1].V)
			if cmpFn == nil || len(cmpFn.Params) != 2 {
				continue
			}
			found = true
			key := v.Name + " › order test"
			okCmp, nRet := true, 0
			for _, b := range cmpFn.Blocks {
				ret, isRet := b.Instrs[len(b.Instrs)-1].(*ssa.Return)
				if !isRet || len(ret.Results) != 1 {
					continue
				}
				nRet++
				m, isCmp := Match(CallLike([]string{"cmp.Compare["}, Invoke("metadata.Protocol.ID", Bind("a")), Invoke("metadata.Protocol.ID", Bind("b"))), c.RetX(ret, 0))
				if !isCmp || strip(m["a"]).V != ssa.Value(cmpFn.Params[0]) || strip(m["b"]).V != ssa.Value(cmpFn.Params[1]) {
					okCmp = false
				}
			}
			c.Check(okCmp && nRet == 1, "C11.M3-order-test-live", key+" › previous ID is assigned in the loop", cs.In.Pos(), "every consecutive pair is compared by cmp.Compare(a.ID(), b.ID())", "the comparison function does not order protocols by ascending ID")
			retErr := false
			for _, b := range v.SSA.Blocks {
				if r, ok := b.Instrs[len(b.Instrs)-1].(*ssa.Return); ok && c.RetX(r, 0).Op != "nil" {
					if _, g := c.GuardedB(b, Is(c.E(cs.In.(*ssa.Call))), false); g {
						retErr = true
					}
				}
			}
			c.Check(retErr, "C11.M3-order-test-live", key+" › strict comparison", cs.In.Pos(), "error iff the list is not sorted ascending (equal IDs, which New/MarshalBinary can produce, are accepted)", "Validate does not fail exactly when the IDs are not in ascending order")
		}
	}
	if !found {
		c.Bad("C11.M3-order-test-live", v.Name+" › order test", v.SSA.Pos(), "Validate does not compare consecutive protocol IDs")
	}
	// decoding ends in Validate
	if u := c.Func(metaPkg, "Metadata.UnmarshalBinary"); u != nil {
		ok := true
		for _, b := range u.SSA.Blocks {
			if ret, isRet := b.Instrs[len(b.Instrs)-1].(*ssa.Return); isRet {
				x := c.RetX(ret, 0)
				if x.Op == "nil" {
					ok = false
				}
			}
		}
		c.Check(ok && len(c.Calls(u.SSA, Call("metadata.Metadata).Validate"))) == 1, "C11.M3-order-test-live", u.Name+" › ends in Validate", u.SSA.Pos(), "no success return bypasses Validate", "UnmarshalBinary can succeed without validating")
	}
	c.Floor("C11.M3-order-test-live", 3)
}

func c11Registry(c *Ctx) {
	// stores into the default context's protocol map in init
	p := c.pkg(metaPkg)
	initFn := c.SSAPkgs[p.PkgPath].Func("init")
	n := 0
	var fns []*ssa.Function
	if initFn != nil {
		fns = append(fns, allFuncs(initFn)...)
	}
	for _, m := range c.SSAPkgs[p.PkgPath].Members {
		if f, ok := m.(*ssa.Function); ok && strings.HasPrefix(f.Name(), "init#") {
			fns = append(fns, allFuncs(f)...)
		}
	}
	for _, f := range fns {
		instrs(f, func(in ssa.Instruction) {
			mu, ok := in.(*ssa.MapUpdate)
			if !ok {
				return
			}
			key := c.E(mu.Key)
			fac := unwrapV(mu.Value)
			ff, ok := fac.(*ssa.Function)
			if !ok {
				if mc, isMC := fac.(*ssa.MakeClosure); isMC {
					ff = mc.Fn.(*ssa.Function)
				} else {
					return
				}
			}
			n++
			// the factory returns &T{}; T.ID() returns a constant equal to the key
			var recvType types.Type
			for _, b := range ff.Blocks {
				if ret, isRet := b.Instrs[len(b.Instrs)-1].(*ssa.Return); isRet && len(ret.Results) == 1 {
					recvType = unwrapV(ret.Results[0]).Type()
				}
			}
			k := "default context › factory for " + key.String()
			if recvType == nil {
				c.Unk("C11.M4-registry", k, mu.Pos(), "cannot determine the factory's result type")
				return
			}
			ms := c.Prog.MethodSets.MethodSet(recvType)
			sel := ms.Lookup(nil, "ID")
			if sel == nil {
				c.Bad("C11.M4-registry", k, mu.Pos(), "factory result has no ID method")
				return
			}
			idFn := c.Prog.MethodValue(sel)
			idConst := ""
			for _, b := range idFn.Blocks {
				if ret, isRet := b.Instrs[len(b.Instrs)-1].(*ssa.Return); isRet {
					if x := c.RetX(ret, 0); x.Op == "const" {
						idConst = x.Name
					} else if x.Op == "call" || x.Op == "extract" {
						// wrapper method for value receiver: follow
						idConst = x.String()
					}
				}
			}
			// follow synthetic pointer-wrapper
			if !isNumber(idConst) {
				if base := c.Prog.MethodSets.MethodSet(deref(recvType)).Lookup(nil, "ID"); base != nil {
					bf := c.Prog.MethodValue(base)
					for _, b := range bf.Blocks {
						if ret, isRet := b.Instrs[len(b.Instrs)-1].(*ssa.Return); isRet {
							if x := c.RetX(ret, 0); x.Op == "const" {
								idConst = x.Name
							}
						}
					}
				}
			}
			c.Check(key.Op == "const" && key.Name == idConst, "C11.M4-registry", k, mu.Pos(), "registered under the ID its protocol reports ("+idConst+")", "factory registered under "+key.String()+" builds a protocol whose ID() is "+idConst)
		})
	}
	c.Check(n >= 3, "C11.M4-registry", "default context › factories", token.NoPos, itoa(n)+" factories registered", "expected 3 default factories, found "+itoa(n))
	// fallback
	if nt := c.RoleFn("metadata.factory"); nt != nil {
		okFallback, okHit := false, false
		for _, b := range nt.SSA.Blocks {
			if ret, isRet := b.Instrs[len(b.Instrs)-1].(*ssa.Return); isRet {
				x := c.RetX(ret, 0)
				_, miss := c.GuardedB(b, Extract("1", Op("lookup", "", Field("protocols", Any()), Op("param", ""))), false)
				_, hit := c.GuardedB(b, Extract("1", Op("lookup", "", Field("protocols", Any()), Op("param", ""))), true)
				if miss && strings.Contains(x.String(), "Unknown") {
					okFallback = true
				}
				if !miss && strings.Contains(x.String(), "Unknown") {
					// the opaque fallback may be shared by "not registered" and "registered but unusable" (a nil factory,
					// a factory that hands back nil): it is reached from the miss edge among others
					for _, mb := range nt.SSA.Blocks {
						if _, onMiss := c.GuardedB(mb, Extract("1", Op("lookup", "", Field("protocols", Any()), Op("param", ""))), false); onMiss && ReachableFrom(mb)[b] {
							okFallback = true
						}
					}
					// (a short-circuit 'ok && factory != nil' has no block under the miss fact alone: the lookup's false edge leads here)
					if !okFallback {
						instrs(nt.SSA, func(in ssa.Instruction) {
							if iff, isIf := in.(*ssa.If); isIf {
								if _, m := Match(Extract("1", Op("lookup", "", Field("protocols", Any()), Op("param", ""))), c.E(iff.Cond)); m && len(iff.Block().Succs) == 2 {
									if f := iff.Block().Succs[1]; f == b || ReachableFrom(f)[b] {
										okFallback = true
									}
								}
							}
						})
					}
				}
				if hit && x.Op == "dyncall" {
					okHit = true
				}
			}
		}
		c.Check(okFallback && okHit, "C11.M4-registry", nt.Name+" › known ⇒ factory, unknown ⇒ opaque", nt.SSA.Pos(), "registered codes use their factory, all others the opaque Unknown protocol", "unknown protocol codes do not fall back to the opaque protocol (or known ones bypass their factory)")
	}
	c.Floor("C11.M4-registry", 5)
}

func isNumber(s string) bool {
	if s == "" {
		return false
	}
	for _, r := range s {
		if r < '0' || r > '9' {
			return false
		}
	}
	return true
}

func c11Incremental(c *Ctx) {
	n := 0
	for _, f := range c.Funcs(metaPkg) {
		if f.SSA.Name() != "ReadFrom" {
			continue
		}
		for _, cs := range c.Calls(f.SSA, Any()) {
			name := cs.X.Name
			if !strings.Contains(name, "codec/dagcbor") && !strings.Contains(name, "codec/dagjson") {
				continue
			}
			n++
			key := f.Name + " › " + c.short(name)
			switch {
			case nameMatches(name, "dagcbor.Decode") || nameMatches(name, "dagjson.Decode"):
				c.Bad("C11.M5-incremental-decoder", key, cs.In.Pos(), "a decoder that fails on trailing content is applied to the reader other protocols follow on: metadata with a protocol after this one encodes but does not decode")
			case nameMatches(name, "dagcbor.DecodeOptions).Decode"):
				opts := c.CellFields(cs.X.Args[0])
				v := opts["DontParseBeyondEnd"]
				c.Check(v != nil && v.Op == "const" && v.Name == "true", "C11.M5-incremental-decoder", key, cs.In.Pos(), "decoder configured with DontParseBeyondEnd: true", "decoder options do not set DontParseBeyondEnd")
				// reads from the counting reader so that the consumed length is known
				_, counted := Match(Op("complit", "countingReader"), cs.X.Args[2])
				if !counted {
					counted = strings.Contains(cs.X.Args[2].String(), "countingReader")
				}
				c.Check(counted, "C11.M5-incremental-decoder", key+" › counted", cs.In.Pos(), "decodes through the counting reader", "bytes consumed by the decoder are not counted")
			default:
				c.Unk("C11.M5-incremental-decoder", key, cs.In.Pos(), "unrecognised decoder entry point")
			}
		}
	}
	c.Floor("C11.M5-incremental-decoder", 2)
	if c.AllDeps {
		// validate the table against ipld-prime's source: Decode = DecodeOptions{...}.Decode, which probes for
		// trailing bytes unless DontParseBeyondEnd
		var probe, guarded bool
		for path, sp := range c.SSAPkgs {
			if !strings.HasSuffix(path, "go-ipld-prime/codec/dagcbor") || sp == nil {
				continue
			}
			tn, _ := sp.Pkg.Scope().Lookup("DecodeOptions").(*types.TypeName)
			if tn == nil {
				continue
			}
			sel := c.Prog.MethodSets.MethodSet(tn.Type()).Lookup(nil, "Decode")
			if sel == nil {
				continue
			}
			df := c.Prog.MethodValue(sel)
			for _, cs := range c.Calls(df, Call("io.ReadFull")) {
				probe = true
				_, guarded = c.Guarded(cs.In, Field("DontParseBeyondEnd", Any()), false)
			}
		}
		c.Check(probe && guarded, "C11.M5-incremental-decoder", "ipld-prime dagcbor › table validated", token.NoPos, "DecodeOptions.Decode probes for trailing bytes only when DontParseBeyondEnd is false", "ipld-prime's decoder no longer matches the table (trailing-content probe not found or not controlled by DontParseBeyondEnd)")
	}
}

// c11Fresh: encodings and derived contexts do not share memory with anything that lives on.
func c11Fresh(c *Ctx) {
	// every MarshalBinary in the package returns bytes of a buffer it created: an encoding handed out must not be
	// overwritten by the next one (Metadata.MarshalBinary concatenates protocol encodings; Equal compares them)
	n := 0
	for _, f := range c.Funcs(metaPkg) {
		if f.SSA.Name() != "MarshalBinary" || f.SSA.Signature.Recv() == nil {
			continue
		}
		for _, b := range f.SSA.Blocks {
			ret, ok := b.Instrs[len(b.Instrs)-1].(*ssa.Return)
			if !ok || len(ret.Results) != 2 || c.RetX(ret, 1).Op != "nil" {
				continue
			}
			for _, l := range c.Leaves(c.RetX(ret, 0), ret) {
				m, isBuf := Match(Call("bytes.Buffer).Bytes", Bind("buf")), l)
				if !isBuf {
					continue
				}
				n++
				c.Check(freshBuffer(m["buf"]), "C11.M8-encodings-not-shared", f.Name+" › returned bytes", ret.Pos(), "the encoding returned is the contents of a buffer created by this call", "the encoding returned aliases a buffer that outlives the call ("+abbreviate(m["buf"].String())+"): the next encoding overwrites it, so a multiset is no longer the concatenation of its protocols' encodings and Equal compares garbage")
			}
		}
	}
	c.Floor("C11.M8-encodings-not-shared", 2)
	// a derived context gets its own protocol table: registering a parser in it must not change the parent (Default)
	if w := c.Func(metaPkg, "metadataContext.WithProtocol"); w != nil {
		nU := 0
		instrs(w.SSA, func(in ssa.Instruction) {
			mu, ok := in.(*ssa.MapUpdate)
			if !ok {
				return
			}
			nU++
			m := strip(c.E(mu.Map))
			freshMap := m.Op == "makemap"
			if !freshMap {
				// a field of a literal built here, initialised with a map made here
				if m.Op == "field" {
					if fs := c.CellFields(m.Args[0]); fs[m.Name] != nil && (strip(fs[m.Name]).Op == "makemap" || (strip(fs[m.Name]).Op == "call" && strings.HasPrefix(strip(fs[m.Name]).Name, "maps.Clone["))) {
						freshMap = true // made here, or a clone (maps.Clone) of the parent's
					}
				}
			}
			c.Check(freshMap, "C11.M8-derived-context-own-table", w.Name+" › table written", mu.Pos(), "the derived context writes into a protocol table made by this call", "the derived context writes into a protocol table it shares with its parent ("+abbreviate(m.String())+"): registering a parser in a derived context changes how the default context decodes that code")
		})
		if nU == 0 {
			c.Unk("C11.M8-derived-context-own-table", w.Name, w.SSA.Pos(), "no table update found")
		}
	} else {
		c.Unk("C11.M8-derived-context-own-table", "metadata.(*metadataContext).WithProtocol", token.NoPos, "not found")
	}
	c.Floor("C11.M8-derived-context-own-table", 1)
}

// c11FixedProtocols: a protocol whose encoding is a fixed byte string accepts,
// when decoding, exactly that byte string — the success return of its ReadFrom
// is dominated by bytes.Equal(canonical bytes, what was read). (Comparing only
// the leading code accepts encodings with another payload length: the decoder
// then returns a value that re-encodes to different bytes than it consumed.)
func c11FixedProtocols(c *Ctx) {
	n := 0
	for _, f := range c.Funcs(metaPkg) {
		if f.SSA.Name() != "MarshalBinary" || f.SSA.Signature.Recv() == nil {
			continue
		}
		var g *X
		fixed := true
		for _, b := range f.SSA.Blocks {
			if ret, ok := b.Instrs[len(b.Instrs)-1].(*ssa.Return); ok && len(ret.Results) == 2 {
				v := strip(c.RetX(ret, 0))
				if v.Op != "global" && !(v.Op == "deref" && len(v.Args) == 1 && v.Args[0].Op == "global") {
					fixed = false
				} else {
					g = v
				}
			}
		}
		if !fixed || g == nil {
			continue
		}
		recvT := deref(f.SSA.Signature.Recv().Type())
		named, ok := recvT.(*types.Named)
		if !ok {
			continue
		}
		rf := c.Func(metaPkg, canonType(named.Obj())+".ReadFrom")
		if rf == nil {
			continue
		}
		n++
		gname := g.String()
		okAll := true
		nSucc := 0
		// 'return codec.readFrom(r)': the decoding routine shared by the fixed-encoding protocols is judged in their
		// place — it succeeds only after comparing everything it read (with whatever canonical bytes it is given)
		for _, b := range rf.SSA.Blocks {
			ret, isRet := b.Instrs[len(b.Instrs)-1].(*ssa.Return)
			if !isRet || len(ret.Results) != 2 {
				continue
			}
			h0, _ := helperCall(c.RetX(ret, 1))
			if h0 == nil || h0.Callee == nil || c.RetX(ret, 1).Op == "nil" {
				continue
			}
			for _, hb := range h0.Callee.Blocks {
				hret, ok := hb.Instrs[len(hb.Instrs)-1].(*ssa.Return)
				if !ok || len(hret.Results) != 2 || c.RetX(hret, 1).Op != "nil" {
					continue
				}
				nSucc++
				eq := false
				for _, fct := range c.FactsAt(hb) {
					if fct.Val && fct.Cond.Op == "call" && nameMatches(fct.Cond.Name, "bytes.Equal") && fct.Cond.Contains(func(y *X) bool { return y.Op == "makeslice" }) {
						eq = true
					}
				}
				if !eq {
					okAll = false
				}
			}
		}
		for _, b := range rf.SSA.Blocks {
			ret, isRet := b.Instrs[len(b.Instrs)-1].(*ssa.Return)
			if !isRet || len(ret.Results) != 2 || c.RetX(ret, 1).Op != "nil" {
				continue
			}
			nSucc++
			eq := false
			for _, fct := range c.FactsAt(b) {
				if fct.Val && fct.Cond.Op == "call" && nameMatches(fct.Cond.Name, "bytes.Equal") && fct.Cond.Contains(func(y *X) bool { return y.Op == "global" && strings.Contains(gname, y.Name) }) {
					eq = true
				}
			}
			if !eq {
				okAll = false
			}
		}
		c.Check(okAll && nSucc > 0, "C11.M9-fixed-encoding-decoded-exactly", rf.Name+" › accepts exactly its own encoding", rf.SSA.Pos(), "success dominated by bytes.Equal("+gname+", bytes read)", "the decoder of a fixed-encoding protocol succeeds without having compared all the bytes it consumed with its canonical encoding ("+gname+"): input with a different payload-length byte is accepted and re-encodes to other bytes than were consumed")
	}
	c.Floor("C11.M9-fixed-encoding-decoded-exactly", 2)
}

func c11Cursor(c *Ctx) {
	u := c.Func(metaPkg, "Metadata.UnmarshalBinary")
	if u == nil {
		c.Unk("C11.M6-cursor-discipline", "metadata.(*Metadata).UnmarshalBinary", token.NoPos, "not found")
		return
	}
	key := u.Name + " › cursor"
	// (the per-protocol step may be an unexported helper of the decoder: the read is looked up through it and
	// expressed in the decoder's terms; what the helper returns as "consumed" is followed back to the read's count)
	readsI := c.CallsInl(u.SSA, Invoke("metadata.Protocol.ReadFrom"), 2)
	if len(readsI) != 1 {
		c.Bad("C11.M6-cursor-discipline", key, u.SSA.Pos(), "expected exactly one ReadFrom call in the decode loop")
		return
	}
	rd := readsI[0].CallSite
	consumed := c.Result(rd, 0)
	isConsumed := func(lo *X) bool {
		if Same(lo, consumed) || strip(lo).V == consumed.V {
			return true
		}
		at, _ := lo.V.(ssa.Instruction)
		ls := c.Leaves(lo, at)
		if len(ls) == 0 {
			return false
		}
		for _, l := range ls {
			if !(Same(l, consumed) || strip(l).V == consumed.V) {
				return false
			}
		}
		return true
	}
	// the reader is a buffer over the current remainder B
	// (the reader may be narrowed to a read-only view: struct{ io.Reader }{buf} exposes Read alone and behaves as buf does)
	if v := strip(rd.X.Args[1]); v != nil && v.Op == "complit" && len(v.Args) == 1 && v.Args[0].Op == "fieldinit" && v.Args[0].Name == "Reader" && len(v.Args[0].Args) == 1 {
		rd.X = &X{Op: rd.X.Op, Name: rd.X.Name, V: rd.X.V, Args: []*X{rd.X.Args[0], v.Args[0].Args[0]}}
	}
	bb, ok := Match(Call("bytes.NewBuffer", Bind("B")), rd.X.Args[1])
	if !ok {
		bb, ok = Match(Call("bytes.NewReader", Bind("B")), rd.X.Args[1])
	}
	if !ok {
		c.Bad("C11.M6-cursor-discipline", key, rd.In.Pos(), "protocol does not read from a buffer over the remaining input: "+abbreviate(rd.X.Args[1].String()))
		return
	}
	// a protocol with an empty payload that is read last issues a zero-length Read at the end of the input. io.Reader
	// allows that to fail with EOF (bytes.Reader does; bytes.Buffer returns 0, nil). Either no protocol issues such a
	// read unguarded and treats its error as a failure, or the reader is a bytes.Buffer.
	_, isBuffer := Match(Call("bytes.NewBuffer", Any()), rd.X.Args[1])
	var fragile []string
	for _, f := range c.Funcs(metaPkg) {
		if f.SSA.Name() != "ReadFrom" || len(f.SSA.Params) != 2 {
			continue
		}
		rp := f.SSA.Params[1]
		for _, cs := range c.Calls(f.SSA, Invoke("io.Reader.Read")) {
			if cs.X.Args[0].V != ssa.Value(rp) {
				continue
			}
			h := c.ErrPropagates(cs)
			if h.Kind == "swallowed" || h.Kind == "dropped" {
				continue
			}
			// guarded by a non-zero size?
			guarded := false
			for _, fct := range c.FactsAt(cs.In.Block()) {
				if _, m := Match(Bin("==", Any(), Const("0")), fct.Cond); m && !fct.Val {
					guarded = true
				}
				if _, m := Match(Op("binop", ">", Any(), Const("0")), fct.Cond); m && fct.Val {
					guarded = true
				}
			}
			if !guarded {
				fragile = append(fragile, f.Name+" at "+c.pos(cs.In.Pos()))
			}
		}
	}
	c.Check(isBuffer || len(fragile) == 0, "C11.M6-cursor-discipline", key+" › zero-length read at end of input", rd.In.Pos(),
		"protocols read from a bytes.Buffer, whose zero-length Read never fails (needed by: "+strings.Join(fragile, ", ")+")",
		"the per-protocol reader is not a bytes.Buffer although "+strings.Join(fragile, ", ")+" reads its payload with a plain Read and fails on any error: an empty payload in last position gets io.EOF, so the library's own encoding no longer decodes")
	B := bb["B"]
	ph, isPhi := B.V.(*ssa.Phi)
	// shared-buffer idiom: one bytes.Buffer over the data parameter, made before the loop; every protocol reads its own
	// encoding off its front, the loop runs while buf.Len() != 0 and the code is peeked from buf.Bytes()
	sharedBuf := false
	var bufX *X
	if nb, isCall := strip(rd.X.Args[1]).V.(*ssa.Call); isCall && isBuffer && B.Op == "param" && !ReachableFromSucc(nb.Block(), nb.Block()) && ReachableFromSucc(rd.In.Block(), rd.In.Block()) && len(readsI[0].Via) == 0 {
		sharedBuf, bufX = true, c.E(nb)
		okUses := true
		if nb.Referrers() != nil {
			for _, r := range *nb.Referrers() {
				switch r := r.(type) {
				case *ssa.Call:
					name := ""
					if callee := r.Call.StaticCallee(); callee != nil {
						name = callee.Name()
					}
					if !(name == "Len" || name == "Bytes") {
						okUses = false
					}
				case *ssa.MakeInterface, *ssa.DebugRef:
				default:
					okUses = false
				}
			}
		}
		okCond := false
		for _, b := range u.SSA.Blocks {
			if iff, ok := b.Instrs[len(b.Instrs)-1].(*ssa.If); ok {
				if _, m := Match(Bin("!=", Call("bytes.Buffer).Len", Is(bufX)), Const("0")), c.E(iff.Cond)); m {
					okCond = true
				}
				if _, m := Match(Op("binop", ">", Call("bytes.Buffer).Len", Is(bufX)), Const("0")), c.E(iff.Cond)); m {
					okCond = true
				}
			}
		}
		c.Check(okUses, "C11.M6-cursor-discipline", key+" › advance by consumed", rd.In.Pos(), "one buffer over the input, advanced only by the protocols reading their own encoding off it", "the shared input buffer is also consumed or replaced outside the protocols' ReadFrom")
		c.Check(okCond, "C11.M6-cursor-discipline", key+" › loop while bytes remain", u.SSA.Pos(), "loop condition is buf.Len() != 0", "loop condition does not test the remaining input")
	}
	switch {
	case sharedBuf:
	case isPhi:
		// relative idiom: B = phi(param, B[n:]) with n = bytes consumed in this iteration; loop while len(B) != 0
		okAdv := false
		for _, e := range ph.Edges {
			x := c.E(e)
			if x.Op == "param" {
				continue
			}
			if m, ok := Match(Op("slice", "", Is(B), Bind("lo"), Op("nil", ""), Op("nil", "")), x); ok {
				okAdv = isConsumed(m["lo"])
				if !okAdv {
					// the advance is judged where it happens: only return sites of the helper compatible with err == nil
					if si, ok := x.V.(ssa.Instruction); ok {
						all := true
						ls := c.Leaves(m["lo"], si)
						for _, l := range ls {
							if !(Same(l, consumed) || strip(l).V == consumed.V) {
								all = false
							}
						}
						okAdv = all && len(ls) > 0
					}
				}
			} else {
				okAdv = false
				break
			}
		}
		c.Check(okAdv, "C11.M6-cursor-discipline", key+" › advance by consumed", rd.In.Pos(), "remaining input := remaining[n:] where n is what this protocol's ReadFrom reported", "the decode cursor is not advanced by exactly the bytes the protocol consumed (cumulative count applied to an already advanced buffer?)")
		okCond := false
		for _, b := range u.SSA.Blocks {
			if iff, ok := b.Instrs[len(b.Instrs)-1].(*ssa.If); ok {
				if _, m := Match(Bin("!=", Op("builtin", "len", Is(B)), Const("0")), c.E(iff.Cond)); m {
					okCond = true
				}
				if _, m := Match(Op("binop", ">", Op("builtin", "len", Is(B)), Const("0")), c.E(iff.Cond)); m {
					okCond = true
				}
			}
		}
		c.Check(okCond, "C11.M6-cursor-discipline", key+" › loop while bytes remain", u.SSA.Pos(), "loop condition is len(remaining) != 0", "loop condition does not test the remaining input")
	case B.Op == "slice":
		// absolute idiom: B = data[R:], R accumulates consumed; data never reassigned
		m, ok := Match(Op("slice", "", Op("param", ""), Bind("R"), Op("nil", ""), Op("nil", "")), B)
		okAbs := ok
		if ok {
			_, okAbs = Match(Bin("+", Op("phi", ""), Is(consumed)), m["R"])
			if !okAbs {
				rp, isP := m["R"].V.(*ssa.Phi)
				if isP {
					for _, e := range rp.Edges {
						if _, mm := Match(Bin("+", Is(m["R"]), Is(consumed)), c.E(e)); mm {
							okAbs = true
						}
					}
				}
			}
		}
		c.Check(okAbs, "C11.M6-cursor-discipline", key+" › absolute offset", rd.In.Pos(), "reads from data[R:] with R accumulating consumed bytes and data never re-sliced", "absolute-offset cursor not recognised as data[R:], R += consumed")
	default:
		c.Bad("C11.M6-cursor-discipline", key, rd.In.Pos(), "cursor idiom not recognised: "+abbreviate(B.String()))
	}
	// the protocol decoded is the one selected by the code at the cursor
	_, okSel := Match(c.RoleCall("metadata.factory", Any(), Extract("0", Call("go-varint.FromUvarint", Is(B)))), rd.X.Args[0])
	if sharedBuf {
		_, okSel = Match(c.RoleCall("metadata.factory", Any(), Extract("0", Call("go-varint.FromUvarint", Call("bytes.Buffer).Bytes", Is(bufX))))), rd.X.Args[0])
	}
	c.Check(okSel, "C11.M6-cursor-discipline", key+" › protocol chosen by the code at the cursor", rd.In.Pos(), "the protocol is chosen from the varint at the current position", "protocol not chosen from the code at the current cursor position")
	c.Floor("C11.M6-cursor-discipline", 3)
}

// varintScratchOverflows lists PutUvarint calls that write into a fixed-size
// byte array too small for the varints put into it one after the other: an
// unbounded uint64 takes up to 10 bytes, so an array receiving k consecutive
// varints (one at offset 0, the others at running offsets) needs 10·k bytes;
// PutUvarint panics otherwise.
func varintScratchOverflows(c *Ctx, fns []*ssa.Function) []ssa.Instruction {
	var out []ssa.Instruction
	for _, fn := range fns {
		byArr := map[*ssa.Alloc][]*ssa.Call{}
		offs := map[*ssa.Call]bool{}
		instrs(fn, func(in ssa.Instruction) {
			call, ok := in.(*ssa.Call)
			if !ok {
				return
			}
			x := c.CallX(call)
			if x.Op != "call" || !(nameMatches(x.Name, "go-varint.PutUvarint") || nameMatches(x.Name, "encoding/binary.PutUvarint")) || len(call.Call.Args) != 2 {
				return
			}
			sl, ok := call.Call.Args[0].(*ssa.Slice)
			if !ok {
				return
			}
			al, ok := sl.X.(*ssa.Alloc)
			if !ok {
				return
			}
			if _, isArr := deref(al.Type()).Underlying().(*types.Array); !isArr {
				return
			}
			byArr[al] = append(byArr[al], call)
			if sl.Low != nil {
				if cst, isC := sl.Low.(*ssa.Const); !isC || cst.Value == nil || cst.Value.ExactString() != "0" {
					offs[call] = true
				}
			}
		})
		for al, calls := range byArr {
			arr := deref(al.Type()).Underlying().(*types.Array)
			k := 1
			for _, cl := range calls {
				if offs[cl] {
					k++
				}
			}
			if arr.Len() < int64(10*k) {
				for _, cl := range calls {
					if offs[cl] || len(calls) == 1 {
						out = append(out, cl)
					}
				}
			}
		}
	}
	return out
}
