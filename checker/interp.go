package main

import (
	"go/token"
	"go/types"
	"strings"

	"golang.org/x/tools/go/ssa"
)

// Interprocedural helpers. The rules are written against one function at a
// time; these helpers make them indifferent to the most common
// behaviour-preserving refactoring, the extraction of (duplicated) code into
// an unexported helper:
//
//   subst      rewrites an expression of a callee into the caller's terms;
//   CallsInl   call sites of a function AND of the same-package helpers it
//              calls (bounded depth), expressed in the caller's terms, with
//              the chain of outer calls they were reached through;
//   Actuals    for a value that is a parameter of an unexported helper, the
//              actual arguments at all of its static call sites;
//   inlinable  trivial pure functions/closures are expanded in place by the
//              expression builder (see xbuilder.callExpr).

// subst returns x with every node whose SSA value is a key of env replaced.
func subst(x *X, env map[ssa.Value]*X) *X {
	if x == nil || len(env) == 0 {
		return x
	}
	if x.V != nil {
		if r, ok := env[x.V]; ok {
			// keep projections applied by the load (Addr flag) of the original
			return r
		}
	}
	if x.Cell != nil {
		if r, ok := env[ssa.Value(x.Cell)]; ok {
			return r
		}
	}
	if len(x.Args) == 0 {
		return x
	}
	y := *x
	y.Args = make([]*X, len(x.Args))
	changed := false
	for i, a := range x.Args {
		y.Args[i] = subst(a, env)
		if y.Args[i] != a {
			changed = true
		}
	}
	if !changed {
		if x.Op == "phi" && x.Env == nil {
			z := *x
			z.Env = env
			return &z
		}
		return x
	}
	y.Env = env
	return &y
}

// callEnv maps the callee's parameters (and the cells they are spilled to)
// to the argument expressions of a call.
func (c *Ctx) callEnv(call ssa.CallInstruction, callee *ssa.Function, outer map[ssa.Value]*X) map[ssa.Value]*X {
	env := map[ssa.Value]*X{}
	args := call.Common().Args
	for i, p := range callee.Params {
		if i >= len(args) {
			break
		}
		ax := subst(c.E(args[i]), outer)
		env[p] = ax
		// parameter spilled to a cell: loads of the cell resolve to the parameter already (single store)
	}
	return env
}

// samePkgBody reports whether callee is a source function of the same package as fn with a body.
func samePkgBody(fn, callee *ssa.Function) bool {
	return callee != nil && callee.Pkg != nil && topFunc(fn).Pkg == callee.Pkg && len(callee.Blocks) > 0 && callee.Synthetic == ""
}

// InlSite is a call site possibly located inside a helper.
type InlSite struct {
	CallSite
	Via []ssa.CallInstruction // outer calls, outermost first (empty: directly in the function)
	Env map[ssa.Value]*X
}

// Outer returns the instruction in the analysed function that this site executes under:
// the site itself, or the outermost helper call.
func (s InlSite) Outer() ssa.Instruction {
	if len(s.Via) > 0 {
		return s.Via[0]
	}
	return s.In
}

// CallsInl returns the call sites matching pat in fn (including nested
// literals) and in same-package helpers called from it, up to depth levels
// deep; the expressions are given in fn's terms.
func (c *Ctx) CallsInl(fn *ssa.Function, pat P, depth int) []InlSite {
	var out []InlSite
	var rec func(g *ssa.Function, via []ssa.CallInstruction, env map[ssa.Value]*X, d int, stack map[*ssa.Function]bool)
	rec = func(g *ssa.Function, via []ssa.CallInstruction, env map[ssa.Value]*X, d int, stack map[*ssa.Function]bool) {
		instrsDeep(g, func(h *ssa.Function, in ssa.Instruction) {
			ci, ok := in.(ssa.CallInstruction)
			if !ok {
				return
			}
			x := subst(c.CallX(ci), env)
			if _, ok := Match(pat, x); ok {
				out = append(out, InlSite{CallSite: CallSite{In: ci, Fn: h, X: x}, Via: via, Env: env})
			}
			if d <= 0 {
				return
			}
			callee := ci.Common().StaticCallee()
			if mc, isMC := ci.Common().Value.(*ssa.MakeClosure); isMC {
				_ = mc // literals are covered by instrsDeep of their parent
				return
			}
			if !samePkgBody(fn, callee) || stack[callee] || callee.Parent() != nil {
				return
			}
			stack[callee] = true
			rec(callee, append(append([]ssa.CallInstruction{}, via...), ci), c.callEnv(ci, callee, env), d-1, stack)
			delete(stack, callee)
		})
	}
	rec(fn, nil, nil, depth, map[*ssa.Function]bool{fn: true})
	return out
}

// staticCallSites lists the static call sites of fn in the repo's packages;
// ok is false when fn's callers cannot all be known (exported, or used as a value).
func (c *Ctx) staticCallSites(fn *ssa.Function) (sites []ssa.CallInstruction, ok bool) {
	if fn.Object() != nil && fn.Object().Exported() && fn.Signature.Recv() == nil {
		return nil, false
	}
	if fn.Object() != nil && fn.Object().Exported() {
		if recv := fn.Signature.Recv(); recv != nil {
			if n, isN := deref(recv.Type()).(*types.Named); isN && n.Obj().Exported() {
				return nil, false
			}
		}
	}
	ok = true
	for _, rel := range c.repoPkgs() {
		for _, f := range c.Funcs(rel) {
			instrsDeep(f.SSA, func(_ *ssa.Function, in ssa.Instruction) {
				if ci, isCall := in.(ssa.CallInstruction); isCall {
					if ci.Common().StaticCallee() == fn {
						sites = append(sites, ci)
					} else if fn.Parent() != nil && !ci.Common().IsInvoke() && ci.Common().StaticCallee() == nil {
						// a local closure called through the variable it was assigned to (also from a nested literal)
						if x := strip(c.E(ci.Common().Value)); x != nil && x.Op == "closure" {
							if mc, isMC := x.V.(*ssa.MakeClosure); isMC && mc.Fn == ssa.Value(fn) {
								sites = append(sites, ci)
							}
						}
					}
					// used as a value (argument / stored): callers unknown
					for _, a := range ci.Common().Args {
						if unwrapV(a) == ssa.Value(fn) {
							ok = false
						}
					}
				}
				if st, isSt := in.(*ssa.Store); isSt && unwrapV(st.Val) == ssa.Value(fn) {
					ok = false
				}
			})
		}
	}
	return sites, ok && len(sites) > 0
}

// Actuals resolves a value that is a parameter of a helper with known
// callers to the argument expressions at its call sites (one level; applied
// repeatedly by callers that need more). For any other value it returns the
// value itself.
func (c *Ctx) Actuals(x *X) []*X {
	sx := strip(x)
	p, ok := sx.V.(*ssa.Parameter)
	if !ok {
		return []*X{x}
	}
	fn := p.Parent()
	sites, known := c.staticCallSites(fn)
	if !known {
		return []*X{x}
	}
	idx := -1
	for i, q := range fn.Params {
		if q == p {
			idx = i
		}
	}
	if idx < 0 {
		return []*X{x}
	}
	var out []*X
	for _, s := range sites {
		if idx < len(s.Common().Args) {
			out = append(out, c.E(s.Common().Args[idx]))
		}
	}
	return out
}

// ActualsAt is Actuals together with the call instruction each actual belongs to.
func (c *Ctx) ActualsAt(x *X) (vals []*X, at []ssa.CallInstruction) {
	sx := strip(x)
	p, ok := sx.V.(*ssa.Parameter)
	if !ok {
		return nil, nil
	}
	fn := p.Parent()
	sites, known := c.staticCallSites(fn)
	if !known {
		return nil, nil
	}
	idx := -1
	for i, q := range fn.Params {
		if q == p {
			idx = i
		}
	}
	for _, s := range sites {
		if idx >= 0 && idx < len(s.Common().Args) {
			vals = append(vals, c.E(s.Common().Args[idx]))
			at = append(at, s)
		}
	}
	return vals, at
}

// inlinable reports whether fn is a trivial pure function: a single basic
// block, one return, only projections/arithmetic/lookups and calls of tabled
// pure accessors.
func inlinable(fn *ssa.Function) bool {
	if fn == nil || len(fn.Blocks) != 1 || fn.Synthetic != "" {
		return false
	}
	n := 0
	for _, in := range fn.Blocks[0].Instrs {
		switch in := in.(type) {
		case *ssa.Return:
			n++
		case *ssa.Lookup, *ssa.Extract, *ssa.FieldAddr, *ssa.Field, *ssa.Index, *ssa.IndexAddr, *ssa.BinOp,
			*ssa.Convert, *ssa.ChangeType, *ssa.MakeInterface, *ssa.ChangeInterface, *ssa.DebugRef, *ssa.Slice:
		case *ssa.UnOp:
			if in.Op == token.ARROW {
				return false
			}
		case *ssa.Call:
			if b, ok := in.Call.Value.(*ssa.Builtin); ok && (b.Name() == "len" || b.Name() == "cap") {
				continue
			}
			if sc := in.Call.StaticCallee(); sc != nil && pureCallee[sc.String()] {
				continue
			}
			return false
		default:
			return false
		}
	}
	return n == 1
}

// onlyGoStarted: fn is a named function all of whose (known) call sites are go statements.
func (c *Ctx) onlyGoStarted(fn *ssa.Function) bool {
	sites, known := c.staticCallSites(fn)
	if !known {
		return false
	}
	for _, s := range sites {
		if _, ok := s.(*ssa.Go); !ok {
			return false
		}
	}
	return len(sites) > 0
}

// goPoints returns the go statements under which fn's body runs asynchronously:
// the statement creating the literal it is (nested in), or the statements starting the named function.
func (c *Ctx) goPoints(fn *ssa.Function) []*ssa.Go {
	var out []*ssa.Go
	for f := fn; f != nil; f = f.Parent() {
		if p := f.Parent(); p != nil {
			instrs(p, func(in ssa.Instruction) {
				if g, ok := in.(*ssa.Go); ok {
					if mc, ok := g.Common().Value.(*ssa.MakeClosure); ok && mc.Fn == f {
						out = append(out, g)
					}
				}
			})
			if len(out) > 0 {
				return out
			}
			continue
		}
		if c.onlyGoStarted(f) {
			sites, _ := c.staticCallSites(f)
			for _, s := range sites {
				out = append(out, s.(*ssa.Go))
			}
		}
	}
	return out
}

// InlEvent is one instruction met by WalkInl, with the parameter environment of the helper it lies in.
type InlEvent struct {
	In  ssa.Instruction
	Fn  *ssa.Function
	Env map[ssa.Value]*X
	Via []ssa.CallInstruction
	// ViaEnv[i] is the parameter binding in force at Via[i] (nil for a call made by the walked function itself)
	ViaEnv []map[ssa.Value]*X
}

// OuterFacts lists the branch facts in force at the event: those at the
// instruction's own block and those at each call on the way to it, all in the
// walked function's terms.
func (c *Ctx) OuterFacts(ev InlEvent) []Fact {
	var out []Fact
	for _, f := range c.FactsAt(ev.In.Block()) {
		out = append(out, Fact{Cond: subst(f.Cond, ev.Env), Val: f.Val, If: f.If})
	}
	for i, v := range ev.Via {
		var env map[ssa.Value]*X
		if i < len(ev.ViaEnv) {
			env = ev.ViaEnv[i]
		}
		for _, f := range c.FactsAt(v.Block()) {
			out = append(out, Fact{Cond: subst(f.Cond, env), Val: f.Val, If: f.If})
		}
	}
	return out
}

// WalkInl visits the instructions of fn in dominator-tree preorder; at a
// static call of a same-package named helper it first visits the call, then
// the helper's instructions (recursively, bounded), so that the sequence of
// effects is seen in execution order regardless of how it is split into helpers.
func (c *Ctx) WalkInl(fn *ssa.Function, depth int, visit func(ev InlEvent)) {
	var rec func(g *ssa.Function, env map[ssa.Value]*X, via []ssa.CallInstruction, venv []map[ssa.Value]*X, d int, stack map[*ssa.Function]bool)
	rec = func(g *ssa.Function, env map[ssa.Value]*X, via []ssa.CallInstruction, venv []map[ssa.Value]*X, d int, stack map[*ssa.Function]bool) {
		for _, b := range g.DomPreorder() {
			for _, in := range b.Instrs {
				visit(InlEvent{In: in, Fn: g, Env: env, Via: via, ViaEnv: venv})
				ci, ok := in.(*ssa.Call)
				if !ok || d <= 0 {
					continue
				}
				callee := ci.Call.StaticCallee()
				if !samePkgBody(fn, callee) || callee.Parent() != nil || stack[callee] {
					continue
				}
				stack[callee] = true
				rec(callee, c.callEnv(ci, callee, env), append(append([]ssa.CallInstruction{}, via...), ci), append(append([]map[ssa.Value]*X{}, venv...), env), d-1, stack)
				delete(stack, callee)
			}
		}
	}
	rec(fn, nil, nil, nil, depth, map[*ssa.Function]bool{fn: true})
}

// ---- results of multi-return helpers ----------------------------------------------------------------------------------

// RetAlt is one return site of a helper, in the caller's terms.
type RetAlt struct {
	Val   *X     // the returned value (result index of the query)
	Facts []Fact // branch facts that hold at that return, in the caller's terms
	Ret   *ssa.Return
}

// helperCall: x is (a projection of) a call of a same-module unexported
// function or literal with a body; returns the call node and result index.
func helperCall(x *X) (call *X, idx int) {
	x = strip(x)
	if x == nil {
		return nil, 0
	}
	idx = 0
	if x.Op == "extract" && len(x.Args) == 1 {
		n := 0
		for _, ch := range x.Name {
			if ch < '0' || ch > '9' {
				return nil, 0
			}
			n = n*10 + int(ch-'0')
		}
		idx = n
		x = strip(x.Args[0])
	}
	if x == nil || x.Op != "call" || x.Callee == nil || len(x.Callee.Blocks) == 0 || x.Callee.Pkg == nil {
		return nil, 0
	}
	f := x.Callee
	if !strings.HasPrefix(f.Pkg.Pkg.Path(), modPath) {
		return nil, 0
	}
	if f.Parent() == nil && (f.Object() == nil || f.Object().Exported()) {
		return nil, 0
	}
	return x, idx
}

// RetAlts lists, for a value that is a result of an unexported helper, what
// the helper returns at each of its return sites, with parameters replaced by
// the call's arguments. nil if x is not such a value (or the helper is
// recursive or large).
func (c *Ctx) RetAlts(x *X) []RetAlt {
	call, idx := helperCall(x)
	if call == nil {
		return nil
	}
	ci, ok := call.V.(ssa.CallInstruction)
	if !ok {
		return nil
	}
	f := call.Callee
	if c.retBusy == nil {
		c.retBusy = map[*ssa.Function]bool{}
	}
	if c.retBusy[f] || len(c.retBusy) > 2 {
		return nil
	}
	c.retBusy[f] = true
	defer delete(c.retBusy, f)
	env := c.callEnv(ci, f, nil)
	if mc, isMC := ci.Common().Value.(*ssa.MakeClosure); isMC {
		for i, fv := range f.FreeVars {
			if i < len(mc.Bindings) {
				env[fv] = c.E(mc.Bindings[i])
			}
		}
	}
	var out []RetAlt
	for _, b := range f.Blocks {
		ret, ok := b.Instrs[len(b.Instrs)-1].(*ssa.Return)
		if !ok || idx >= len(ret.Results) || b.Comment == "recover" {
			continue // (the recover block returns only after a recovered panic: not a way the helper hands a value back)
		}
		if len(out) >= 8 {
			return nil
		}
		alt := RetAlt{Val: subst(c.RetX(ret, idx), env), Ret: ret}
		for _, fct := range c.FactsAt(b) {
			alt.Facts = append(alt.Facts, Fact{Cond: subst(fct.Cond, env), Val: fct.Val, If: fct.If})
		}
		out = append(out, alt)
	}
	return out
}

// boolConst: x is the constant true/false.
func boolConst(x *X) (val, ok bool) {
	x = strip(x)
	if x == nil || x.Op != "const" {
		return false, false
	}
	switch x.Name {
	case "true":
		return true, true
	case "false":
		return false, true
	}
	return false, false
}

// impliedFacts: a branch on the boolean result of an unexported helper implies
// the facts of the helper's return site when exactly one of its return sites
// yields that truth value (and all others yield the opposite constant).
func (c *Ctx) impliedFacts(f Fact) []Fact {
	alts := c.ImpliedAlts(f)
	if len(alts) == 0 {
		return nil
	}
	if len(alts) == 1 {
		return alts[0]
	}
	// several return sites can yield the outcome: what they all have in common still holds
	var out []Fact
	for _, g := range alts[0] {
		inAll := true
		for _, other := range alts[1:] {
			found := false
			for _, h := range other {
				if h.Val == g.Val && h.Cond.String() == g.Cond.String() {
					found = true
				}
			}
			if !found {
				inAll = false
			}
		}
		if inAll {
			out = append(out, g)
		}
	}
	return out
}

// ImpliedAlts: for a branch fact on a helper's result (a boolean, or the
// nil-ness of an error), the fact sets of the helper's return sites that can
// produce that outcome — one set per site, in the caller's terms. Empty if the
// fact is not of that kind or some return site cannot be classified.
func (c *Ctx) ImpliedAlts(f Fact) [][]Fact {
	var out [][]Fact
	if m, ok := Match(EqNil(Bind("e")), f.Cond); ok && f.Val {
		alts := c.RetAlts(m["e"])
		if len(alts) < 2 {
			return nil
		}
		for i := range alts {
			if definitelyNonNil(alts[i]) {
				continue
			}
			v := strip(alts[i].Val)
			if v == nil {
				return nil
			}
			fs := append([]Fact{}, alts[i].Facts...)
			if v.Op != "nil" {
				// the helper hands on another value as its error: the result is nil exactly when that value is
				fs = append(fs, Fact{Cond: &X{Op: "binop", Name: "==", Args: []*X{alts[i].Val, {Op: "nil"}}}, Val: true, If: f.If})
			}
			out = append(out, fs)
		}
		return out
	}
	alts := c.RetAlts(f.Cond)
	if len(alts) < 2 {
		return nil
	}
	for i := range alts {
		v, ok := boolConst(alts[i].Val)
		if !ok {
			// the helper hands on another boolean as its result: the result has the outcome exactly when that value has
			if alts[i].Val == nil || alts[i].Val.V == nil {
				return nil
			}
			if b, isB := alts[i].Val.V.Type().Underlying().(*types.Basic); !isB || b.Kind() != types.Bool {
				return nil
			}
			cx, cv := normFact(alts[i].Val, f.Val)
			out = append(out, append(append([]Fact{}, alts[i].Facts...), Fact{Cond: cx, Val: cv, If: f.If}))
			continue
		}
		if v == f.Val {
			out = append(out, alts[i].Facts)
		}
	}
	return out
}

// Leaf is one alternative a value can take, with the branch facts known on
// the way it is chosen (phi edge, or return site of a helper).
type Leaf struct {
	Val   *X
	Facts []Fact
}

// definitelyNonNil: the returned error of this alternative cannot be nil.
func definitelyNonNil(a RetAlt) bool {
	v := strip(a.Val)
	if v == nil {
		return false
	}
	if v.Op == "call" && (nameMatches(v.Name, "fmt.Errorf") || nameMatches(v.Name, "errors.New") || nameMatches(v.Name, "errors.Join")) {
		return true
	}
	if v.Op == "complit" || v.Op == "makeinterface" || v.Op == "global" {
		return true
	}
	for _, f := range a.Facts {
		if !f.Val {
			if _, ok := Match(EqNil(Is(v)), f.Cond); ok {
				return true
			}
		}
	}
	return false
}

// siblingKnown: what the facts at block b say about result k of the helper
// call: (isBool, value) or (isNil, nil-ness).
func (c *Ctx) siblingKnown(b *ssa.BasicBlock, call *X, k int) (kind string, val bool) {
	c.factDepth++ // plain facts only
	defer func() { c.factDepth-- }()
	for _, f := range c.FactsAt(b) {
		if h, j := helperCall(f.Cond); h != nil && j == k && h.V == call.V {
			return "bool", f.Val
		}
		if m, ok := Match(EqNil(Bind("e")), f.Cond); ok {
			if h, j := helperCall(m["e"]); h != nil && j == k && h.V == call.V {
				return "nil", f.Val
			}
		}
	}
	return "", false
}

// feasible marks the return sites of a helper call that are compatible with
// what is known, at block b, about the call's other results.
func (c *Ctx) feasible(b *ssa.BasicBlock, call *X, idx int, n int) []bool {
	keep := make([]bool, n)
	for i := range keep {
		keep[i] = true
	}
	if b == nil {
		return keep
	}
	res := call.Callee.Signature.Results()
	for k := 0; k < res.Len(); k++ {
		if k == idx {
			continue
		}
		kind, val := c.siblingKnown(b, call, k)
		if kind == "" {
			continue
		}
		sa := c.RetAlts(&X{Op: "extract", Name: itoa(k), Args: []*X{call}})
		if len(sa) != n {
			continue
		}
		for i := range sa {
			switch kind {
			case "bool":
				if v, ok := boolConst(sa[i].Val); ok && v != val {
					keep[i] = false
				}
			case "nil":
				isNil := strip(sa[i].Val) != nil && strip(sa[i].Val).Op == "nil"
				if val && definitelyNonNil(sa[i]) {
					keep[i] = false
				}
				if !val && isNil {
					keep[i] = false
				}
			}
		}
	}
	return keep
}

// LeavesF flattens a value into the alternatives it can take: through phis
// (with the facts of the incoming edge) and through the return sites of
// unexported helpers (with the facts of the return site). Where the analysed
// point `at` is reached only under a known outcome of another result of the
// same helper call (boolean value, or nil-ness of an error), return sites
// incompatible with it are dropped.
func (c *Ctx) LeavesF(x *X, at ssa.Instruction) []Leaf {
	var out []Leaf
	var atB *ssa.BasicBlock
	if at != nil {
		atB = at.Block()
	}
	var rec func(x *X, facts []Fact, d int)
	rec = func(x *X, facts []Fact, d int) {
		if x == nil || x.Op == "cut" {
			return
		}
		if ph, isPhi := x.V.(*ssa.Phi); isPhi && x.Op == "phi" && d < 5 && len(x.Args) == len(ph.Edges) {
			for i, a := range x.Args {
				pred := ph.Block().Preds[i]
				ef := append([]Fact{}, facts...)
				for _, fct := range append(c.FactsAt(pred), edgeFact(c, pred, ph.Block())...) {
					ef = append(ef, Fact{Cond: subst(fct.Cond, x.Env), Val: fct.Val, If: fct.If})
				}
				rec(a, ef, d+1)
			}
			return
		}
		if x.Op == "phi" && d < 5 {
			for _, a := range x.Args {
				rec(a, facts, d+1)
			}
			return
		}
		// a field of a struct a helper returned: that field of each struct the helper can return
		if sx := strip(x); sx != nil && sx.Op == "field" && len(sx.Args) == 1 && d < 5 {
			if hc, _ := helperCall(sx.Args[0]); hc != nil {
				if balts := c.RetAlts(sx.Args[0]); len(balts) > 0 {
					for _, a := range balts {
						fx := &X{Op: "field", Name: sx.Name, Args: []*X{a.Val}}
						v := c.throughCell(fx, nil, nil)
						if v == fx {
							out = append(out, Leaf{Val: x, Facts: facts})
							continue
						}
						rec(v, append(append([]Fact{}, facts...), a.Facts...), d+1)
					}
					return
				}
			}
		}
		call, idx := helperCall(x)
		alts := c.RetAlts(x)
		if call == nil || len(alts) == 0 || d >= 5 {
			out = append(out, Leaf{Val: x, Facts: facts})
			return
		}
		keep := c.feasible(atB, call, idx, len(alts))
		for i, a := range alts {
			if keep[i] {
				rec(a.Val, append(append([]Fact{}, facts...), a.Facts...), d+1)
			}
		}
	}
	rec(x, nil, 0)
	return out
}

// Leaves is LeavesF without the facts.
func (c *Ctx) Leaves(x *X, at ssa.Instruction) []*X {
	var out []*X
	for _, l := range c.LeavesF(x, at) {
		out = append(out, l.Val)
	}
	return out
}

// FactsAtSite: the branch facts under which an inlined site executes, in the
// analysed function's terms: those of its own block (parameters replaced by
// the arguments of the call it was reached through) and those of the
// outermost call.
func (c *Ctx) FactsAtSite(s InlSite) []Fact {
	var out []Fact
	for _, f := range c.FactsAt(s.In.Block()) {
		out = append(out, Fact{Cond: subst(f.Cond, s.Env), Val: f.Val, If: f.If})
	}
	if len(s.Via) > 0 {
		out = append(out, c.FactsAt(s.Via[0].Block())...)
	}
	return out
}

// GuardedSite is Guarded for an inlined site.
func (c *Ctx) GuardedSite(s InlSite, pat P, val bool) (Binds, bool) {
	for _, f := range c.FactsAtSite(s) {
		if f.Val != val {
			continue
		}
		if b, ok := Match(pat, f.Cond); ok {
			return b, true
		}
	}
	return nil, false
}

// onlyCalledFrom: every static call site of fn lies in one of the given functions (and all its call sites are known).
func (c *Ctx) onlyCalledFrom(fn *ssa.Function, set map[*ssa.Function]bool) bool {
	sites, known := c.staticCallSites(fn)
	if !known || len(sites) == 0 {
		return false
	}
	for _, s := range sites {
		if !set[topFunc(s.Parent())] {
			return false
		}
	}
	return true
}

// funcValueTarget: the function a function VALUE denotes — a literal, a named
// function, or a method value (then the method behind the bound-method
// wrapper). nil if it cannot be told statically.
func funcValueTarget(v ssa.Value) *ssa.Function {
	var fn *ssa.Function
	switch t := unwrapV(v).(type) {
	case *ssa.MakeClosure:
		fn, _ = t.Fn.(*ssa.Function)
	case *ssa.Function:
		fn = t
	}
	if fn != nil && fn.Synthetic != "" {
		var callee *ssa.Function
		n := 0
		instrs(fn, func(in ssa.Instruction) {
			if ci, ok := in.(ssa.CallInstruction); ok && ci.Common().StaticCallee() != nil {
				callee = ci.Common().StaticCallee()
				n++
			}
		})
		if n != 1 {
			return nil
		}
		fn = callee
	}
	return fn
}

// valueFuncs: the functions whose value is taken (stored, passed) inside fn —
// callbacks fn installs; closures are found by instrsDeep already, this adds
// named functions and method values.
func valueFuncs(fn *ssa.Function) []*ssa.Function {
	var out []*ssa.Function
	seen := map[*ssa.Function]bool{}
	instrsDeep(fn, func(_ *ssa.Function, in ssa.Instruction) {
		for _, op := range in.Operands(nil) {
			if op == nil || *op == nil {
				continue
			}
			if _, isCall := in.(ssa.CallInstruction); isCall {
				if ci := in.(ssa.CallInstruction); ci.Common().Value == *op {
					continue // the callee position is a call, not a value use
				}
			}
			t := funcValueTarget(*op)
			if t == nil || seen[t] || t.Parent() != nil || t.Pkg != fn.Pkg {
				continue
			}
			if mc, ok := unwrapV(*op).(*ssa.MakeClosure); ok {
				if f0, _ := mc.Fn.(*ssa.Function); f0 != nil && f0.Synthetic == "" {
					continue // an ordinary literal: already part of fn
				}
			}
			seen[t] = true
			out = append(out, t)
		}
	})
	return out
}

// throughCell resolves field f of a struct held in a local cell (a by-value
// options struct that is filled in and handed on) to the value stored into
// that field: the one store to that field in the cell's function (executed
// before instruction at on every path, when in at's function), else the same
// field of the one value the whole cell is initialised from — a by-value
// parameter, replaced by the caller's argument through env — and so on; also
// a field of a struct literal. Anything else is returned unchanged.
func (c *Ctx) throughCell(x *X, at ssa.Instruction, env map[ssa.Value]*X) *X {
	for round := 0; round < 6; round++ {
		y := strip(x)
		if y == nil || y.Op != "field" || len(y.Args) != 1 {
			return x
		}
		base := strip(y.Args[0])
		if base == nil {
			return x
		}
		if _, isAl := base.V.(*ssa.Alloc); base.Op == "complit" && base.Cell == nil && !isAl {
			found := false
			for _, fi := range base.Args {
				if fi.Name == y.Name && len(fi.Args) == 1 {
					x, found = fi.Args[0], true
				}
			}
			if !found {
				return x
			}
			continue
		}
		al := base.Cell
		if al == nil {
			al, _ = base.V.(*ssa.Alloc)
		}
		if al == nil || al.Referrers() == nil {
			return x
		}
		st, ok := deref(al.Type()).Underlying().(*types.Struct)
		if !ok {
			return x
		}
		var stores, whole []*ssa.Store
		for _, r := range *al.Referrers() {
			if s, ok := r.(*ssa.Store); ok && s.Addr == ssa.Value(al) {
				whole = append(whole, s)
			}
			fa, ok := r.(*ssa.FieldAddr)
			if !ok || canonField(st.Field(fa.Field)) != y.Name || fa.Referrers() == nil {
				continue
			}
			for _, u := range *fa.Referrers() {
				if s, ok := u.(*ssa.Store); ok && s.Addr == ssa.Value(fa) {
					stores = append(stores, s)
				}
			}
		}
		switch {
		case len(stores) >= 1 && at != nil && at.Parent() == stores[0].Parent() && !(len(stores) == 1 && Precedes(stores[0], at)):
			// several stores: those that reach at (merged as the expression builder merges them)
			fidx := -1
			for k := 0; k < st.NumFields(); k++ {
				if canonField(st.Field(k)) == y.Name {
					fidx = k
				}
			}
			m := c.xb.mergedFieldStores(al, fidx, stores, at, func(v ssa.Value) *X { return c.E(v) })
			if m == nil || fidx < 0 {
				return x
			}
			return m
		case len(stores) == 1:
			if at != nil && at.Parent() == stores[0].Parent() && !Precedes(stores[0], at) {
				return x
			}
			x = subst(c.E(stores[0].Val), env)
		case len(stores) == 0 && len(whole) == 1:
			x = &X{Op: "field", Name: y.Name, Args: []*X{subst(c.E(whole[0].Val), env)}}
		default:
			return x
		}
	}
	return x
}

// Slot is one argument of a call seen as a typed slot.
type Slot struct {
	Type string
	Name string
	X    *X
}

// SlotArgs lists the arguments of a call in declaration order; an argument
// that is (a pointer to) a struct of this module built for the call — a
// parameter object — is replaced by its fields, each with the value stored
// into it (throughCell; the zero value when nothing is stored). Rules that
// pick arguments by type and order thereby see f(a, b, c) and
// f(&req{a: a, b: b, c: c}) alike.
func (c *Ctx) SlotArgs(cs CallSite) []Slot { return c.SlotArgsEnv(cs, nil) }

// SlotArgsEnv is SlotArgs for a call site found through helpers (CallsInl): env
// carries the helpers' parameter bindings.
func (c *Ctx) SlotArgsEnv(cs CallSite, env map[ssa.Value]*X) []Slot {
	var out []Slot
	callee := cs.In.Common().StaticCallee()
	off := 0
	if callee != nil && callee.Signature.Recv() != nil {
		off = 1
	}
	for i, a := range cs.X.Args {
		if i < off {
			continue
		}
		name := ""
		if callee != nil && i < len(callee.Params) {
			name = callee.Params[i].Name()
		}
		var t types.Type
		if a.V != nil {
			t = a.V.Type()
		} else if callee != nil && i < len(callee.Params) {
			t = callee.Params[i].Type()
		}
		if t != nil {
			if n, ok := types.Unalias(deref(t)).(*types.Named); ok && n.Obj().Pkg() != nil && !n.Obj().Exported() && strings.HasPrefix(n.Obj().Pkg().Path(), modPath) {
				if st, ok := n.Underlying().(*types.Struct); ok {
					for k := 0; k < st.NumFields(); k++ {
						fname := canonField(st.Field(k))
						fx := &X{Op: "field", Name: fname, Args: []*X{a}}
						v := c.throughCell(fx, cs.In, env)
						if v == fx {
							v = &X{Op: "const", Name: "zero:" + st.Field(k).Type().String()}
						}
						out = append(out, Slot{Type: types.Unalias(st.Field(k).Type()).String(), Name: fname, X: v})
					}
					continue
				}
			}
			out = append(out, Slot{Type: types.Unalias(t).String(), Name: name, X: a})
			continue
		}
		out = append(out, Slot{Name: name, X: a})
	}
	return out
}

// slotOf picks the k-th slot (k < 0: from the end) whose type ends in typeSuffix.
func slotOf(slots []Slot, typeSuffix string, k int) *X {
	var m []*X
	for _, s := range slots {
		if strings.HasSuffix(s.Type, typeSuffix) {
			m = append(m, s.X)
		}
	}
	if k < 0 {
		k += len(m)
	}
	if k < 0 || k >= len(m) {
		return nil
	}
	return m[k]
}

// outermost climbs from fn to the function it is a step of: as long as fn is
// unexported and all its static call sites lie in one other unexported
// function, that function takes its place (a routine split into phases or
// step helpers is analysed as the routine).
func (c *Ctx) outermost(fn *ssa.Function) *ssa.Function {
	for d := 0; d < 3 && fn != nil; d++ {
		sites, known := c.staticCallSites(fn)
		if !known || len(sites) == 0 {
			break
		}
		var caller *ssa.Function
		one := true
		for _, s := range sites {
			g := topFunc(s.Parent())
			if caller != nil && g != caller {
				one = false
			}
			caller = g
		}
		if !one || caller == nil || caller == fn || (caller.Object() != nil && caller.Object().Exported()) {
			break
		}
		fn = caller
	}
	return fn
}

// routineOf is outermost without the stop at exported functions: the function
// (possibly exported) that fn is a step of.
func (c *Ctx) routineOf(fn *ssa.Function) *ssa.Function {
	for d := 0; d < 3 && fn != nil; d++ {
		sites, known := c.staticCallSites(fn)
		if !known || len(sites) == 0 {
			break
		}
		var caller *ssa.Function
		one := true
		for _, s := range sites {
			g := topFunc(s.Parent())
			if caller != nil && g != caller {
				one = false
			}
			caller = g
		}
		if !one || caller == nil || caller == fn {
			break
		}
		fn = caller
	}
	return fn
}
