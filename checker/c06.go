package main

import (
	"strings"
	"go/ast"
	"go/token"
	"go/types"

	"golang.org/x/tools/go/ssa"
)

func init() {
	register(&propSpec{
		id:  "C06",
		run: runC06,
		explanation: "Structural necessary conditions of 'the provider cache converges to the freshest record', decided on SSA and the AST CFG of package pcache: " +
			"(P1) in every writer function, every path from a mutation of the writer-side state (insert into the write map, store to a cacheInfo field, sequence bump) to a function exit passes the atomic publication of a new snapshot — a mutation that is never published is lost for good because later refreshes see nothing newer (the cancelled-refresh defect fixed in 26ea2ff); " +
			"(P2) an existing record is replaced only on the true edge of fetched.After(stored lastUpdate), after a zero time has been normalised, and record, time and update stamp are stored together; " +
			"(P3) a provider is deleted only on the edges expiresAt non-zero and now.After(expiresAt), and the expiry is cleared in the same step that marks the provider as still present; " +
			"(P4) the miss path records the entry and publishes it before every non-error exit; (P5) when the main map is rebuilt, pending updates take precedence over the old main map in both writers; " +
			"(P6) the snapshot a writer extends is loaded while the write token is held. Convergence over histories, independence of source order, the merge threshold arithmetic and timers are not decided.",
		assumptions: []string{"time.Time.After / IsZero as specified", "provider sources return complete lists"},
	})
}

func pcacheWriters(c *Ctx) []*Fn {
	// writer functions = those that mutate writer-side state or publish a snapshot
	var out []*Fn
	for _, f := range c.Funcs(pcachePkg) {
		isW := len(c.Calls(f.SSA, Call("atomic.Pointer[pcache.readOnly]).Store[pcache.readOnly]"))) > 0
		instrs(f.SSA, func(in ssa.Instruction) {
			if what, _ := writerMutation(c, in); what != "" {
				isW = true
			}
		})
		if isW {
			out = append(out, f)
		}
	}
	return out
}

// alwaysPublishes: every path from fn's entry to a return passes the atomic
// publication (directly or through another always-publishing helper).
func alwaysPublishes(c *Ctx, fn *ssa.Function, depth int) bool {
	if fn == nil || len(fn.Blocks) == 0 || depth > 2 {
		return false
	}
	pub := func(b *ssa.BasicBlock) bool {
		for _, in := range b.Instrs {
			if isPublishD(c, in, depth) {
				return true
			}
		}
		return false
	}
	seen := map[*ssa.BasicBlock]bool{}
	stack := []*ssa.BasicBlock{fn.Blocks[0]}
	for len(stack) > 0 {
		b := stack[len(stack)-1]
		stack = stack[:len(stack)-1]
		if seen[b] {
			continue
		}
		seen[b] = true
		if pub(b) {
			continue
		}
		if _, ok := b.Instrs[len(b.Instrs)-1].(*ssa.Return); ok {
			return false
		}
		stack = append(stack, b.Succs...)
	}
	return true
}

func isPublishD(c *Ctx, in ssa.Instruction, depth int) bool {
	ci, ok := in.(ssa.CallInstruction)
	if !ok {
		return false
	}
	if _, m := Match(Call("atomic.Pointer[pcache.readOnly]).Store[pcache.readOnly]", Field("read", Any())), c.CallX(ci)); m {
		return true
	}
	if _, isGo := in.(*ssa.Go); isGo {
		return false
	}
	if sc := ci.Common().StaticCallee(); sc != nil && sc.Pkg != nil && in.Parent().Pkg == sc.Pkg && sc != in.Parent() {
		return alwaysPublishes(c, sc, depth+1)
	}
	return false
}

func isPublish(c *Ctx, in ssa.Instruction) bool {
	return isPublishD(c, in, 0)
}

// writerMutation classifies an instruction as a mutation of writer-side state.
func writerMutation(c *Ctx, in ssa.Instruction) (what string, x *X) {
	switch in := in.(type) {
	case *ssa.MapUpdate:
		m := c.E(in.Map)
		if m.Op == "field" && m.Name == "write" {
			return "insert into write map", m
		}
	case *ssa.Store:
		a := c.E(in.Addr)
		if a.Op == "field" {
			switch fieldOwner(a) {
			case "cacheInfo":
				if a.Args[0].Op == "complit" {
					return "", nil // record under construction, not yet in the map
				}
				return "store cacheInfo." + a.Name, a
			case "ProviderCache":
				if a.Name == "seq" {
					return "bump seq", a
				}
			}
		}
	case ssa.CallInstruction:
		if b, ok := in.Common().Value.(*ssa.Builtin); ok && b.Name() == "delete" {
			m := c.E(in.Common().Args[0])
			if m.Op == "field" && m.Name == "write" {
				return "delete from write map", m
			}
		}
	}
	return "", nil
}

func runC06(c *Ctx) {
	c.Trust("go/ssa", "go/cfg lockset", "time.Time")
	// the records compared by time arrive as JSON: the time (and every other field) is read under the key it is written under
	wireNamesAsReference(c, "C06.P2-wire-names", "find/model.ProviderInfo")
	c.Floor("C06.P2-wire-names", 1)
	writers := pcacheWriters(c)
	if len(writers) < 2 {
		c.Unk("C06.P1-must-publish", "pcache writers", token.NoPos, "expected at least two functions mutating/publishing cache state (refresh and miss-fetch)")
	}

	// ---- P1 must-publish ---------------------------------------------------------
	for _, w := range writers {
		fn := w.SSA
		instrs(fn, func(in ssa.Instruction) {
			what, mx := writerMutation(c, in)
			if what == "" {
				return
			}
			key := w.Name + " › " + what
			// exemption: deleting an entry that is absent from both published maps cannot hide anything from readers
			if what == "delete from write map" {
				_, g1 := c.Guarded(in, Extract("1", Op("lookup", "", Field("u", Any()))), false)
				_, g2 := c.Guarded(in, Extract("1", Op("lookup", "", Field("m", Any()))), false)
				if g1 && g2 {
					c.OK("C06.P1-must-publish", key+" (absent from snapshot)", in.Pos(), "exempt: entry deleted only when missing from both published maps")
					return
				}
			}
			// a helper that only mutates (the per-record update moved out of the refresh loop): the obligation to publish
			// lies with its callers, from each call on
			if sites := mutatingHelperSites(c, fn); sites != nil {
				for _, site := range sites {
					k2 := c.short(topFunc(site.Parent()).String()) + " › " + what + " (in " + c.short(fn.String()) + ")"
					// the record the helper writes is its parameter: a call that hands it a record still under
					// construction (not yet in the map) mutates nothing readers could be waiting for
					if mx != nil && mx.Op == "field" && len(mx.Args) == 1 {
						if prm, isP := strip(mx.Args[0]).V.(*ssa.Parameter); isP && prm.Parent() == fn {
							fresh := false
							for i, p := range fn.Params {
								if p == prm && i < len(site.Common().Args) {
									if a := strip(c.E(site.Common().Args[i])); a != nil && a.Op == "complit" {
										fresh = true
									}
								}
							}
							if fresh {
								c.OK("C06.P1-must-publish", k2+" (record under construction)", site.Pos(), "exempt: the record handed to the helper is not yet in the map")
								continue
							}
						}
					}
					if path := unpublishedExit(c, site); path != nil {
						c.Bad("C06.P1-must-publish", k2, site.Pos(), "a path from this mutation reaches a function exit without publishing a snapshot: the change is marked as seen and never shown to readers", path...)
					} else {
						c.OK("C06.P1-must-publish", k2, site.Pos(), "every path from the call that makes this mutation to an exit passes read.Store")
					}
				}
				return
			}
			if path := unpublishedExit(c, in); path != nil {
				c.Bad("C06.P1-must-publish", key, in.Pos(), "a path from this mutation reaches a function exit without publishing a snapshot: the change is marked as seen and never shown to readers", path...)
			} else {
				c.OK("C06.P1-must-publish", key, in.Pos(), "every path from this mutation to an exit passes read.Store")
			}
		})
	}
	c.Floor("C06.P1-must-publish", 6)
	// a refresh round is abandoned only because the caller's context ended: a source that fails (whatever error it
	// returns) is skipped and the remaining sources are still applied
	nAb := 0
	for _, w := range writers {
		// (the fetch loop may live in an unexported helper of the writer: the rule is applied in the function the
		// call sits in, whose error the writer must then hand on — covered by the must-publish rule's early returns)
		for _, st := range c.CallsInl(w.SSA, Invoke("pcache.ProviderSource.FetchAll"), 2) {
			fn := st.In.Parent()
			errv := c.Result(st.CallSite, 1)
			for _, b := range fn.Blocks {
				ret, ok := b.Instrs[len(b.Instrs)-1].(*ssa.Return)
				if !ok {
					continue
				}
				if _, onErr := c.GuardedB(b, EqNil(Is(errv)), false); !onErr {
					continue
				}
				nAb++
				_, ctxDone := c.GuardedB(b, EqNil(Invoke("context.Context.Err")), false)
				if !ctxDone && len(ret.Results) == 1 && fn.Parent() != nil {
					// in a per-source goroutine body (errgroup): 'return ctx.Err()' is nil — the other sources go on and the
					// round is applied — unless the caller's context ended. (In the sequential loop the same statement
					// abandons the round whatever it returns.)
					if _, isErr := Match(Invoke("context.Context.Err"), c.RetX(ret, 0)); isErr {
						ctxDone = true
					}
				}
				c.Check(ctxDone, "C06.P1-abandon-only-when-cancelled", c.short(fn.String())+" › return on a source error", ret.Pos(), "a source error ends the round only on the ctx.Err() != nil edge", "the round is abandoned on a source's error without testing the caller's own context: one failing source keeps the other sources' newer records and new providers from being applied, while the refresh reports no error")
			}
		}
	}
	c.Floor("C06.P1-abandon-only-when-cancelled", 1)
	sourcesKeepErrorIdentity(c, "C06.P1-sources-keep-error-identity")
	c.Floor("C06.P1-sources-keep-error-identity", 2)

	// ---- P2 newest wins ---------------------------------------------------------------
	pcacheNewestWins(c, "C06.P2-newest-wins")
	c.Floor("C06.P2-newest-wins", 4) // (the writers may share one comparing helper)
	// update stamp set with the record in the refresh path
	for _, w := range writers {
		instrs(w.SSA, func(in ssa.Instruction) {
			st, ok := in.(*ssa.Store)
			if !ok {
				return
			}
			a := c.E(st.Addr)
			if a.Op != "field" || fieldOwner(a) != "cacheInfo" || a.Name != "updateSeq" || a.Args[0].Op == "complit" {
				return
			}
			same := false
			for _, o := range st.Block().Instrs {
				if s2, ok := o.(*ssa.Store); ok {
					if a2 := c.E(s2.Addr); a2.Op == "field" && a2.Name == "provider" && Same(a2.Args[0], a.Args[0]) {
						same = true
					}
				}
			}
			c.Check(same, "C06.P2-update-stamp", w.Name+" › updateSeq with record", st.Pos(), "update stamp set in the step that replaces the record", "update stamp set apart from the record replacement")
		})
	}
	c.Floor("C06.P2-update-stamp", 1)

	// ---- P3 TTL --------------------------------------------------------------------------
	for _, w := range writers {
		instrs(w.SSA, func(in ssa.Instruction) {
			what, _ := writerMutation(c, in)
			if what == "delete from write map" {
				if _, g := c.Guarded(in, Extract("1", Op("lookup", "", Field("u", Any()))), false); g {
					return // the exempted consistency repair
				}
				rec := Bind("rec")
				_, nz := c.Guarded(in, Call("time.Time).IsZero", Field("expiresAt", rec)), false)
				_, exp := c.Guarded(in, Call("time.Time).After", Call("time.Now"), Field("expiresAt", Any())), true)
				_, stale := c.Guarded(in, Bin("==", Field("seq", Any()), Field("seq", Any())), false)
				c.Check(nz && exp && stale, "C06.P3-ttl", w.Name+" › expire", in.Pos(),
					"deletion dominated by: not seen in this refresh, expiry set, now.After(expiry)", "provider deleted without the full expiry guard (stale ∧ expiry set ∧ now after expiry)")
			}
			if st, ok := in.(*ssa.Store); ok {
				a := c.E(st.Addr)
				if a.Op == "field" && fieldOwner(a) == "cacheInfo" && a.Name == "seq" && a.Args[0].Op != "complit" {
					// "still present" mark: the expiry must be cleared in the same block
					cleared := false
					for _, o := range st.Block().Instrs {
						if s2, ok := o.(*ssa.Store); ok {
							if a2 := c.E(s2.Addr); a2.Op == "field" && a2.Name == "expiresAt" && Same(a2.Args[0], a.Args[0]) {
								if v := c.E(s2.Val); v.Op == "const" {
									cleared = true
								}
							}
						}
					}
					c.Check(cleared, "C06.P3-ttl", w.Name+" › expiry cleared when seen", st.Pos(),
						"expiry reset in the step that marks the provider as present", "provider marked present without clearing its expiry: it is dropped at the next absence instead of after the time-to-live")
					// …and the mark is made for every cached provider the source still reports, newer record or not: between
					// finding the record in the write map and marking it there is no other test
					if par, isPar := strip(a.Args[0]).V.(*ssa.Parameter); isPar && par.Parent() == st.Parent() {
						// a step helper handed the cached record: the mark is the first thing it does, under no test of its own
						extra := token.NoPos
						for _, f := range c.FactsAt(st.Block()) {
							if f.If != nil && f.If.Parent() == st.Parent() {
								extra = f.If.Cond.Pos()
							}
						}
						c.Check(!extra.IsValid(), "C06.P3-ttl", w.Name+" › every reported provider marked present", st.Pos(),
							"the helper handed the cached record marks it present under no test of its own", "the 'still present' mark is made only under a further test (at "+c.pos(extra)+"): a provider the source keeps reporting unchanged counts as gone and expires after the time-to-live")
					}
					if ex, isEx := strip(a.Args[0]).V.(*ssa.Extract); isEx && ex.Index == 0 {
						if lk, isLk := ex.Tuple.(*ssa.Lookup); isLk && lk.CommaOk {
							at := map[*ssa.If]bool{}
							for _, f := range c.FactsAt(lk.Block()) {
								at[f.If] = true
							}
							extra := token.NoPos
							for _, f := range c.FactsAt(st.Block()) {
								if f.If == nil || at[f.If] {
									continue
								}
								if fx, ok := strip(f.Cond).V.(*ssa.Extract); ok && fx.Tuple == ssa.Value(lk) && fx.Index == 1 {
									continue
								}
								extra = f.If.Cond.Pos()
							}
							c.Check(!extra.IsValid(), "C06.P3-ttl", w.Name+" › every reported provider marked present", st.Pos(),
								"the mark follows the lookup of the cached record directly", "the 'still present' mark is made only under a further test (at "+c.pos(extra)+"): a provider the source keeps reporting unchanged counts as gone and expires after the time-to-live")
						}
					}
				}
				// expiry armed only when unset, from now + ttl
				if a.Op == "field" && fieldOwner(a) == "cacheInfo" && a.Name == "expiresAt" && a.Args[0].Op != "complit" {
					if v := c.E(st.Val); v.Op == "call" {
						_, fromTTL := Match(Call("time.Time).Add", Call("time.Now"), Field("ttl", Any())), v)
						_, unset := c.Guarded(in, Call("time.Time).IsZero", Field("expiresAt", Any())), true)
						c.Check(fromTTL && unset, "C06.P3-ttl", w.Name+" › arm expiry", st.Pos(),
							"expiry armed as now+ttl only while unset", "expiry re-armed or not derived from the time-to-live")
					}
				}
			}
		})
	}
	c.Floor("C06.P3-ttl", 4)
	// the time-to-live in force is the one configured: config.ttl is written by the option that sets it (with its
	// argument, as given) and by the default — nothing adjusts it afterwards — and the cache takes its ttl from it
	nTTL := 0
	for _, f := range c.Funcs(pcachePkg) {
		instrsDeep(f.SSA, func(g *ssa.Function, in ssa.Instruction) {
			st, ok := in.(*ssa.Store)
			if !ok {
				return
			}
			a := c.E(st.Addr)
			if a.Op != "field" || a.Name != "ttl" || fieldOwner(a) != "config" {
				return
			}
			nTTL++
			v := strip(c.E(st.Val))
			okV := false
			switch {
			case g.Parent() != nil && strip(a.Args[0]).Op == "param":
				// an option closure: its constructor's argument, as is
				okV = v.Op == "param"
				for _, l := range c.Leaves(c.E(st.Val), st) {
					if strip(l).Op != "param" {
						okV = false
					}
				}
				// …whatever it is: a value the option silently declines (zero, say) leaves the default in force
				for _, fct := range c.FactsAt(st.Block()) {
					if fct.If != nil && fct.If.Parent() == g {
						okV = false
					}
				}
			case a.Args[0].Op == "complit" || strip(a.Args[0]).Op == "alloc" && st.Block() == g.Blocks[0]:
				// the default, in the literal that creates the config
				okV = v.Op == "const" || v.Op == "global"
			}
			c.Check(okV, "C06.P3-ttl-as-configured", c.short(topFunc(g).String())+" › config.ttl", st.Pos(), "ttl set to the option's argument (or the default at creation)", "the configured time-to-live is adjusted ("+abbreviate(c.E(st.Val).String())+"): providers stay listed (or are dropped) at another time than the one the user configured")
		})
	}
	c.Floor("C06.P3-ttl-as-configured", 2)

	// ---- P4 negative cache ------------------------------------------------------------------
	for _, w := range writers {
		// the function that publishes updates[pid] for its pid parameter
		var pid *ssa.Parameter
		for _, p := range w.SSA.Params {
			if p.Type().String() == "github.com/libp2p/go-libp2p/core/peer.ID" {
				pid = p
			}
		}
		if pid == nil {
			continue
		}
		inserted, entered := false, false
		instrs(w.SSA, func(in ssa.Instruction) {
			if mu, ok := in.(*ssa.MapUpdate); ok {
				if m := c.E(mu.Map); m.Op == "field" && m.Name == "write" && c.E(mu.Key).V == pid {
					inserted = true
				}
				_, isMk := mu.Map.(*ssa.MakeMap)
				if call, isCall := mu.Map.(*ssa.Call); isCall && returnsFreshMap(c, call.Call.StaticCallee(), 0) {
					isMk = true // the update map made by a copying helper
				}
				if isMk && c.E(mu.Key).V == pid {
					if _, ok := Match(c.RoleCall("pcache.index"), c.E(mu.Value)); ok {
						entered = true
						// every publication is after this update
						var pubs []ssa.Instruction
						instrs(w.SSA, func(o ssa.Instruction) {
							if isPublish(c, o) {
								pubs = append(pubs, o)
							}
						})
						for _, pi := range pubs {
							cs := struct{ In ssa.Instruction }{pi}
							c.Check(Precedes(mu, cs.In), "C06.P4-miss-recorded", w.Name+" › entry before publish", cs.In.Pos(),
								"the fetched (or negative) entry is in the update map before publication", "snapshot published before the missed provider's entry was added")
						}
					}
				}
			}
		})
		c.Check(inserted && entered, "C06.P4-miss-recorded", w.Name+" › entry recorded", w.SSA.Pos(),
			"miss path records the provider in the write map and in the published update map", "miss path does not record the provider (repeated lookups would query the sources again)")
	}
	c.Floor("C06.P4-miss-recorded", 2)

	// ---- P7 point lookups: the update map decides whenever it has the key -------------------------------------
	// (a nil entry there is the tombstone of an expired provider; falling through to the main map on a nil value
	// would resurrect it)
	nLook := 0
	for _, f := range c.Funcs(pcachePkg) {
		if !isReaderSide(c, f.SSA) {
			continue // writers merge through their private update map (P5)
		}
		instrs(f.SSA, func(in ssa.Instruction) {
			lk, ok := in.(*ssa.Lookup)
			if !ok {
				return
			}
			x := c.E(lk)
			if x.Op != "lookup" || len(x.Args) != 2 {
				return
			}
			mf := strip(x.Args[0])
			if mf.Op != "field" || fieldOwner(mf) != "readOnly" || mf.Name != "m" {
				return
			}
			nLook++
			key := x.Args[1]
			_, g := c.Guarded(in, Extract("1", Op("lookup", "", Field("u", Any()), Is(key))), false)
			c.Check(g, "C06.P7-reader-precedence", f.Name+" › main-map lookup", in.Pos(),
				"the main map is consulted only on the edge where the update map does not have the key (comma-ok false)", "the main map is consulted although the update map may hold the key (e.g. on a nil entry): an expired or replaced record is served from the old main map")
		})
	}
	c.Floor("C06.P7-reader-precedence", 1)

	// ---- P5 / P6 shared with C07 ---------------------------------------------------------------
	pcacheMergePrecedence(c, "C06.P5-merge-precedence")
	pcacheLoadUnderToken(c, "C06.P6-snapshot-loaded-under-token")
}

// unpublishedExit returns a path (block list) from mutation in to a return
// that passes no publication, or nil.
func unpublishedExit(c *Ctx, in ssa.Instruction) []string {
	b := in.Block()
	after := false
	for _, o := range b.Instrs {
		if o == in {
			after = true
			continue
		}
		if after && isPublish(c, o) {
			return nil
		}
	}
	publishes := func(x *ssa.BasicBlock) bool {
		for _, o := range x.Instrs {
			if isPublish(c, o) {
				return true
			}
		}
		return false
	}
	type item struct {
		b    *ssa.BasicBlock
		path []*ssa.BasicBlock
	}
	seen := map[*ssa.BasicBlock]bool{}
	var queue []item
	if _, ok := b.Instrs[len(b.Instrs)-1].(*ssa.Return); ok {
		return []string{"return in the mutating block at " + c.pos(posOf(b.Instrs[len(b.Instrs)-1]))}
	}
	for _, s := range b.Succs {
		queue = append(queue, item{s, []*ssa.BasicBlock{b, s}})
	}
	for len(queue) > 0 {
		it := queue[0]
		queue = queue[1:]
		if seen[it.b] {
			continue
		}
		seen[it.b] = true
		if publishes(it.b) {
			continue
		}
		if len(it.b.Instrs) > 0 {
			if r, ok := it.b.Instrs[len(it.b.Instrs)-1].(*ssa.Return); ok {
				var out []string
				for _, pb := range it.path {
					out = append(out, "block "+itoa(pb.Index)+" ("+pb.Comment+") "+c.pos(posOf(pb.Instrs[0])))
				}
				out = append(out, "return without publication at "+c.pos(posOf(r)))
				return out
			}
		}
		for _, s := range it.b.Succs {
			np := append(append([]*ssa.BasicBlock{}, it.path...), s)
			queue = append(queue, item{s, np})
		}
	}
	return nil
}

// pcacheMergePrecedence: where a writer rebuilds the main map, the entry
// comes from the pending updates, and from the old main map only when the
// updates have none.
func pcacheMergePrecedence(c *Ctx, rule string) {
	// the writers, and the unexported helpers they call (the rebuild may be shared between the two writers)
	var scope []*Fn
	seenFn := map[*ssa.Function]bool{}
	for _, w := range pcacheWriters(c) {
		if !seenFn[w.SSA] {
			seenFn[w.SSA] = true
			scope = append(scope, w)
		}
		for _, st := range c.CallsInl(w.SSA, Any(), 2) {
			callee := st.In.Common().StaticCallee()
			if callee == nil || seenFn[callee] || !samePkgBody(w.SSA, callee) || callee.Object() == nil || callee.Object().Exported() {
				continue
			}
			seenFn[callee] = true
			if obj, ok := callee.Object().(*types.Func); ok {
				if f := c.fnOf(obj); f != nil {
					scope = append(scope, f)
				}
			}
		}
	}
	isOldMain := func(x *X) bool {
		x = strip(x)
		if x.Op == "field" && x.Name == "m" {
			return true
		}
		vals, _ := c.ActualsAt(x)
		if len(vals) == 0 {
			return false
		}
		for _, v := range vals {
			if v = strip(v); v.Op != "field" || v.Name != "m" {
				return false
			}
		}
		return true
	}
	for _, w := range scope {
		instrs(w.SSA, func(in ssa.Instruction) {
			mu, ok := in.(*ssa.MapUpdate)
			if !ok {
				return
			}
			if _, ok := mu.Map.(*ssa.MakeMap); !ok {
				return
			}
			v := c.E(mu.Value)
			if v.Op != "phi" || len(v.Args) != 2 {
				return
			}
			// one edge: lookup in a fresh map (updates); other: lookup in field m of the loaded snapshot
			var upd, old *X
			for _, a := range v.Args {
				if b, ok := Match(Or(Extract("0", BindP("lk", Op("lookup", "", Bind("map")))), BindP("lk", Op("lookup", "", Bind("map")))), a); ok {
					if isFreshMap(c, b["map"]) && holdsPendingUpdates(c, b["map"], 0) {
						upd = b["lk"]
					} else if isOldMain(b["map"]) {
						old = b["lk"]
					}
				}
			}
			key := w.Name + " › rebuild main map"
			// …for the provider being carried over: both lookups and the entry written use the same key (the loop's
			// own, not that of the provider the miss-fetch is about)
			if upd != nil && old != nil {
				sameKey := true
				for _, lk := range []*X{upd, old} {
					if l, isLk := lk.V.(*ssa.Lookup); isLk {
						if !Same(c.E(l.Index), c.E(mu.Key)) {
							sameKey = false
						}
					}
				}
				c.Check(sameKey, rule, key+" › same provider looked up and stored", mu.Pos(), "the pending-updates lookup, the old-main-map lookup and the entry written use one key", "the record stored under a provider's key is looked up under another key: providers held only in the main map are dropped (or replaced by another provider's record) when the main map is rebuilt")
			}
			if upd == nil || old == nil {

				c.Bad(rule, key, mu.Pos(), "rebuilt main map is not filled from (pending updates, else old main map): "+v.String())
				return
			}
			// the old-map lookup happens only when the updates lookup missed
			oldIn := old.V.(ssa.Instruction)
			_, g := c.Guarded(oldIn, Extract("1", Is(upd)), false)
			c.Check(g, rule, key, mu.Pos(), "old main map consulted only on the miss edge of the pending-updates lookup", "old main map takes precedence over pending updates: a rebuilt snapshot reverts records readers already saw")
			// every provider the writer tracks is carried into the rebuilt map, whatever its record is: a nil record is
			// the remembered "absent"/"expired" answer, and dropping it makes the next lookup query the sources again
			filtered := false
			for _, fct := range c.FactsAt(mu.Block()) {
				if fct.Cond.Contains(func(y *X) bool { return y.V != nil && y.V == v.V }) {
					filtered = true
				}
			}
			c.Check(!filtered, rule, key+" › carries every tracked provider", mu.Pos(), "the rebuilt main map receives an entry for every key of the write map, unconditionally", "entries are filtered by their value when the main map is rebuilt: negative (nil) entries vanish from the snapshot although the writer still tracks them")
		})
	}
	// the same with the maps package: the rebuilt main map starts as a copy of the old main map (maps.Clone, or a fresh
	// map that the old one is copied into first) and the pending updates are copied over it AFTERWARDS — maps.Copy
	// overwrites, so the later copy takes precedence — and what is then removed is decided by the key (is it still in
	// the write map?), not by the value (a nil record is the remembered "absent" answer)
	for _, w := range scope {
		type cp struct {
			in   ssa.Instruction
			kind string
		}
		var copies []cp
		clonedFromOld := false
		for _, cs := range c.Calls(w.SSA, Any()) {
			if cs.Fn != w.SSA {
				continue
			}
			switch {
			case strings.HasPrefix(cs.X.Name, "maps.Clone[") && len(cs.X.Args) == 1 && isOldMain(cs.X.Args[0]):
				clonedFromOld = true
			case strings.HasPrefix(cs.X.Name, "maps.Copy[") && len(cs.X.Args) == 2:
				src := cs.X.Args[1]
				switch {
				case isOldMain(src):
					copies = append(copies, cp{cs.In, "old"})
				case isFreshMap(c, src) && holdsPendingUpdates(c, src, 0):
					copies = append(copies, cp{cs.In, "upd"})
				}
			}
		}
		var upd ssa.Instruction
		nOld := 0
		for _, k := range copies {
			if k.kind == "upd" {
				upd = k.in
			} else {
				nOld++
			}
		}
		if upd == nil || !(clonedFromOld || nOld > 0) {
			continue
		}
		key := w.Name + " › rebuild main map"
		okOrder := true
		for _, k := range copies {
			if k.kind == "old" && !(Precedes(k.in, upd) && !MayFollow(upd, k.in)) {
				okOrder = false
			}
		}
		c.Check(okOrder, rule, key, upd.Pos(), "pending updates are copied over the old main map (the later copy wins)", "old main map takes precedence over pending updates (it is copied after them): a rebuilt snapshot reverts records readers already saw")
		byValue := false
		for _, cs := range c.Calls(w.SSA, Any()) {
			if !strings.HasPrefix(cs.X.Name, "maps.DeleteFunc[") || len(cs.X.Args) != 2 {
				continue
			}
			if lit := funcValueTarget(cs.X.Args[1].V); lit != nil && len(lit.Params) >= 2 {
				val := lit.Params[len(lit.Params)-1]
				for _, b := range lit.Blocks {
					if ret, isRet := b.Instrs[len(b.Instrs)-1].(*ssa.Return); isRet && len(ret.Results) == 1 {
						if c.RetX(ret, 0).Contains(func(y *X) bool { return y.V == ssa.Value(val) }) {
							byValue = true
						}
					}
				}
			}
		}
		c.Check(!byValue, rule, key+" › carries every tracked provider", upd.Pos(), "entries are removed from the rebuilt map by key (no longer tracked), never by their value", "entries are filtered by their value when the main map is rebuilt: negative (nil) entries vanish from the snapshot although the writer still tracks them")
	}
	c.Floor(rule, 2)
}

// pcacheLoadUnderToken: in writer functions the snapshot is loaded while the write token is held.
func pcacheLoadUnderToken(c *Ctx, rule string) {
	la := c.LockAnalyses(pcachePkg, []string{"ProviderCache.writeLock"})
	p := c.pkg(pcachePkg)
	for _, w := range pcacheWriters(c) {
		for _, a := range la[w.Name] {
			ownInspect(a.Body, func(n ast.Node) bool {
				call, ok := n.(*ast.CallExpr)
				if !ok {
					return true
				}
				sel, ok := call.Fun.(*ast.SelectorExpr)
				if !ok {
					return true
				}
				fn, _ := p.TypesInfo.ObjectOf(sel.Sel).(*types.Func)
				if fn == nil {
					return true
				}
				isLoad := (c.Role("pcache.load") != nil && c.Role("pcache.load").Object() == types.Object(fn)) || (fn.Name() == "Load" && fn.Pkg() != nil && fn.Pkg().Path() == "sync/atomic")
				if !isLoad {
					return true
				}
				h, seen := a.HeldAt[call]
				key := a.Name + " › load snapshot"
				if !seen {
					c.Unk(rule, key, call.Pos(), "snapshot load lies in code the lockset analysis did not reach")
				} else {
					c.Check(tokenHeld(h), rule, key, call.Pos(), "snapshot loaded with the write token held", "writer loads the snapshot it extends before taking the write token: a concurrent writer's publication is overwritten")
				}
				return true
			})
		}
	}
	c.Floor(rule, 2) // (the writers may share one publishing routine that loads the snapshot)
	// the snapshot a writer reads from is one it loaded itself (under the token, by the rule above) — not one handed
	// in by a caller that loaded it before the token was taken
	writers := map[*ssa.Function]bool{}
	for _, w := range pcacheWriters(c) {
		writers[w.SSA] = true
	}
	isLoadX := func(x *X) bool {
		x = strip(x)
		if x == nil || x.Op != "call" {
			return false
		}
		if r := c.Role("pcache.load"); r != nil && x.Callee == r {
			return true
		}
		return nameMatches(x.Name, "atomic.Pointer[pcache.readOnly]).Load[pcache.readOnly]")
	}
	for _, w := range pcacheWriters(c) {
		seen := map[*ssa.Parameter]bool{}
		instrs(w.SSA, func(in ssa.Instruction) {
			v, ok := in.(ssa.Value)
			if !ok {
				return
			}
			switch in.(type) {
			case *ssa.Field, *ssa.FieldAddr:
			default:
				return
			}
			x := c.E(v)
			if x.Op != "field" || fieldOwner(x) != "readOnly" {
				return
			}
			base := strip(x.Args[0])
			p, isParam := base.V.(*ssa.Parameter)
			if base.Op != "param" || !isParam || seen[p] || p.Parent() != w.SSA {
				return
			}
			seen[p] = true
			vals, at := c.ActualsAt(base)
			bad := ""
			if len(vals) == 0 {
				bad = "a snapshot parameter whose callers are not all known"
			}
			for i, a := range vals {
				if !isLoadX(a) {
					// a local that was (re)assigned before the call: the value that reaches it
					if r := c.ReachingStore(a, at[i]); r != nil {
						a = r
					}
				}
				if !isLoadX(a) || !writers[topFunc(at[i].Parent())] {
					bad = "a snapshot obtained by " + c.short(at[i].Parent().String()) + " (" + abbreviate(a.String()) + "), which does not hold the write token"
				}
			}
			c.Check(bad == "", rule, w.Name+" › snapshot parameter "+p.Name(), in.Pos(), "the snapshot handed in was loaded by a writer (under the token)", "writer extends "+bad+": a publication made in between is overwritten")
		})
	}
}

// isFreshMap: a map made in this function, or a parameter of a helper whose
// every caller passes a map it made itself.
func isFreshMap(c *Ctx, x *X) bool {
	if x.Op == "makemap" {
		return true
	}
	if ph, ok := strip(x).V.(*ssa.Phi); ok && strip(x).Op == "phi" && len(strip(x).Args) > 0 {
		// fresh on every edge (a clone, or the map made where the clone is nil)
		all := true
		for _, a := range strip(x).Args {
			as := strip(a)
			if as == nil || as == strip(x) {
				all = false
				break
			}
			if as.Op == "makemap" {
				continue
			}
			if call, isCall := as.V.(*ssa.Call); isCall && as.Op == "call" && returnsFreshMap(c, call.Call.StaticCallee(), 0) {
				continue
			}
			all = false
		}
		_ = ph
		if all {
			return true
		}
	}
	if call, ok := strip(x).V.(*ssa.Call); ok && x.Op != "param" && returnsFreshMap(c, call.Call.StaticCallee(), 0) {
		return true
	}
	vals, _ := c.ActualsAt(x)
	if len(vals) == 0 {
		return false
	}
	for _, v := range vals {
		if v.Op == "makemap" {
			continue
		}
		if call, ok := strip(v).V.(*ssa.Call); ok && returnsFreshMap(c, call.Call.StaticCallee(), 0) {
			continue // made for the caller by a helper that returns a fresh map
		}
		return false
	}
	return true
}

// pcacheNewestWins: a stored record is replaced only by a strictly newer one,
// and the time it is compared by is stored with it (shared by C06 and C07:
// it is also what keeps a reader from being served an older record than one
// it was given before).
func pcacheNewestWins(c *Ctx, rule string) {
	writers := pcacheWriters(c)
	for _, w := range writers {
		instrs(w.SSA, func(in ssa.Instruction) {
			st, ok := in.(*ssa.Store)
			if !ok {
				return
			}
			a := c.E(st.Addr)
			if a.Op != "field" || fieldOwner(a) != "cacheInfo" || a.Name != "provider" {
				return
			}
			rec := a.Args[0]
			if al, ok := rec.V.(*ssa.Alloc); ok && al.Block() == st.Block() {
				return // field initialisation of a literal being built: a new record, nothing is replaced
			}
			key := w.Name + " › replace record"
			afterPat := Call("time.Time).After", Bind("new"), Field("lastUpdate", Is(rec)))
			b, ok := c.Guarded(in, afterPat, true)
			if !ok {
				c.Bad(rule, key, st.Pos(), "stored record is replaced without the guard fetchedTime.After(record.lastUpdate)")
				return
			}
			c.OK(rule, key, st.Pos(), "replacement dominated by the true edge of new.After(record.lastUpdate)")
			// zero time normalised: the compared time is a phi of the parsed time and a constant date, selected by IsZero
			_, norm := Match(Op("phi", "", Any()), b["new"])
			// (the time may come from a helper that parses and normalises it: its returns are the alternatives)
			newVals := []*X{b["new"]}
			if hc, _ := helperCall(b["new"]); hc != nil {
				if alts := c.RetAlts(b["new"]); len(alts) >= 2 {
					newVals, norm = nil, true
					for _, a := range alts {
						newVals = append(newVals, a.Val)
					}
				}
			}
			anyHas := func(pred func(y *X) bool) bool {
				for _, v := range newVals {
					if v != nil && v.Contains(pred) {
						return true
					}
				}
				return false
			}
			hasDate := anyHas(func(y *X) bool { return y.Op == "call" && nameMatches(y.Name, "time.Date") })
			hasParse := anyHas(func(y *X) bool { return y.Op == "call" && nameMatches(y.Name, "time.Parse") })
			usesClock := anyHas(func(y *X) bool { return y.Op == "call" && (nameMatches(y.Name, "time.Now") || nameMatches(y.Name, "time.Since")) })
			c.Check(!usesClock, rule, w.Name+" › compared by the advertisement's own time", st.Pos(),
				"the time records are compared by comes from the record alone", "the time a record is compared by can be the local clock's: records are then ordered by when (and in which order) they were processed, not by their advertisement time — an older record can replace a newer one")
			c.Check(norm && hasDate && hasParse, rule, w.Name+" › zero time normalised", st.Pos(),
				"compared time is the parsed advertisement time with the zero value replaced by a fixed non-zero date", "compared time is not normalised: a record without timestamp compares as oldest forever or replaces newer ones")
			// lastUpdate stored together with provider (same block), with the compared value
			together := false
			for _, o := range st.Block().Instrs {
				if s2, ok := o.(*ssa.Store); ok {
					if a2 := c.E(s2.Addr); a2.Op == "field" && a2.Name == "lastUpdate" && Same(a2.Args[0], rec) && Same(c.E(s2.Val), b["new"]) {
						together = true
					}
				}
			}
			c.Check(together, rule, w.Name+" › time stored with record", st.Pos(),
				"record and its advertisement time are stored in the same step", "record replaced without storing the time it was compared by")
			// the record stored is the fetched one the time was parsed from
			var src *X
			for _, v := range newVals {
				if v != nil && src == nil {
					src = v.Find(func(y *X) bool { return y.Op == "field" && y.Name == "LastAdvertisementTime" })
				}
			}
			c.Check(src != nil && Same(src.Args[0], c.E(st.Val)), rule, w.Name+" › record matches time", st.Pos(),
				"the record stored is the one whose advertisement time was compared", "the record stored is not the one whose time was compared")
		})
	}
}

// mutatingHelperSites: fn is an unexported function that never publishes and
// whose call sites are all known: returns those call sites (nil otherwise).
func mutatingHelperSites(c *Ctx, fn *ssa.Function) []ssa.CallInstruction {
	if fn.Object() == nil || fn.Object().Exported() {
		return nil
	}
	publishes := false
	instrs(fn, func(in ssa.Instruction) {
		if isPublish(c, in) {
			publishes = true
		}
	})
	if publishes {
		return nil
	}
	sites, known := c.staticCallSites(fn)
	if !known || len(sites) == 0 {
		return nil
	}
	return sites
}

// holdsPendingUpdates: the fresh map x carries over the update map of the
// loaded snapshot — it is filled by ranging over (or maps.Copy of) the
// snapshot's u field, in the function that makes it, in a copying helper that
// is given that field, or at every call site when x is a parameter. (A fresh
// map that holds only this round's changes is not the pending set: looking
// providers up in it when the main map is rebuilt drops every earlier update.)
func holdsPendingUpdates(c *Ctx, x *X, depth int) bool {
	if depth > 2 {
		return false
	}
	isU := func(y *X) bool {
		y = strip(y)
		return y != nil && y.Op == "field" && y.Name == "u"
	}
	copiedInto := func(mk ssa.Value, src func(*X) bool) bool {
		found := false
		if mk.Referrers() == nil {
			return false
		}
		for _, r := range *mk.Referrers() {
			switch r := r.(type) {
			case *ssa.MapUpdate:
				if r.Map != mk {
					continue
				}
				// the value (or key) comes from a range over the source
				for _, v := range []ssa.Value{r.Key, r.Value} {
					c.E(v).Find(func(y *X) bool {
						if y.Op == "range" && len(y.Args) > 0 && src(y.Args[0]) {
							found = true
						}
						return false
					})
				}
			case ssa.CallInstruction:
				if sc := r.Common().StaticCallee(); sc != nil && sc.Object() != nil && sc.Object().Pkg() != nil && sc.Object().Pkg().Path() == "maps" && sc.Object().Name() == "Copy" {
					if len(r.Common().Args) == 2 && r.Common().Args[0] == mk && src(c.E(r.Common().Args[1])) {
						found = true
					}
				}
			}
		}
		return found
	}
	sx := strip(x)
	if mk, ok := sx.V.(*ssa.MakeMap); ok && sx.Op == "makemap" {
		return copiedInto(mk, isU)
	}
	// maps.Clone(read.u), possibly followed by 'if updates == nil { updates = make(…) }' (the phi of the two)
	if call, ok := sx.V.(*ssa.Call); ok && sx.Op == "call" && strings.HasPrefix(sx.Name, "maps.Clone[") && len(sx.Args) == 1 && isU(sx.Args[0]) {
		_ = call
		return true
	}
	if ph, ok := sx.V.(*ssa.Phi); ok && sx.Op == "phi" {
		for _, a := range sx.Args {
			if as := strip(a); as != nil && as.Op == "call" && strings.HasPrefix(as.Name, "maps.Clone[") && len(as.Args) == 1 && isU(as.Args[0]) {
				_ = ph
				return true
			}
		}
	}
	if call, ok := sx.V.(*ssa.Call); ok && sx.Op != "param" {
		callee := call.Call.StaticCallee()
		if callee == nil || !returnsFreshMap(c, callee, 0) {
			return false
		}
		// the helper copies one of its parameters, which is handed the u field
		for i, p := range callee.Params {
			if i >= len(call.Call.Args) || !isU(c.E(call.Call.Args[i])) {
				continue
			}
			for _, b := range callee.Blocks {
				if ret, ok := b.Instrs[len(b.Instrs)-1].(*ssa.Return); ok && len(ret.Results) > 0 {
					if mk, ok := unwrapV(ret.Results[0]).(*ssa.MakeMap); ok {
						if copiedInto(mk, func(y *X) bool { y = strip(y); return y != nil && y.V == ssa.Value(p) }) {
							return true
						}
					}
				}
			}
		}
		return false
	}
	vals, _ := c.ActualsAt(x)
	if len(vals) == 0 {
		return false
	}
	for _, v := range vals {
		if !holdsPendingUpdates(c, v, depth+1) {
			return false
		}
	}
	return true
}
