package main

import (
	"fmt"
	"go/token"
	"go/types"
	"os"
	"path/filepath"
	"strings"

	"golang.org/x/tools/go/ssa"
)

func init() {
	register(&propSpec{
		id:  "C13",
		run: runC13,
		explanation: "The few clauses of 'advertisements and entry chunks round-trip through IPLD with stable CIDs' that have structure in this repository (the rest lives in ipld-prime's bindnode and codecs), decided on SSA of ingest/schema and dagsync/ipnisync/head: " +
			"(U1) each Unwrap function hands bindnode.Unwrap either the node it was given or, on the 'foreign prototype' edge, the node rebuilt through the matching typed prototype's builder with the assignment error checked; " +
			"(U2) the prototype ↔ Go type pairing is the same in init (bindnode.Prototype((*T)(nil), TypeByName(\"T\"))), in Unwrap (asserted to *T, nil and failed assertion rejected) and in BytesToT (decodes with T's prototype, unwraps with T's Unwrap); " +
			"(U3) bytes are decoded by the decoder looked up from the codec named in the CID, with lookup and decode errors returned; " +
			"(U4) ToNode wraps the receiver with its own prototype's type and converts bindnode panics into the returned error; " +
			"(U5) both codecs the property names (DAG-JSON and DAG-CBOR) are registered by the package's own imports; " +
			"(U6) the unwrapped value is returned as is: no field of it is stored to on the way out (absent/present optionals are not normalised away); " +
			"(U7) the link prototype fixes CIDv1, DAG-JSON, SHA2-256 with default length. " +
			"Round-trip equality in both codecs, preservation of optionals by bindnode, CID stability and decoder totality are not decided — this is most of the property.",
		assumptions: []string{"ipld-prime bindnode Wrap/Unwrap and the dag-json/dag-cbor codecs are inverse on schema-conformant values"},
	})
}

func runC13(c *Ctx) {
	c.Trust("go/ssa", "ipld-prime bindnode, schema, dagjson, dagcbor")
	type ty struct{ pkg, name, proto, unwrap, bytesTo string }
	tys := []ty{
		{schemaPkg, "Advertisement", "AdvertisementPrototype", "UnwrapAdvertisement", "BytesToAdvertisement"},
		{schemaPkg, "EntryChunk", "EntryChunkPrototype", "UnwrapEntryChunk", "BytesToEntryChunk"},
		{headPkg, "SignedHead", "SignedHeadPrototype", "UnwrapSignedHead", ""},
	}
	for _, t := range tys {
		uw := c.Func(t.pkg, t.unwrap)
		if uw == nil {
			c.Unk("C13.U1-foreign-prototype-rebuilt", t.pkg+"."+t.unwrap, token.NoPos, "not found")
			continue
		}
		proto := Op("global", t.pkg[strings.LastIndex(t.pkg, "/")+1:]+"."+t.proto)
		// ---- U1 ----------------------------------------------------------------------------
		unwraps := c.Calls(uw.SSA, Call("bindnode.Unwrap"))
		if len(unwraps) != 1 {
			c.Bad("C13.U1-foreign-prototype-rebuilt", uw.Name+" › bindnode.Unwrap", uw.SSA.Pos(), "expected exactly one bindnode.Unwrap call")
			continue
		}
		arg := unwraps[0].X.Args[0]
		okU1 := false
		if ph, isPhi := arg.V.(*ssa.Phi); isPhi && len(ph.Edges) == 2 {
			nParam, nBuilt := 0, 0
			for i, e := range ph.Edges {
				x := c.E(e)
				if x.Op == "param" {
					nParam++
					continue
				}
				m, ok := Match(Invoke("NodeBuilder.Build", BindP("nb", Invoke("NodePrototype.NewBuilder", proto))), x)
				if !ok {
					m, ok = Match(Invoke("NodeBuilder.Build", BindP("nb", Invoke("TypedPrototype.NewBuilder", proto))), x)
				}
				if !ok {
					continue
				}
				pred := ph.Block().Preds[i]
				_, foreign := c.GuardedB(pred, Bin("==", Invoke("Node.Prototype", Op("param", "")), Any()), false)
				assigned := false
				for _, as := range c.Calls(uw.SSA, Invoke("NodeAssembler.AssignNode", Is(m["nb"]), Op("param", ""))) {
					if _, g := c.GuardedB(pred, EqNil(Is(c.Result(as, 0))), true); g {
						assigned = true
					}
				}
				if !assigned {
					for _, as := range c.Calls(uw.SSA, Invoke("NodeBuilder.AssignNode", Is(m["nb"]), Op("param", ""))) {
						if _, g := c.GuardedB(pred, EqNil(Is(c.Result(as, 0))), true); g {
							assigned = true
						}
					}
				}
				if foreign && assigned {
					nBuilt++
				}
			}
			okU1 = nParam == 1 && nBuilt == 1
		}
		if !okU1 {
			// the same through the values the node can take (a phi here, or the returns of a rebuilding helper): the
			// parameter itself, and the node built by the prototype's builder on the foreign-prototype edge after an
			// assignment whose error was nil
			nParam, nBuilt, nOther := 0, 0, 0
			for _, l := range c.LeavesF(arg, unwraps[0].In) {
				lv := strip(l.Val)
				if lv != nil && lv.Op == "param" {
					nParam++
					continue
				}
				m, ok := Match(Invoke("NodeBuilder.Build", BindP("nb", AnyCall("NewBuilder", proto))), l.Val)
				if !ok {
					nOther++
					continue
				}
				foreign, assigned := false, false
				for _, fct := range l.Facts {
					if _, g := Match(Bin("==", Invoke("Node.Prototype", Op("param", "")), Any()), fct.Cond); g && !fct.Val {
						foreign = true
					}
					if _, g := Match(EqNil(AnyCall("AssignNode", Is(m["nb"]), Op("param", ""))), fct.Cond); g && fct.Val {
						assigned = true
					}
				}
				if foreign && assigned {
					nBuilt++
				} else {
					nOther++
				}
			}
			okU1 = nParam == 1 && nBuilt == 1 && nOther == 0
		}
		c.Check(okU1, "C13.U1-foreign-prototype-rebuilt", uw.Name+" › node given to Unwrap", unwraps[0].In.Pos(), "Unwrap receives the node itself or, on the foreign-prototype edge, the node rebuilt through "+t.proto+"'s builder (assignment error checked)", "a node loaded with a generic prototype is not rebuilt through "+t.proto+" before unwrapping (or the rebuild error is ignored)")
		// ---- U2 unwrap side + U6 ---------------------------------------------------------------
		okAssert, okReject := false, true
		var result *X
		for _, b := range uw.SSA.Blocks {
			ret, ok := b.Instrs[len(b.Instrs)-1].(*ssa.Return)
			if !ok || len(ret.Results) != 2 || c.RetX(ret, 1).Op != "nil" {
				continue
			}
			r := c.RetX(ret, 0)
			if r.Op == "extract" && r.Name == "0" && r.Args[0].Op == "assert" && strings.HasSuffix(r.Args[0].Name, "."+t.name) {
				okAssert = Same(r.Args[0].Args[0], c.E(unwraps[0].In.(*ssa.Call)))
				result = r
				// success only with ok && != nil
				okOk := false
				for _, f := range c.FactsAt(b) {
					if f.Val && f.Cond.Op == "extract" && f.Cond.Name == "1" && f.Cond.Args[0].V == r.Args[0].V {
						okOk = true
					}
				}
				_, nonNil := c.GuardedB(b, EqNil(Is(r)), false)
				okReject = okOk && nonNil
			}
		}
		c.Check(okAssert && okReject, "C13.U2-prototype-type-pairing", uw.Name+" › asserted to *"+t.name, uw.SSA.Pos(), "success returns bindnode.Unwrap(node).(*"+t.name+") only when the assertion holds and the pointer is non-nil", "Unwrap does not return the checked *"+t.name+" of the unwrapped node")
		if result != nil {
			modified := storesRootedAt(c, uw.SSA, result)
			c.Check(!modified.IsValid(), "C13.U6-unwrapped-unmodified", uw.Name+" › value returned as decoded", uw.SSA.Pos(), "no field of the unwrapped value is stored to", "the unwrapped value is modified before it is returned (at "+c.pos(modified)+"): decoding no longer returns what was encoded")
		}
		// ---- U2 init side ---------------------------------------------------------------------------
		p := c.pkg(t.pkg)
		okInit := false
		if p != nil {
			for _, m := range c.SSAPkgs[p.PkgPath].Members {
				f, ok := m.(*ssa.Function)
				if !ok || !strings.HasPrefix(f.Name(), "init") {
					continue
				}
				instrs(f, func(in ssa.Instruction) {
					st, ok := in.(*ssa.Store)
					if !ok {
						return
					}
					g, ok := st.Addr.(*ssa.Global)
					if !ok || g.Name() != t.proto {
						return
					}
					v := c.E(st.Val)
					m, ok := Match(Call("bindnode.Prototype", Bind("ptr"), Invoke("TypeSystem.TypeByName", Any(), Const(`"`+t.name+`"`))), v)
					if !ok {
						m, ok = Match(Call("bindnode.Prototype", Bind("ptr"), Call("TypeSystem).TypeByName", Any(), Const(`"`+t.name+`"`))), v)
					}
					if ok {
						if pv, isV := m["ptr"].V.(ssa.Value); isV && strings.HasSuffix(pv.Type().String(), "."+t.name) {
							okInit = true
						}
					}
				})
			}
		}
		c.Check(okInit, "C13.U2-prototype-type-pairing", t.pkg+"."+t.proto+" › init", uw.SSA.Pos(), t.proto+" = bindnode.Prototype((*"+t.name+")(nil), TypeByName(\""+t.name+"\"))", t.proto+" is not built from Go type "+t.name+" and schema type \""+t.name+"\"")
		// ---- U2/U3 BytesTo side ---------------------------------------------------------------------------
		if t.bytesTo != "" {
			bt := c.Func(t.pkg, t.bytesTo)
			if bt == nil {
				c.Unk("C13.U3-decode-by-cid-codec", t.pkg+"."+t.bytesTo, token.NoPos, "not found")
			} else {
				cidP := Op("param", bt.SSA.Params[0].Name())
				// (the decoding may sit in an unexported helper shared with a stream-reading entry point: the calls are
				// looked up through it and read in this function's terms)
				decs := c.CallsInl(bt.SSA, c.RoleCall("schema.decode", Field("Codec", Call("cid.Cid).Prefix", cidP)), Any(), proto), 2)
				okDec := len(decs) == 1
				var uwCall *InlSite
				for _, cs := range c.CallsInl(bt.SSA, Any(), 2) {
					if cs.In.Common().StaticCallee() == uw.SSA {
						cs := cs
						uwCall = &cs
					}
				}
				if okDec && uwCall != nil {
					_, a := Match(Extract("0", Is(c.E(decs[0].In.(*ssa.Call)))), uwCall.X.Args[0])
					_, g := c.GuardedSite(*uwCall, EqNil(Extract("1", Is(c.E(decs[0].In.(*ssa.Call))))), true)
					okDec = a && g
				} else {
					okDec = false
				}
				c.Check(okDec, "C13.U3-decode-by-cid-codec", bt.Name, bt.SSA.Pos(), "decodes with the CID's codec and "+t.proto+", then unwraps with "+t.unwrap+" on err == nil", "bytes are not decoded by (CID codec, "+t.proto+") and unwrapped with "+t.unwrap)
			}
		}
		// ---- U4 ToNode --------------------------------------------------------------------------------------
		if tn0 := c.Func(t.pkg, t.name+".ToNode"); tn0 != nil {
			tn := tn0
			protoHere := proto
			viaHelper := true
			// 'return wrap(&v, Prototype)': the wrapping routine shared by the ToNode methods is analysed in their place,
			// its prototype parameter standing for the global handed in
			if len(c.Calls(tn.SSA, Call("bindnode.Wrap"))) == 0 {
				viaHelper = false
				for _, b := range tn.SSA.Blocks {
					ret, ok := b.Instrs[len(b.Instrs)-1].(*ssa.Return)
					if !ok || len(ret.Results) != 2 {
						continue
					}
					h0, i0 := helperCall(c.RetX(ret, 0))
					h1, i1 := helperCall(c.RetX(ret, 1))
					if h0 == nil || h1 == nil || h0.V != h1.V || i0 != 0 || i1 != 1 || h0.Callee == nil {
						continue
					}
					obj, _ := h0.Callee.Object().(*types.Func)
					hf := c.fnOf(obj)
					if hf == nil {
						continue
					}
					for k, a := range h0.Args {
						if _, m := Match(proto, a); m && k < len(h0.Callee.Params) {
							tn, protoHere, viaHelper = hf, Op("param", h0.Callee.Params[k].Name()), true
						}
					}
				}
			}
			// or: 'tn, err := wrapTyped(&v, Prototype); if err != nil { return nil, err }; return tn.Representation(), nil'
			// — the helper wraps under its recover, the method only takes the representation of what it got
			var midCall *ssa.Call
			if !viaHelper {
				for _, cs := range c.Calls(tn0.SSA, Any()) {
					call, isCall := cs.In.(*ssa.Call)
					callee := cs.In.Common().StaticCallee()
					if !isCall || callee == nil || callee.Pkg != tn0.SSA.Pkg || len(callee.Blocks) == 0 || cs.Fn != tn0.SSA {
						continue
					}
					obj, _ := callee.Object().(*types.Func)
					hf := c.fnOf(obj)
					if hf == nil || len(c.Calls(callee, Call("bindnode.Wrap"))) != 1 {
						continue
					}
					for k, a := range cs.X.Args {
						if _, m := Match(proto, a); m && k < len(callee.Params) {
							tn, protoHere, viaHelper, midCall = hf, Op("param", callee.Params[k].Name()), true, call
						}
					}
				}
			}
			wr := c.Calls(tn.SSA, Call("bindnode.Wrap"))
			okWrap := len(wr) == 1 && viaHelper
			if okWrap {
				_, okWrap = Match(AnyCall("Type", protoHere), wr[0].X.Args[1])
			}
			// the recovering routine: a deferred literal, or a deferred same-package function handed the address of the
			// error result; it calls recover() and stores an error derived from the recovered value
			recovers := func(f *ssa.Function) bool {
				if f == nil || len(c.Calls(f, Op("builtin", "recover"))) != 1 {
					return false
				}
				found := false
				instrs(f, func(in ssa.Instruction) {
					st, ok := in.(*ssa.Store)
					if !ok || !isErrorType(st.Val.Type()) {
						return
					}
					v := c.E(st.Val)
					if _, m := Match(Somewhere(Op("builtin", "recover")), v); m && v.Op == "call" {
						found = true
					}
				})
				return found
			}
			rec, deferred := false, false
			instrs(tn.SSA, func(in ssa.Instruction) {
				d, ok := in.(*ssa.Defer)
				if !ok {
					return
				}
				deferred = true
				if lit, isLit := unwrapV(d.Call.Value).(*ssa.MakeClosure); isLit {
					if recovers(lit.Fn.(*ssa.Function)) {
						rec = true
					}
				} else if f := d.Call.StaticCallee(); f != nil && f.Pkg == tn.SSA.Pkg && recovers(f) {
					rec = true
				}
			})
			// ToNode refuses nothing itself: what decodes must re-encode, so the only error it reports is a recovered
			// bindnode panic (no own validation on the way out)
			ownErr := ""
			instrs(tn.SSA, func(in ssa.Instruction) {
				switch in := in.(type) {
				case *ssa.Store:
					if isErrorType(in.Val.Type()) && !isNilConst(in.Val) {
						if _, isAlloc := in.Addr.(*ssa.Alloc); isAlloc {
							ownErr = c.pos(in.Pos())
						}
					}
				case *ssa.Return:
					if len(in.Results) == 2 {
						if r := c.RetX(in, 1); r.Op != "nil" && r.Op != "alloc" && r.Op != "var" && r.Op != "deref" {
							ownErr = c.pos(in.Pos())
						}
					}
				}
			})
			c.Check(ownErr == "", "C13.U4-tonode-total", tn0.Name+" › refuses nothing itself", tn.SSA.Pos(), "the only error ToNode can return is the recovered panic", "ToNode returns an error of its own (at "+ownErr+"): a value that decoded without error can no longer be re-encoded")
			// what is handed out is the representation-level node of the wrapped value (the type-level node encodes
			// absent optional fields as explicit nulls, which then do not decode)
			okRepr, nVals := true, 0
			isRepr := func(x *X) bool {
				_, m := Match(AnyCall("Representation", Call("bindnode.Wrap")), x)
				return m
			}
			instrs(tn.SSA, func(in ssa.Instruction) {
				switch in := in.(type) {
				case *ssa.Store:
					if al, isAlloc := in.Addr.(*ssa.Alloc); isAlloc && !isErrorType(in.Val.Type()) && strings.HasSuffix(deref(al.Type()).String(), "datamodel.Node") {
						if !isNilConst(in.Val) {
							nVals++
							if !isRepr(c.E(in.Val)) {
								okRepr = false
							}
						}
					}
				case *ssa.Return:
					if len(in.Results) == 2 {
						if r := c.RetX(in, 0); r.Op != "nil" && r.Op != "alloc" && r.Op != "var" && r.Op != "deref" {
							nVals++
							if !isRepr(r) {
								okRepr = false
							}
						}
					}
				}
			})
			if midCall != nil {
				// the helper returns the typed node; the method returns its representation (or nil with the helper's error)
				okRepr, nVals = true, 0
				for _, b := range tn0.SSA.Blocks {
					ret, ok := b.Instrs[len(b.Instrs)-1].(*ssa.Return)
					if !ok || len(ret.Results) != 2 {
						continue
					}
					r0, r1 := c.RetX(ret, 0), c.RetX(ret, 1)
					if r1.Op != "nil" {
						// failure: the helper's own error, nothing else
						if _, m := Match(Extract("1", Is(c.E(midCall))), r1); !m {
							ownErr = c.pos(ret.Pos())
						}
						continue
					}
					nVals++
					if _, m := Match(AnyCall("Representation", Extract("0", Is(c.E(midCall)))), r0); !m {
						okRepr = false
					}
					if _, g := c.GuardedB(b, EqNil(Extract("1", Is(c.E(midCall)))), true); !g {
						okRepr = false
					}
				}
				// and what the helper hands back is the wrapped value itself
				for _, b := range tn.SSA.Blocks {
					if ret, ok := b.Instrs[len(b.Instrs)-1].(*ssa.Return); ok && len(ret.Results) == 2 {
						for _, l := range c.Leaves(c.RetX(ret, 0), ret) {
							ls := strip(l)
							if ls == nil || ls.Op == "nil" || (ls.Op == "const" && strings.HasPrefix(ls.Name, "zero:")) {
								continue
							}
							if _, m := Match(Call("bindnode.Wrap"), l); !m {
								if _, isVar := ls.V.(*ssa.Alloc); !isVar {
									okRepr = false
								}
							}
						}
					}
				}
			}
			c.Check(okRepr && nVals > 0, "C13.U4-tonode-total", tn0.Name+" › representation-level node", tn.SSA.Pos(), "the node returned is bindnode.Wrap(…).Representation()", "ToNode hands out something other than the representation of the wrapped value (e.g. the type-level node): absent optional fields are then encoded as explicit nulls and the block no longer decodes")
			c.Check(okWrap && rec && deferred, "C13.U4-tonode-total", tn0.Name, tn.SSA.Pos(), "wraps with "+t.proto+".Type() under a deferred recover that turns a panic into the returned error", "ToNode does not wrap with its own prototype's type or lets bindnode panics escape")
		}
	}
	// U9: the byte decoders decode the bytes they are given: what reaches the codec is a reader over the data
	// parameter itself, and the decoder rejects nothing on its own before the codec has seen the bytes (trimming
	// "white space" off binary DAG-CBOR cuts a block whose last byte happens to be one)
	for _, name := range []string{"BytesToAdvertisement", "BytesToEntryChunk"} {
		f := c.Func(schemaPkg, name)
		if f == nil {
			c.Unk("C13.U9-decodes-bytes-as-given", "ingest/schema."+name, token.NoPos, "not found")
			continue
		}
		var data *ssa.Parameter
		for _, p := range f.SSA.Params {
			if sl, ok := p.Type().Underlying().(*types.Slice); ok && types.Identical(sl.Elem(), types.Typ[types.Byte]) {
				data = p
			}
		}
		okSrc, n := data != nil, 0
		for _, cs := range c.Calls(f.SSA, Or(Call("bytes.NewBuffer"), Call("bytes.NewReader"))) {
			n++
			if a := strip(cs.X.Args[0]); a == nil || a.V != ssa.Value(data) {
				okSrc = false
			}
		}
		// no reassignment of the parameter
		if data != nil && data.Referrers() != nil {
			for _, r := range *data.Referrers() {
				if st, ok := r.(*ssa.Store); ok && st.Val == ssa.Value(data) {
					if al, isAl := st.Addr.(*ssa.Alloc); isAl && al.Referrers() != nil {
						for _, r2 := range *al.Referrers() {
							if s2, ok := r2.(*ssa.Store); ok && s2.Addr == ssa.Value(al) && s2 != st {
								okSrc = false
							}
						}
					}
				}
			}
		}
		// …and that reader is what the codec is handed — directly or through helpers, not wrapped (a size cap meant for
		// streams, applied to the in-memory path as well, cuts large blocks short)
		if okSrc && data != nil {
			decs := c.CallsInl(f.SSA, c.RoleCall("schema.decode"), 3)
			okSrc = len(decs) == 1
			for _, d := range decs {
				if len(d.X.Args) < 2 {
					okSrc = false
					continue
				}
				m, isBuf := Match(Or(Call("bytes.NewBuffer", Bind("d")), Call("bytes.NewReader", Bind("d"))), d.X.Args[1])
				if !isBuf || strip(m["d"]) == nil || strip(m["d"]).V != ssa.Value(data) {
					okSrc = false
				}
			}
		}
		c.Check(okSrc && n == 1, "C13.U9-decodes-bytes-as-given", f.Name+" › decodes its data parameter", f.SSA.Pos(), "the codec reads from a buffer over the data parameter as handed in", "what is decoded is not the data handed in (rewritten, trimmed or replaced before the codec sees it): blocks that encode fine no longer decode")
	}
	c.Floor("C13.U9-decodes-bytes-as-given", 2)
	decodedHandedOnAsDecoded(c, "C13.U6-decoded-handed-on")
	c.Floor("C13.U1-foreign-prototype-rebuilt", 3)
	c.Floor("C13.U2-prototype-type-pairing", 6)
	c.Floor("C13.U6-unwrapped-unmodified", 3)
	c.Floor("C13.U4-tonode-total", 6)

	// ---- U8 the Go structs mirror the IPLD schema field for field, in order: bindnode reads Go fields by position when
	// encoding and writes them by name when decoding, so two same-typed fields in another order than the schema's
	// are exchanged on the wire (and a generic-prototype decode then disagrees with a typed one)
	nMirror := 0
	nOptBad, nOptStructs := 0, 0
	for _, rel := range []string{schemaPkg, headPkg} {
		p := c.pkg(rel)
		if p == nil {
			continue
		}
		files, _ := filepath.Glob(filepath.Join(c.Repo, rel, "*.ipldsch"))
		for _, sf := range files {
			data, err := os.ReadFile(sf)
			if err != nil {
				c.Unk("C13.U8-go-structs-mirror-schema", rel+" › "+filepath.Base(sf), token.NoPos, "schema file unreadable")
				continue
			}
			for name, fields := range ipldStructs(string(data)) {
				tn, ok := p.Types.Scope().Lookup(name).(*types.TypeName)
				if !ok {
					continue
				}
				st, ok := tn.Type().Underlying().(*types.Struct)
				if !ok {
					continue
				}
				nMirror++
				var goNames []string
				for i := 0; i < st.NumFields(); i++ {
					goNames = append(goNames, st.Field(i).Name())
				}
				same := len(goNames) == len(fields)
				for i := range fields {
					if same && !strings.EqualFold(goNames[i], fields[i]) {
						same = false
					}
				}
				// a field the schema calls optional (or nullable) is one whose Go type can tell "absent" from "empty": a
				// pointer or an interface. A slice or string cannot — an empty list is written out, read back as absent and
				// written again without the key: the block gets another CID on its second trip
				if same {
					opt := ipldOptional(string(data))[name]
					for i := 0; i < st.NumFields(); i++ {
						_, isPtr := st.Field(i).Type().Underlying().(*types.Pointer)
						_, isIface := st.Field(i).Type().Underlying().(*types.Interface)
						if (opt[fields[i]] && !isPtr && !isIface) || (isPtr && !opt[fields[i]]) {
							nOptBad++
							c.Bad("C13.U8-optional-fields-distinguishable", rel+"."+name+"."+st.Field(i).Name(), st.Field(i).Pos(), "schema optionality ("+fmt.Sprint(opt[fields[i]])+") and Go type ("+st.Field(i).Type().String()+") disagree: an optional field of a type without a distinct 'absent' value (slice, string, bytes) does not survive store → load → store with the same CID; a pointer field that is not optional cannot be nil")
						}
					}
					nOptStructs++
				}
				c.Check(same, "C13.U8-go-structs-mirror-schema", rel+"."+name, tn.Pos(), "Go fields ["+strings.Join(goNames, " ")+"] are the schema's, in the schema's order", "the Go struct's fields ["+strings.Join(goNames, " ")+"] are not the schema's ["+strings.Join(fields, " ")+"] in the same order: bindnode encodes by position and decodes by name, so fields are exchanged on the wire")
			}
		}
	}
	c.Floor("C13.U8-go-structs-mirror-schema", 5)
	c.Check(nOptBad == 0 && nOptStructs >= 5, "C13.U8-optional-fields-distinguishable", "schemas › optional ⇒ pointer or interface, pointer ⇒ optional", token.NoPos, fmt.Sprint(nOptStructs)+" structs: every optional (nullable) field is pointer- or interface-typed, every pointer field optional", "optionality and Go types disagree (see above), or fewer structs than expected were compared")
	c.Floor("C13.U8-optional-fields-distinguishable", 1)

	// ---- U3 decode helper ---------------------------------------------------------------------------------
	if d := c.RoleFn("schema.decode"); d != nil {
		lk := c.Calls(d.SSA, Call("multicodec.LookupDecoder", Op("param", d.SSA.Params[0].Name())))
		ok := len(lk) == 1
		if ok {
			h := c.ErrPropagates(lk[0])
			ok = h.Kind == "checked-return" || h.Kind == "returned-directly"
			decs := c.Calls(d.SSA, Op("dyncall", "", Extract("0", Is(c.E(lk[0].In.(*ssa.Call))))))
			ok = ok && len(decs) == 1
			if ok {
				h2 := c.ErrPropagates(decs[0])
				ok = h2.Kind == "checked-return" || h2.Kind == "returned-directly"
				_, nb := Match(Invoke("NodePrototype.NewBuilder", Op("param", d.SSA.Params[2].Name())), decs[0].X.Args[1])
				_, rd := Match(Op("param", d.SSA.Params[1].Name()), decs[0].X.Args[2])
				ok = ok && nb && rd
			}
		}
		c.Check(ok, "C13.U3-decode-by-cid-codec", d.Name, d.SSA.Pos(), "decoder looked up from the codec argument; lookup and decode errors returned; decodes the given reader into the given prototype's builder", "decode helper does not (look up by codec, check both errors, decode reader into prototype builder)")
	} else {
		c.Unk("C13.U3-decode-by-cid-codec", "ingest/schema.decodeIPLDNode", token.NoPos, "not found")
	}
	// a decoder that accepts only some codecs accepts both the library encodes with: where the codec is compared with
	// constants on the way to decoding, DAG-JSON (0x0129) and DAG-CBOR (0x71) are among them
	{
		consts := map[string]bool{}
		for _, f := range c.Funcs(schemaPkg) {
			instrs(f.SSA, func(in ssa.Instruction) {
				bo, ok := in.(*ssa.BinOp)
				if !ok || bo.Op != token.EQL {
					return
				}
				k, isK := bo.Y.(*ssa.Const)
				if !isK || k.Value == nil {
					return
				}
				x := c.E(bo.X)
				isCodec := x.Contains(func(y *X) bool {
					return (y.Op == "field" && y.Name == "Codec") || (y.Op == "param" && strings.EqualFold(y.Name, "codec"))
				})
				if isCodec {
					consts[k.Value.ExactString()] = true
				}
			})
		}
		if len(consts) == 0 {
			c.OK("C13.U3-decode-by-cid-codec", "ingest/schema › codec allow-list", token.NoPos, "the decoders compare the codec with no constants: whatever is registered decodes")
		} else {
			c.Check(consts["297"] && consts["113"], "C13.U3-decode-by-cid-codec", "ingest/schema › codec allow-list", token.NoPos, "the codecs compared with include DAG-JSON and DAG-CBOR", "the decoder's list of accepted codecs lacks DAG-JSON (0x0129) or DAG-CBOR (0x71): blocks the library itself encodes with that codec are refused")
		}
	}
	c.Floor("C13.U3-decode-by-cid-codec", 4)

	// ---- U5 codecs registered ----------------------------------------------------------------------------------
	if p := c.pkg(schemaPkg); p != nil {
		need := map[string]bool{"github.com/ipld/go-ipld-prime/codec/dagjson": false, "github.com/ipld/go-ipld-prime/codec/dagcbor": false}
		for path := range p.Imports {
			if _, ok := need[path]; ok {
				need[path] = true
			}
		}
		for path, ok := range need {
			c.Check(ok, "C13.U5-codecs-registered", "ingest/schema imports "+path[strings.LastIndex(path, "/")+1:], token.NoPos, "the package itself imports (and thereby registers) "+path, "ingest/schema no longer imports "+path+": encoding/decoding with that codec works only if some other package happens to link it")
		}
	}
	c.Floor("C13.U5-codecs-registered", 2)

	// ---- U7 link prototype -----------------------------------------------------------------------------------------
	if p := c.pkg(schemaPkg); p != nil {
		ok := false
		for _, m := range c.SSAPkgs[p.PkgPath].Members {
			f, isF := m.(*ssa.Function)
			if !isF || !strings.HasPrefix(f.Name(), "init") {
				continue
			}
			vals := map[string]string{}
			instrs(f, func(in ssa.Instruction) {
				if st, isSt := in.(*ssa.Store); isSt {
					a := c.E(st.Addr)
					if a.Op == "field" && strings.Contains(a.String(), "Linkproto") {
						vals[a.Name] = c.E(st.Val).String()
					}
				}
			})
			dj, _ := c.ConstString("github.com/multiformats/go-multicodec", "DagJson")
			sh, _ := c.ConstString("github.com/multiformats/go-multicodec", "Sha2_256")
			if vals["Version"] == "1" && vals["Codec"] == dj && vals["MhType"] == sh && vals["MhLength"] == "-1" {
				ok = true
			}
		}
		c.Check(ok, "C13.U7-link-prototype", "ingest/schema.Linkproto", token.NoPos, "Linkproto = CIDv1, dag-json, sha2-256, default length", "Linkproto no longer fixes CIDv1 / dag-json / sha2-256 / default length: stored blocks get different CIDs")
	}
	c.Floor("C13.U7-link-prototype", 1)
}

// storesRootedAt: position of a store, in fn, to memory reached from value v
// through any chain of field / index / dereference steps (NoPos if none).
func storesRootedAt(c *Ctx, fn *ssa.Function, v *X) token.Pos {
	modified := token.NoPos
	instrs(fn, func(in ssa.Instruction) {
		st, ok := in.(*ssa.Store)
		if !ok {
			return
		}
		a := c.E(st.Addr)
		for d := 0; d < 8 && a != nil; d++ {
			if Same(a, v) {
				if d > 0 {
					modified = st.Pos()
				}
				return
			}
			switch a.Op {
			case "field", "index", "deref", "slice", "assert":
				a = a.Args[0]
			case "extract":
				if a.Name == "0" {
					a = a.Args[0]
				} else {
					return
				}
			default:
				return
			}
		}
	})
	return modified
}

// unwrapResult: the value an Unwrap function returns on success.
func unwrapResult(c *Ctx, uw *ssa.Function) *X {
	for _, b := range uw.Blocks {
		ret, ok := b.Instrs[len(b.Instrs)-1].(*ssa.Return)
		if !ok || len(ret.Results) != 2 || c.RetX(ret, 1).Op != "nil" {
			continue
		}
		return c.RetX(ret, 0)
	}
	return nil
}

// ipldStructs extracts, from IPLD schema DSL text, the field names of every
// struct type in declaration order.
func ipldStructs(src string) map[string][]string {
	out := map[string][]string{}
	cur := ""
	for _, line := range strings.Split(src, "\n") {
		t := strings.TrimSpace(line)
		if i := strings.Index(t, "#"); i >= 0 {
			t = strings.TrimSpace(t[:i])
		}
		if t == "" {
			continue
		}
		f := strings.Fields(t)
		switch {
		case cur == "" && len(f) >= 3 && f[0] == "type" && f[2] == "struct":
			cur = f[1]
			out[cur] = nil
		case cur != "" && strings.HasPrefix(t, "}"):
			cur = ""
		case cur != "":
			out[cur] = append(out[cur], f[0])
		}
	}
	return out
}

// decodedHandedOnAsDecoded: the byte decoders return the record the unwrap step produced, with no field of it
// written in between (a "normalised" provider ID or address list is no longer the value the signature covers, and
// no longer re-encodes to the block it was read from). Shared by C05 and C13.
func decodedHandedOnAsDecoded(c *Ctx, rule string) {
	for _, name := range []string{"BytesToAdvertisement", "BytesToEntryChunk"} {
		f := c.Func(schemaPkg, name)
		if f == nil {
			c.Unk(rule, "ingest/schema."+name, token.NoPos, "not found")
			continue
		}
		want := f.SSA.Signature.Results().At(0).Type()
		// (a decoder that only hands its reader to an unexported helper is judged in the helper)
		body := f.SSA
		for d := 0; d < 2; d++ {
			var tail *ssa.Function
			nRet := 0
			for _, b := range body.Blocks {
				ret, isRet := b.Instrs[len(b.Instrs)-1].(*ssa.Return)
				if !isRet || b.Comment == "recover" {
					continue
				}
				nRet++
				if len(ret.Results) == 2 {
					if ex, ok := ret.Results[0].(*ssa.Extract); ok {
						if call, ok := ex.Tuple.(*ssa.Call); ok {
							if callee := call.Call.StaticCallee(); callee != nil && samePkgBody(body, callee) && types.Identical(callee.Signature.Results().At(0).Type(), want) {
								tail = callee
							}
						}
					}
				}
			}
			if nRet != 1 || tail == nil {
				break
			}
			body = tail
		}
		var rec *X
		n := 0
		instrs(body, func(in ssa.Instruction) {
			call, ok := in.(*ssa.Call)
			if !ok {
				return
			}
			res := call.Call.Signature().Results()
			if res.Len() != 2 || !isErrorType(res.At(1).Type()) {
				return
			}
			if p, ok := res.At(0).Type().(*types.Pointer); ok && types.Identical(p.Elem(), want) {
				n++
				rec = &X{Op: "extract", Name: "0", Args: []*X{c.E(call)}, V: nil}
				for _, r := range *call.Referrers() {
					if ex, ok := r.(*ssa.Extract); ok && ex.Index == 0 {
						rec = c.E(ex)
					}
				}
			}
		})
		if n != 1 {
			c.Unk(rule, f.Name+" › record from the unwrap step", f.SSA.Pos(), "expected one call yielding (*"+want.String()+", error), found "+fmt.Sprint(n))
			continue
		}
		modified := storesRootedAt(c, body, rec)
		okRet, nRet := true, 0
		for _, b := range body.Blocks {
			ret, isRet := b.Instrs[len(b.Instrs)-1].(*ssa.Return)
			if !isRet || b.Comment == "recover" || len(ret.Results) != 2 || c.RetX(ret, 1).Op != "nil" {
				continue
			}
			nRet++
			r := c.RetX(ret, 0)
			if !(r != nil && r.Op == "deref" && Same(r.Args[0], rec)) {
				okRet = false
			}
			// (a local copy that is handed on must not have a field replaced on the way: 'adv := *ad; adv.X = …')
			if ld, isLoad := ret.Results[0].(*ssa.UnOp); isLoad {
				if al, isAl := ld.X.(*ssa.Alloc); isAl && al.Referrers() != nil {
					for _, rf := range *al.Referrers() {
						if fa, isFA := rf.(*ssa.FieldAddr); isFA && fa.Referrers() != nil {
							for _, r2 := range *fa.Referrers() {
								if st, isSt := r2.(*ssa.Store); isSt && st.Addr == ssa.Value(fa) {
									modified = st.Pos()
								}
							}
						}
					}
				}
			}
		}
		c.Check(!modified.IsValid() && okRet && nRet > 0, rule, f.Name+" › record handed on as decoded", f.SSA.Pos(), "success returns the unwrapped record itself and no field of it is stored to", "the decoded record is changed between unwrapping and return (at "+c.pos(modified)+") or something else is returned: the value no longer matches what was signed and encoded")
	}
	c.Floor(rule, 2)
}

// ipldOptional: per struct of an IPLD schema, the fields declared optional or nullable.
func ipldOptional(src string) map[string]map[string]bool {
	out := map[string]map[string]bool{}
	cur := ""
	for _, line := range strings.Split(src, "\n") {
		t := strings.TrimSpace(line)
		if i := strings.Index(t, "#"); i >= 0 {
			t = strings.TrimSpace(t[:i])
		}
		if t == "" {
			continue
		}
		f := strings.Fields(t)
		switch {
		case cur == "" && len(f) >= 3 && f[0] == "type" && f[2] == "struct":
			cur = f[1]
			out[cur] = map[string]bool{}
		case cur != "" && strings.HasPrefix(t, "}"):
			cur = ""
		case cur != "":
			for _, w := range f[1:] {
				if w == "optional" || w == "nullable" {
					out[cur][f[0]] = true
				}
			}
		}
	}
	return out
}

// structsMirrorSchemaOrder: the Go structs of the named package list their fields in the order of the IPLD schema
// they are bound to (bindnode binds by position: two same-typed fields exchanged in the Go struct are exchanged on
// the wire, and a signature then travels under the wrong key). Shared by C05 (what is signed is what is sent).
func structsMirrorSchemaOrder(c *Ctx, rule, rel string, names ...string) {
	p := c.pkg(rel)
	if p == nil {
		c.Unk(rule, rel, token.NoPos, "package not found")
		return
	}
	files, _ := filepath.Glob(filepath.Join(c.Repo, rel, "*.ipldsch"))
	sch := map[string][]string{}
	for _, sf := range files {
		if data, err := os.ReadFile(sf); err == nil {
			for n, fs := range ipldStructs(string(data)) {
				sch[n] = fs
			}
		}
	}
	for _, name := range names {
		tn, ok := p.Types.Scope().Lookup(name).(*types.TypeName)
		fields, inSch := sch[name]
		if !ok || !inSch {
			c.Unk(rule, rel+"."+name, token.NoPos, "struct or schema type not found")
			continue
		}
		st, ok := tn.Type().Underlying().(*types.Struct)
		if !ok {
			c.Unk(rule, rel+"."+name, tn.Pos(), "not a struct")
			continue
		}
		var goNames []string
		for i := 0; i < st.NumFields(); i++ {
			goNames = append(goNames, st.Field(i).Name())
		}
		same := len(goNames) == len(fields)
		for i := range fields {
			if same && !strings.EqualFold(goNames[i], fields[i]) {
				same = false
			}
		}
		c.Check(same, rule, rel+"."+name, tn.Pos(), "Go fields ["+strings.Join(goNames, " ")+"] are the schema's, in the schema's order", "the Go struct's fields ["+strings.Join(goNames, " ")+"] are not the schema's ["+strings.Join(fields, " ")+"] in the same order: bindnode encodes by position, so fields (a signature and the metadata it covers, say) are exchanged on the wire")
	}
}
