package main

import (
	"go/token"
	"strings"

	"golang.org/x/tools/go/ssa"
)

func init() {
	register(&propSpec{
		id:  "C17",
		run: runC17,
		explanation: "Structural necessary conditions of 'find results expand extended providers per the IPNI rules, for any record', decided on SSA of package pcache: " +
			"(G1) every index into a metadata list by provider index is dominated by index < len(that list) (two unguarded sites on the pinned tree; fixed in 8ff26af); " +
			"(G2) sibling agreement of the context-level and chain-level loops: both skip an entry exactly when it is the main provider's and its metadata is empty or equal to the looked-up one, both substitute the looked-up metadata exactly when the entry's metadata is empty (absent or zero length), both copy the loop element as provider and use the requested context ID; " +
			"(G3) order: the provider's own result is appended first with the looked-up metadata; the context-level loop precedes the override return, which is taken exactly when the matching context sets override; the chain-level loop comes last; " +
			"(G4) the per-context index is built from one record element at a time — ID, override flag, providers and metadata lists together — for every contextual element without filtering. " +
			"Equality with an independent specification on all records is not decided.",
		assumptions: []string{"bytes.Equal semantics"},
	})
}

type epLoop struct {
	name          string
	app           ssa.Instruction
	skip, subst   string
	provOK, ctxOK bool
	boundOK       bool
	hasIndex      bool
	indexPos      token.Pos
}

func runC17(c *Ctx) {
	c.Trust("go/ssa")
	// the record expanded is the record the indexer sent: its extended-provider parts are read under the keys they are written under
	wireNamesAsReference(c, "C17.G5-wire-names", "find/model.ProviderInfo", "find/model.ExtendedProviders", "find/model.ContextualExtendedProviders")
	c.Floor("C17.G5-wire-names", 3)
	f := c.Func(pcachePkg, "ProviderCache.GetResults")
	if f == nil {
		c.Unk("C17.G1-index-bounded", "pcache.(*ProviderCache).GetResults", token.NoPos, "not found")
		return
	}
	fn := f.SSA
	pidP, ctxP, mdP := fn.Params[2], fn.Params[3], fn.Params[4]
	md := Op("param", mdP.Name())
	var main ssa.Instruction
	var loops []*epLoop
	for _, cs := range c.Calls(fn, Op("builtin", "append")) {
		elems := variadicElems(c, cs.X.Args[1])
		if len(elems) != 1 {
			continue
		}
		fs := c.CellFields(elems[0])
		if fs["Provider"] == nil || fs["Metadata"] == nil {
			continue
		}
		inLoop := ReachableFromSucc(cs.In.Block(), cs.In.Block())
		if !inLoop {
			main = cs.In
			_, mOK := Match(md, fs["Metadata"])
			_, cOK := Match(Op("param", ctxP.Name()), fs["ContextID"])
			_, pOK := Match(Field("AddrInfo", Field("provider", Any())), fs["Provider"])
			c.Check(mOK && cOK && pOK, "C17.G3-order", f.Name+" › main result", cs.In.Pos(), "first result: the provider itself with the requested context ID and the looked-up metadata", "the provider's own result is not (its AddrInfo, requested context ID, looked-up metadata)")
			continue
		}
		lp := &epLoop{app: cs.In}
		// metadata: phi(X, metadata) with the metadata edge under len(X) == 0
		mv := fs["Metadata"]
		var xmd *X
		if ph, ok := mv.V.(*ssa.Phi); ok && len(ph.Edges) == 2 {
			for i, e := range ph.Edges {
				ex := c.E(e)
				if ex.V == ssa.Value(mdP) {
					pred := ph.Block().Preds[i]
					other := c.E(ph.Edges[1-i])
					xmd = other
					for _, fct := range append(c.FactsAt(pred), edgeFact(c, pred, ph.Block())...) {
						switch {
						case matchIs(Bin("==", Op("builtin", "len", Is(other)), Const("0")), fct.Cond) && fct.Val:
							lp.subst = "len(xmd) == 0"
						case matchIs(EqNil(Is(other)), fct.Cond) && fct.Val:
							lp.subst = "xmd == nil"
						}
					}
				}
			}
		}
		if xmd == nil {
			c.Bad("C17.G2-loops-agree", f.Name+" › extended provider result", cs.In.Pos(), "metadata of an extended-provider result is not (own metadata, else the looked-up metadata): "+abbreviate(mv.String()))
			continue
		}
		// X = phi(nil, index(MD, i)) : the index must be bounded
		var srcs []*X
		flatten(xmd, &srcs, 0)
		var mdList, idx *X
		for _, s := range srcs {
			if s.Op == "index" {
				mdList, idx = s.Args[0], s.Args[1]
				lp.hasIndex = true
				if ia, ok := s.V.(ssa.Instruction); ok {
					lp.indexPos = ia.Pos()
					blk := ia.Block()
					if u, isLoad := s.V.(*ssa.UnOp); isLoad {
						if iaddr, ok := u.X.(*ssa.IndexAddr); ok {
							blk = iaddr.Block()
							lp.indexPos = iaddr.Pos()
						}
					}
					_, lp.boundOK = c.GuardedB(blk, Op("binop", "<", Is(idx), Op("builtin", "len", Is(mdList))), true)
				}
			}
		}
		// the entry's metadata is that of THIS iteration: nil or metadatas[i], never a value carried round the loop
		carried := loopCarried(xmd, 0)
		c.Check(!carried, "C17.G2-loops-agree", f.Name+" › entry metadata is per iteration", cs.In.Pos(), "the metadata paired with providers[i] is nil or metadatas[i]", "the metadata paired with an extended provider is carried over from the previous iteration when its own is missing: providers beyond the end of a shorter metadata list inherit another provider's metadata instead of the looked-up one")
		// provider: copy of PROV[i] with the same index; lists are siblings
		pv := fs["Provider"]
		var provElem *X
		if al, ok := pv.V.(*ssa.Alloc); ok {
			stores, _ := c.xb.storesTo(al, map[ssa.Value]bool{})
			if len(stores) == 1 {
				provElem = c.E(stores[0].Val)
			}
		}
		if provElem != nil && provElem.Op == "index" && idx != nil {
			lp.provOK = Same(provElem.Args[1], idx)
			pl := provElem.Args[0]
			if mdList != nil && pl.Op == "field" && mdList.Op == "field" {
				lp.provOK = lp.provOK && Same(pl.Args[0], mdList.Args[0]) && strings.EqualFold(pl.Name, "providers") && strings.EqualFold(mdList.Name, "metadatas")
			}
			if strings.Contains(pl.String(), "ctxExtended") {
				lp.name = "context-level"
			} else {
				lp.name = "chain-level"
			}
		}
		_, lp.ctxOK = Match(Op("param", ctxP.Name()), fs["ContextID"])
		// skip condition: back edges of this loop that bypass the append
		var head *ssa.BasicBlock
		for d := cs.In.Block(); d != nil; d = d.Idom() {
			for _, p := range d.Preds {
				if d.Dominates(p) && ReachableFrom(cs.In.Block())[p] {
					head = d
				}
			}
			if head != nil {
				break
			}
		}
		if head != nil && provElem != nil {
			var conds []string
			for _, p := range head.Preds {
				if !head.Dominates(p) || p == cs.In.Block() || cs.In.Block().Dominates(p) {
					continue
				}
				var parts []string
				for _, fct := range append(c.FactsAt(p), edgeFact(c, p, head)...) {
					switch {
					case matchIs(Bin("==", Field("ID", Is(provElem)), Op("param", pidP.Name())), fct.Cond) && fct.Val:
						parts = append(parts, "isMain")
					case matchIs(Bin("==", Op("builtin", "len", Is(xmd)), Const("0")), fct.Cond) && fct.Val:
						parts = append(parts, "len(xmd)==0")
					case matchIs(Bin("==", Op("builtin", "len", Is(xmd)), Const("0")), fct.Cond) && !fct.Val:
						// falls through to the Equal test
					case matchIs(Call("bytes.Equal", Is(xmd), md), fct.Cond) && fct.Val:
						parts = append(parts, "equal(xmd,md)")
					case matchIs(EqNil(Is(xmd)), fct.Cond) && fct.Val:
						parts = append(parts, "xmd==nil")
					}
				}
				sortStrings(parts)
				conds = append(conds, strings.Join(parts, "&&"))
			}
			sortStrings(conds)
			lp.skip = strings.Join(conds, " || ")
		}
		loops = append(loops, lp)
	}
	// ---- G1 ---------------------------------------------------------------------------------
	for _, lp := range loops {
		if lp.hasIndex {
			c.Check(lp.boundOK, "C17.G1-index-bounded", f.Name+" › "+lp.name+" metadata[i]", lp.indexPos, "metadata list indexed only on the i < len(list) edge", "metadata list indexed by the provider index without a bounds test: provider and metadata lists of different lengths panic")
		}
	}
	// any other index into a Metadatas/metadatas list in the function
	instrs(fn, func(in ssa.Instruction) {
		ia, ok := in.(*ssa.IndexAddr)
		if !ok {
			return
		}
		x := c.E(ia.X)
		if x.Op != "field" || !strings.EqualFold(x.Name, "metadatas") {
			return
		}
		_, g := c.Guarded(ia, Op("binop", "<", Is(c.E(ia.Index)), Op("builtin", "len", Is(x))), true)
		if !g {
			c.Bad("C17.G1-index-bounded", f.Name+" › index "+abbreviate(x.String()), ia.Pos(), "metadata list indexed without a dominating bounds test")
		}
	})
	c.Floor("C17.G1-index-bounded", 2)

	// ---- G2 ----------------------------------------------------------------------------------
	if len(loops) != 2 {
		c.Bad("C17.G2-loops-agree", f.Name+" › two expansion loops", fn.Pos(), "expected a context-level and a chain-level expansion loop, found "+itoa(len(loops)))
	} else {
		a, b := loops[0], loops[1]
		c.Check(a.subst == b.subst && a.subst == "len(xmd) == 0", "C17.G2-loops-agree", f.Name+" › substitution rule", b.app.Pos(),
			"both levels substitute the looked-up metadata iff the entry's metadata has length 0 (absent or empty)", "the two levels substitute under different conditions ("+a.name+": "+a.subst+"; "+b.name+": "+b.subst+"): 'absent or empty' is not treated alike")
		wantSkip := "equal(xmd,md)&&isMain || isMain&&len(xmd)==0"
		c.Check(a.skip == b.skip && a.skip == wantSkip, "C17.G2-loops-agree", f.Name+" › skip rule", b.app.Pos(),
			"both levels skip exactly the main provider's entry with empty or identical metadata", "skip rule differs or is not 'main provider ∧ (empty ∨ identical metadata)': "+a.name+": ["+a.skip+"], "+b.name+": ["+b.skip+"]")
		for _, lp := range loops {
			c.Check(lp.provOK && lp.ctxOK, "C17.G2-loops-agree", f.Name+" › "+lp.name+" result fields", lp.app.Pos(), "provider = copy of providers[i], metadata from the sibling list at the same i, requested context ID", "extended-provider result does not pair providers[i] with metadatas[i] of the same record under the requested context ID")
		}
	}
	c.Floor("C17.G2-loops-agree", 6)
	// ---- G5 a record is expanded from its own fields: the sources decode every record into fresh memory ---------
	sourcesDecodeFresh(c, "C17.G5-records-decoded-fresh")
	c.Floor("C17.G5-records-decoded-fresh", 2)
	// ---- G6 the expansion is delivered as computed: the reader-privacy client sends every element GetResults
	// returned, in order, without a filter of its own
	if fa := c.Func("find/client", "DHashClient.FindAsync"); fa != nil {
		nS := 0
		for _, ss := range c.SendSites("find/client") {
			if topFunc(ss.Fn) != fa.SSA {
				continue
			}
			v := strip(ss.Val)
			if v.Op != "index" {
				continue
			}
			if _, m := Match(Extract("0", Call("pcache.ProviderCache).GetResults")), v.Args[0]); !m {
				continue
			}
			nS++
			// facts established inside the loop body (other than the loop's own continuation test)
			var head *ssa.BasicBlock
			sb := ss.At.Block()
			for d := sb; d != nil && head == nil; d = d.Idom() {
				for _, p := range d.Preds {
					if d.Dominates(p) && ReachableFrom(sb)[p] {
						head = d
					}
				}
			}
			filtered := ""
			for _, fct := range c.FactsAt(sb) {
				if fct.If == nil || head == nil {
					continue
				}
				ib := fct.If.Block()
				if ib != head && head.Dominates(ib) {
					filtered = abbreviate(factString(fct))
				}
			}
			c.Check(filtered == "", "C17.G6-expansion-delivered-whole", fa.Name+" › send of each expanded result", ss.Pos, "every element of the expansion is sent, unconditionally", "elements of the expansion are sent only under a condition of the client's own ("+filtered+"): entries the expansion rules require (the main provider's entry with new metadata, an extended provider listed at both levels) are dropped")
		}
		if nS == 0 {
			c.Unk("C17.G6-expansion-delivered-whole", fa.Name, fa.SSA.Pos(), "no send of the elements of GetResults' result found")
		}
	}
	// … and the synchronous wrapper collects every result it receives: the append of the received value is not
	// under a condition of its own inside the receive loop
	if fs := c.Func("find/client", "DHashClient.Find"); fs != nil {
		nApp := 0
		for _, cs := range c.Calls(fs.SSA, Op("builtin", "append")) {
			if cs.Fn != fs.SSA {
				continue
			}
			elems := variadicElems(c, cs.X.Args[1])
			if len(elems) != 1 {
				continue
			}
			recvd := elems[0].Find(func(y *X) bool { return y.Op == "recv" || y.Op == "next" || y.Op == "range" }) != nil
			if !recvd {
				if _, isNext := strip(elems[0]).V.(*ssa.Extract); !isNext {
					continue
				}
			}
			ab := cs.In.Block()
			var head *ssa.BasicBlock
			for d := ab; d != nil && head == nil; d = d.Idom() {
				for _, p := range d.Preds {
					if d.Dominates(p) && ReachableFrom(ab)[p] {
						head = d
					}
				}
			}
			if head == nil {
				continue
			}
			nApp++
			filtered := ""
			for _, fct := range c.FactsAt(ab) {
				if fct.If == nil {
					continue
				}
				ib := fct.If.Block()
				if ib != head && head.Dominates(ib) {
					filtered = abbreviate(factString(fct))
				}
			}
			c.Check(filtered == "", "C17.G6-expansion-delivered-whole", fs.Name+" › collects every received result", cs.In.Pos(), "every result received from the asynchronous lookup is appended, unconditionally", "received results are collected only under a condition of the client's own ("+filtered+"): entries the expansion rules require (an extended provider listed at both levels, the main provider's entry with new metadata) are dropped")
		}
		if nApp == 0 {
			c.Unk("C17.G6-expansion-delivered-whole", fs.Name, fs.SSA.Pos(), "no append of a received result inside a receive loop found")
		}
	}
	c.Floor("C17.G6-expansion-delivered-whole", 2)

	// ---- G3 ordering ----------------------------------------------------------------------------
	var ctxLoop, chainLoop *epLoop
	for _, lp := range loops {
		if lp.name == "context-level" {
			ctxLoop = lp
		}
		if lp.name == "chain-level" {
			chainLoop = lp
		}
	}
	var ovRet ssa.Instruction
	for _, b := range fn.Blocks {
		if ret, ok := b.Instrs[len(b.Instrs)-1].(*ssa.Return); ok {
			for _, fct := range c.FactsAt(b) {
				if ph, isPhi := fct.Cond.V.(*ssa.Phi); isPhi && fct.Val && ph.Comment == "override" {
					ovRet = ret
					okSrc := false
					for _, e := range ph.Edges {
						if x := c.E(e); x.Op == "field" && x.Name == "override" {
							okSrc = true
						}
					}
					c.Check(okSrc, "C17.G3-order", f.Name+" › override comes from the matching context", ret.Pos(), "the override return is controlled by the matched context's override flag", "override return not controlled by the matched context's flag")
				}
			}
		}
	}
	okOrder := main != nil && ctxLoop != nil && chainLoop != nil && ovRet != nil &&
		orderedBefore(main, ctxLoop.app) && orderedBefore(ctxLoop.app, ovRet) && orderedBefore(main, chainLoop.app) && !MayFollow(ovRet, chainLoop.app) && !MayFollow(chainLoop.app, ctxLoop.app)
	if okOrder {
		// the chain loop is entered only on the override == false edge
		okOrder = false
		for _, fct := range c.FactsAt(chainLoop.app.Block()) {
			if ph, isPhi := fct.Cond.V.(*ssa.Phi); isPhi && !fct.Val && ph.Comment == "override" {
				okOrder = true
			}
		}
	}
	if !okOrder && main != nil && ctxLoop != nil && chainLoop != nil {
		// the same, without a flag variable: a branch on the matched context's override field whose true side
		// returns without reaching the chain-level loop, and which every path from 'context found' to the
		// chain-level loop passes
		isOv := func(x *X) bool {
			x = strip(x)
			return x != nil && x.Op == "field" && x.Name == "override" && fieldOwner(x) == "ctxExtendedInfo"
		}
		var ovIf *ssa.If
		var ovTrue *ssa.BasicBlock
		var found *ssa.BasicBlock
		for _, b := range fn.Blocks {
			iff, ok := b.Instrs[len(b.Instrs)-1].(*ssa.If)
			if !ok {
				continue
			}
			cx, v := normFact(c.E(iff.Cond), true)
			if isOv(cx) {
				ovIf = iff
				ovTrue = b.Succs[0]
				if !v {
					ovTrue = b.Succs[1]
				}
			}
			if _, m := Match(Extract("1", Op("lookup", "", Field("ctxExtended", Any()))), cx); m {
				found = b.Succs[0]
				if !v {
					found = b.Succs[1]
				}
			}
		}
		if ovIf != nil && found != nil {
			chainB := chainLoop.app.Block()
			returnsOnly := !ReachableFrom(ovTrue)[chainB]
			// reachability from 'found' to the chain loop with the override branch removed
			seen := map[*ssa.BasicBlock]bool{ovIf.Block(): true}
			var rec func(b *ssa.BasicBlock)
			rec = func(b *ssa.BasicBlock) {
				if seen[b] {
					return
				}
				seen[b] = true
				for _, s := range b.Succs {
					rec(s)
				}
			}
			rec(found)
			okOrder = returnsOnly && !seen[chainB] && found != ovIf.Block() &&
				orderedBefore(main, ctxLoop.app) && orderedBefore(main, chainLoop.app) && !MayFollow(chainLoop.app, ctxLoop.app) &&
				!ReachableFrom(ovTrue)[ctxLoop.app.Block()] && ReachableFrom(ctxLoop.app.Block())[ovIf.Block()]
			if okOrder {
				c.OK("C17.G3-order", f.Name+" › override comes from the matching context", ovIf.Pos(), "the override return is controlled by the matched context's override flag")
			}
		}
	}
	c.Check(okOrder, "C17.G3-order", f.Name+" › main ≺ context-level ≺ override return ≺ chain-level", fn.Pos(), "results are appended in the specified order and chain-level entries only without override", "expansion order broken (main, context-level, [override ⇒ stop], chain-level)")
	c.Floor("C17.G3-order", 3)

	// ---- G4 per-context index ----------------------------------------------------------------------
	idxFn := c.RoleFn("pcache.index")
	if idxFn == nil {
		c.Unk("C17.G4-context-index", "pcache.apiToCacheInfo", token.NoPos, "not found")
	} else {
		n := 0
		instrs(idxFn.SSA, func(in ssa.Instruction) {
			mu, ok := in.(*ssa.MapUpdate)
			if !ok {
				return
			}
			n++
			k, v := c.E(mu.Key), c.E(mu.Value)
			fs := c.CellFields(v)
			elem := (*X)(nil)
			if k.Op == "field" && k.Name == "ContextID" {
				elem = k.Args[0]
			}
			ok = elem != nil
			for _, pair := range [][2]string{{"override", "Override"}, {"providers", "Providers"}, {"metadatas", "Metadatas"}} {
				fv := fs[pair[0]]
				if fv == nil || fv.Op != "field" || fv.Name != pair[1] || elem == nil || !Same(fv.Args[0], elem) {
					ok = false
				}
			}
			c.Check(ok, "C17.G4-context-index", idxFn.Name+" › entry from one element", mu.Pos(), "index[elem.ContextID] = {elem.Override, elem.Providers, elem.Metadatas} of the same element", "per-context entry mixes fields of different elements or drops one")
			// unconditional in the range body
			blk := mu.Block()
			uncond := len(blk.Preds) == 1
			if uncond {
				head := blk.Preds[0]
				iff, isIf := head.Instrs[len(head.Instrs)-1].(*ssa.If)
				uncond = isIf && head.Succs[0] == blk
				if uncond {
					_, uncond = Match(Op("binop", "<", Any(), Op("builtin", "len", Field("Contextual", Any()))), c.E(iff.Cond))
				}
			}
			c.Check(uncond, "C17.G4-context-index", idxFn.Name+" › every contextual element indexed", mu.Pos(), "the entry is stored for every element of Contextual (no filter)", "some contextual elements are not indexed (filtered): their override flag or providers are lost")
		})
		c.Check(n == 1, "C17.G4-context-index", idxFn.Name+" › one index", idxFn.SSA.Pos(), "one map of context ID to entry", "expected one per-context map update")
	}
	c.Floor("C17.G4-context-index", 3)
	// the record expanded is the record the source sent: the provider sources hand on what they decoded, without
	// writing to it (an "empty" extended-providers object dropped on the fetch path loses the contextual entries it
	// carries: the same record then expands differently depending on how it entered the cache)
	{
		nSrc := 0
		for _, f := range c.Funcs(pcachePkg) {
			if f.SSA.Signature.Recv() == nil || (f.SSA.Name() != "Fetch" && f.SSA.Name() != "FetchAll") {
				continue
			}
			nSrc++
			bad := token.NoPos
			instrsDeep(f.SSA, func(_ *ssa.Function, in ssa.Instruction) {
				st, ok := in.(*ssa.Store)
				if !ok {
					return
				}
				a := c.E(st.Addr)
				if a.Op != "field" {
					return
				}
				switch fieldOwner(a) {
				case "ProviderInfo", "ExtendedProviders", "ContextualExtendedProviders":
					bad = st.Pos()
				}
			})
			c.Check(!bad.IsValid(), "C17.G5-source-record-as-fetched", f.Name+" › hands on what it decoded", f.SSA.Pos(), "no field of the fetched provider record is written by the source", "the source rewrites the record it fetched (at "+c.pos(bad)+"): extended providers the indexer sent are dropped or changed before the cache expands them")
		}
		c.Floor("C17.G5-source-record-as-fetched", 2)
	}
}

func matchIs(p P, x *X) bool {
	_, ok := Match(p, x)
	return ok
}

func sortStrings(s []string) {
	for i := 1; i < len(s); i++ {
		for j := i; j > 0 && s[j] < s[j-1]; j-- {
			s[j], s[j-1] = s[j-1], s[j]
		}
	}
}

// loopCarried: one of the alternatives of value y (through phis) is a value
// carried round a loop — a phi in a loop header.
func loopCarried(y *X, d int) bool {
	ph, ok := y.V.(*ssa.Phi)
	if !ok || y.Op != "phi" || d > 4 {
		return false
	}
	for _, p := range ph.Block().Preds {
		if ph.Block().Dominates(p) {
			return true
		}
	}
	for _, a := range y.Args {
		if loopCarried(a, d+1) {
			return true
		}
	}
	return false
}
