// Package multihash is a stand-in with the registration entry points of
// github.com/multiformats/go-multihash, used only by the positive example
// of rule C02.O8 (the checker's own module does not depend on the real one).
package multihash

import "hash"

func Register(code uint64, f func() hash.Hash)                        {}
func RegisterVariableSize(code uint64, f func(int) (hash.Hash, bool)) {}
