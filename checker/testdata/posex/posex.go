// Package posex holds tiny positive examples for rules whose expected
// number of matches in /repo is zero. It is analysed on every run; a rule
// that does not fire here would pass vacuously forever.
package posex

import (
	"context"
	"encoding/binary"
	"hash"
	"io"
	"net/http"
	"sync"
	"sync/atomic"

	multihash "ipnicheck/testdata/posex/go-multihash"
)

type readOnly struct {
	m map[string]*int
	u map[string]*int
}

type cache struct {
	read atomic.Pointer[readOnly]
}

// writePublishedUpdate writes into the update map of a loaded snapshot.
func (c *cache) writePublishedUpdate(k string, v *int) {
	r := c.read.Load()
	r.u[k] = v
}

// deleteFromPublished deletes from the main map of a loaded snapshot copy.
func (c *cache) deleteFromPublished(k string) {
	r := *c.read.Load()
	delete(r.m, k)
}

// fresh builds a new snapshot; writing the literal's own maps before
// publication is fine and must not be reported.
func (c *cache) fresh(k string, v *int) {
	u := make(map[string]*int)
	u[k] = v
	c.read.Store(&readOnly{u: u})
}

// registersHasher replaces a hash function in the (stand-in) process-wide registry.
func registersHasher() {
	multihash.Register(0x56, func() hash.Hash { return nil })
}

// latestSyncHandler mirrors the shape of the subscriber's latest-sync record;
// forget deletes an entry (rule C01.c-latest-sync-never-forgotten must see it).
type latestSyncHandler struct {
	m sync.Map
}

func (h *latestSyncHandler) forget(k string) {
	h.m.Delete(k)
}

// twoVarintsInOneScratch writes two varints one after the other into an array
// with room for one (positive example for C11.M2-varint-scratch-holds).
func twoVarintsInOneScratch(a, b uint64) []byte {
	var hdr [binary.MaxVarintLen64]byte
	n := binary.PutUvarint(hdr[:], a)
	n += binary.PutUvarint(hdr[n:], b)
	return hdr[:n]
}

// asksForGzipItself sets Accept-Encoding by hand: net/http then hands the
// compressed body to the caller (positive example for C12.D5 "body as sent").
func asksForGzipItself(req *http.Request) {
	req.Header.Set("Accept-Encoding", "gzip")
}

// readsPaddedVarint reads a length prefix with the standard library's reader,
// which accepts padded (non-minimal) encodings (positive example for C11
// "varints read strictly").
func readsPaddedVarint(r io.ByteReader) (uint64, error) {
	return binary.ReadUvarint(r)
}

// handsOutResponseOfCancelledRequest derives a context for the request and
// cancels it when it returns — before the caller has read the body (positive
// example for C19 "response body readable").
func handsOutResponseOfCancelledRequest(ctx context.Context, c *http.Client, req *http.Request) (*http.Response, error) {
	ctx, cancel := context.WithCancel(ctx)
	defer cancel()
	return c.Do(req.WithContext(ctx))
}
