package main

import (
	"go/types"
	"go/token"
	"strconv"
	"strings"

	"golang.org/x/tools/go/ssa"
)

func init() {
	register(&propSpec{
		id:  "C10",
		run: runC10,
		explanation: "Structural necessary conditions of 'announce messages survive encoding, and decoding is total', decided on SSA of announce/message and the senders: " +
			"(B1) every allocation in the CBOR decoder whose size comes from the input is dominated by a cap test on that same header value, and the decoder starts by resetting the receiver so that no field of an earlier message survives; " +
			"(B2) encoder and decoder agree on the field sequence and CBOR major types: CID, array of byte strings (addresses), byte string (extra data), optional text string (original peer); " +
			"(B3) arity: the encoder announces 3 fields iff the original peer is empty, else 4, and writes the fourth iff it is non-empty; the decoder accepts exactly 3..4 and reads the fourth iff 4 were announced; " +
			"(B4) per field the encoder's length cap does not exceed the decoder's, so everything that encodes decodes; " +
			"(B5) both HTTP send paths append the publisher ID to every address (through peer.AddrInfoToP2pAddrs with the sender's own ID over all of the message's addresses) before encoding the same message value, apply the same extra-data rule, and the pubsub sender CBOR-encodes the message it was given; " +
			"(B6, thorough) the substring GetAddrs matches to skip unknown protocols is the text go-multiaddr's decoder produces for an unknown code. " +
			"Round-trip equality as such, the JSON path (reflection) and panic-freedom of cbor-gen/go-cid are not decided.",
		assumptions: []string{"cbor-gen header/CID/string primitives are inverse to each other and bounded (ReadString caps at MaxLength)", "encoding/json round-trips the Message struct"},
	})
	needsDeps["C10"] = true
}

const msgPkg = "announce/message"

type cborField struct {
	path string // Cid, Addrs, Addrs[*], ExtraData, OrigPeer
	kind string // "cid" or CBOR major type number
	cap  int64  // -1 unknown/none
	pos  token.Pos
}

func fieldPath(x *X, recv string) string {
	x = strip(x)
	switch {
	case x.Op == "field" && strip(x.Args[0]).Op == "param":
		return x.Name
	case x.Op == "index":
		return fieldPath(x.Args[0], recv) + "[*]"
	case x.Op == "extract" && x.Name == "2" && x.Args[0].Op == "next":
		// value of `for _, v := range m.F`
		if r := x.Args[0].Args[0]; r.Op == "range" {
			return fieldPath(r.Args[0], recv) + "[*]"
		}
	case x.Op == "slice":
		return fieldPath(x.Args[0], recv)
	case x.Op == "builtin" && x.Name == "len":
		return fieldPath(x.Args[0], recv)
	}
	return "?"
}

func constInt(x *X) (int64, bool) {
	x = strip(x)
	if x.Op != "const" {
		return 0, false
	}
	n, err := strconv.ParseInt(x.Name, 10, 64)
	return n, err == nil
}

// capAt finds a dominating fact "(v > K) == false" for value v at block b.
func (c *Ctx) capAt(b *ssa.BasicBlock, v *X) (int64, bool) {
	for _, f := range c.FactsAt(b) {
		if f.Val {
			continue
		}
		if m, ok := Match(Op("binop", ">", Is(v), Bind("k")), f.Cond); ok && !narrowedCmp(f) {
			if k, ok := constInt(m["k"]); ok {
				return k, true
			}
		}
	}
	// the length comes from a header-reading helper that checks it before handing it back: the cap is the one on
	// the helper's own success return (its limit parameter read as the constant the call site passes)
	if val, facts, ok := c.viaLenHelper(v); ok {
		for _, f := range facts {
			if f.Val {
				continue
			}
			if m, ok := Match(Op("binop", ">", Is(val), Bind("k")), f.Cond); ok {
				// the comparison is on the unsigned length itself: converted to a signed integer first, a length of
				// 2^63 or more is negative and passes any limit
				if narrowedCmp(f) {
					continue
				}
				k := strip(m["k"])
				for k != nil && k.Op == "convert" && len(k.Args) == 1 {
					k = strip(k.Args[0])
				}
				if kv, ok := constInt(k); ok {
					return kv, true
				}
			}
		}
	}
	return -1, false
}

// viaLenHelper: v is result 0 of a helper of this module whose error result is tested; returns the value the helper's
// single success return hands back and the facts holding there (in the caller's terms).
func (c *Ctx) viaLenHelper(v *X) (*X, []Fact, bool) {
	h, idx := helperCall(v)
	if h == nil || idx != 0 {
		return nil, nil, false
	}
	var val *X
	var facts []Fact
	n := 0
	for _, a := range c.RetAlts(v) {
		if a.Ret == nil || len(a.Ret.Results) != 2 || c.RetX(a.Ret, 1).Op != "nil" {
			continue
		}
		n++
		val, facts = a.Val, a.Facts
	}
	if n != 1 {
		return nil, nil, false
	}
	return val, facts, true
}

func runC10(c *Ctx) {
	c.Trust("go/ssa", "cbor-gen primitives", "encoding/json")
	// the JSON form carries every field, empty or not (a decoder that reuses its target then overwrites all of them)
	wireNamesAsReference(c, "C10.B2-json-wire-names", "announce/message.Message")
	c.Floor("C10.B2-json-wire-names", 1)
	enc := c.Func(msgPkg, "Message.MarshalCBOR")
	dec := c.Func(msgPkg, "Message.UnmarshalCBOR")
	if enc == nil || dec == nil {
		c.Unk("C10.B2-field-sequence", "announce/message.(*Message).MarshalCBOR/UnmarshalCBOR", token.NoPos, "codec methods not found")
		return
	}
	recv := dec.SSA.Params[0].Name()

	// ---- decoder ---------------------------------------------------------------------------
	var dfs []cborField
	resetFirst := false
	// (the decoder may be split into unexported helpers: stores are taken in execution order through them, field
	// paths in the decoder's terms, caps and major-type tests from the function the allocation lies in)
	c.WalkInl(dec.SSA, 2, func(ev InlEvent) {
		in := ev.In
		b := in.Block()
		st, ok := in.(*ssa.Store)
		if !ok {
			return
		}
		a := subst(c.E(st.Addr), ev.Env)
		if ev.Fn == dec.SSA && (st.Addr == ssa.Value(dec.SSA.Params[0]) || (a.Op == "param" && a.Name == recv)) {
			if v := c.E(st.Val); v.Op == "const" && strings.HasPrefix(v.Name, "zero:") && b == dec.SSA.Blocks[0] {
				resetFirst = true
			}
			return
		}
		p := fieldPath(a, recv)
		if strings.Contains(p, "?") {
			return
		}
		v := c.E(st.Val)
		f := cborField{path: p, cap: -1, pos: st.Pos()}
		switch {
		case v.Op == "extract" && v.Args[0].Op == "call" && nameMatches(v.Args[0].Name, "cbor-gen.ReadCid"):
			f.kind = "cid"
		case v.Op == "extract" && v.Args[0].Op == "call" && nameMatches(v.Args[0].Name, "cbor-gen.ReadString"):
			f.kind = "3"
			f.cap = 8192 // cbg.MaxLength, enforced inside ReadString (validated in thorough tier)
		case v.Op == "makeslice":
			n := v.Args[0]
			k, ok := c.capAt(b, n)
			key := dec.Name + " › make " + p
			if !ok {
				c.Bad("C10.B1-bounded-alloc", key, st.Pos(), "allocation sized by the input value "+abbreviate(n.String())+" is not dominated by an upper-bound test on that value: a hostile length allocates without limit")
			} else {
				c.OK("C10.B1-bounded-alloc", key, st.Pos(), "allocation of "+p+" dominated by size <= "+itoa(int(k)))
			}
			f.cap = k
			f.kind = c10MajorFor(c, b, n)
		default:
			// the value comes from a reading helper: every non-nil value it can return is one buffer it allocates,
			// with the cap and the major-type test of that allocation
			var mk *ssa.MakeSlice
			okH := false
			if h, _ := helperCall(v); h != nil {
				okH = true
				for _, l := range c.LeavesF(v, nil) {
					lv := strip(l.Val)
					if lv == nil || lv.Op == "nil" {
						continue
					}
					m2, isMk := lv.V.(*ssa.MakeSlice)
					if !isMk || (mk != nil && mk != m2) {
						okH = false
						break
					}
					mk = m2
				}
			}
			if !okH || mk == nil {
				return
			}
			n := c.E(mk.Len)
			k, ok := c.capAt(mk.Block(), n)
			key := dec.Name + " › make " + p
			if !ok {
				c.Bad("C10.B1-bounded-alloc", key, mk.Pos(), "allocation sized by the input value "+abbreviate(n.String())+" is not dominated by an upper-bound test on that value: a hostile length allocates without limit")
			} else {
				c.OK("C10.B1-bounded-alloc", key, mk.Pos(), "allocation of "+p+" dominated by size <= "+itoa(int(k)))
			}
			f.cap = k
			f.kind = c10MajorFor(c, mk.Block(), n)
		}
		dfs = append(dfs, f)
	})
	c.Check(resetFirst, "C10.B1-bounded-alloc", dec.Name+" › receiver reset first", dec.SSA.Pos(), "decoder starts with *m = Message{}", "decoder does not reset the receiver: fields of a previously decoded message survive into one that lacks them")
	// any other MakeSlice in the decoder with a non-constant size
	c.WalkInl(dec.SSA, 2, func(ev InlEvent) {
		if mk, ok := ev.In.(*ssa.MakeSlice); ok {
			n := c.E(mk.Len)
			if _, isConst := constInt(n); isConst {
				return
			}
			if _, ok := c.capAt(mk.Block(), n); !ok {
				c.Bad("C10.B1-bounded-alloc", dec.Name+" › make (other)", mk.Pos(), "data-sized allocation without a dominating cap")
			}
		}
	})
	c.Floor("C10.B1-bounded-alloc", 4)
	// the buffers are filled completely: the decoder reads byte strings with io.ReadFull, never with a single Read
	// (which may return fewer bytes than asked for — what follows is then parsed from the middle of the string)
	nFull := 0
	c.WalkInl(dec.SSA, 2, func(ev InlEvent) {
		ci, ok := ev.In.(*ssa.Call)
		if !ok {
			return
		}
		x := c.CallX(ci)
		if x.Op == "call" && nameMatches(x.Name, "io.ReadFull") {
			nFull++
			c.OK("C10.B6-buffers-filled-whole", dec.Name+" › "+c.short(ev.Fn.String())+" › io.ReadFull", ci.Pos(), "byte string read to its full announced length")
		}
		if x.Op == "invoke" && nameMatches(x.Name, "io.Reader.Read") {
			c.Bad("C10.B6-buffers-filled-whole", dec.Name+" › "+c.short(ev.Fn.String())+" › Read", ci.Pos(), "a byte string is read with a single Read call: a reader that delivers the bytes in pieces leaves the buffer partly filled and the rest of the string is parsed as the next field")
		}
	})
	c.Floor("C10.B6-buffers-filled-whole", 1)
	// … and on the way out everything reaches the writer the encoder was given: it writes to that writer directly,
	// or, if it puts a buffering layer in between, flushes it before every successful return
	{
		var wraps []*ssa.Call
		instrs(enc.SSA, func(in ssa.Instruction) {
			if ci, ok := in.(*ssa.Call); ok {
				if x := c.CallX(ci); x.Op == "call" && (nameMatches(x.Name, "bufio.NewWriter") || nameMatches(x.Name, "bufio.NewWriterSize")) {
					wraps = append(wraps, ci)
				}
			}
		})
		if len(wraps) == 0 {
			c.OK("C10.B6-written-through", enc.Name+" › writes to the writer it is given", enc.SSA.Pos(), "no buffering layer between the encoder and its writer")
		}
		for _, wcall := range wraps {
			unflushed := token.NoPos
			for _, b := range enc.SSA.Blocks {
				ret, ok := b.Instrs[len(b.Instrs)-1].(*ssa.Return)
				if !ok || len(ret.Results) == 0 || !ReachableFrom(wcall.Block())[b] {
					continue
				}
				r := c.RetX(ret, len(ret.Results)-1)
				if _, isFlush := Match(AnyCall("bufio.Writer).Flush"), r); isFlush {
					continue
				}
				if r.Op != "nil" {
					continue // a failure: nothing promised about what was written
				}
				flushed := false
				instrs(enc.SSA, func(o ssa.Instruction) {
					if ci, ok := o.(*ssa.Call); ok && Precedes(o, ret) {
						if x := c.CallX(ci); nameMatches(x.Name, "bufio.Writer).Flush") {
							flushed = true
						}
					}
				})
				if !flushed {
					unflushed = ret.Pos()
				}
			}
			c.Check(!unflushed.IsValid(), "C10.B6-written-through", enc.Name+" › buffered writer flushed before success", wcall.Pos(), "every successful return follows a Flush of the buffering layer", "the encoder reports success at "+c.pos(unflushed)+" without flushing the buffering layer it put in front of its writer: the message (or its tail) never reaches a writer that does not buffer itself")
		}
		c.Floor("C10.B6-written-through", 1)
	}

	// ---- encoder ---------------------------------------------------------------------------------
	var efs []cborField
	c.WalkInl(enc.SSA, 2, func(ev InlEvent) {
		ci, ok := ev.In.(*ssa.Call)
		if !ok {
			return
		}
		x := subst(c.CallX(ci), ev.Env)
		switch {
		case nameMatches(x.Name, "cbor-gen.WriteCidBuf"):
			efs = append(efs, cborField{path: fieldPath(x.Args[2], recv), kind: "cid", cap: -1, pos: ci.Pos()})
		case nameMatches(x.Name, "cbor-gen.WriteMajorTypeHeaderBuf"):
			maj, _ := constInt(x.Args[2])
			ln := x.Args[3]
			f := cborField{path: fieldPath(ln, recv), kind: itoa(int(maj)), cap: -1, pos: ci.Pos()}
			// cap: dominating (len(X) > K) == false, in the function the header is written in
			for _, fct := range c.OuterFacts(ev) { // (also the tests made by the helpers on the way to the header write)
				if fct.Val {
					continue
				}
				if m, ok := Match(Op("binop", ">", Bind("l"), Bind("k")), fct.Cond); ok {
					if fieldPath(m["l"], recv) == f.path {
						if k, ok := constInt(m["k"]); ok {
							f.cap = k
						}
					}
				}
			}
			efs = append(efs, f)
		}
	})
	seq := func(fs []cborField) string {
		var s []string
		for _, f := range fs {
			s = append(s, f.path+":"+f.kind)
		}
		return strings.Join(s, " ")
	}
	want := "Cid:cid Addrs:4 Addrs[*]:2 ExtraData:2 OrigPeer:3"
	c.Check(seq(efs) == seq(dfs), "C10.B2-field-sequence", "MarshalCBOR ≍ UnmarshalCBOR › field sequence and major types", enc.SSA.Pos(),
		"both sides: "+seq(efs), "encoder and decoder disagree: encoder writes ["+seq(efs)+"], decoder reads ["+seq(dfs)+"]")
	c.Check(seq(efs) == want, "C10.B2-field-sequence", "MarshalCBOR › expected wire layout", enc.SSA.Pos(), "layout is "+want, "wire layout changed from "+want+" to "+seq(efs)+" (incompatible with deployed peers)")
	// the bytes written for each length-prefixed field are that field
	nw := 0
	for _, st := range c.CallsInl(enc.SSA, Or(Invoke("io.Writer.Write"), Call("io.WriteString")), 2) {
		cs := st.CallSite
		var data *X
		if cs.X.Op == "invoke" {
			data = cs.X.Args[1]
		} else {
			data = cs.X.Args[1]
		}
		p := fieldPath(data, recv)
		if p != "?" {
			nw++
		}
	}
	c.Check(nw == 3, "C10.B2-field-sequence", "MarshalCBOR › payload writes", enc.SSA.Pos(), "address elements, extra data and original peer are written after their headers", "expected 3 payload writes (address element, extra data, original peer), found "+itoa(nw))
	c.Floor("C10.B2-field-sequence", 3)

	// ---- B4 caps -------------------------------------------------------------------------------------
	if len(efs) == len(dfs) {
		for i := range efs {
			if efs[i].kind == "cid" {
				continue
			}
			key := "field " + efs[i].path + " › encoder cap <= decoder cap"
			switch {
			case efs[i].cap < 0:
				c.Bad("C10.B4-caps-agree", key, efs[i].pos, "encoder does not cap the length of "+efs[i].path+": it can emit messages the decoder rejects")
			case dfs[i].cap < 0:
				c.Bad("C10.B4-caps-agree", key, dfs[i].pos, "decoder does not cap "+dfs[i].path)
			default:
				c.Check(efs[i].cap <= dfs[i].cap, "C10.B4-caps-agree", key, efs[i].pos, "encoder cap "+itoa(int(efs[i].cap))+" <= decoder cap "+itoa(int(dfs[i].cap)),
					"encoder allows "+itoa(int(efs[i].cap))+" for "+efs[i].path+" but the decoder rejects above "+itoa(int(dfs[i].cap)))
				// and the other way round: what decodes must re-encode, and the decoder allocates no more than the field cap
				c.Check(dfs[i].cap <= efs[i].cap, "C10.B4-caps-agree", "field "+efs[i].path+" › decoder cap <= encoder cap", dfs[i].pos, "decoder cap "+itoa(int(dfs[i].cap))+" <= encoder cap "+itoa(int(efs[i].cap)),
					"decoder accepts (and allocates) up to "+itoa(int(dfs[i].cap))+" for "+efs[i].path+" but the encoder refuses above "+itoa(int(efs[i].cap))+": a decoded message does not re-encode")
			}
		}
	}
	c.Floor("C10.B4-caps-agree", 8)

	// ---- B3 arity ------------------------------------------------------------------------------------------
	c10Arity(c, enc, dec)
	// ---- B5 senders -----------------------------------------------------------------------------------------
	c10Senders(c)
	// ---- B6 unknown protocol text (thorough) -------------------------------------------------------------------
	c10UnknownProto(c)
}

// c10MajorFor: the major type required (fact "maj != K" false) for the header whose length value is n.
func c10MajorFor(c *Ctx, b *ssa.BasicBlock, n *X) string {
	n = strip(n)
	if n.Op != "extract" {
		return "?"
	}
	if val, facts, ok := c.viaLenHelper(n); ok {
		// the major type is tested inside the length-reading helper, against the constant the call site passes
		if vs := strip(val); vs != nil && vs.Op == "extract" && len(vs.Args) == 1 {
			for _, f := range facts {
				if m, ok := Match(Bin("==", Extract("0", Is(vs.Args[0])), Bind("k")), f.Cond); ok && f.Val {
					k := strip(m["k"])
					for k != nil && k.Op == "convert" && len(k.Args) == 1 {
						k = strip(k.Args[0])
					}
					if kv, ok := constInt(k); ok {
						return itoa(int(kv))
					}
				}
			}
		}
		return "?"
	}
	hdr := n.Args[0]
	for _, f := range c.FactsAt(b) {
		if m, ok := Match(Bin("==", Extract("0", Is(hdr)), Bind("k")), f.Cond); ok && f.Val {
			if k, ok := constInt(m["k"]); ok {
				return itoa(int(k))
			}
		}
	}
	return "?"
}

func c10Arity(c *Ctx, enc, dec *Fn) {
	// encoder: first Write's argument is a phi of {131} and {132} chosen by OrigPeer == ""
	okEnc := false
	for _, cs := range c.Calls(enc.SSA, Invoke("io.Writer.Write")) {
		d := strip(cs.X.Args[1])
		if d.Op != "phi" || len(d.Args) != 2 {
			continue
		}
		ph := d.V.(*ssa.Phi)
		vals := map[bool]string{}
		for i, e := range ph.Edges {
			s := strings.Join(sliceLitConsts(e), ",")
			_, empty := c.GuardedB(ph.Block().Preds[i], Bin("==", Field("OrigPeer", Any()), Const(`""`)), true)
			if s == "131" || s == "132" {
				vals[empty] = s
			}
		}
		okEnc = vals[true] == "131" && vals[false] == "132"
	}
	c.Check(okEnc, "C10.B3-arity", enc.Name+" › header announces 3 iff no original peer", enc.SSA.Pos(), "array header 0x83 when OrigPeer is empty, 0x84 otherwise", "array header does not announce (3 fields iff OrigPeer empty, else 4)")
	// encoder: text header written only when len(OrigPeer) != 0, and success return nil when == 0
	okBody := false
	// (the text-string header may be written through a header helper: the call is looked up through helpers, in the
	// encoder's terms, and placed at the instruction of the encoder it executes under)
	var origWrites []ssa.Instruction
	for _, st := range c.CallsInl(enc.SSA, Call("cbor-gen.WriteMajorTypeHeaderBuf", Any(), Any(), Const("3")), 2) {
		if st.Outer().Parent() != enc.SSA {
			continue
		}
		origWrites = append(origWrites, st.Outer())
		_, g := c.Guarded(st.Outer(), Bin("==", Op("builtin", "len", Field("OrigPeer", Any())), Const("0")), false)
		okBody = g
	}
	// every success return that skips the fourth field does so only because it is empty
	for _, b := range enc.SSA.Blocks {
		ret, ok := b.Instrs[len(b.Instrs)-1].(*ssa.Return)
		if !ok || c.RetX(ret, 0).Op != "nil" {
			continue
		}
		wroteOrig := false
		for _, w := range origWrites {
			if Precedes(w, ret) {
				wroteOrig = true
			}
		}
		if wroteOrig {
			continue
		}
		emptyOnly := c.PathsCarry(b, []Alt{{Bin("==", Op("builtin", "len", Field("OrigPeer", Any())), Const("0")), true}, {Bin("==", Field("OrigPeer", Any()), Const(`""`)), true}})
		if !emptyOnly {
			okBody = false
		}
	}
	c.Check(okBody, "C10.B3-arity", enc.Name+" › fourth field written iff non-empty", enc.SSA.Pos(), "original peer written only on the len(OrigPeer) != 0 edge", "fourth field written although the header announced three (or vice versa)")
	// decoder
	var top *X
	for _, cs := range c.Calls(dec.SSA, Call("cbor-gen.CborReadHeaderBuf")) {
		if cs.In.Block() == dec.SSA.Blocks[0] {
			top = c.E(cs.In.(*ssa.Call))
		}
	}
	if top == nil {
		c.Unk("C10.B3-arity", dec.Name+" › top-level header", dec.SSA.Pos(), "not found in the entry block")
		return
	}
	n := Extract("1", Is(top))
	var cidStore *ssa.Store
	var origStore *ssa.Store
	instrs(dec.SSA, func(in ssa.Instruction) {
		if st, ok := in.(*ssa.Store); ok {
			switch fieldPath(c.E(st.Addr), "") {
			case "Cid":
				cidStore = st
			case "OrigPeer":
				origStore = st
			}
		}
	})
	okDec := false
	if cidStore != nil {
		_, g1 := c.Guarded(cidStore, Op("binop", ">", n, Const("4")), false)
		_, g2 := c.Guarded(cidStore, Op("binop", "<", n, Const("3")), false)
		_, g3 := c.Guarded(cidStore, Bin("==", Extract("0", Is(top)), Const("4")), true)
		okDec = g1 && g2 && g3
	}
	c.Check(okDec, "C10.B3-arity", dec.Name+" › accepts an array of 3..4", dec.SSA.Pos(), "fields are read only for a CBOR array of 3 or 4 elements", "decoder does not restrict the top-level value to an array of 3..4 elements")
	okOrig := false
	if origStore != nil {
		// (the test itself, or a flag computed from it)
		_, okOrig = c.Guarded(origStore, Bin("==", n, Const("4")), true)
		for _, f := range c.FactsAt(origStore.Block()) {
			if okOrig {
				break
			}
			if ph, ok := f.Cond.V.(*ssa.Phi); ok && f.Val && len(ph.Edges) == 2 {
				for i, e := range ph.Edges {
					if cv, ok := e.(*ssa.Const); ok && cv.Value != nil && cv.Value.ExactString() == "true" {
						_, g := c.GuardedB(ph.Block().Preds[i], Bin("==", n, Const("4")), true)
						okOrig = g
					}
				}
			}
		}
	}
	c.Check(okOrig, "C10.B3-arity", dec.Name+" › fourth field read iff 4 announced", dec.SSA.Pos(), "original peer read only when the header announced 4 elements", "original peer read (or skipped) independently of the announced arity")
	c.Floor("C10.B3-arity", 4)
}

func c10Senders(c *Ctx) {
	const hs = "announce/httpsender"
	add := (*ssa.Function)(nil)
	for _, f := range c.Funcs(hs) {
		if len(c.Calls(f.SSA, Call("peer.AddrInfoToP2pAddrs"))) > 0 {
			add = f.SSA
		}
	}
	if add == nil {
		c.Bad("C10.B5-senders", "announce/httpsender › publisher ID appended", token.NoPos, "no function appends the publisher ID through peer.AddrInfoToP2pAddrs")
	} else {
		// SetAddrs(result of AddrInfoToP2pAddrs(&AddrInfo{ID: s.peerID, Addrs: msg.GetAddrs()}))
		cs := c.Calls(add, Call("peer.AddrInfoToP2pAddrs"))[0]
		ai := c.CellFields(cs.X.Args[0])
		_, idOK := Match(Field("peerID", Op("param", "")), ai["ID"])
		okAddrs := false
		if ai["Addrs"] != nil {
			_, okAddrs = Match(Extract("0", Call("message.Message).GetAddrs", Op("param", ""))), ai["Addrs"])
		}
		set := c.Calls(add, Call("message.Message).SetAddrs", Op("param", ""), Extract("0", Is(c.E(cs.In.(*ssa.Call))))))
		okSet := len(set) == 1
		// no element of the converted list is replaced before it is set
		instrs(add, func(in ssa.Instruction) {
			if st, ok := in.(*ssa.Store); ok {
				if a := c.E(st.Addr); a.Op == "index" {
					if _, m := Match(Extract("0", Is(c.E(cs.In.(*ssa.Call)))), a.Args[0]); m {
						okSet = false
					}
				}
			}
		})
		if okSet {
			_, okSet = c.Guarded(set[0].In, EqNil(Extract("1", Is(c.E(cs.In.(*ssa.Call))))), true)
		}
		c.Check(ai["ID"] != nil && idOK && okAddrs && okSet, "C10.B5-senders", c.short(add.String())+" › publisher ID on every address", cs.In.Pos(),
			"message addresses := AddrInfoToP2pAddrs({ID: sender's peer ID, Addrs: all of the message's addresses})", "the publisher ID is not appended to every address of the message (addresses filtered, other ID, or result not stored)")
		// an empty address list is the only early return
		for _, b := range add.Blocks {
			if ret, ok := b.Instrs[len(b.Instrs)-1].(*ssa.Return); ok && c.RetX(ret, 0).Op == "nil" && !Precedes(cs.In, ret) {
				_, g := c.GuardedB(b, Bin("==", Op("builtin", "len", Field("Addrs", Any())), Const("0")), true)
				c.Check(g, "C10.B5-senders", c.short(add.String())+" › early return only without addresses", ret.Pos(), "returns early only when the message has no addresses", "returns without appending the ID although the message has addresses")
			}
		}
	}
	// Send and SendJson: addID first on &msg, then encode the same msg
	type path struct {
		fn   string
		enc  P
		what string
	}
	var extraRule []string
	for _, pth := range []path{
		{"Sender.Send", Call("message.Message).MarshalCBOR"), "CBOR"},
		{"Sender.SendJson", Or(Call("encoding/json.Encoder).Encode"), Call("encoding/json.Marshal")), "JSON"},
	} {
		f := c.Func(hs, pth.fn)
		if f == nil {
			c.Unk("C10.B5-senders", "announce/httpsender."+pth.fn, token.NoPos, "not found")
			continue
		}
		var addOuter ssa.Instruction
		var addMsg *X
		var encCall *CallSite
		gated := true
		for _, st := range c.CallsInl(f.SSA, Any(), 2) {
			if st.In.Common().StaticCallee() != add || add == nil {
				continue
			}
			addOuter = st.Outer()
			addMsg = st.X.Args[1]
			// every helper on the way returns nil only when the inner call returned nil
			inner := st.In
			for i := len(st.Via) - 1; i >= 0; i-- {
				helper := inner.Parent()
				ierr := c.E(inner.(*ssa.Call))
				for _, b := range helper.Blocks {
					if ret, ok := b.Instrs[len(b.Instrs)-1].(*ssa.Return); ok && len(ret.Results) > 0 && c.RetX(ret, len(ret.Results)-1).Op == "nil" {
						if _, g := c.GuardedB(b, EqNil(Is(ierr)), true); !g {
							gated = false
						}
					}
				}
				inner = st.Via[i]
			}
		}
		for _, cs := range c.Calls(f.SSA, pth.enc) {
			cs := cs
			encCall = &cs
		}
		ok := addOuter != nil && encCall != nil && gated && Precedes(addOuter, encCall.In)
		if ok {
			_, ok = c.Guarded(encCall.In, EqNil(Is(c.E(addOuter.(*ssa.Call)))), true)
		}
		// same message variable
		if ok {
			m1 := addMsg
			var m2 *X
			if pth.what == "CBOR" {
				m2 = encCall.X.Args[0]
			} else if nameMatches(encCall.X.Name, "encoding/json.Marshal") {
				m2 = encCall.X.Args[0]
			} else {
				m2 = encCall.X.Args[1]
			}
			ok = (m1.V != nil && m1.V == m2.V) || (m1.Cell != nil && m1.Cell == m2.Cell) || Same(m1, m2) || (m2.Cell != nil && m1.V == ssa.Value(m2.Cell)) || (m1.Cell != nil && m2.V == ssa.Value(m1.Cell))
		}
		c.Check(ok, "C10.B5-senders", f.Name+" › ID appended, then the same message encoded as "+pth.what, f.SSA.Pos(), "the ID-appending routine succeeds on &msg before msg is encoded", "the message put on the wire is not the one the publisher ID was appended to (or encoding precedes it)")
		// extra-data rule (in the function or in a same-package helper it calls)
		rule := ""
		var scan func(g *ssa.Function, d int)
		scan = func(g *ssa.Function, d int) {
			instrs(g, func(in ssa.Instruction) {
				if st, ok := in.(*ssa.Store); ok {
					if a := c.E(st.Addr); a.Op == "field" && a.Name == "ExtraData" {
						v := c.E(st.Val)
						rule = v.String()
						for _, fct := range c.FactsAt(st.Block()) {
							if fct.Cond.Contains(func(y *X) bool { return y.Op == "field" && y.Name == "extraData" }) {
								rule += " if " + factString(fct)
							}
						}
					}
				}
				if ci, ok := in.(ssa.CallInstruction); ok && d > 0 {
					if sc := ci.Common().StaticCallee(); samePkgBody(g, sc) && sc.Parent() == nil {
						scan(sc, d-1)
					}
				}
			})
		}
		scan(f.SSA, 2)
		extraRule = append(extraRule, rule)
	}
	c.Check(len(extraRule) == 2 && extraRule[0] == extraRule[1] && extraRule[0] != "", "C10.B5-senders", "httpsender Send ≍ SendJson › extra data", token.NoPos, "both paths: "+strings.Join(extraRule[:1], ""), "CBOR and JSON send paths apply different extra-data rules: "+strings.Join(extraRule, " | "))
	// pubsub sender encodes the message it was given
	if f := c.Func("announce/p2psender", "Sender.Send"); f != nil {
		encs := c.Calls(f.SSA, Call("message.Message).MarshalCBOR"))
		ok := len(encs) == 1 && (encs[0].X.Args[0].Op == "param" || encs[0].X.Args[0].Cell != nil || isParamCell(c, encs[0].X.Args[0], f.SSA))
		pubs := c.Calls(f.SSA, Call("go-libp2p-pubsub.Topic).Publish"))
		okPub := false
		if ok && len(pubs) == 1 {
			_, okPub = Match(Call("bytes.Buffer).Bytes", Is(encs[0].X.Args[1])), pubs[0].X.Args[2])
			_, g := c.Guarded(pubs[0].In, EqNil(Is(c.Result(encs[0], 0))), true)
			okPub = okPub && g
		}
		c.Check(ok && okPub, "C10.B5-senders", f.Name+" › publishes the CBOR of its message", f.SSA.Pos(), "publishes exactly the buffer the given message was encoded into, on err == nil", "pubsub sender does not publish the CBOR encoding of the message it was given")
		// pubsub keeps the published slice: the buffer must belong to this call alone (a pooled or retained buffer is
		// overwritten by the next Send while the previous message is still in flight)
		if len(encs) == 1 {
			b := strip(encs[0].X.Args[1])
			fresh := freshBuffer(b)
			c.Check(fresh, "C10.B5-senders", f.Name+" › encode buffer owned by the call", encs[0].In.Pos(), "the message is encoded into a buffer created by this call", "the message is encoded into a buffer that outlives the call ("+abbreviate(b.String())+"): the published bytes are overwritten by a later Send, and the receiver decodes another message than the one sent")
		}
	}
	// the ingest client's direct HTTP announce is a sender too: the provider ID goes on every address, through the
	// same conversion, and the result is what is encoded
	if f := c.Func("ingest/client", "Client.Announce"); f != nil {
		conv := c.Calls(f.SSA, Call("peer.AddrInfoToP2pAddrs", Op("param", "")))
		okC := len(conv) == 1
		okSet, okUntouched := false, true
		if okC {
			res := Extract("0", Is(c.E(conv[0].In.(*ssa.Call))))
			okSet = len(c.Calls(f.SSA, Call("message.Message).SetAddrs", Any(), res))) == 1
			// no element of the converted list is replaced afterwards
			instrs(f.SSA, func(in ssa.Instruction) {
				if st, ok := in.(*ssa.Store); ok {
					if a := c.E(st.Addr); a.Op == "index" {
						if _, m := Match(res, a.Args[0]); m {
							okUntouched = false
						}
					}
				}
			})
		}
		c.Check(okC && okSet && okUntouched, "C10.B5-senders", f.Name+" › provider ID on every address", f.SSA.Pos(), "message addresses := AddrInfoToP2pAddrs(provider), unmodified", "the direct announce does not put AddrInfoToP2pAddrs(provider), unmodified, on the wire: some addresses go out without the publisher ID")
	} else {
		c.Unk("C10.B5-senders", "ingest/client.(*Client).Announce", token.NoPos, "not found")
	}
	// on the receiving side, what is delivered for a pubsub message is decoded from that message: the addresses of an
	// announcement are this message's (or none), never a value kept from the previous message
	if w := c16Watcher(c, "announce"); w != nil {
		nD := 0
		for _, cs := range c.Calls(w, c.RoleCall("announce.deliver")) {
			am := cs.X.Args[2]
			if am.Op != "complit" {
				continue
			}
			for _, fi := range am.Args {
				if fi.Name != "Addrs" || len(fi.Args) != 1 {
					continue
				}
				nD++
				c.Check(!loopCarried(fi.Args[0], 0), "C10.B7-receiver-decodes-this-message", c.short(w.String())+" › delivered addresses", cs.In.Pos(), "the addresses delivered are decoded from the message at hand (or absent)", "the addresses delivered can be a value carried over from the previous message (a message without addresses is delivered with the previous one's): the receiver does not decode what the sender put on the wire")
			}
		}
		if nD == 0 {
			c.Unk("C10.B7-receiver-decodes-this-message", c.short(w.String()), w.Pos(), "delivery of a decoded announcement not found")
		}
	}
	c.Floor("C10.B7-receiver-decodes-this-message", 1)
	c.Floor("C10.B5-senders", 7)
}

func c10UnknownProto(c *Ctx) {
	get := c.Func(msgPkg, "Message.GetAddrs")
	if get == nil {
		c.Unk("C10.B6-unknown-protocol-skipped", "announce/message.(*Message).GetAddrs", token.NoPos, "not found")
		return
	}
	var needle string
	for _, cs := range c.Calls(get.SSA, Call("strings.Contains")) {
		if k := strip(cs.X.Args[1]); k.Op == "const" {
			needle, _ = strconv.Unquote(k.Name)
			// on a match the loop continues; otherwise the error is returned
			c.OK("C10.B6-unknown-protocol-skipped", get.Name+" › skip rule", cs.In.Pos(), "addresses whose decode error contains "+k.Name+" are skipped")
		}
	}
	if needle == "" {
		c.Bad("C10.B6-unknown-protocol-skipped", get.Name+" › skip rule", get.SSA.Pos(), "GetAddrs no longer skips addresses with unknown protocols")
		return
	}
	if !c.AllDeps {
		c.Note("B6 cross-module text agreement is decided in the thorough tier (needs go-multiaddr source)")
		return
	}
	// thorough: some function reachable in go-multiaddr formats an error containing the needle
	found := false
	for path, sp := range c.SSAPkgs {
		if !strings.HasSuffix(path, "multiformats/go-multiaddr") || sp == nil {
			continue
		}
		for _, m := range sp.Members {
			fn, ok := m.(*ssa.Function)
			if !ok {
				continue
			}
			instrsDeep(fn, func(_ *ssa.Function, in ssa.Instruction) {
				if ci, ok := in.(ssa.CallInstruction); ok {
					for _, a := range ci.Common().Args {
						if cv, ok := a.(*ssa.Const); ok && cv.Value != nil && strings.Contains(cv.Value.ExactString(), needle) {
							found = true
						}
					}
				}
			})
		}
	}
	c.Check(found, "C10.B6-unknown-protocol-skipped", "go-multiaddr › error text for unknown codes", token.NoPos, "go-multiaddr formats an error containing the matched text", "the text GetAddrs matches is no longer produced by go-multiaddr: unknown protocols fail the whole message")
}

// sliceLitConsts returns the constants of a slice literal value ([]T{k0, k1, …}).
func sliceLitConsts(v ssa.Value) []string {
	sl, ok := v.(*ssa.Slice)
	if !ok {
		return nil
	}
	al, ok := sl.X.(*ssa.Alloc)
	if !ok {
		return nil
	}
	var out []string
	if refs := al.Referrers(); refs != nil {
		for _, r := range *refs {
			if ia, ok := r.(*ssa.IndexAddr); ok {
				if ir := ia.Referrers(); ir != nil {
					for _, u := range *ir {
						if st, ok := u.(*ssa.Store); ok {
							if cv, ok := st.Val.(*ssa.Const); ok && cv.Value != nil {
								out = append(out, cv.Value.ExactString())
							}
						}
					}
				}
			}
		}
	}
	return out
}

// isParamCell: x is the cell a parameter of fn was spilled to.
func isParamCell(c *Ctx, x *X, fn *ssa.Function) bool {
	al, ok := x.V.(*ssa.Alloc)
	if !ok {
		return false
	}
	stores, _ := c.xb.storesTo(al, map[ssa.Value]bool{})
	for _, st := range stores {
		for _, p := range fn.Params {
			if st.Val == ssa.Value(p) {
				return true
			}
		}
	}
	return false
}

// freshBuffer: the *bytes.Buffer is created by the function at hand (a local
// value, new(bytes.Buffer), or bytes.NewBuffer over memory not retained
// elsewhere) — not taken from a pool, a field or a global.
func freshBuffer(b *X) bool {
	b = strip(b)
	if b == nil {
		return false
	}
	switch {
	case b.Op == "call" && (nameMatches(b.Name, "bytes.NewBuffer") || nameMatches(b.Name, "bytes.NewBufferString")):
		if len(b.Args) != 1 {
			return false
		}
		a := strip(b.Args[0])
		// nil, a fresh allocation, or the result of a call (e.g. varint.ToUvarint): not a retained buffer
		return a.Op == "nil" || a.Op == "makeslice" || a.Op == "call" || a.Op == "const" || a.Op == "convert"
	case b.Op == "alloc" || b.Op == "complit" || b.Op == "var" || b.Op == "new":
		_, isAl := b.V.(*ssa.Alloc)
		return isAl || b.Cell != nil
	}
	return false
}

// narrowedCmp: the comparison behind fact f is made on an unsigned value converted to a signed type first (the
// expression trees elide conversions): a length of 2^63 or more is then negative and passes any upper limit.
func narrowedCmp(f Fact) bool {
	if f.If == nil {
		return false
	}
	bo, isBin := f.If.Cond.(*ssa.BinOp)
	if !isBin {
		return false
	}
	for _, opnd := range []ssa.Value{bo.X, bo.Y} {
		if cv, isConv := opnd.(*ssa.Convert); isConv {
			from, ok1 := cv.X.Type().Underlying().(*types.Basic)
			to, ok2 := cv.Type().Underlying().(*types.Basic)
			if ok1 && ok2 && from.Info()&types.IsUnsigned != 0 && to.Info()&types.IsInteger != 0 && to.Info()&types.IsUnsigned == 0 {
				if _, isConst := cv.X.(*ssa.Const); !isConst {
					return true
				}
			}
		}
	}
	return false
}
