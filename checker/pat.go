package main

import (
	"go/types"
	"strings"

	"golang.org/x/tools/go/ssa"
)

// Binds holds pattern variables.
type Binds map[string]*X

// P is a pattern over expressions.
type P func(x *X, b Binds) bool

// Any matches everything.
func Any() P { return func(*X, Binds) bool { return true } }

// Bind binds name to the expression, or requires Same() with an earlier binding.
func Bind(name string) P {
	return func(x *X, b Binds) bool {
		if old, ok := b[name]; ok {
			return Same(old, x)
		}
		b[name] = x
		return true
	}
}

// BindP binds name if p matches.
func BindP(name string, p P) P {
	return func(x *X, b Binds) bool {
		if !p(x, b) {
			return false
		}
		return Bind(name)(x, b)
	}
}

// Is requires Same() with a given expression.
func Is(y *X) P { return func(x *X, _ Binds) bool { return Same(x, y) } }

func nameMatches(have, want string) bool {
	if want == "" || have == want {
		return true
	}
	// Allow giving names without the full module path of dependencies:
	// "cid.Cid).Hash" matches "(github.com/ipfs/go-cid.Cid).Hash".
	if strings.HasSuffix(have, want) {
		if len(have) == len(want) {
			return true
		}
		c := have[len(have)-len(want)-1]
		return !(c >= 'a' && c <= 'z' || c >= 'A' && c <= 'Z' || c >= '0' && c <= '9' || c == '_')
	}
	return false
}

// Op matches an operator with the given name (suffix match at a separator)
// and argument patterns (a prefix of the arguments may be given).
func Op(op, name string, args ...P) P {
	return func(x *X, b Binds) bool {
		x = strip(x)
		if x == nil || x.Op != op || !nameMatches(x.Name, name) {
			return false
		}
		if len(args) > len(x.Args) {
			return false
		}
		for i, p := range args {
			if !p(x.Args[i], b) {
				return false
			}
		}
		return true
	}
}

// Call matches a static call (receiver, if any, is the first argument).
func Call(name string, args ...P) P { return Op("call", name, args...) }

// Invoke matches an interface method call (receiver first).
func Invoke(name string, args ...P) P { return Op("invoke", name, args...) }

// AnyCall matches static, interface or builtin calls by name.
func AnyCall(name string, args ...P) P {
	return Or(Op("call", name, args...), Op("invoke", name, args...), Op("builtin", name, args...))
}

// Field matches a field read/address.
func Field(name string, base P) P { return Op("field", name, base) }

// Extract matches result i of a tuple.
func Extract(i string, tuple P) P { return Op("extract", i, tuple) }

// Param matches a parameter by name.
func Param(name string) P { return Op("param", name) }

// Const matches a constant by exact literal.
func Const(lit string) P { return Op("const", lit) }

// Nil matches the nil constant.
func Nil() P { return Op("nil", "") }

// Or matches if any alternative matches (bindings of a failed alternative are rolled back).
func Or(ps ...P) P {
	return func(x *X, b Binds) bool {
		for _, p := range ps {
			saved := Binds{}
			for k, v := range b {
				saved[k] = v
			}
			if p(x, b) {
				return true
			}
			for k := range b {
				if _, ok := saved[k]; !ok {
					delete(b, k)
				}
			}
		}
		return false
	}
}

// Bin matches a binary operation, trying both operand orders for commutative ops.
func Bin(op string, l, r P) P {
	return func(x *X, b Binds) bool {
		x = strip(x)
		if x == nil || x.Op != "binop" || x.Name != op {
			return false
		}
		if Or(func(y *X, b Binds) bool { return l(y.Args[0], b) && r(y.Args[1], b) })(x, b) {
			return true
		}
		if op == "==" || op == "!=" || op == "+" || op == "*" || op == "&&" || op == "||" {
			return Or(func(y *X, b Binds) bool { return l(y.Args[1], b) && r(y.Args[0], b) })(x, b)
		}
		return false
	}
}

// Somewhere matches if p matches x or any sub-expression of x.
func Somewhere(p P) P {
	return func(x *X, b Binds) bool {
		return x.Find(func(y *X) bool { return Or(p)(y, b) }) != nil
	}
}

// ThroughPhi matches p against x, or against every edge of a phi.
func ThroughPhi(p P) P {
	var rec func(x *X, b Binds, d int) bool
	rec = func(x *X, b Binds, d int) bool {
		x = strip(x)
		if x != nil && x.Op == "phi" && d < 4 {
			for _, a := range x.Args {
				if a.Op == "cut" {
					continue
				}
				if !rec(a, b, d+1) {
					return false
				}
			}
			return true
		}
		return p(x, b)
	}
	return func(x *X, b Binds) bool { return rec(x, b, 0) }
}

// Match runs p on x with fresh bindings.
func Match(p P, x *X) (Binds, bool) {
	b := Binds{}
	ok := p(x, b)
	return b, ok
}

// CallLike matches a static call whose callee name contains every given fragment
// (for instantiated generic functions whose printed name carries type arguments).
func CallLike(frags []string, args ...P) P {
	return func(x *X, b Binds) bool {
		x = strip(x)
		if x == nil || x.Op != "call" {
			return false
		}
		for _, f := range frags {
			if !strings.Contains(x.Name, f) {
				return false
			}
		}
		if len(args) > len(x.Args) {
			return false
		}
		for i, p := range args {
			if !p(x.Args[i], b) {
				return false
			}
		}
		return true
	}
}

// FieldT matches a field read/address by the TYPE of the field (a fragment of
// its printed type) instead of its name — for unexported fields whose name a
// refactoring may change.
func FieldT(typeFrag string, base P) P {
	return func(x *X, b Binds) bool {
		x = strip(x)
		if x == nil || x.Op != "field" || len(x.Args) != 1 {
			return false
		}
		t := ""
		switch v := x.V.(type) {
		case *ssa.FieldAddr:
			t = deref(v.Type()).String()
		case *ssa.Field:
			t = v.Type().String()
		case *ssa.UnOp:
			t = v.Type().String()
		}
		if !strings.Contains(t, typeFrag) {
			return false
		}
		return base(x.Args[0], b)
	}
}

// ParamLike matches a parameter, or the local cell a parameter was spilled to
// (a by-value parameter whose address is taken or whose fields are assigned).
func ParamLike() P {
	return func(x *X, _ Binds) bool {
		x = strip(x)
		if x == nil {
			return false
		}
		if x.Op == "param" {
			return true
		}
		al := x.Cell
		if al == nil {
			al, _ = x.V.(*ssa.Alloc)
		}
		if al == nil || al.Parent() == nil {
			return false
		}
		for _, p := range al.Parent().Params {
			if p.Name() == al.Comment && types.Identical(p.Type(), deref(al.Type())) {
				// the spill: stored once from the parameter in the entry block
				for _, in := range al.Parent().Blocks[0].Instrs {
					if st, ok := in.(*ssa.Store); ok && st.Addr == ssa.Value(al) && st.Val == ssa.Value(p) {
						return true
					}
				}
			}
		}
		return false
	}
}

// ParamSlot matches what a function was handed by its caller: a parameter (or
// its spill cell), or a field of a parameter that is a parameter object.
func ParamSlot() P {
	base := Or(Op("param", ""), ParamLike())
	return Or(base, Field("", base))
}
