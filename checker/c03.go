package main

import (
	"path/filepath"
	"os"
	"go/ast"
	"go/token"
	"go/types"
	"sort"
	"strings"

	"golang.org/x/tools/go/ssa"
)

func init() {
	register(&propSpec{
		id:  "C03",
		run: runC03,
		explanation: "Structural necessary conditions of 'a chain head is accepted only when signed by the expected publisher', decided on SSA: " +
			"(V1) every success return of SignedHead.Validate is dominated by: signature and key non-empty, the key unmarshalled without error, Verify(payload, Sig) returned no error and true; the returned ID is IDFromPublicKey of that same key; " +
			"(V2) Sign and Validate build the same payload: the head CID's bytes followed by the topic iff it is non-empty, written to one buffer whose bytes are what is signed/verified (sibling agreement on the ordered, guarded write sequence); " +
			"(V3) the sync client's head query returns a CID only on the edges Validate err == nil and (expected ID empty or signer == expected ID), and the CID returned is the Head of the validated value; " +
			"(V4) on the subscriber path the expected ID cannot be empty and is not lost on the way: the address-cleaning entry test rejects an empty ID, both explicit entry points build the sync client from its result on the err == nil edge, and every function that transforms the peer info before it is stored in the sync client preserves its ID; " +
			"(V5) the publisher's head branch serves exactly the encoding of a head signed for the root it read under its lock, its topic and its key, and a new signed head is returned only when signing succeeded; " +
			"(V6) in the explicit sync, the traversal and the latest-synced update are dominated by the head query's err == nil edge. " +
			"Cryptographic soundness and the effect of every single-byte alteration are not decided.",
		assumptions: []string{"libp2p crypto Verify/Sign are sound", "peer.IDFromPublicKey is injective on keys"},
	})
}

const (
	headPkg     = "dagsync/ipnisync/head"
	ipnisyncPkg = "dagsync/ipnisync"
)

// BufWrite is one append to a byte buffer.
type BufWrite struct {
	Method string
	Arg    *X
	Guards []string
	In     ssa.Instruction
}

func (w BufWrite) String() string {
	s := w.Method + "(" + w.Arg.String() + ")"
	if len(w.Guards) > 0 {
		s += " if " + strings.Join(w.Guards, " && ")
	}
	return s
}

// bufferWrites lists, in program order, the appending method calls on the
// bytes.Buffer cell buf within fn, each with the branch facts that hold at it
// but not at the first write (i.e. the guards inside the payload assembly).
func (c *Ctx) bufferWrites(fn *ssa.Function, buf ssa.Value, env map[ssa.Value]*X) []BufWrite {
	var ws []BufWrite
	for _, b := range fn.DomPreorder() {
		for _, in := range b.Instrs {
			ci, ok := in.(*ssa.Call)
			if !ok {
				continue
			}
			x := c.CallX(ci)
			if x.Op != "call" || len(x.Args) < 2 || x.Args[0].V != buf {
				continue
			}
			m := ""
			for _, name := range []string{"Write", "WriteString", "WriteByte", "WriteRune"} {
				if nameMatches(x.Name, "bytes.Buffer)."+name) {
					m = name
				}
			}
			if m == "" {
				continue
			}
			ws = append(ws, BufWrite{Method: m, Arg: subst(x.Args[1], env), In: in})
		}
	}
	if len(ws) == 0 {
		return nil
	}
	sf := func(f Fact) string {
		g := f
		g.Cond = subst(f.Cond, env)
		return c.regFact(g)
	}
	base := map[string]bool{}
	for _, f := range c.FactsAt(ws[0].In.Block()) {
		base[sf(f)] = true
	}
	for i := range ws {
		for _, f := range c.FactsAt(ws[i].In.Block()) {
			if s := sf(f); !base[s] {
				ws[i].Guards = append(ws[i].Guards, s)
			}
		}
		sort.Strings(ws[i].Guards)
	}
	return ws
}

// topicStates evaluates a guard set over the three states of the optional
// topic (absent, empty, non-empty) and renders the set of states in which all
// guards hold; ok is false when a guard depends on anything else.
func (c *Ctx) topicStates(guards []string) (string, bool) {
	names := []string{"absent", "empty", "non-empty"}
	var in []string
	for st := 0; st < 3; st++ {
		if st == 1 {
			continue // appending an empty topic appends nothing: either way is the same payload
		}
		all := true
		for _, g := range guards {
			f, known := c.factOf[g]
			if !known {
				return "", false
			}
			v, ok := c.evalTopic(f.Cond, st, 0)
			if !ok || (v != "true" && v != "false") {
				return "", false
			}
			if (v == "true") != f.Val {
				all = false
			}
		}
		if all {
			in = append(in, names[st])
		}
	}
	return "topic ∈ {" + strings.Join(in, ", ") + "}", true
}

// evalTopic evaluates x in topic state st (0 absent, 1 empty, 2 non-empty) to one
// of nil, ptr, 0, pos, true, false.
func (c *Ctx) evalTopic(x *X, st int, depth int) (string, bool) {
	if x == nil || depth > 6 {
		return "", false
	}
	zp := func() (string, bool) {
		if st == 2 {
			return "pos", true
		}
		return "0", true
	}
	isTopic := func(y *X) bool {
		_, m := Match(Field("Topic", Any()), y)
		return m
	}
	switch x.Op {
	case "nil":
		return "nil", true
	case "const":
		switch x.Name {
		case "0", `""`:
			return "0", true
		case "true", "false":
			return x.Name, true
		}
		return "", false
	case "deref":
		if isTopic(x.Args[0]) {
			return zp()
		}
		return c.evalTopic(x.Args[0], st, depth+1)
	case "field":
		if isTopic(x) {
			if _, isAddr := x.V.(*ssa.FieldAddr); isAddr {
				return "", false // the address of the field, not its value
			}
			if x.V != nil {
				if b, ok := x.V.Type().Underlying().(*types.Basic); ok && b.Info()&types.IsString != 0 {
					return zp() // the expression tree elides the dereference: this node is the string *Topic
				}
			}
			if st == 0 {
				return "nil", true
			}
			return "ptr", true
		}
		return "", false
	case "builtin":
		if x.Name == "len" && len(x.Args) == 1 && isTopic(strip(x.Args[0])) {
			return zp()
		}
		return "", false
	case "not":
		v, ok := c.evalTopic(x.Args[0], st, depth+1)
		if !ok {
			return "", false
		}
		switch v {
		case "true":
			return "false", true
		case "false":
			return "true", true
		}
		return "", false
	case "binop":
		l, ok1 := c.evalTopic(x.Args[0], st, depth+1)
		r, ok2 := c.evalTopic(x.Args[1], st, depth+1)
		if !ok1 || !ok2 {
			return "", false
		}
		b := func(v bool) (string, bool) {
			if v {
				return "true", true
			}
			return "false", true
		}
		switch x.Name {
		case "==", "!=":
			if l == "pos" && r == "pos" {
				return "", false
			}
			return b((l == r) == (x.Name == "=="))
		case ">":
			if r == "0" && (l == "0" || l == "pos") {
				return b(l == "pos")
			}
		case "<":
			if l == "0" && (r == "0" || r == "pos") {
				return b(r == "pos")
			}
		case "&&":
			return b(l == "true" && r == "true")
		case "||":
			return b(l == "true" || r == "true")
		}
		return "", false
	case "phi":
		ph, _ := x.V.(*ssa.Phi)
		if ph == nil || len(ph.Edges) != len(x.Args) {
			return "", false
		}
		val := ""
		for i, a := range x.Args {
			pred := ph.Block().Preds[i]
			feasible := true
			for _, f := range append(c.FactsAt(pred), edgeFact(c, pred, ph.Block())...) {
				v, ok := c.evalTopic(subst(f.Cond, x.Env), st, depth+1)
				if ok && (v == "true" || v == "false") && (v == "true") != f.Val {
					feasible = false
				}
			}
			if !feasible {
				continue
			}
			v, ok := c.evalTopic(a, st, depth+1)
			if !ok {
				return "", false
			}
			if val != "" && val != v {
				return "", false
			}
			val = v
		}
		return val, val != ""
	}
	return "", false
}

func factString(f Fact) string {
	if f.Val {
		return f.Cond.String()
	}
	return "!" + f.Cond.String()
}

// payloadWrites resolves the bytes expression handed to Sign/Verify to the
// write sequence of the buffer it comes from.
func (c *Ctx) payloadWrites(fn *ssa.Function, data *X) ([]BufWrite, string) {
	return c.payloadWritesEnv(fn, data, nil)
}

func (c *Ctx) payloadWritesEnv(fn *ssa.Function, data *X, env map[ssa.Value]*X) ([]BufWrite, string) {
	seq, why, bad := c.assemble(fn, data, env, nil, 0)
	if seq == nil {
		if bad {
			why = "WRONG: " + why
		}
		return nil, why
	}
	if len(seq.ws) == 0 {
		return nil, "payload is empty"
	}
	// a piece is guarded by the facts holding where it is appended, less those holding where the first one is
	// (the facts common to all pieces: the pieces of alternative returns lie under different ones)
	base := map[string]bool{}
	for _, f := range seq.facts[0] {
		base[f] = true
	}
	for _, fs := range seq.facts[1:] {
		here := map[string]bool{}
		for _, f := range fs {
			here[f] = true
		}
		for f := range base {
			if !here[f] {
				delete(base, f)
			}
		}
	}
	out := make([]BufWrite, len(seq.ws))
	for i := range seq.ws {
		out[i] = seq.ws[i]
		out[i].Guards = nil
		seen := map[string]bool{}
		for _, f := range seq.facts[i] {
			if !base[f] && !seen[f] {
				seen[f] = true
				out[i].Guards = append(out[i].Guards, f)
			}
		}
		sort.Strings(out[i].Guards)
	}
	return out, ""
}

// payAlt is a payload as a sequence of pieces, each with the branch facts
// holding where it is appended.
type payAlt struct {
	ws    []BufWrite
	facts [][]string
}

func (c *Ctx) factStrings(b *ssa.BasicBlock, env map[ssa.Value]*X) []string {
	var out []string
	for _, f := range c.FactsAt(b) {
		g := f
		g.Cond = subst(f.Cond, env)
		out = append(out, c.regFact(g))
	}
	// a block entered from the arms of a short-circuit test (a || b) lies under no single test; what holds there
	// is the disjunction of the tests on its incoming edges. The same goes for every block it dominates.
	for d := b; d != nil; d = d.Idom() {
		if f, ok := c.orFact(d); ok {
			f.Cond = subst(f.Cond, env)
			out = append(out, c.regFact(f))
		}
	}
	return out
}

// orFact: the disjunction of the edge tests of a join whose predecessors all end in a test.
func (c *Ctx) orFact(b *ssa.BasicBlock) (Fact, bool) {
	if len(b.Preds) < 2 {
		return Fact{}, false
	}
	var or *X
	for _, p := range b.Preds {
		if b.Dominates(p) {
			return Fact{}, false // a loop head
		}
		ef := edgeFact(c, p, b)
		if len(ef) != 1 {
			return Fact{}, false
		}
		t := ef[0].Cond
		if !ef[0].Val {
			t = &X{Op: "not", Args: []*X{t}}
		}
		if or == nil {
			or = t
		} else {
			or = &X{Op: "binop", Name: "||", Args: []*X{or, t}}
		}
	}
	return Fact{Cond: or, Val: true}, true
}

func (c *Ctx) regFact(f Fact) string {
	s := factString(f)
	if c.factOf == nil {
		c.factOf = map[string]Fact{}
	}
	c.factOf[s] = f
	return s
}

func (a *payAlt) add(w BufWrite, facts []string) *payAlt {
	return &payAlt{ws: append(append([]BufWrite{}, a.ws...), w), facts: append(append([][]string{}, a.facts...), facts)}
}

func (a *payAlt) with(extra []string) *payAlt {
	if len(extra) == 0 {
		return a
	}
	out := &payAlt{ws: a.ws}
	for _, f := range a.facts {
		out.facts = append(out.facts, append(append([]string{}, f...), extra...))
	}
	return out
}

// joinAlts folds alternatives (the edges of a phi, the returns of a helper)
// into one sequence: their common prefix, each piece under the facts common
// to all alternatives, followed by each alternative's own tail under its own
// facts (the alternatives exclude one another, so at most one tail is there).
func joinAlts(alts []*payAlt) *payAlt {
	if len(alts) == 1 {
		return alts[0]
	}
	n := 0
	for {
		same := len(alts[0].ws) > n
		for _, a := range alts {
			if !same {
				break
			}
			if len(a.ws) <= n || a.ws[n].Arg.String() != alts[0].ws[n].Arg.String() || kindOf(a.ws[n].Method) != kindOf(alts[0].ws[n].Method) {
				same = false
			}
		}
		if !same {
			break
		}
		n++
	}
	out := &payAlt{}
	for i := 0; i < n; i++ {
		common := map[string]int{}
		for _, a := range alts {
			seen := map[string]bool{}
			for _, f := range a.facts[i] {
				if !seen[f] {
					seen[f] = true
					common[f]++
				}
			}
		}
		var fs []string
		for _, f := range alts[0].facts[i] {
			if common[f] == len(alts) {
				fs = append(fs, f)
				common[f] = 0
			}
		}
		out.ws = append(out.ws, alts[0].ws[i])
		out.facts = append(out.facts, fs)
	}
	for _, a := range alts {
		for i := n; i < len(a.ws); i++ {
			out.ws = append(out.ws, a.ws[i])
			out.facts = append(out.facts, a.facts[i])
		}
	}
	return out
}

// kindOf: whether a piece appends a run of bytes or a single byte.
func kindOf(method string) string {
	switch method {
	case "WriteByte", "byte":
		return "byte"
	case "WriteRune":
		return "rune"
	}
	return "bytes"
}

// assemble resolves a []byte expression to the ordered pieces it is made of.
// Recognised: the contents of a local bytes.Buffer, append chains (also round
// a loop), a make followed by copies at running offsets, a plain value (one
// piece), a choice between those (phi, or the returns of a helper of this
// package). extra are facts holding for the whole of it. bad reports that the
// assembly is understood and wrong (a copy over an earlier piece), as opposed
// to not understood.
func (c *Ctx) assemble(fn *ssa.Function, data *X, env map[ssa.Value]*X, extra []string, depth int) (seq *payAlt, why string, bad bool) {
	if depth > 12 {
		return nil, "payload assembly nested too deeply: " + data.String(), false
	}
	if b, ok := Match(Call("bytes.Buffer).Bytes", Bind("buf")), data); ok {
		buf := b["buf"]
		if _, isAlloc := buf.V.(*ssa.Alloc); !isAlloc {
			return nil, "payload buffer is not a local of this function: " + buf.String(), false
		}
		ws := c.bufferWrites(fn, buf.V, env)
		if len(ws) == 0 {
			return nil, "no writes to the payload buffer found", false
		}
		a := &payAlt{ws: ws}
		for _, w := range ws {
			a.facts = append(a.facts, c.factStrings(w.In.Block(), env))
		}
		return a.with(extra), "", false
	}
	d := strip(data)
	if d.Op == "extract" {
		if t := strip(d.Args[0]); t.Op == "call" {
			d = t
		}
	}
	switch d.Op {
	case "phi":
		ph, _ := d.V.(*ssa.Phi)
		if ph == nil {
			break
		}
		// edges that come back round a loop: append(… append(this phi, x) …, y)
		type loopPiece struct {
			w  BufWrite
			fs []string
		}
		var loops []loopPiece
		var alts []*payAlt
		for i, e := range ph.Edges {
			var chain []loopPiece
			v := e
			isLoop := false
			for k := 0; k < 16; k++ {
				if v == ssa.Value(ph) {
					isLoop = true
					break
				}
				call, ok := v.(*ssa.Call)
				if !ok {
					break
				}
				bi, ok := call.Call.Value.(*ssa.Builtin)
				if !ok || bi.Name() != "append" || len(call.Call.Args) != 2 {
					break
				}
				chain = append([]loopPiece{{c.appendPiece(call, env), c.factStrings(call.Block(), env)}}, chain...)
				v = call.Call.Args[0]
			}
			if isLoop {
				loops = append(loops, chain...)
				continue
			}
			pred := ph.Block().Preds[i]
			fs := append([]string{}, extra...)
			fs = append(fs, c.factStrings(pred, env)...)
			for _, f := range edgeFact(c, pred, ph.Block()) {
				g := f
				g.Cond = subst(f.Cond, env)
				fs = append(fs, c.regFact(g))
			}
			sub, w, bd := c.assemble(fn, subst(c.E(e), env), env, fs, depth+1)
			if sub == nil {
				return nil, w, bd
			}
			alts = append(alts, sub)
		}
		if len(alts) == 0 {
			break
		}
		out := joinAlts(alts)
		for _, lp := range loops {
			out = out.add(lp.w, append(append([]string{}, lp.fs...), extra...))
		}
		return out, "", false
	case "builtin":
		if call, ok := d.V.(*ssa.Call); ok && d.Name == "append" && len(call.Call.Args) == 2 {
			head, w, bd := c.assemble(fn, d.Args[0], env, extra, depth+1)
			if head == nil {
				return nil, w, bd
			}
			return head.add(c.appendPiece(call, env), append(c.factStrings(call.Block(), env), extra...)), "", false
		}
	case "nil":
		return &payAlt{}, "", false
	case "makeslice":
		ms, _ := d.V.(*ssa.MakeSlice)
		if ms == nil {
			break
		}
		if cst, ok := ms.Len.(*ssa.Const); ok && cst.Value != nil && cst.Value.ExactString() == "0" {
			return &payAlt{}, "", false // make([]byte, 0, n): the empty head of an append chain
		}
		a, w, bd := c.copiesInto(fn, ms, env)
		if w != "" {
			return nil, w, bd
		}
		return (&a).with(extra), "", false
	case "call":
		if call, isCall := d.V.(*ssa.Call); isCall {
			if callee := call.Call.StaticCallee(); callee != nil && len(callee.Blocks) > 0 && callee.Pkg == fn.Pkg && callee.Signature.Results().Len() >= 1 {
				cenv := c.callEnv(call, callee, env)
				var alts []*payAlt
				for _, blk := range callee.Blocks {
					ret, isRet := blk.Instrs[len(blk.Instrs)-1].(*ssa.Return)
					if !isRet || len(ret.Results) == 0 {
						continue
					}
					if len(ret.Results) > 1 {
						if e := c.RetX(ret, len(ret.Results)-1); e.Op != "nil" && isErrorType(ret.Results[len(ret.Results)-1].Type()) {
							continue // failure return of the helper
						}
					}
					fs := append([]string{}, extra...)
					fs = append(fs, c.factStrings(blk, cenv)...)
					sub, w, bd := c.assemble(callee, subst(c.RetX(ret, 0), cenv), cenv, fs, depth+1)
					if sub == nil {
						return nil, w, bd
					}
					alts = append(alts, sub)
				}
				if len(alts) > 0 {
					return joinAlts(alts), "", false
				}
			}
		}
	}
	// a plain value: one piece
	if in, ok := d.V.(ssa.Instruction); ok && in.Block() != nil && (d.Op == "call" || d.Op == "invoke" || depth > 0) {
		var fs []string
		if in.Parent() == fn {
			fs = c.factStrings(in.Block(), env)
		}
		return &payAlt{ws: []BufWrite{{Method: "value", Arg: data, In: in}}, facts: [][]string{append(fs, extra...)}}, "", false
	}
	return nil, "signed/verified bytes are not assembled in a way this rule follows (buffer writes, appends, make and copies): " + data.String(), false
}

// appendPiece describes what one append call adds: a run of bytes
// (append(b, x...)) or single bytes (append(b, v), the variadic array of one element).
func (c *Ctx) appendPiece(call *ssa.Call, env map[ssa.Value]*X) BufWrite {
	arg := call.Call.Args[1]
	if sl, ok := arg.(*ssa.Slice); ok {
		if al, ok := sl.X.(*ssa.Alloc); ok {
			if arr, ok := deref(al.Type()).Underlying().(*types.Array); ok && arr.Len() == 1 {
				var val ssa.Value
				for _, r := range *al.Referrers() {
					if ia, ok := r.(*ssa.IndexAddr); ok {
						for _, r2 := range *ia.Referrers() {
							if st, ok := r2.(*ssa.Store); ok && st.Addr == ssa.Value(ia) {
								val = st.Val
							}
						}
					}
				}
				if val != nil {
					return BufWrite{Method: "byte", Arg: subst(c.E(val), env), In: call}
				}
			}
		}
	}
	return BufWrite{Method: "append", Arg: subst(c.E(arg), env), In: call}
}

// copiesInto reads 'p := make([]byte, n); copy(p, a); copy(p[len(a):], b)' as the pieces a, b.
func (c *Ctx) copiesInto(fn *ssa.Function, ms *ssa.MakeSlice, env map[ssa.Value]*X) (payAlt, string, bool) {
	var a payAlt
	var prev *ssa.Call
	for _, b := range fn.DomPreorder() {
		for _, in := range b.Instrs {
			call, ok := in.(*ssa.Call)
			if !ok {
				continue
			}
			bi, ok := call.Call.Value.(*ssa.Builtin)
			if !ok || bi.Name() != "copy" || len(call.Call.Args) != 2 {
				continue
			}
			dst := call.Call.Args[0]
			var low ssa.Value
			if sl, ok := dst.(*ssa.Slice); ok && sl.X == ssa.Value(ms) {
				if sl.High != nil || sl.Max != nil {
					return a, "copy into a bounded window of the payload: " + c.pos(call.Pos()), false
				}
				low = sl.Low
			} else if dst != ssa.Value(ms) {
				continue
			}
			src := subst(c.E(call.Call.Args[1]), env)
			k := len(a.ws)
			switch {
			case k == 0:
				if low != nil {
					if cst, ok := low.(*ssa.Const); !ok || cst.Value == nil || cst.Value.ExactString() != "0" {
						return a, "first copy into the payload is not at offset 0: " + c.pos(call.Pos()), false
					}
				}
			default:
				okOff := false
				if low != nil {
					lo := subst(c.E(low), env)
					if _, m := Match(Op("builtin", "len", Is(a.ws[k-1].Arg)), lo); m && k == 1 {
						okOff = true
					}
					if prev != nil && low == ssa.Value(prev) && k == 1 {
						okOff = true
					}
					if !okOff && k > 1 {
						return a, "more than two copies into the payload: running offset not followed at " + c.pos(call.Pos()), false
					}
				}
				if !okOff {
					off := "0"
					if low != nil {
						off = subst(c.E(low), env).String()
					}
					return a, "payload piece " + src.String() + " is copied at offset " + off + " (" + c.pos(call.Pos()) + "), not after the piece before it (" + a.ws[k-1].Arg.String() + "): it overwrites instead of following", true
				}
			}
			a.ws = append(a.ws, BufWrite{Method: "copy", Arg: src, In: call})
			a.facts = append(a.facts, c.factStrings(call.Block(), env))
			prev = call
		}
	}
	if len(a.ws) == 0 {
		return a, "no copies into the payload slice found", false
	}
	// the slice is long enough for all pieces: len = Σ len(piece)
	ln := subst(c.E(ms.Len), env)
	want := 0
	var count func(x *X) bool
	count = func(x *X) bool {
		x = strip(x)
		if x.Op == "binop" && x.Name == "+" {
			return count(x.Args[0]) && count(x.Args[1])
		}
		for _, w := range a.ws {
			if _, m := Match(Op("builtin", "len", Is(w.Arg)), x); m {
				want++
				return true
			}
		}
		return false
	}
	sum := count(ln)
	if sum && want < len(a.ws) {
		return a, "payload slice length " + ln.String() + " leaves no room for every piece copied into it: the last copy is cut short", true
	}
	if !sum || want != len(a.ws) {
		return a, "payload slice length " + ln.String() + " is not the sum of the lengths of the pieces copied into it", false
	}
	return a, "", false
}

// payloadKey renders a piece sequence for comparison: how the bytes are appended
// (buffer write, append, copy) does not matter, what is appended and when does.
// When every guard and every topic-derived piece can be evaluated over the
// states of the optional topic, the key is the effective sequence per state.
func (c *Ctx) payloadKey(ws []BufWrite) string {
	if seqs, ok := c.payloadByState(ws); ok {
		return "topic absent: " + strings.Join(seqs[0], " ; ") + " | topic non-empty: " + strings.Join(seqs[2], " ; ")
	}
	var parts []string
	for _, w := range ws {
		w.Method = kindOf(w.Method)
		if st, ok := c.topicStates(w.Guards); ok && len(w.Guards) > 0 {
			w.Guards = []string{st}
		}
		parts = append(parts, w.String())
	}
	return strings.Join(parts, " ; ")
}

// payloadByState gives, for the topic absent (0) and non-empty (2), the pieces
// actually appended: those whose guards hold in that state and whose value is
// not the empty string there. A piece that is the topic (or "" when it is
// absent) is named "topic".
func (c *Ctx) payloadByState(ws []BufWrite) (map[int][]string, bool) {
	out := map[int][]string{}
	for _, st := range []int{0, 2} {
		out[st] = []string{}
		for _, w := range ws {
			holds := true
			for _, g := range w.Guards {
				f, known := c.factOf[g]
				if !known {
					return nil, false
				}
				v, ok := c.evalTopic(f.Cond, st, 0)
				if !ok || (v != "true" && v != "false") {
					return nil, false
				}
				if (v == "true") != f.Val {
					holds = false
				}
			}
			if !holds {
				continue
			}
			name := kindOf(w.Method) + "(" + w.Arg.String() + ")"
			if w.Arg.Find(func(y *X) bool { _, m := Match(Field("Topic", Any()), y); return m }) != nil {
				// derived from the topic: must be the topic string itself (or "" where there is none)
				isStr := false
				if w.Arg.V != nil {
					if b, ok := w.Arg.V.Type().Underlying().(*types.Basic); ok && b.Info()&types.IsString != 0 {
						isStr = true
					}
				}
				v, ok := c.evalTopic(w.Arg, st, 0)
				if !ok || !isStr || kindOf(w.Method) != "bytes" {
					return nil, false
				}
				if v == "0" {
					continue // appends nothing in this state
				}
				if v != "pos" {
					return nil, false
				}
				name = "topic"
			}
			out[st] = append(out[st], name)
		}
	}
	return out, true
}

func writesString(ws []BufWrite) string {
	var parts []string
	for _, w := range ws {
		parts = append(parts, w.String())
	}
	return strings.Join(parts, " ; ")
}

func runC03(c *Ctx) {
	c.Trust("go/ssa dominators", "libp2p crypto (Verify, Sign, key marshalling)", "peer.IDFromPublicKey")

	validate := c.Func(headPkg, "SignedHead.Validate")
	sign := c.Func(headPkg, "SignedHead.Sign")
	if validate == nil || sign == nil {
		c.Unk("C03.V1-validate-gates", "head.SignedHead.Validate/Sign", token.NoPos, "exported Validate/Sign not found")
		return
	}
	// ---- V1 ------------------------------------------------------------------------------
	verifs := c.Calls(validate.SSA, Invoke("crypto.PubKey.Verify"))
	if len(verifs) != 1 {
		c.Bad("C03.V1-validate-gates", validate.Name+" › Verify", validate.SSA.Pos(), "expected exactly one PubKey.Verify call in Validate")
		return
	}
	vf := verifs[0]
	key := vf.X.Args[0]
	kb, keyOK := Match(Extract("0", BindP("um", Call("crypto.UnmarshalPublicKey", Field("Pubkey", Any())))), key)
	c.Check(keyOK, "C03.V1-validate-gates", validate.Name+" › key source", vf.In.Pos(), "verification key is UnmarshalPublicKey(s.Pubkey), the key embedded in the response", "verification key does not come from the embedded Pubkey: "+key.String())
	_, sigOK := Match(Field("Sig", Any()), vf.X.Args[2])
	c.Check(sigOK, "C03.V1-validate-gates", validate.Name+" › signature operand", vf.In.Pos(), "Verify is given s.Sig", "Verify is not given the embedded signature")
	vOK, vErr := c.Result(vf, 0), c.Result(vf, 1)
	nSuccess := 0
	for _, b := range validate.SSA.Blocks {
		ret, ok := b.Instrs[len(b.Instrs)-1].(*ssa.Return)
		if !ok || len(ret.Results) != 2 {
			continue
		}
		if e := c.RetX(ret, 1); e.Op != "nil" {
			continue
		}
		nSuccess++
		k := validate.Name + " › success return"
		need := []struct {
			name string
			pat  P
			val  bool
		}{
			{"len(Sig) != 0", Bin("==", Op("builtin", "len", Field("Sig", Any())), Const("0")), false},
			{"len(Pubkey) != 0", Bin("==", Op("builtin", "len", Field("Pubkey", Any())), Const("0")), false},
			{"Verify err == nil", EqNil(Is(vErr)), true},
			{"Verify ok", Is(vOK), true},
		}
		if keyOK {
			need = append(need, struct {
				name string
				pat  P
				val  bool
			}{"UnmarshalPublicKey err == nil", EqNil(Extract("1", Is(kb["um"]))), true})
		}
		for _, n := range need {
			_, g := c.GuardedB(b, n.pat, n.val)
			c.Check(g, "C03.V1-validate-gates", k+" › "+n.name, ret.Pos(), "success return dominated by "+n.name, "Validate can return success without "+n.name)
		}
		id := c.RetX(ret, 0)
		ib, idOK := Match(Extract("0", BindP("idc", Call("peer.IDFromPublicKey", Is(key)))), id)
		c.Check(idOK, "C03.V1-validate-gates", k+" › signer identity", ret.Pos(), "returned ID is IDFromPublicKey of the verifying key", "returned ID is not derived from the key that verified the signature: "+id.String())
		if idOK {
			_, g := c.GuardedB(b, EqNil(Extract("1", Is(ib["idc"]))), true)
			c.Check(g, "C03.V1-validate-gates", k+" › IDFromPublicKey err == nil", ret.Pos(), "dominated by the ID derivation succeeding", "ID derivation error ignored")
		}
	}
	if nSuccess == 0 {
		c.Unk("C03.V1-validate-gates", validate.Name+" › success return", validate.SSA.Pos(), "no return with nil error found")
	}
	c.Floor("C03.V1-validate-gates", 8)

	// ---- V2 sibling payload ------------------------------------------------------------------
	vw, why := c.payloadWrites(validate.SSA, vf.X.Args[1])
	if vw == nil {
		if strings.HasPrefix(why, "WRONG: ") {
			c.Bad("C03.V2-payload-agreement", validate.Name+" › payload", vf.In.Pos(), strings.TrimPrefix(why, "WRONG: "))
		} else {
			c.Unk("C03.V2-payload-agreement", validate.Name+" › payload", vf.In.Pos(), why)
		}
	}
	signs := c.Calls(sign.SSA, Invoke("crypto.PrivKey.Sign"))
	var sw []BufWrite
	if len(signs) != 1 {
		c.Bad("C03.V2-payload-agreement", sign.Name+" › Sign", sign.SSA.Pos(), "expected exactly one PrivKey.Sign call")
	} else {
		sw, why = c.payloadWrites(sign.SSA, signs[0].X.Args[1])
		if sw == nil {
			if strings.HasPrefix(why, "WRONG: ") {
				c.Bad("C03.V2-payload-agreement", sign.Name+" › payload", signs[0].In.Pos(), strings.TrimPrefix(why, "WRONG: "))
			} else {
				c.Unk("C03.V2-payload-agreement", sign.Name+" › payload", signs[0].In.Pos(), why)
			}
		}
	}
	if vw != nil && sw != nil {
		c.Check(c.payloadKey(vw) == c.payloadKey(sw), "C03.V2-payload-agreement", "head.Sign ≍ head.Validate › write sequence", vf.In.Pos(),
			"both assemble: "+writesString(vw), "signer and verifier assemble different payloads: sign="+writesString(sw)+" verify="+writesString(vw))
		// the sequence is CID bytes, then topic iff non-empty
		shape := false
		if seqs, ok := c.payloadByState(vw); ok && len(seqs[0]) == 1 && len(seqs[2]) == 2 && len(vw) >= 1 {
			_, a := Match(Call("cid.Cid).Bytes", Field("Cid", Field("Head", Any()))), vw[0].Arg)
			shape = a && kindOf(vw[0].Method) == "bytes" && len(vw[0].Guards) == 0 && seqs[0][0] == seqs[2][0] && seqs[2][1] == "topic" && seqs[0][0] == "bytes("+vw[0].Arg.String()+")"
		}
		c.Check(shape, "C03.V2-payload-agreement", "head payload › CID bytes then topic iff non-empty", vf.In.Pos(),
			"payload = Head.Cid.Bytes() ; *Topic iff len(*Topic) != 0", "payload is not (head CID bytes, then topic iff non-empty): "+writesString(vw))
	}
	// Sign stores the key matching the signing key and the signature it produced
	if len(signs) == 1 {
		okPub, okSig := false, false
		instrs(sign.SSA, func(in ssa.Instruction) {
			st, ok := in.(*ssa.Store)
			if !ok {
				return
			}
			a := c.E(st.Addr)
			if a.Op != "field" {
				return
			}
			v := c.E(st.Val)
			if a.Name == "Pubkey" {
				_, okPub = Match(Extract("0", Call("crypto.MarshalPublicKey", Invoke("crypto.PrivKey.GetPublic", Is(signs[0].X.Args[0])))), v)
			}
			if a.Name == "Sig" {
				okSig = Same(v, c.Result(signs[0], 0))
			}
		})
		c.Check(okPub && okSig, "C03.V2-payload-agreement", sign.Name+" › stores key and signature", signs[0].In.Pos(),
			"Pubkey = marshalled public part of the signing key, Sig = the signature produced", "Sign does not store the signing key's public part and the produced signature")
	}
	c.Floor("C03.V2-payload-agreement", 3)
	// a head without its CID is refused where it is decoded: Sign and Validate take the head link's CID without a
	// test, so the schema must make the link mandatory (declared optional, a response with the field removed decodes
	// and the unchecked assertion panics in the syncing process instead of the head being rejected)
	{
		unchecked := 0
		if p := c.pkg(headPkg); p != nil {
			for _, f := range c.Funcs(headPkg) {
				instrs(f.SSA, func(in ssa.Instruction) {
					if ta, ok := in.(*ssa.TypeAssert); ok && !ta.CommaOk {
						if x := c.E(ta.X); x.Op == "field" && x.Name == "Head" {
							unchecked++
						}
					}
				})
			}
		}
		optional := false
		files, _ := filepath.Glob(filepath.Join(c.Repo, headPkg, "*.ipldsch"))
		nSch := 0
		for _, sf := range files {
			if data, err := os.ReadFile(sf); err == nil {
				for _, fs := range ipldOptional(string(data)) {
					nSch++
					for f := range fs {
						if strings.EqualFold(f, "head") {
							optional = true
						}
					}
				}
			}
		}
		c.Check(nSch > 0 && (unchecked == 0 || !optional), "C03.V2-head-link-mandatory", "head schema › head link", token.NoPos, "the head link is mandatory in the schema (its CID is taken without a test in "+itoa(unchecked)+" places)", "the schema lets the head link be absent while the code takes its CID without a test: a response with the link removed is not rejected but panics")
		c.Floor("C03.V2-head-link-mandatory", 1)
	}

	// ---- V3 GetHead ---------------------------------------------------------------------------------
	c03GetHead(c, validate)
	// ---- V4 expected ID never empty / preserved ---------------------------------------------------------
	c03ExpectedID(c)
	// ---- V5 publisher -----------------------------------------------------------------------------------------
	c03Publisher(c, sign)
	// ---- V6 explicit sync gated by the head query ---------------------------------------------------------------
	c03SyncGated(c)
}

func c03GetHead(c *Ctx, validate *Fn) {
	getHead := c.Func(ipnisyncPkg, "Syncer.GetHead")
	if getHead == nil {
		c.Unk("C03.V3-signer-is-expected", "ipnisync.(*Syncer).GetHead", token.NoPos, "exported GetHead not found")
		return
	}
	// (the validation may sit in an unexported helper of the head query: it is looked up through such helpers, and the
	// helper's own tests reach the success return below as facts implied by its error being nil)
	var vcall *CallSite
	var venv map[ssa.Value]*X
	for _, st := range c.CallsInl(getHead.SSA, Any(), 2) {
		if st.In.Common().StaticCallee() == validate.SSA && topFunc(st.Outer().Parent()) == getHead.SSA {
			cs := st.CallSite
			vcall = &cs
			venv = st.Env
		}
	}
	if vcall == nil {
		c.Bad("C03.V3-signer-is-expected", getHead.Name+" › Validate", getHead.SSA.Pos(), "the head query does not validate the signed head")
		return
	}
	signer, verr := c.Result(*vcall, 0), c.Result(*vcall, 1)
	validated := subst(vcall.X.Args[0], venv)
	// what is validated is what the publisher sent: nothing is stored into the decoded head before it is validated
	// (replacing its key, signature, CID or topic makes Validate vouch for something other than the response)
	{
		root := strip(validated)
		pos := token.NoPos
		instrs(getHead.SSA, func(in ssa.Instruction) {
			st, ok := in.(*ssa.Store)
			if !ok || !MayFollow(st, vcall.In) {
				return // only stores that can execute before the validation
			}
			a := c.E(st.Addr)
			for d := 0; d < 6 && a != nil; d++ {
				if d > 0 && (Same(a, root) || (root.Cell != nil && a.Cell == root.Cell) || (root.V != nil && a.V == root.V)) {
					pos = st.Pos()
					return
				}
				if a.Op != "field" && a.Op != "index" && a.Op != "deref" {
					return
				}
				a = a.Args[0]
			}
		})
		c.Check(!pos.IsValid(), "C03.V3-signer-is-expected", getHead.Name+" › validates the response as received", vcall.In.Pos(), "no field of the decoded signed head is stored to before Validate", "a field of the decoded signed head is overwritten (at "+c.pos(pos)+") before it is validated: the signature is no longer checked against what the response carried")
	}
	n := 0
	for _, b := range getHead.SSA.Blocks {
		ret, ok := b.Instrs[len(b.Instrs)-1].(*ssa.Return)
		if !ok || len(ret.Results) != 2 {
			continue
		}
		if e := c.RetX(ret, 1); e.Op != "nil" {
			continue
		}
		n++
		k := getHead.Name + " › success return"
		_, g1 := c.GuardedB(b, EqNil(Is(verr)), true)
		c.Check(g1, "C03.V3-signer-is-expected", k+" › Validate err == nil", ret.Pos(), "dominated by Validate err == nil", "head returned although validation failed")
		// signer == expected, or expected is empty: the block must not be reachable through the 'signer != expected' edge
		expected := Field("ID", Field("peerInfo", Any()))
		okID := false
		facts := c.FactsAt(b)
		for _, f := range facts {
			if _, m := Match(Bin("==", Is(signer), expected), f.Cond); m && f.Val {
				okID = true
			}
			if _, m := Match(Bin("==", expected, Const(`""`)), f.Cond); m && f.Val {
				okID = true
			}
		}
		if !okID {
			// the comparison lives in a helper with one nil return per accepted case: each of them carries one
			for _, f := range facts {
				alts := c.ImpliedAlts(f)
				if len(alts) == 0 {
					continue
				}
				all := true
				for _, fs := range alts {
					one := false
					for _, g := range fs {
						if _, m := Match(Bin("==", Is(signer), expected), g.Cond); m && g.Val {
							one = true
						}
						if _, m := Match(Bin("==", expected, Const(`""`)), g.Cond); m && g.Val {
							one = true
						}
					}
					if !one {
						all = false
					}
				}
				if all {
					okID = true
				}
			}
		}
		if !okID {
			// join of the two accepted edges: every predecessor path carries one of them
			okID = true
			for _, p := range b.Preds {
				pok := false
				for _, f := range append(c.FactsAt(p), edgeFact(c, p, b)...) {
					if _, m := Match(Bin("==", Is(signer), expected), f.Cond); m && f.Val {
						pok = true
					}
					if _, m := Match(Bin("==", expected, Const(`""`)), f.Cond); m && f.Val {
						pok = true
					}
				}
				if !pok {
					okID = false
				}
			}
		}
		c.Check(okID, "C03.V3-signer-is-expected", k+" › signer == expected ID", ret.Pos(),
			"every path to the success return carries signer == expected ID (or the expected ID is empty, which V4 excludes on the subscriber path)", "head returned although the signer was not compared with (or differs from) the expected publisher")
		cidx := c.RetX(ret, 0)
		_, sameVal := Match(Field("Cid", Field("Head", Is(validated))), cidx)
		c.Check(sameVal, "C03.V3-signer-is-expected", k+" › CID of the validated head", ret.Pos(), "the CID returned is Head of the value that was validated", "the CID returned is not taken from the validated signed head: "+cidx.String())
	}
	if n == 0 {
		c.Unk("C03.V3-signer-is-expected", getHead.Name+" › success return", getHead.SSA.Pos(), "no success return found")
	}
	c.Floor("C03.V3-signer-is-expected", 4)
}

// edgeFact gives the fact established by taking the edge p→b when p ends in an If.
func edgeFact(c *Ctx, p, b *ssa.BasicBlock) []Fact {
	iff, ok := p.Instrs[len(p.Instrs)-1].(*ssa.If)
	if !ok || p.Succs[0] == p.Succs[1] {
		return nil
	}
	val := p.Succs[0] == b
	cx, v := normFact(c.E(iff.Cond), val)
	return []Fact{{Cond: cx, Val: v, If: iff}}
}

// preservesPeerID: every return of fn is its AddrInfo parameter (whose ID is
// never stored to) or a literal whose ID is the parameter's ID.
func preservesPeerID(c *Ctx, fn *ssa.Function) (bool, string) {
	var param *ssa.Parameter
	for _, p := range fn.Params {
		if strings.HasSuffix(p.Type().String(), "peer.AddrInfo") {
			param = p
		}
	}
	if param == nil {
		return false, "no AddrInfo parameter"
	}
	// the cell the parameter is spilled to (if any)
	var cell *ssa.Alloc
	if refs := param.Referrers(); refs != nil {
		for _, r := range *refs {
			if st, ok := r.(*ssa.Store); ok && st.Val == param {
				if al, ok := st.Addr.(*ssa.Alloc); ok {
					cell = al
				}
			}
		}
	}
	bad := ""
	instrs(fn, func(in ssa.Instruction) {
		switch in := in.(type) {
		case *ssa.Store:
			if fa, ok := in.Addr.(*ssa.FieldAddr); ok && fa.X == ssa.Value(cell) && cell != nil {
				if c.E(fa).Name == "ID" {
					// storing an ID is fine only when the ID was empty (adopting the ID found in an address)
					_, g := c.Guarded(in, Bin("==", Field("ID", Any()), Const(`""`)), true)
					if !g {
						// ID = cmp.Or(ID, found): the first non-empty of the two — the ID given wins
						if v := c.E(in.Val); v.Op == "call" && strings.HasPrefix(v.Name, "cmp.Or[") && len(v.Args) == 1 {
							if es := variadicElems(c, v.Args[0]); len(es) >= 1 {
								if e0 := strip(es[0]); e0 != nil && e0.Op == "field" && e0.Name == "ID" {
									g = true
								}
							}
						}
					}
					if !g {
						bad = "ID field of the peer info is overwritten at " + c.pos(in.Pos())
					}
				}
			}
			if in.Addr == ssa.Value(cell) && cell != nil && in.Val != ssa.Value(param) {
				bad = "peer info replaced as a whole at " + c.pos(in.Pos())
			}
		case *ssa.Return:
			for i, r := range in.Results {
				if !strings.HasSuffix(r.Type().String(), "peer.AddrInfo") {
					continue
				}
				x := c.RetX(in, i)
				switch {
				case x.V == ssa.Value(param), cell != nil && (x.Cell == cell || x.V == ssa.Value(cell)):
				case x.Op == "complit":
					ok := false
					for _, fi := range x.Args {
						if fi.Name == "ID" {
							if id := fi.Args[0]; id.Op == "field" && id.Name == "ID" && (id.Args[0].V == ssa.Value(param) || id.Args[0].Cell == cell) {
								ok = true
							}
						}
					}
					if !ok {
						bad = "returns a new AddrInfo without the parameter's ID at " + c.pos(in.Pos())
					}
				default:
					if x.Op == "var" && cell != nil && x.V == ssa.Value(cell) {
						break
					}
					bad = "returns an AddrInfo that is not the parameter: " + x.String()
				}
			}
		}
	})
	return bad == "", bad
}

func c03ExpectedID(c *Ctx) {
	// every sync client handed out for a publisher was built by that call, for the publisher given to it (a client
	// taken from a cache keyed by anything less than the publisher ID keeps the identity of an earlier caller, and
	// the head is then compared with the wrong expected signer)
	if ns := c.Func(ipnisyncPkg, "Sync.NewSyncer"); ns != nil {
		nRet := 0
		for _, b := range ns.SSA.Blocks {
			ret, ok := b.Instrs[len(b.Instrs)-1].(*ssa.Return)
			if !ok || len(ret.Results) != 2 || c.RetX(ret, 1).Op != "nil" {
				continue
			}
			nRet++
			fresh := true
			what := ""
			for _, l := range c.Leaves(c.RetX(ret, 0), ret) {
				if l.Op != "complit" {
					fresh = false
					what = abbreviate(l.String())
				}
			}
			c.Check(fresh, "C03.V4-expected-id-present", ns.Name+" › client built by this call", ret.Pos(), "the returned sync client is a literal constructed in this call", "the returned sync client is not constructed by this call ("+what+"): it can carry the expected publisher ID of an earlier caller")
		}
		if nRet == 0 {
			c.Unk("C03.V4-expected-id-present", ns.Name+" › success return", ns.SSA.Pos(), "no success return found")
		}
	} else {
		c.Unk("C03.V4-expected-id-present", "ipnisync.(*Sync).NewSyncer", token.NoPos, "not found")
	}
	// V4.1: the entry test
	var entry *ssa.Function
	for _, f := range c.Funcs(dagsyncPkg) {
		if len(c.Calls(f.SSA, Call("peer.SplitAddr"))) > 0 && f.SSA.Signature.Results().Len() == 2 {
			entry = f.SSA
		}
	}
	makeSyncer := (*ssa.Function)(nil)
	for _, f := range c.Funcs(dagsyncPkg) {
		if len(c.Calls(f.SSA, Call("ipnisync.Sync).NewSyncer"))) > 0 {
			makeSyncer = c.outermost(f.SSA) // (the factory may be split into phases: the routine they are steps of)
		}
	}
	if makeSyncer == nil {
		c.Unk("C03.V4-expected-id-present", "dagsync › sync-client factory", token.NoPos, "no function calls Sync.NewSyncer")
		return
	}
	if entry == nil {
		// no separate entry test: the same conditions are looked for where the sync client is built
		c03ExpectedIDAtFactory(c)
	} else {
		c03ExpectedIDEntry(c, entry, makeSyncer)
	}
	c03ExpectedIDInFactory(c, makeSyncer)
}

func c03ExpectedIDEntry(c *Ctx, entry, makeSyncer *ssa.Function) {
	for _, b := range entry.Blocks {
		ret, ok := b.Instrs[len(b.Instrs)-1].(*ssa.Return)
		if !ok || len(ret.Results) != 2 {
			continue
		}
		if e := c.RetX(ret, 1); e.Op != "nil" {
			continue
		}
		_, g := c.GuardedB(b, Bin("==", Field("ID", Any()), Const(`""`)), false)
		c.Check(g, "C03.V4-expected-id-present", c.short(entry.String())+" › success return", ret.Pos(), "success return dominated by ID != \"\"", "peer info with an empty ID is accepted: the signer check in the head query is then skipped")
	}
	if ok, why := preservesPeerID(c, entry); !ok {
		c.Bad("C03.V4-expected-id-present", c.short(entry.String())+" › keeps ID", entry.Pos(), why)
	} else {
		c.OK("C03.V4-expected-id-present", c.short(entry.String())+" › keeps ID", entry.Pos(), "returns its parameter; the ID is only filled in when empty")
	}
	// V4.2: explicit entry points use its result on the nil-error edge for the sync client
	getHeadCallers := 0
	for _, f := range c.Funcs(dagsyncPkg) {
		for _, cs := range c.Calls(f.SSA, Any()) {
			if cs.In.Common().StaticCallee() != makeSyncer || cs.Fn != f.SSA {
				continue
			}
			qh := len(c.Calls(f.SSA, Invoke("dagsync.Syncer.GetHead"))) > 0
			if sites, known := c.staticCallSites(f.SSA); !qh && known {
				// (a preparation helper shared by the entry points: one of its callers queries the head)
				for _, st := range sites {
					if len(c.Calls(topFunc(st.Parent()), Invoke("dagsync.Syncer.GetHead"))) > 0 {
						qh = true
					}
				}
			}
			if !qh {
				continue // only callers that query the head need the expected ID
			}
			getHeadCallers++
			arg := cs.X.Args[1]
			k := f.Name + " › sync client from validated peer info"
			b, ok := Match(Extract("0", BindP("e", Op("call", ""))), arg)
			if r := c.ReachingStore(arg, cs.In); r != nil {
				b, ok = Match(Extract("0", BindP("e", Op("call", ""))), r)
			}
			isEntry := ok
			if ok {
				ec, _ := b["e"].V.(*ssa.Call)
				isEntry = ec != nil && (ec.Call.StaticCallee() == entry || tailWraps(ec.Call.StaticCallee(), entry, 0))
			}
			if !isEntry {
				c.Bad("C03.V4-expected-id-present", k, cs.In.Pos(), "sync client is not built from the result of the peer-info entry test: "+arg.String())
				continue
			}
			_, g := c.Guarded(cs.In, EqNil(Extract("1", Is(b["e"]))), true)
			c.Check(g, "C03.V4-expected-id-present", k, cs.In.Pos(), "built from the entry test's result on its err == nil edge", "sync client built although the entry test failed")
		}
	}
	if getHeadCallers == 0 {
		c.Unk("C03.V4-expected-id-present", "dagsync › head-querying entry point", token.NoPos, "no function both builds a sync client and queries the head")
	}
}

func c03ExpectedIDInFactory(c *Ctx, makeSyncer *ssa.Function) {
	// V4.3: the factory hands NewSyncer its parameter or a literal with the parameter's ID
	for _, cs := range c.CallsInl(makeSyncer, Call("ipnisync.Sync).NewSyncer"), 2) {
		arg := cs.X.Args[1]
		ok := true
		leaves := c.Leaves(arg, nil) // (through the phases of the factory: every value the argument can take)
		for _, l := range leaves {
			l = strip(l)
			okL := l != nil && l.Op == "param"
			if l != nil && l.Op == "complit" {
				for _, fi := range l.Args {
					if fi.Name == "ID" && fi.Args[0].Op == "field" && fi.Args[0].Name == "ID" && strip(fi.Args[0].Args[0]).Op == "param" {
						okL = true
					}
				}
			}
			if !okL {
				ok = false
			}
		}
		ok = ok && len(leaves) > 0
		c.Check(ok, "C03.V4-expected-id-present", c.short(makeSyncer.String())+" › NewSyncer argument", cs.In.Pos(), "NewSyncer receives the factory's peer info or a literal carrying its ID", "peer info handed to NewSyncer does not carry the caller's ID: "+arg.String())
	}
	// V4.4/4.5: inside NewSyncer the ID reaches the Syncer literal unchanged
	newSyncer := c.Func(ipnisyncPkg, "Sync.NewSyncer")
	if newSyncer == nil {
		c.Unk("C03.V4-expected-id-present", "ipnisync.(*Sync).NewSyncer", token.NoPos, "not found")
		return
	}
	var param *ssa.Parameter
	for _, p := range newSyncer.SSA.Params {
		if strings.HasSuffix(p.Type().String(), "peer.AddrInfo") {
			param = p
		}
	}
	instrs(newSyncer.SSA, func(in ssa.Instruction) {
		st, ok := in.(*ssa.Store)
		if !ok {
			return
		}
		a := c.E(st.Addr)
		if a.Op != "field" || a.Name != "peerInfo" || fieldOwner(a) != "Syncer" {
			return
		}
		v := c.E(st.Val)
		k := newSyncer.Name + " › Syncer.peerInfo"
		if v.Op != "var" && v.Op != "param" {
			c.Bad("C03.V4-expected-id-present", k, st.Pos(), "peer info stored in the sync client is not the (cleaned) parameter: "+v.String())
			return
		}
		cell, _ := v.V.(*ssa.Alloc)
		okAll := true
		why := ""
		if cell != nil {
			stores, _ := c.xb.storesTo(cell, map[ssa.Value]bool{})
			for _, s := range stores {
				if s.Val == ssa.Value(param) {
					continue
				}
				sc, isCall := s.Val.(*ssa.Call)
				if !isCall || sc.Call.StaticCallee() == nil {
					okAll, why = false, "peer info reassigned from "+c.E(s.Val).String()
					continue
				}
				callee := sc.Call.StaticCallee()
				if len(callee.Blocks) == 0 {
					okAll, why = false, "transformer "+callee.String()+" has no body to analyse"
					continue
				}
				if ok, w := preservesPeerID(c, callee); !ok {
					okAll, why = false, c.short(callee.String())+": "+w
				} else {
					c.OK("C03.V4-expected-id-present", c.short(callee.String())+" › keeps ID", callee.Pos(), "every return is the parameter (ID untouched) or a literal with the parameter's ID")
				}
			}
			// no store to the ID field
			if refs := cell.Referrers(); refs != nil {
				for _, r := range *refs {
					if fa, ok := r.(*ssa.FieldAddr); ok && c.E(fa).Name == "ID" {
						if fr := fa.Referrers(); fr != nil {
							for _, u := range *fr {
								if _, ok := u.(*ssa.Store); ok {
									okAll, why = false, "ID field stored to at "+c.pos(u.Pos())
								}
							}
						}
					}
				}
			}
		}
		c.Check(okAll, "C03.V4-expected-id-present", k, st.Pos(), "the expected ID reaches the sync client unchanged (only ID-preserving transformers in between)", "the expected publisher ID can be lost before it is stored in the sync client: "+why)
	})
	c.Floor("C03.V4-expected-id-present", 6)
}

func c03Publisher(c *Ctx, sign *Fn) {
	pub := c.Func(ipnisyncPkg, "Publisher.ServeHTTP")
	if pub == nil {
		c.Unk("C03.V5-publisher-signs-root", "ipnisync.(*Publisher).ServeHTTP", token.NoPos, "not found")
		return
	}
	// the bytes written in the head branch
	n := 0
	for _, st := range c.CallsInl(pub.SSA, Invoke("http.ResponseWriter.Write"), 2) {
		cs := st.CallSite
		data := cs.X.Args[1]
		b, ok := Match(Extract("0", BindP("enc", Op("call", "", Bind("root"), Field("topic", Any()), Field("privKey", Any())))), data)
		if !ok {
			continue
		}
		n++
		k := pub.Name + " › head response"
		// the root was read under the publisher's lock
		root := b["root"]
		_, isRoot := Match(Field("root", Any()), root)
		if !isRoot {
			// read through an accessor: every value it can return is the root field
			if ls := c.Leaves(root, cs.In); len(ls) > 0 {
				isRoot = true
				for _, l := range ls {
					if _, m := Match(Field("root", Any()), l); !m {
						isRoot = false
					}
				}
			}
		}
		c.Check(isRoot, "C03.V5-publisher-signs-root", k+" › signs current root", cs.In.Pos(), "encodes a head for p.root, p.topic, p.privKey", "head response is not built from the publisher's root/topic/key: "+data.String())
		_, g := c.Guarded(cs.In, EqNil(Extract("1", Is(b["enc"]))), true)
		c.Check(g, "C03.V5-publisher-signs-root", k+" › written only when signing succeeded", cs.In.Pos(), "write dominated by err == nil of the signed-head construction", "response written although building the signed head failed")
		// the encoder: NewSignedHead(root, topic, key) then Encode
		enc, _ := b["enc"].V.(*ssa.Call)
		if enc != nil && enc.Call.StaticCallee() != nil {
			ef := enc.Call.StaticCallee()
			okChain := false
			for _, ns := range c.Calls(ef, Call("head.NewSignedHead", Param(ef.Params[0].Name()), Param(ef.Params[1].Name()), Param(ef.Params[2].Name()))) {
				_ = ns
				okChain = true
			}
			c.Check(okChain, "C03.V5-publisher-signs-root", k+" › NewSignedHead(root, topic, key)", ef.Pos(), "the helper signs exactly its (root, topic, key) arguments", "the head encoder does not pass its arguments to NewSignedHead unchanged")
		}
	}
	if n == 0 {
		c.Bad("C03.V5-publisher-signs-root", pub.Name+" › head response", pub.SSA.Pos(), "no response write of an encoded signed head found in the publisher")
	}
	// every access to the publisher's root is made with its lock held (lockset)
	la := c.LockAnalyses(ipnisyncPkg, nil)
	rootVar := c.fieldVar(ipnisyncPkg, "Publisher.root")
	pk := c.pkg(ipnisyncPkg)
	nRoot := 0
	for _, f := range c.Funcs(ipnisyncPkg) {
		for _, a := range la[f.Name] {
			ownInspect(a.Body, func(nd ast.Node) bool {
				sel, ok := nd.(*ast.SelectorExpr)
				if !ok || rootVar == nil || pk.TypesInfo.ObjectOf(sel.Sel) != types.Object(rootVar) {
					return true
				}
				nRoot++
				if h, ok := a.HeldAt[sel]; ok {
					c.Check(heldHas(h, ".lock"), "C03.V5-publisher-signs-root", a.Name+" › root accessed under lock", sel.Pos(), "root accessed with the publisher's lock held", "root accessed without the publisher's lock")
				}
				return true
			})
		}
	}
	if rootVar == nil {
		c.Note("V5: Publisher.root not found by name; lock discipline of the root not checked")
	}
	// NewSignedHead returns a head only when Sign succeeded
	nsh := c.Func(headPkg, "NewSignedHead")
	if nsh == nil {
		c.Unk("C03.V5-publisher-signs-root", "head.NewSignedHead", token.NoPos, "not found")
	} else {
		var scall *CallSite
		for _, cs := range c.Calls(nsh.SSA, Any()) {
			if cs.In.Common().StaticCallee() == sign.SSA {
				cs := cs
				scall = &cs
			}
		}
		if scall == nil {
			c.Bad("C03.V5-publisher-signs-root", nsh.Name+" › Sign", nsh.SSA.Pos(), "NewSignedHead does not sign")
		} else {
			for _, b := range nsh.SSA.Blocks {
				if ret, ok := b.Instrs[len(b.Instrs)-1].(*ssa.Return); ok && len(ret.Results) == 2 && c.RetX(ret, 1).Op == "nil" {
					_, g := c.GuardedB(b, EqNil(Is(c.Result(*scall, 0))), true)
					c.Check(g, "C03.V5-publisher-signs-root", nsh.Name+" › returned only when signed", ret.Pos(), "success return dominated by Sign err == nil", "an unsigned head can be returned")
				}
			}
		}
	}
	c.Floor("C03.V5-publisher-signs-root", 5)
}

func c03SyncGated(c *Ctx) {
	handle := c15HandleFn(c)
	for _, f := range c.Funcs(dagsyncPkg) {
		heads := c.Calls(f.SSA, Invoke("dagsync.Syncer.GetHead"))
		if len(heads) == 0 {
			continue
		}
		herr := c.Result(heads[0], 1)
		hcid := c.Result(heads[0], 0)
		for _, cs := range c.Calls(f.SSA, Any()) {
			if cs.In.Common().StaticCallee() != handle || handle == nil {
				continue
			}
			// on the queried-head path the CID synced is the head query's result and the call is on its err == nil edge
			next := slotOf(c.SlotArgs(cs), "go-cid.Cid", 0) // (the root CID, positional or in a parameter object)
			if next == nil {
				next = cs.X.Args[2]
			}
			usesHead := next.Contains(func(y *X) bool { return Same(y, hcid) })
			if !usesHead {
				c.Bad("C03.V6-sync-gated-by-head", f.Name+" › sync", cs.In.Pos(), "the CID synced is not (a merge including) the validated head query result")
				continue
			}
			// every predecessor path that carries the queried head must carry err == nil: the phi edge of the head result comes from a block dominated by err == nil
			ok := false
			if ph, isPhi := next.V.(*ssa.Phi); isPhi {
				ok = true
				for i, e := range ph.Edges {
					if Same(c.E(e), hcid) {
						if _, g := c.GuardedB(ph.Block().Preds[i], EqNil(Is(herr)), true); !g {
							ok = false
						}
					}
				}
			} else {
				_, ok = c.Guarded(cs.In, EqNil(Is(herr)), true)
				if !ok {
					// the head travels in a field of a request object: every path from the store of the queried head
					// to the sync takes the err == nil edge of a test of the query's error
					var hstores []*ssa.Store
					instrs(f.SSA, func(in ssa.Instruction) {
						if st, isSt := in.(*ssa.Store); isSt && Same(c.E(st.Val), hcid) {
							hstores = append(hstores, st)
						}
					})
					ok = len(hstores) > 0
					for _, st := range hstores {
						if !pathsBetweenCarry(c, st.Block(), cs.In.Block(), func(fct Fact) bool {
							_, m := Match(EqNil(Is(herr)), fct.Cond)
							return m && fct.Val
						}) {
							ok = false
						}
					}
				}
			}
			c.Check(ok, "C03.V6-sync-gated-by-head", f.Name+" › sync", cs.In.Pos(), "the queried head reaches the sync only through the head query's err == nil edge", "a sync can run with a head whose query/validation failed")
		}
	}
	c.Floor("C03.V6-sync-gated-by-head", 1)
}

// c03ExpectedIDAtFactory decides V4 at the calls of the sync-client factory
// made on behalf of a head query, when cleaning the peer info and building the
// client are one routine: the ID handed to the factory (followed through the
// local peer-info struct) is tested non-empty before the call, and every
// value it can take is the caller's ID — through ID-preserving transformers
// only — or a value adopted on an edge that says the ID so far was empty.
func c03ExpectedIDAtFactory(c *Ctx) {
	var factory *ssa.Function
	for _, f := range c.Funcs(dagsyncPkg) {
		if len(c.Calls(f.SSA, Call("ipnisync.Sync).NewSyncer"))) > 0 {
			factory = c.outermost(f.SSA)
		}
	}
	if factory == nil {
		c.Unk("C03.V4-expected-id-present", "dagsync › sync-client factory", token.NoPos, "no function calls Sync.NewSyncer")
		return
	}
	queriesHead := func(fn *ssa.Function) bool {
		if len(c.Calls(fn, Invoke("dagsync.Syncer.GetHead"))) > 0 {
			return true
		}
		if sites, known := c.staticCallSites(fn); known {
			for _, s := range sites {
				if len(c.Calls(topFunc(s.Parent()), Invoke("dagsync.Syncer.GetHead"))) > 0 {
					return true
				}
			}
		}
		return false
	}
	n := 0
	for _, f := range c.Funcs(dagsyncPkg) {
		for _, cs := range c.Calls(f.SSA, Any()) {
			if cs.In.Common().StaticCallee() != factory || cs.Fn != f.SSA || !queriesHead(f.SSA) {
				continue
			}
			n++
			k := f.Name + " › sync client for a head query"
			arg := cs.X.Args[1]
			id := c.throughCell(&X{Op: "field", Name: "ID", Args: []*X{arg}}, cs.In, nil)
			_, nonEmpty := c.Guarded(cs.In, Bin("==", Is(id), Const(`""`)), false)
			c.Check(nonEmpty, "C03.V4-expected-id-present", k+" › ID tested non-empty", cs.In.Pos(), "the factory call is dominated by ID != \"\" for the ID it is given", "a sync client can be built with an empty expected ID ("+abbreviate(id.String())+"): the signer check in the head query is then skipped")
			// the values the ID can take
			var pinfo *ssa.Parameter
			for _, p := range f.SSA.Params {
				if strings.HasSuffix(p.Type().String(), "peer.AddrInfo") {
					pinfo = p
				}
			}
			if pinfo == nil {
				c.Unk("C03.V4-expected-id-present", k+" › ID is the caller's", cs.In.Pos(), "no AddrInfo parameter")
				continue
			}
			callerID := func(x *X) bool {
				x = strip(x)
				if x == nil || x.Op != "field" || x.Name != "ID" {
					return false
				}
				b := strip(x.Args[0])
				for d := 0; d < 4 && b != nil; d++ {
					if b.V == ssa.Value(pinfo) || ParamLike()(b, nil) {
						return true
					}
					if r := c.ReachingStore(b, cs.In); r != nil && r != b {
						b = strip(r)
						continue
					}
					// an ID-preserving transformer applied to it
					if b.Op == "extract" {
						b = strip(b.Args[0])
					}
					if call, ok := b.V.(*ssa.Call); ok && b.Op == "call" && call.Call.StaticCallee() != nil && len(b.Args) >= 1 {
						if ok, _ := preservesPeerID(c, call.Call.StaticCallee()); ok {
							b = strip(b.Args[len(b.Args)-1])
							continue
						}
					}
					return false
				}
				return false
			}
			phis := map[ssa.Value]bool{}
			id.Find(func(y *X) bool {
				if _, ok := y.V.(*ssa.Phi); ok {
					phis[y.V] = true
				}
				return false
			})
			okVals, why := true, ""
			for _, l := range c.LeavesF(id, cs.In) {
				if callerID(l.Val) {
					continue
				}
				if lv := strip(l.Val); lv != nil && lv.Op == "const" && lv.Name == `""` {
					continue // cannot reach the factory: the ID is tested non-empty before it
				}
				adopted := false
				for _, fct := range l.Facts {
					if !fct.Val {
						continue
					}
					if b, m := Match(Bin("==", Bind("v"), Const(`""`)), fct.Cond); m {
						v := strip(b["v"])
						if callerID(v) {
							adopted = true
						}
						if v.V != nil && phis[v.V] {
							// "the ID so far": starts as the caller's ID (not as a constant), so that its being
							// empty says the caller gave none
							hasCaller, hasConst := false, false
							for _, vl := range c.LeavesF(v, cs.In) {
								if callerID(vl.Val) {
									hasCaller = true
								}
								if t := strip(vl.Val); t != nil && (t.Op == "const" || t.Op == "nil") {
									hasConst = true
								}
							}
							if hasCaller && !hasConst {
								adopted = true
							}
						}
					}
				}
				if !adopted {
					okVals, why = false, abbreviate(l.Val.String())
				}
			}
			c.Check(okVals, "C03.V4-expected-id-present", k+" › ID is the caller's", cs.In.Pos(), "the ID is the caller's (through ID-preserving steps), another one only where it was empty so far", "the expected publisher ID can be replaced by another value ("+why+") although the caller gave one: a head signed by that other identity is accepted")
		}
	}
	if n == 0 {
		c.Unk("C03.V4-expected-id-present", "dagsync › sync client for a head query", token.NoPos, "no factory call on behalf of a head query found")
	}
}

// tailWraps: every return of fn hands on, unchanged and in order, the results
// of one call of target (or of another such wrapper): 'return target(…)'.
func tailWraps(fn, target *ssa.Function, depth int) bool {
	if fn == nil || target == nil || len(fn.Blocks) == 0 || depth > 2 {
		return false
	}
	n := 0
	for _, b := range fn.Blocks {
		ret, ok := b.Instrs[len(b.Instrs)-1].(*ssa.Return)
		if !ok {
			continue
		}
		n++
		var call *ssa.Call
		for i, r := range ret.Results {
			ex, ok := r.(*ssa.Extract)
			if !ok || ex.Index != i {
				return false
			}
			cl, ok := ex.Tuple.(*ssa.Call)
			if !ok || (call != nil && cl != call) {
				return false
			}
			call = cl
		}
		if call == nil {
			return false
		}
		if sc := call.Call.StaticCallee(); sc != target && !tailWraps(sc, target, depth+1) {
			return false
		}
	}
	return n > 0
}

// pathsBetweenCarry: every path from block from to block to takes at least one
// branch edge that establishes a fact satisfying pred (decided by removing
// those edges and asking whether to is still reachable).
func pathsBetweenCarry(c *Ctx, from, to *ssa.BasicBlock, pred func(Fact) bool) bool {
	if from == to {
		return false
	}
	seen := map[*ssa.BasicBlock]bool{}
	var rec func(b *ssa.BasicBlock) bool
	rec = func(b *ssa.BasicBlock) bool {
		if b == to {
			return true
		}
		if seen[b] {
			return false
		}
		seen[b] = true
		for _, s := range b.Succs {
			est := false
			for _, fct := range edgeFact(c, b, s) {
				if pred(fct) {
					est = true
				}
			}
			if est {
				continue
			}
			if rec(s) {
				return true
			}
		}
		return false
	}
	return !rec(from)
}
