package main

import (
	"sort"
	"fmt"
	"go/token"
	"go/types"
	"strings"

	"golang.org/x/tools/go/ssa"
)

// X is a symbolic expression tree reconstructed from SSA values. go/ssa does
// no CSE and spills captured variables to memory cells; X looks through
// conversions, loads, single-assignment cells and closure captures so that
// rules can talk about "the value" rather than about registers.
//
// Ops:
//
//	param(Name)            function parameter (V identity)
//	var(Name)              load of a local cell assigned more than once (V = the *ssa.Alloc)
//	global(Name)           load or address of a package-level variable
//	const(Name) / nil      constants
//	func(Name)             function value
//	call(Name; recv?, args…)     static call; Name = callee as printed by go/ssa
//	invoke(Name; recv, args…)    interface method call; Name = "pkg.Iface.Method"
//	dyncall(callee, args…) call of a func-typed value
//	builtin(Name; args…)
//	extract(Name=i; tuple)
//	field(Name; base)      field read or field address (Addr tells which)
//	index(x, i) lookup(m, k)
//	binop(Name=op; x, y) not(x) neg(x) recv(ch)
//	phi(edges…)
//	complit(Name=type; fieldinit(Name; v)…)   composite literal
//	closure(Name=fn; bindings…)
//	assert(Name=type; x)
//	slice(x, lo, hi, max) makeslice(len, cap) makemap() makechan(size) new(Name)
//	next(range) range(x) select
//	cut                    depth bound reached / cycle
type X struct {
	Op   string
	Name string
	Args []*X
	V    ssa.Value
	// Callee is the statically resolved target of a call node (nil for dynamic calls).
	Callee *ssa.Function
	Addr   bool
	// Cell is the variable cell this value was loaded from, if any.
	Cell *ssa.Alloc
	// Env is set on copies made by subst: the parameter bindings of the helper this node comes from, so that facts
	// looked up later for the node (phi edges) can be put in the same terms.
	Env map[ssa.Value]*X
}

func (x *X) String() string {
	if x == nil {
		return "<nil>"
	}
	var sb strings.Builder
	x.write(&sb, 0)
	return sb.String()
}

func (x *X) write(sb *strings.Builder, d int) {
	if d > printDepth {
		sb.WriteString("…")
		return
	}
	switch x.Op {
	case "param", "var", "global", "const", "func":
		sb.WriteString(x.Name)
		return
	case "nil":
		sb.WriteString("nil")
		return
	case "field":
		if x.Addr && d == 0 {
			sb.WriteString("&")
		}
		// a field of a value loaded through a pointer reads the same as the field through the pointer
		if base := x.Args[0]; base.Op == "deref" && len(base.Args) == 1 {
			base.Args[0].write(sb, d+1)
		} else {
			base.write(sb, d+1)
		}
		sb.WriteString("." + x.Name)
		return
	case "extract":
		x.Args[0].write(sb, d+1)
		sb.WriteString("#" + x.Name)
		return
	case "binop":
		sb.WriteString("(")
		x.Args[0].write(sb, d+1)
		sb.WriteString(" " + x.Name + " ")
		x.Args[1].write(sb, d+1)
		sb.WriteString(")")
		return
	case "not":
		sb.WriteString("!")
		x.Args[0].write(sb, d+1)
		return
	case "cut":
		sb.WriteString("…")
		return
	}
	sb.WriteString(x.Op)
	if x.Name != "" {
		sb.WriteString(":" + x.Name)
	}
	sb.WriteString("(")
	for i, a := range x.Args {
		if i > 0 {
			sb.WriteString(", ")
		}
		a.write(sb, d+1)
	}
	sb.WriteString(")")
}

// printDepth bounds the depth to which expressions are printed.
var printDepth = 6

type xbuilder struct {
	c        *Ctx
	closure  map[*ssa.Function]*ssa.MakeClosure
	memo     map[ssa.Value]*X
	env      map[ssa.Value]*X // parameter bindings while expanding a trivial function in place
	inlDepth int
	// merges of the stores reaching a load of a locally built struct's field, by (struct, field, store set)
	fieldMerge map[string]*X
}

func newXBuilder(c *Ctx) *xbuilder {
	return &xbuilder{c: c, closure: map[*ssa.Function]*ssa.MakeClosure{}, memo: map[ssa.Value]*X{}}
}

// E builds the expression of v.
func (c *Ctx) E(v ssa.Value) *X {
	return c.xb.expr(v, 0, map[ssa.Value]bool{})
}

const xMaxDepth = 14

func (b *xbuilder) short(s string) string { return b.c.short(s) }

// makeClosureOf finds the (unique) MakeClosure instruction creating fn.
func (b *xbuilder) makeClosureOf(fn *ssa.Function) *ssa.MakeClosure {
	if mc, ok := b.closure[fn]; ok {
		return mc
	}
	var found *ssa.MakeClosure
	if p := fn.Parent(); p != nil {
		instrs(p, func(in ssa.Instruction) {
			if mc, ok := in.(*ssa.MakeClosure); ok && mc.Fn == fn {
				found = mc
			}
		})
	}
	b.closure[fn] = found
	return found
}

// storesTo returns all Store instructions that may write the cell addr
// (an *ssa.Alloc or *ssa.FreeVar aliasing one), following closure captures.
func (b *xbuilder) storesTo(addr ssa.Value, seen map[ssa.Value]bool) (stores []*ssa.Store, escapes bool) {
	if seen[addr] {
		return nil, false
	}
	seen[addr] = true
	refs := addr.Referrers()
	if refs == nil {
		return nil, true
	}
	for _, r := range *refs {
		switch r := r.(type) {
		case *ssa.Store:
			if r.Addr == addr {
				stores = append(stores, r)
			} else {
				escapes = true // address stored somewhere
			}
		case *ssa.MakeClosure:
			fn := r.Fn.(*ssa.Function)
			for i, bnd := range r.Bindings {
				if bnd == addr && i < len(fn.FreeVars) {
					s, e := b.storesTo(fn.FreeVars[i], seen)
					stores = append(stores, s...)
					escapes = escapes || e
				}
			}
		case *ssa.UnOp, *ssa.FieldAddr, *ssa.IndexAddr, *ssa.DebugRef:
			// loads and projections
		case ssa.CallInstruction:
			// Address passed to a call (e.g. method with pointer receiver on a
			// local value, json.Unmarshal(&v)): may be written there.
			escapes = true
		default:
			escapes = true
		}
	}
	return stores, escapes
}

// rootAlloc resolves a FreeVar to the Alloc (or other value) bound to it.
func (b *xbuilder) resolveFree(fv *ssa.FreeVar) ssa.Value {
	fn := fv.Parent()
	mc := b.makeClosureOf(fn)
	if mc == nil {
		return nil
	}
	for i, f := range fn.FreeVars {
		if f == fv && i < len(mc.Bindings) {
			// a literal nested in a literal captures the outer literal's free variable
			if outer, ok := mc.Bindings[i].(*ssa.FreeVar); ok {
				if r := b.resolveFree(outer); r != nil {
					return r
				}
			}
			return mc.Bindings[i]
		}
	}
	return nil
}

// ConstString returns the value of a string constant declared in a loaded package.
func (c *Ctx) ConstString(pkgPath, name string) (string, bool) {
	var tp *types.Package
	for _, p := range c.Pkgs {
		if p.PkgPath == pkgPath {
			tp = p.Types
		}
		if tp == nil {
			for path, imp := range p.Imports {
				if path == pkgPath {
					tp = imp.Types
				}
			}
		}
	}
	if tp == nil {
		return "", false
	}
	k, ok := tp.Scope().Lookup(name).(*types.Const)
	if !ok {
		return "", false
	}
	return k.Val().ExactString(), true
}

func (b *xbuilder) expr(v ssa.Value, d int, onpath map[ssa.Value]bool) *X {
	if v == nil {
		return &X{Op: "nil"}
	}
	if d > xMaxDepth || onpath[v] {
		return &X{Op: "cut", V: v}
	}
	onpath[v] = true
	defer delete(onpath, v)
	sub := func(w ssa.Value) *X { return b.expr(w, d+1, onpath) }
	if b.env != nil {
		if r, ok := b.env[v]; ok {
			return r
		}
	}

	switch v := v.(type) {
	case *ssa.Parameter:
		return &X{Op: "param", Name: v.Name(), V: v}
	case *ssa.FreeVar:
		if r := b.resolveFree(v); r != nil {
			return sub(r)
		}
		return &X{Op: "param", Name: "free:" + v.Name(), V: v}
	case *ssa.Global:
		return &X{Op: "global", Name: b.short(v.String()), V: v, Addr: true}
	case *ssa.Const:
		if v.IsNil() {
			return &X{Op: "nil", V: v}
		}
		if v.Value == nil {
			return &X{Op: "const", Name: "zero:" + b.short(v.Type().String()), V: v}
		}
		return &X{Op: "const", Name: v.Value.ExactString(), V: v}
	case *ssa.Function:
		return &X{Op: "func", Name: b.short(v.String()), V: v}
	case *ssa.Builtin:
		return &X{Op: "func", Name: "builtin " + v.Name(), V: v}
	case *ssa.Alloc:
		// A cell written exactly once as a whole (spilled parameter or
		// single-assignment local whose address is only used for field
		// projections) stands for the value stored in it.
		if v.Comment == "complit" {
			if cl := b.complit(v, sub); cl != nil {
				cl.V = v
				cl.Addr = true
				return cl
			}
		} else {
			if stores, esc := b.storesTo(v, map[ssa.Value]bool{}); !esc && len(stores) == 1 && !fieldWritten(v) {
				y := *sub(stores[0].Val)
				y.Cell = v
				return &y
			}
		}
		return &X{Op: "alloc", Name: v.Comment, V: v, Addr: true}
	case *ssa.Call:
		return b.callExpr(v, &v.Call, sub)
	case *ssa.Extract:
		t := sub(v.Tuple)
		if t.Op == "tuple" && v.Index < len(t.Args) {
			return t.Args[v.Index]
		}
		return &X{Op: "extract", Name: fmt.Sprint(v.Index), Args: []*X{t}, V: v}
	case *ssa.FieldAddr:
		st := deref(v.X.Type()).Underlying().(*types.Struct)
		return &X{Op: "field", Name: canonField(st.Field(v.Field)), Args: []*X{sub(v.X)}, V: v, Addr: true}
	case *ssa.Field:
		st := v.X.Type().Underlying().(*types.Struct)
		return &X{Op: "field", Name: canonField(st.Field(v.Field)), Args: []*X{sub(v.X)}, V: v}
	case *ssa.IndexAddr:
		return &X{Op: "index", Args: []*X{sub(v.X), sub(v.Index)}, V: v, Addr: true}
	case *ssa.Index:
		return &X{Op: "index", Args: []*X{sub(v.X), sub(v.Index)}, V: v}
	case *ssa.Lookup:
		return &X{Op: "lookup", Args: []*X{sub(v.X), sub(v.Index)}, V: v}
	case *ssa.BinOp:
		return &X{Op: "binop", Name: v.Op.String(), Args: []*X{sub(v.X), sub(v.Y)}, V: v}
	case *ssa.UnOp:
		switch v.Op {
		case token.NOT:
			return &X{Op: "not", Args: []*X{sub(v.X)}, V: v}
		case token.ARROW:
			return &X{Op: "recv", Args: []*X{sub(v.X)}, V: v}
		case token.MUL:
			return b.load(v, sub)
		default:
			return &X{Op: "neg", Name: v.Op.String(), Args: []*X{sub(v.X)}, V: v}
		}
	case *ssa.Phi:
		x := &X{Op: "phi", Name: v.Comment, V: v}
		for _, e := range v.Edges {
			x.Args = append(x.Args, sub(e))
		}
		return x
	case *ssa.ChangeType:
		return sub(v.X)
	case *ssa.Convert:
		return sub(v.X)
	case *ssa.ChangeInterface:
		return sub(v.X)
	case *ssa.MakeInterface:
		return sub(v.X)
	case *ssa.SliceToArrayPointer:
		return sub(v.X)
	case *ssa.MultiConvert:
		return sub(v.X)
	case *ssa.TypeAssert:
		return &X{Op: "assert", Name: b.short(v.AssertedType.String()), Args: []*X{sub(v.X)}, V: v}
	case *ssa.MakeClosure:
		x := &X{Op: "closure", Name: b.short(v.Fn.String()), V: v}
		for _, bn := range v.Bindings {
			x.Args = append(x.Args, sub(bn))
		}
		return x
	case *ssa.MakeSlice:
		return &X{Op: "makeslice", Name: b.short(v.Type().String()), Args: []*X{sub(v.Len), sub(v.Cap)}, V: v}
	case *ssa.MakeMap:
		return &X{Op: "makemap", Name: b.short(v.Type().String()), V: v}
	case *ssa.MakeChan:
		return &X{Op: "makechan", Name: b.short(v.Type().String()), Args: []*X{sub(v.Size)}, V: v}
	case *ssa.Slice:
		x := &X{Op: "slice", Args: []*X{sub(v.X)}, V: v}
		for _, w := range []ssa.Value{v.Low, v.High, v.Max} {
			if w == nil {
				x.Args = append(x.Args, &X{Op: "nil"})
			} else {
				x.Args = append(x.Args, sub(w))
			}
		}
		return x
	case *ssa.Range:
		return &X{Op: "range", Args: []*X{sub(v.X)}, V: v}
	case *ssa.Next:
		return &X{Op: "next", Args: []*X{sub(v.Iter)}, V: v}
	case *ssa.Select:
		return &X{Op: "select", V: v}
	}
	return &X{Op: "other", Name: fmt.Sprintf("%T", v), V: v}
}

func deref(t types.Type) types.Type {
	if p, ok := t.Underlying().(*types.Pointer); ok {
		return p.Elem()
	}
	return t
}

// load interprets *addr.
func (b *xbuilder) load(u *ssa.UnOp, sub func(ssa.Value) *X) *X {
	addr := u.X
	// Resolve captured variables to their cell.
	cell := addr
	if fv, ok := cell.(*ssa.FreeVar); ok {
		if r := b.resolveFree(fv); r != nil {
			cell = r
		}
	}
	if al, ok := cell.(*ssa.Alloc); ok {
		if al.Comment == "complit" || strings.HasPrefix(al.Comment, "complit") {
			if cl := b.complit(al, sub); cl != nil {
				cl.V = u
				return cl
			}
		}
		stores, esc := b.storesTo(al, map[ssa.Value]bool{})
		if !esc && len(stores) == 1 && (stores[0].Parent() != u.Parent() || Precedes(stores[0], u)) {
			// (the one assignment is executed before this read on every path: otherwise the variable can still hold
			// its zero value here)
			x := sub(stores[0].Val)
			// copy so that Cell does not leak into the memoised subtree
			y := *x
			y.Cell = al
			return &y
		}
		if !esc && len(stores) == 0 {
			if fieldWritten(al) {
				// struct variable initialised field by field (x := T{...})
				if cl := b.complit(al, sub); cl != nil {
					cl.V = u
					cl.Cell = al
					return cl
				}
			}
			return &X{Op: "const", Name: "zero:" + b.short(deref(al.Type()).String()), V: u, Cell: al}
		}
		return &X{Op: "var", Name: al.Comment, V: al, Cell: al}
	}
	// a field of a struct this function builds (x := &T{…}; x.f = v; … x.f …): the one value stored into that field,
	// when the store is executed before the load on every path and the struct has not been handed to a call in between
	if fa, ok := addr.(*ssa.FieldAddr); ok {
		if al, ok := fa.X.(*ssa.Alloc); ok && al.Parent() == u.Parent() && al.Referrers() != nil {
			var stores []*ssa.Store
			handed := false
			for _, r := range *al.Referrers() {
				switch r := r.(type) {
				case *ssa.FieldAddr:
					if r.Field == fa.Field && r.Referrers() != nil {
						for _, w := range *r.Referrers() {
							if st, ok := w.(*ssa.Store); ok && st.Addr == ssa.Value(r) {
								stores = append(stores, st)
							}
						}
					}
				case ssa.CallInstruction:
					if MayFollow(r, u) && callMayWriteField(r, al, fa.Field, 0) {
						handed = true
					}
				case *ssa.Store:
					if r.Val == ssa.Value(al) {
						handed = true // the pointer itself is stored somewhere
					}
					if r.Addr == ssa.Value(al) {
						handed = true // the struct is (also) assigned as a whole: not a field-by-field built object
					}
				case *ssa.MakeClosure, *ssa.MakeInterface, *ssa.Phi:
					handed = true
				}
			}
			if !handed && len(stores) == 1 && Precedes(stores[0], u) {
				x := sub(stores[0].Val)
				y := *x
				return &y
			}
			if !handed && len(stores) >= 1 {
				if m := b.mergedFieldStores(al, fa.Field, stores, u, sub); m != nil {
					return m
				}
			}
		}
	}
	inner := sub(addr)
	switch inner.Op {
	case "field", "index", "global":
		y := *inner
		y.Addr = false
		y.V = u
		return &y
	}
	return &X{Op: "deref", Args: []*X{inner}, V: u}
}

// complit reconstructs a composite literal built in the cell al.
func (b *xbuilder) complit(al *ssa.Alloc, sub func(ssa.Value) *X) *X {
	refs := al.Referrers()
	if refs == nil {
		return nil
	}
	x := &X{Op: "complit", Name: b.short(deref(al.Type()).String())}
	for _, r := range *refs {
		fa, ok := r.(*ssa.FieldAddr)
		if !ok {
			continue
		}
		st, ok := deref(al.Type()).Underlying().(*types.Struct)
		if !ok {
			return nil
		}
		if fr := fa.Referrers(); fr != nil {
			for _, s := range *fr {
				if st2, ok := s.(*ssa.Store); ok && st2.Addr == fa {
					x.Args = append(x.Args, &X{Op: "fieldinit", Name: canonField(st.Field(fa.Field)), Args: []*X{sub(st2.Val)}, V: fa})
				}
			}
		}
	}
	return x
}

// calleeName gives the canonical name of a call's target and its kind.
func (b *xbuilder) calleeName(cc *ssa.CallCommon) (kind, name string) {
	if cc.IsInvoke() {
		recv := cc.Value.Type()
		return "invoke", b.short(types.TypeString(recv, nil)) + "." + cc.Method.Name()
	}
	switch f := cc.Value.(type) {
	case *ssa.Function:
		return "call", b.short(f.String())
	case *ssa.Builtin:
		return "builtin", f.Name()
	case *ssa.MakeClosure:
		return "call", b.short(f.Fn.String())
	}
	return "dyncall", ""
}

func (b *xbuilder) callExpr(v ssa.Value, cc *ssa.CallCommon, sub func(ssa.Value) *X) *X {
	// trivial pure functions and closures of the repository are expanded in place
	if v != nil && b.inlDepth < 3 {
		var callee *ssa.Function
		var binds []ssa.Value
		switch f := cc.Value.(type) {
		case *ssa.Function:
			callee = f
		case *ssa.MakeClosure:
			callee, _ = f.Fn.(*ssa.Function)
			binds = f.Bindings
		default:
			// a local func variable assigned exactly one closure
			if u, ok := cc.Value.(*ssa.UnOp); ok {
				if al, ok := u.X.(*ssa.Alloc); ok {
					if stores, esc := b.storesTo(al, map[ssa.Value]bool{}); !esc && len(stores) == 1 {
						if mc, ok := stores[0].Val.(*ssa.MakeClosure); ok {
							callee, _ = mc.Fn.(*ssa.Function)
							binds = mc.Bindings
						}
					}
				}
			}
		}
		// only literals and unexported helpers: exported accessors are API and rules may name them
		isLocal := callee != nil && (callee.Parent() != nil || (callee.Object() != nil && !callee.Object().Exported()))
		if isLocal && !cc.IsInvoke() && callee.Pkg != nil && strings.HasPrefix(callee.Pkg.Pkg.Path(), modPath) && inlinable(callee) {
			env := map[ssa.Value]*X{}
			for i, p := range callee.Params {
				if i < len(cc.Args) {
					env[p] = sub(cc.Args[i])
				}
			}
			for i, fv := range callee.FreeVars {
				if i < len(binds) {
					env[fv] = sub(binds[i])
				}
			}
			ret := callee.Blocks[0].Instrs[len(callee.Blocks[0].Instrs)-1].(*ssa.Return)
			saved := b.env
			merged := map[ssa.Value]*X{}
			for k, val := range saved {
				merged[k] = val
			}
			for k, val := range env {
				merged[k] = val
			}
			b.env = merged
			b.inlDepth++
			var out *X
			if len(ret.Results) == 1 {
				out = b.expr(ret.Results[0], 1, map[ssa.Value]bool{})
			} else if len(ret.Results) > 1 {
				out = &X{Op: "tuple", V: v}
				for _, r := range ret.Results {
					out.Args = append(out.Args, b.expr(r, 1, map[ssa.Value]bool{}))
				}
			}
			b.inlDepth--
			b.env = saved
			if out != nil {
				return out
			}
		}
	}
	kind, name := b.calleeName(cc)
	x := &X{Op: kind, Name: name, V: v, Callee: cc.StaticCallee()}
	if kind == "invoke" || kind == "dyncall" {
		x.Args = append(x.Args, sub(cc.Value))
	}
	for _, a := range cc.Args {
		x.Args = append(x.Args, sub(a))
	}
	return x
}

// CallX builds the expression of any call instruction (call, go, defer).
func (c *Ctx) CallX(in ssa.CallInstruction) *X {
	onpath := map[ssa.Value]bool{}
	sub := func(w ssa.Value) *X { return c.xb.expr(w, 1, onpath) }
	x := c.xb.callExpr(in.Value(), in.Common(), sub)
	return x
}

// strip removes type assertions and single-edge phis.
func strip(x *X) *X {
	for x != nil {
		if x.Op == "assert" || x.Op == "deref" {
			x = x.Args[0]
			continue
		}
		if x.Op == "extract" && x.Name == "0" && x.Args[0].Op == "assert" {
			x = x.Args[0].Args[0]
			continue
		}
		break
	}
	return x
}

// Same reports whether two expressions denote the same value, as far as the
// structure shows: same SSA value, or structurally equal projections of the
// same roots. Calls are equal only if they are the same instruction, or are
// calls of a pure accessor (tabled) on the same arguments.
func Same(a, b *X) bool {
	a, b = strip(a), strip(b)
	if a == nil || b == nil {
		return false
	}
	if a == b {
		return true
	}
	if a.V != nil && a.V == b.V {
		return true
	}
	if a.Cell != nil && a.Cell == b.Cell && a.Op == b.Op && a.Op != "var" {
		return true
	}
	if a.Op != b.Op || a.Name != b.Name || len(a.Args) != len(b.Args) {
		return false
	}
	switch a.Op {
	case "param", "var", "alloc", "cut", "select", "other", "phi", "makeslice", "makemap", "makechan", "closure", "recv", "next", "range":
		return false // identity only
	case "call", "invoke", "dyncall":
		if !pureCallee[a.Name] {
			return false
		}
	case "const":
		return true
	case "nil":
		return true
	}
	for i := range a.Args {
		if !Same(a.Args[i], b.Args[i]) {
			return false
		}
	}
	return true
}

// pureCallee lists accessor functions whose result depends only on the
// arguments (confirmed by reading their source).
var pureCallee = map[string]bool{
	"(github.com/ipfs/go-cid.Cid).Hash":                 true,
	"(github.com/ipfs/go-cid.Cid).Prefix":               true,
	"(github.com/ipfs/go-cid.Cid).Bytes":                true,
	"(github.com/ipfs/go-cid.Cid).String":               true,
	"(github.com/libp2p/go-libp2p/core/peer.ID).String": true,
	"len":                true,
	"(time.Time).IsZero": true,
	"(github.com/ipld/go-ipld-prime/linking/cid.Link).String": true,
	"(github.com/multiformats/go-multicodec.Code).String":     true,
}

// Contains reports whether pred holds for x or any sub-expression.
func (x *X) Contains(pred func(*X) bool) bool {
	if x == nil {
		return false
	}
	if pred(x) {
		return true
	}
	for _, a := range x.Args {
		if a.Contains(pred) {
			return true
		}
	}
	return false
}

// Find returns the first sub-expression satisfying pred.
func (x *X) Find(pred func(*X) bool) *X {
	if x == nil {
		return nil
	}
	if pred(x) {
		return x
	}
	for _, a := range x.Args {
		if f := a.Find(pred); f != nil {
			return f
		}
	}
	return nil
}

// unwrapV strips representation-changing conversions from an SSA value.
func unwrapV(v ssa.Value) ssa.Value {
	for {
		switch w := v.(type) {
		case *ssa.ChangeType:
			v = w.X
		case *ssa.MakeInterface:
			v = w.X
		case *ssa.ChangeInterface:
			v = w.X
		case *ssa.Convert:
			v = w.X
		default:
			return v
		}
	}
}

// fieldWritten reports whether some field/element of the cell is stored to separately.
func fieldWritten(al *ssa.Alloc) bool {
	refs := al.Referrers()
	if refs == nil {
		return false
	}
	for _, r := range *refs {
		switch r := r.(type) {
		case *ssa.FieldAddr:
			if fr := r.Referrers(); fr != nil {
				for _, u := range *fr {
					if st, ok := u.(*ssa.Store); ok && st.Addr == r {
						return true
					}
				}
			}
		case *ssa.IndexAddr:
			if fr := r.Referrers(); fr != nil {
				for _, u := range *fr {
					if st, ok := u.(*ssa.Store); ok && st.Addr == r {
						return true
					}
				}
			}
		}
	}
	return false
}

// RetX returns the expression of result i of a return instruction, looking
// through the result cells go/ssa introduces in functions with defers (the
// value is stored to the cell in the same block, just before the return).
func (c *Ctx) RetX(ret *ssa.Return, i int) *X {
	if i >= len(ret.Results) {
		return nil
	}
	r := ret.Results[i]
	if u, ok := r.(*ssa.UnOp); ok && u.Op == token.MUL {
		if al, ok := u.X.(*ssa.Alloc); ok {
			b := ret.Block()
			for k := len(b.Instrs) - 1; k >= 0; k-- {
				if st, ok := b.Instrs[k].(*ssa.Store); ok && st.Addr == al {
					return c.E(st.Val)
				}
			}
		}
	}
	return c.E(r)
}

// ReachingStore resolves a multiply-assigned local cell at a use site: if
// exactly one store in the using function precedes the use on every path and
// every other store sits in a closure created only after the use, the stored
// value is returned; otherwise nil.
func (c *Ctx) ReachingStore(x *X, at ssa.Instruction) *X {
	if x == nil || x.Op != "var" {
		return nil
	}
	al, ok := x.V.(*ssa.Alloc)
	if !ok {
		return nil
	}
	stores, esc := c.xb.storesTo(al, map[ssa.Value]bool{})
	if esc {
		return nil
	}
	var pick *ssa.Store
	var local []*ssa.Store
	for _, st := range stores {
		if st.Parent() == at.Parent() {
			local = append(local, st)
			continue
		}
		// store inside a closure: its MakeClosure must not precede the use
		f := st.Parent()
		for f.Parent() != nil && f.Parent() != at.Parent() {
			f = f.Parent()
		}
		mc := c.xb.makeClosureOf(f)
		if mc == nil || mc.Parent() != at.Parent() || MayFollow(mc, at) {
			return nil
		}
	}
	// the last store that precedes the use on every path, with every other
	// store either always before it or only after the use
	for _, s := range local {
		if !Precedes(s, at) {
			continue
		}
		ok := true
		for _, t := range local {
			if t == s {
				continue
			}
			if Precedes(t, s) {
				continue
			}
			if !MayFollow(t, at) {
				continue // t can only run after the use
			}
			ok = false
		}
		if ok {
			pick = s
		}
	}
	if pick == nil {
		return nil
	}
	return c.E(pick.Val)
}

// CellFields returns the values stored into the fields of a struct cell
// (a local struct variable or literal), keyed by field name; the last store
// in block order wins. Works also when the cell's address escapes.
func (c *Ctx) CellFields(x *X) map[string]*X {
	var al *ssa.Alloc
	if a, ok := x.V.(*ssa.Alloc); ok {
		al = a
	} else if x.Cell != nil {
		al = x.Cell
	}
	out := map[string]*X{}
	if al == nil {
		// a pointer produced by a call (constructor) whose fields are then assigned
		if v, ok := x.V.(ssa.Value); ok && v != nil {
			if st, ok := deref(v.Type()).Underlying().(*types.Struct); ok {
				if _, isPtr := v.Type().Underlying().(*types.Pointer); isPtr {
					if refs := v.Referrers(); refs != nil {
						for _, r := range *refs {
							if fa, ok := r.(*ssa.FieldAddr); ok {
								if fr := fa.Referrers(); fr != nil {
									for _, u := range *fr {
										if s, ok := u.(*ssa.Store); ok && s.Addr == fa {
											out[canonField(st.Field(fa.Field))] = c.E(s.Val)
										}
									}
								}
							}
						}
					}
				}
			}
		}
		if x.Op == "complit" {
			for _, fi := range x.Args {
				out[fi.Name] = fi.Args[0]
			}
		}
		return out
	}
	st, ok := deref(al.Type()).Underlying().(*types.Struct)
	if !ok {
		return out
	}
	if refs := al.Referrers(); refs != nil {
		for _, r := range *refs {
			if fa, ok := r.(*ssa.FieldAddr); ok {
				if fr := fa.Referrers(); fr != nil {
					for _, u := range *fr {
						if s, ok := u.(*ssa.Store); ok && s.Addr == fa {
							out[canonField(st.Field(fa.Field))] = c.E(s.Val)
						}
					}
				}
			}
		}
	}
	return out
}

// callMayWriteField: may the call (which receives the struct pointer obj among
// its arguments) store into field number field of *obj? Decided for static
// callees with bodies by looking for such a store on the corresponding
// parameter in the callee, the closures it makes and the functions it hands
// the parameter on to (depth-bounded); anything else counts as "may".
func callMayWriteField(call ssa.CallInstruction, obj ssa.Value, field int, depth int) bool {
	callee := call.Common().StaticCallee()
	if callee == nil || len(callee.Blocks) == 0 || depth > 3 {
		return true
	}
	args := call.Common().Args
	off := 0
	if call.Common().IsInvoke() {
		return true
	}
	for i, a := range args {
		if a != obj {
			continue
		}
		if i+off >= len(callee.Params) {
			return true
		}
		if valueMayWriteField(callee.Params[i+off], field, depth) {
			return true
		}
	}
	return false
}

func valueMayWriteField(v ssa.Value, field int, depth int) bool {
	refs := v.Referrers()
	if refs == nil {
		return false
	}
	for _, r := range *refs {
		switch r := r.(type) {
		case *ssa.FieldAddr:
			if r.Field != field || r.Referrers() == nil {
				continue
			}
			for _, w := range *r.Referrers() {
				switch w := w.(type) {
				case *ssa.Store:
					if w.Addr == ssa.Value(r) {
						return true
					}
				case *ssa.UnOp:
				default:
					return true // address of the field escapes
				}
			}
		case *ssa.Store:
			if r.Val == v {
				// spilled to a local cell (a captured or address-taken parameter): follow the cell's loads
				if al, ok := r.Addr.(*ssa.Alloc); ok && al.Referrers() != nil {
					for _, lr := range *al.Referrers() {
						switch lr := lr.(type) {
						case *ssa.UnOp:
							if valueMayWriteField(lr, field, depth) {
								return true
							}
						case *ssa.MakeClosure:
							if fn, ok := lr.Fn.(*ssa.Function); ok {
								for bi, bnd := range lr.Bindings {
									if bnd == ssa.Value(al) && bi < len(fn.FreeVars) {
										if fvr := fn.FreeVars[bi].Referrers(); fvr != nil {
											for _, l2 := range *fvr {
												if ld, ok := l2.(*ssa.UnOp); ok {
													if valueMayWriteField(ld, field, depth) {
														return true
													}
												} else if _, isSt := l2.(*ssa.Store); isSt {
													// the captured variable is reassigned: not a write to the struct
												} else {
													return true
												}
											}
										}
									}
								}
							}
						case *ssa.Store:
						default:
							return true
						}
					}
					continue
				}
				return true
			}
		case ssa.CallInstruction:
			if callMayWriteField(r, v, field, depth+1) {
				return true
			}
		case *ssa.UnOp, *ssa.DebugRef, *ssa.BinOp, *ssa.If:
		case *ssa.MakeClosure:
			if fn, ok := r.Fn.(*ssa.Function); ok {
				for bi, bnd := range r.Bindings {
					if bnd == v && bi < len(fn.FreeVars) {
						if valueMayWriteField(fn.FreeVars[bi], field, depth) {
							return true
						}
					}
				}
			}
		default:
			return true
		}
	}
	return false
}

func canonFieldName(al *ssa.Alloc, field int) string {
	if st, ok := deref(al.Type()).Underlying().(*types.Struct); ok && field < st.NumFields() {
		return canonField(st.Field(field))
	}
	return "?"
}

// reachingFieldStores: the stores (to one field of a local struct) that can be
// the last one executed before load u, in source order; zero reports that u
// can also be reached without any of them.
func reachingFieldStores(stores []*ssa.Store, u ssa.Instruction) (reach []*ssa.Store, zero bool) {
	isStore := map[ssa.Instruction]*ssa.Store{}
	for _, st := range stores {
		isStore[st] = st
	}
	lastIn := func(b *ssa.BasicBlock, before ssa.Instruction) *ssa.Store {
		var last *ssa.Store
		for _, in := range b.Instrs {
			if in == before {
				break
			}
			if st, ok := isStore[in]; ok {
				last = st
			}
		}
		return last
	}
	got := map[*ssa.Store]bool{}
	seen := map[*ssa.BasicBlock]bool{}
	var back func(b *ssa.BasicBlock)
	back = func(b *ssa.BasicBlock) {
		if seen[b] {
			return
		}
		seen[b] = true
		if st := lastIn(b, nil); st != nil {
			got[st] = true
			return
		}
		if len(b.Preds) == 0 {
			zero = true
			return
		}
		for _, p := range b.Preds {
			back(p)
		}
	}
	ub := u.Block()
	if st := lastIn(ub, u); st != nil {
		return []*ssa.Store{st}, false
	}
	if len(ub.Preds) == 0 {
		return nil, true
	}
	for _, p := range ub.Preds {
		back(p)
	}
	for _, st := range stores {
		if got[st] {
			reach = append(reach, st)
		}
	}
	sort.Slice(reach, func(i, j int) bool { return reach[i].Pos() < reach[j].Pos() })
	return reach, zero
}

// mergedFieldStores: several stores to one field of a local struct (a literal's
// initialiser and a later assignment on some path): the stores that reach
// instruction at; one → its value, several → their merge — the same node for
// the same set of stores, so that two reads at points the same stores reach
// are recognised as the same value. nil when at can be reached without any.
func (b *xbuilder) mergedFieldStores(al *ssa.Alloc, field int, stores []*ssa.Store, at ssa.Instruction, sub func(ssa.Value) *X) *X {
	reach, zero := reachingFieldStores(stores, at)
	if len(reach) == 0 {
		return nil
	}
	for _, st := range stores {
		if MayFollow(at, st) {
			return nil // a field updated round a loop: left as a field read
		}
	}
	if len(reach) == 1 && !zero {
		x := sub(reach[0].Val)
		y := *x
		return &y
	}
	key := fmt.Sprintf("%p/%d/%v", al, field, zero)
	for _, st := range reach {
		key += fmt.Sprintf("/%d", st.Pos())
	}
	if b.fieldMerge == nil {
		b.fieldMerge = map[string]*X{}
	}
	if m, ok := b.fieldMerge[key]; ok {
		return m
	}
	m := &X{Op: "phi", Name: "field:" + canonFieldName(al, field)}
	if zero {
		// also reachable with the field never assigned: its zero value
		m.Args = append(m.Args, &X{Op: "const", Name: "zero:" + b.short(reach[0].Val.Type().String())})
	}
	for _, st := range reach {
		m.Args = append(m.Args, sub(st.Val))
	}
	b.fieldMerge[key] = m
	return m
}
