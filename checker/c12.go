package main

import (
	"fmt"
	"strconv"
	"go/token"
	"go/types"
	"sort"
	"strings"

	"golang.org/x/tools/go/ssa"
)

func init() {
	register(&propSpec{
		id:  "C12",
		run: runC12,
		explanation: "Structural necessary conditions of 'double-hash encryption round-trips, is deterministic, and fails closed', decided on SSA of package dhash and the reader-privacy find client: " +
			"(D1) every slice of a caller-supplied byte string at the nonce length is dominated by a length test on that same parameter (DecryptValueKey lacked it; fixed in 0a38fce); " +
			"(D2) determinism: the package imports no randomness or clock, and the nonce given to Seal is the nonce-length prefix of SHA-256 over (nonce prefix, payload length, payload, passphrase); " +
			"(D3) errors of cipher construction and of Open are returned to the caller, never dropped; " +
			"(D4) sibling agreement of the two directions: both derive the key with the same function from the whole passphrase, Seal and Open are given a nil destination (no aliasing of the caller's ciphertext/plaintext), the encryptors return nonce‖ciphertext and the decryptors split at the same nonce length; " +
			"(D5) the find client decrypts value keys with the queried multihash, looks metadata up by the hash of the value key, decrypts it with the value key, and uses each decrypted value only on the err == nil edge; the index is queried with the second hash of the multihash; " +
			"(D6) a value key is built as peer-ID bytes followed by the context ID and split at the length of the leading multihash. " +
			"Round trip and tamper detection themselves rest on AES-GCM and are not decided.",
		assumptions: []string{"crypto/aes, crypto/cipher GCM and crypto/sha256 are correct", "multihash.MHFromBytes returns the length of the leading multihash"},
	})
}

const dhashPkg = "dhash"

func runC12(c *Ctx) {
	c.Trust("go/ssa", "crypto/aes", "crypto/cipher", "crypto/sha256", "go-multihash")
	p := c.pkg(dhashPkg)
	if p == nil {
		c.Unk("C12.D1-slice-bounded", "dhash", token.NoPos, "package not found")
		return
	}
	nonceLen, okN := c.ConstString(modPath+"/"+dhashPkg, "nonceLen")
	if !okN {
		c.Unk("C12.D1-slice-bounded", "dhash.nonceLen", token.NoPos, "nonce length constant not found")
		return
	}
	// ---- D1 ------------------------------------------------------------------------------
	for _, f := range c.Funcs(dhashPkg) {
		instrs(f.SSA, func(in ssa.Instruction) {
			sl, ok := in.(*ssa.Slice)
			if !ok {
				return
			}
			x := c.E(sl.X)
			if strip(x).Op != "param" {
				return
			}
			lo, hi := "", ""
			if sl.Low != nil {
				lo = c.E(sl.Low).String()
			}
			if sl.High != nil {
				hi = c.E(sl.High).String()
			}
			if lo != nonceLen && hi != nonceLen {
				// slicing at a computed offset: must be bounded by a length derived from the same value (D6)
				return
			}
			key := f.Name + " › " + strip(x).Name + "[" + lo + ":" + hi + "]"
			_, g := c.Guarded(sl, Op("binop", "<=", Op("builtin", "len", Is(x)), Const(nonceLen)), false)
			if !g {
				_, g = c.Guarded(sl, Op("binop", "<", Op("builtin", "len", Is(x)), Const(nonceLen)), false)
			}
			if !g {
				// a stricter test is fine as long as it lets every real ciphertext through: the shortest one is the nonce
				// plus the 16-byte AES-GCM tag (the encryption of an empty payload)
				nl, _ := strconv.Atoi(nonceLen)
				for _, fct := range c.FactsAt(sl.Block()) {
					if fct.Val || fct.Cond.Op != "binop" || len(fct.Cond.Args) != 2 {
						continue
					}
					if _, isLen := Match(Op("builtin", "len", Is(x)), fct.Cond.Args[0]); !isLen || fct.Cond.Args[1].Op != "const" {
						continue
					}
					k, err := strconv.Atoi(fct.Cond.Args[1].Name)
					if err != nil {
						continue
					}
					if (fct.Cond.Name == "<" && k >= nl && k <= nl+16) || (fct.Cond.Name == "<=" && k >= nl && k < nl+16) {
						g = true
					}
				}
			}
			c.Check(g, "C12.D1-slice-bounded", key, sl.Pos(), "slice at the nonce length dominated by a length test on the same parameter", "caller-supplied bytes are sliced at the nonce length without a length test — or under one that also turns away real ciphertexts (the shortest is nonce + 16-byte tag): truncated input panics, or an empty payload no longer decrypts")
		})
	}
	c.Floor("C12.D1-slice-bounded", 2) // (the two decryptors may share one splitting helper)
	// …and a length test against the cipher's overhead lets a payload of exactly that length through: it is the
	// encryption of the empty payload
	for _, f := range c.Funcs(dhashPkg) {
		instrs(f.SSA, func(in ssa.Instruction) {
			iff, ok := in.(*ssa.If)
			if !ok {
				return
			}
			cx := c.E(iff.Cond)
			if cx.Op != "binop" || len(cx.Args) != 2 {
				return
			}
			isLen := func(y *X) bool { y = strip(y); return y != nil && y.Op == "builtin" && y.Name == "len" }
			isOv := func(y *X) bool {
				y = strip(y)
				return y != nil && (y.Op == "invoke" || y.Op == "call") && strings.HasSuffix(y.Name, "Overhead")
			}
			l, r := cx.Args[0], cx.Args[1]
			if !((isLen(l) && isOv(r)) || (isOv(l) && isLen(r))) {
				return
			}
			// which edge fails? the one leading to a return with a non-nil error
			rejectsEqual := false
			for i, succ := range iff.Block().Succs {
				ret, isRet := succ.Instrs[len(succ.Instrs)-1].(*ssa.Return)
				if !isRet || len(ret.Results) == 0 || c.RetX(ret, len(ret.Results)-1).Op == "nil" {
					continue
				}
				onTrue := i == 0
				op := cx.Name
				if isOv(l) { // overhead OP len: mirror
					op = map[string]string{"<": ">", ">": "<", "<=": ">=", ">=": "<=", "==": "==", "!=": "!="}[op]
				}
				// fails when (len OP overhead) == onTrue; does len == overhead fail?
				eq := map[string]bool{"<": false, ">": false, "<=": true, ">=": true, "==": true, "!=": false}[op]
				if eq == onTrue {
					rejectsEqual = true
				}
			}
			c.Check(!rejectsEqual, "C12.D1-slice-bounded", f.Name+" › tag-length test lets the empty payload through", iff.Pos(), "a ciphertext of exactly the tag length is handed to Open", "a ciphertext whose length equals the cipher's overhead (the encryption of an empty payload) is rejected before Open: the empty payload no longer round-trips")
		})
	}

	// ---- D2 determinism ------------------------------------------------------------------------
	badImp := ""
	for path := range p.Imports {
		if path == "crypto/rand" || path == "math/rand" || path == "math/rand/v2" || path == "time" {
			badImp = path
		}
	}
	c.Check(badImp == "", "C12.D2-deterministic", "dhash › imports", token.NoPos, "package imports no source of randomness or time", "package dhash imports "+badImp+": encryption of equal inputs can differ")
	enc := c.Func(dhashPkg, "EncryptAES")
	dec := c.Func(dhashPkg, "DecryptAES")
	if enc == nil || dec == nil {
		c.Unk("C12.D2-deterministic", "dhash.EncryptAES/DecryptAES", token.NoPos, "not found")
		return
	}
	seals := c.Calls(enc.SSA, Invoke("crypto/cipher.AEAD.Seal"))
	if len(seals) != 1 {
		c.Bad("C12.D2-deterministic", enc.Name+" › Seal", enc.SSA.Pos(), "expected exactly one AEAD.Seal call")
		return
	}
	seal := seals[0]
	payloadP, passP := enc.SSA.Params[0].Name(), enc.SSA.Params[1].Name()
	nonce := seal.X.Args[2]
	nb, okNonce := Match(Op("slice", "", BindP("h", c.RoleCall("dhash.multi")), Any(), Const(nonceLen)), nonce)
	if okNonce {
		// variadic payloads: prefix, length, payload, passphrase — collect the stored elements
		elems := variadicElems(c, nb["h"].Args[1])
		okNonce = len(elems) == 4
		if okNonce {
			_, a := Match(Op("global", "dhash.noncePrefix"), elems[0])
			lenOK := elems[1].Op == "makeslice" || strings.Contains(elems[1].String(), "makeslice")
			_, pl := Match(Op("param", payloadP), elems[2])
			_, ps := Match(Op("param", passP), elems[3])
			okNonce = a && lenOK && pl && ps
		}
		// the length bytes are PutUint64(len(payload))
		puts := c.Calls(enc.SSA, Call("littleEndian).PutUint64", Any(), Any(), Op("builtin", "len", Op("param", payloadP))))
		okNonce = okNonce && len(puts) == 1
	}
	if !okNonce {
		// the same through sha256.Sum256 over the joined pieces: sum := Sum256(Concat(prefix, length, payload, passphrase)); sum[:nonceLen]
		if m, isSl := Match(Op("slice", "", Bind("d"), Any(), Const(nonceLen)), nonce); isSl && m["d"].Op == "alloc" {
			whole := &X{Op: "slice", Args: []*X{m["d"], {Op: "nil"}, {Op: "nil"}, {Op: "nil"}}, V: nonce.V}
			if ps := sha256Pieces(c, whole); len(ps) == 4 {
				_, a := Match(Op("global", "dhash.noncePrefix"), ps[0])
				_, l1 := Match(Call("littleEndian).AppendUint64", Any(), Op("nil", ""), Op("builtin", "len", Op("param", payloadP))), ps[1])
				if !l1 {
					l1 = strip(ps[1]) != nil && strip(ps[1]).Op == "call" && nameMatches(strip(ps[1]).Name, "littleEndian).AppendUint64") && strip(ps[1]).Contains(func(y *X) bool {
						_, m := Match(Op("builtin", "len", Op("param", payloadP)), y)
						return m
					})
				}
				_, pl := Match(Op("param", payloadP), ps[2])
				_, pp := Match(Op("param", passP), ps[3])
				okNonce = a && l1 && pl && pp
			}
		}
	}
	c.Check(okNonce, "C12.D2-deterministic", enc.Name+" › nonce", seal.In.Pos(), "nonce = SHA-256(nonce prefix, len(payload), payload, passphrase)[:nonceLen]", "nonce is not derived from exactly (prefix, payload length, payload, passphrase): equal inputs can encrypt differently, or different inputs share a nonce")
	_, okRet := Match(Is(nonce), firstRet(c, enc, 0))
	c.Check(okRet, "C12.D2-deterministic", enc.Name+" › returns the nonce used", enc.SSA.Pos(), "the nonce returned is the one given to Seal", "returned nonce differs from the one used")
	c.Floor("C12.D2-deterministic", 3)
	// salts are package-level slices that every call appends its input to (append(prefix, mh...)). That is only
	// free of cross-talk between calls if the slice has no spare capacity: with room behind it, append writes the
	// caller's bytes into the shared backing array (concurrent calls hash each other's input)
	if sp := c.SSAPkgs[modPath+"/"+dhashPkg]; sp != nil {
		var spare func(x *X, d int) string
		spare = func(x *X, d int) string {
			x = strip(x)
			if x == nil || d > 3 {
				return ""
			}
			if mk, ok := x.V.(*ssa.MakeSlice); ok {
				l, k := c.E(mk.Len), c.E(mk.Cap)
				if mk.Len != mk.Cap && !(l.Op == "const" && k.Op == "const" && l.Name == k.Name) {
					return "make with capacity " + abbreviate(k.String()) + " beyond length " + abbreviate(l.String())
				}
				return ""
			}
			if sl, ok := x.V.(*ssa.Slice); ok && sl.Max == nil {
				// make with constant sizes: a fresh array sliced below its length
				if al, ok := sl.X.(*ssa.Alloc); ok {
					if at, ok := deref(al.Type()).Underlying().(*types.Array); ok && sl.High != nil {
						if h, ok := constInt(c.E(sl.High)); ok && h < at.Len() {
							return "a slice of length " + itoa(int(h)) + " over a fresh array of " + itoa(int(at.Len()))
						}
					}
				}
			}
			if x.Op == "phi" {
				for _, a := range x.Args {
					if w := spare(a, d+1); w != "" {
						return w
					}
				}
			}
			if x.Op == "call" && x.Callee != nil && x.Callee.Pkg == sp && len(x.Callee.Blocks) > 0 {
				for _, b := range x.Callee.Blocks {
					if ret, ok := b.Instrs[len(b.Instrs)-1].(*ssa.Return); ok && len(ret.Results) > 0 {
						if w := spare(c.RetX(ret, 0), d+1); w != "" {
							return w + " (returned by " + c.short(x.Callee.String()) + ")"
						}
					}
				}
			}
			return ""
		}
		appended := map[*ssa.Global]token.Pos{}
		for _, f := range c.Funcs(dhashPkg) {
			instrsDeep(f.SSA, func(_ *ssa.Function, in ssa.Instruction) {
				ci, ok := in.(*ssa.Call)
				if !ok {
					return
				}
				if b, isB := ci.Call.Value.(*ssa.Builtin); !isB || b.Name() != "append" || len(ci.Call.Args) == 0 {
					return
				}
				if u, ok := ci.Call.Args[0].(*ssa.UnOp); ok {
					if g, ok := u.X.(*ssa.Global); ok && g.Pkg == sp {
						if _, seen := appended[g]; !seen {
							appended[g] = ci.Pos()
						}
					}
				}
			})
		}
		var gs []*ssa.Global
		for g := range appended {
			gs = append(gs, g)
		}
		// the package's other byte-slice variables are salts nothing is appended to: nothing is ever written behind them
		for _, m := range sp.Members {
			if g, ok := m.(*ssa.Global); ok {
				if sl, isSl := deref(g.Type()).Underlying().(*types.Slice); isSl && types.Identical(sl.Elem(), types.Typ[types.Byte]) {
					if _, app := appended[g]; !app {
						c.OK("C12.D2-shared-salt", c.short(g.String())+" › appended to without spare capacity", g.Pos(), "the shared salt is never the first argument of an append: no call can write into memory it shares")
					}
				}
			}
		}
		sort.Slice(gs, func(i, j int) bool { return gs[i].Name() < gs[j].Name() })
		for _, g := range gs {
			why := ""
			for _, m := range sp.Members {
				fn, ok := m.(*ssa.Function)
				if !ok {
					continue
				}
				instrsDeep(fn, func(_ *ssa.Function, in ssa.Instruction) {
					if st, ok := in.(*ssa.Store); ok && st.Addr == ssa.Value(g) {
						if w := spare(c.E(st.Val), 0); w != "" {
							why = w
						}
					}
				})
			}
			c.Check(why == "", "C12.D2-shared-salt", c.short(g.String())+" › appended to without spare capacity", appended[g],
				"the shared salt is never given room behind its contents", "the shared salt is built by "+why+": append(salt, input...) then writes every caller's input into the same backing array; concurrent (or interleaved) calls hash, derive keys from and encrypt with each other's input")
		}
	}
	c.Floor("C12.D2-shared-salt", 2)

	// ---- D3 errors ---------------------------------------------------------------------------------
	for _, f := range []*Fn{enc, dec} {
		for _, pat := range []struct {
			p    P
			what string
		}{{Call("crypto/aes.NewCipher"), "NewCipher"}, {Call("crypto/cipher.NewGCM"), "NewGCM"}, {Invoke("crypto/cipher.AEAD.Open"), "Open"}} {
			// the call may sit in a shared construction helper: then its error must be returned by the helper and
			// the helper's error by the caller
			for _, st := range c.CallsInl(f.SSA, pat.p, 2) {
				h := c.ErrPropagates(st.CallSite)
				ok := h.Kind == "returned-directly" || h.Kind == "checked-return"
				for _, via := range st.Via {
					hv := c.ErrPropagates(CallSite{In: via, Fn: via.Parent(), X: c.CallX(via)})
					if hv.Kind != "returned-directly" && hv.Kind != "checked-return" {
						ok = false
						h = hv
					}
				}
				c.Check(ok, "C12.D3-errors-returned", f.Name+" › "+pat.what, st.In.Pos(), h.Why, "error of "+pat.what+" is "+h.Kind+": "+h.Why)
			}
		}
	}
	c.Floor("C12.D3-errors-returned", 5)

	// ---- D4 sibling agreement --------------------------------------------------------------------------
	opens := c.Calls(dec.SSA, Invoke("crypto/cipher.AEAD.Open"))
	if len(opens) != 1 {
		c.Bad("C12.D4-directions-agree", dec.Name+" › Open", dec.SSA.Pos(), "expected exactly one AEAD.Open call")
	} else {
		open := opens[0]
		c.Check(open.X.Args[1].Op == "nil", "C12.D4-directions-agree", dec.Name+" › Open destination", open.In.Pos(), "Open writes into a fresh buffer (dst == nil)", "Open is given a destination aliasing caller memory: decrypting overwrites the stored ciphertext")
		c.Check(seal.X.Args[1].Op == "nil", "C12.D4-directions-agree", enc.Name+" › Seal destination", seal.In.Pos(), "Seal writes into a fresh buffer (dst == nil)", "Seal is given a destination aliasing caller memory")
		_, n1 := Match(Op("param", dec.SSA.Params[0].Name()), open.X.Args[2])
		_, n2 := Match(Op("param", dec.SSA.Params[1].Name()), open.X.Args[3])
		c.Check(n1 && n2 && open.X.Args[4].Op == "nil" && seal.X.Args[4].Op == "nil", "C12.D4-directions-agree", "EncryptAES ≍ DecryptAES › operands", open.In.Pos(), "Open(nonce, payload) mirrors Seal(nonce, payload), no additional data on either side", "Seal and Open disagree on nonce/payload/additional data")
	}
	// key derivation: same function on the passphrase parameter, hashing the whole passphrase
	kd := c.RoleFn("dhash.derive")
	if kd == nil {
		c.Unk("C12.D4-directions-agree", "dhash.deriveKey", token.NoPos, "not found")
	} else {
		for _, f := range []*Fn{enc, dec} {
			nc := c.CallsInl(f.SSA, Call("crypto/aes.NewCipher"), 2) // also through a shared cipher-construction helper
			ok := len(nc) == 1
			if ok {
				pass := f.SSA.Params[len(f.SSA.Params)-1].Name()
				_, ok = Match(c.RoleCall("dhash.derive", Op("param", pass)), nc[0].X.Args[0])
			}
			c.Check(ok, "C12.D4-directions-agree", f.Name+" › key", f.SSA.Pos(), "AES key = deriveKey(passphrase parameter)", "cipher key is not deriveKey(passphrase)")
		}
		okKD := false
		for _, b := range kd.SSA.Blocks {
			if ret, isRet := b.Instrs[len(b.Instrs)-1].(*ssa.Return); isRet {
				x := c.RetX(ret, 0)
				pp := Op("param", kd.SSA.Params[0].Name())
				whole := Or(
					Call("dhash.SHA256", Op("builtin", "append", Op("global", "dhash.deriveKeyPrefix"), pp)),
					c.RoleCall("dhash.multi", Any(), Somewhere(pp)),
				)
				_, okKD = Match(whole, x)
				if ps := sha256Pieces(c, x); !okKD && len(ps) == 2 {
					_, p0 := Match(Op("global", "dhash.deriveKeyPrefix"), ps[0])
					_, p1 := Match(pp, ps[1])
					okKD = p0 && p1
				}
			}
		}
		c.Check(okKD, "C12.D4-directions-agree", kd.Name+" › hashes the whole passphrase", kd.SSA.Pos(), "key = SHA-256(key prefix ‖ entire passphrase)", "key derivation does not hash (prefix ‖ the whole passphrase): distinct passphrases can derive the same key")
	}
	// concat / split at the same offset
	for _, pair := range [][2]string{{"EncryptValueKey", "DecryptValueKey"}, {"EncryptMetadata", "DecryptMetadata"}} {
		e, d := c.Func(dhashPkg, pair[0]), c.Func(dhashPkg, pair[1])
		if e == nil || d == nil {
			c.Unk("C12.D4-directions-agree", "dhash."+pair[0]+"/"+pair[1], token.NoPos, "not found")
			continue
		}
		okE := false
		for _, b := range e.SSA.Blocks {
			ret, isRet := b.Instrs[len(b.Instrs)-1].(*ssa.Return)
			if !isRet {
				continue
			}
			var leaves []Leaf
			if c.RetX(ret, 1).Op == "nil" {
				// (directly, or through a sealing helper shared by the encryptors: every value it can return)
				leaves = c.LeavesF(c.RetX(ret, 0), ret)
			} else if h0, i0 := helperCall(c.RetX(ret, 0)); h0 != nil && i0 == 0 {
				// 'return seal(x, k)': the helper's own success returns
				if h1, i1 := helperCall(c.RetX(ret, 1)); h1 != nil && h1.V == h0.V && i1 == 1 {
					vals, errs := c.RetAlts(c.RetX(ret, 0)), c.RetAlts(c.RetX(ret, 1))
					for k := range vals {
						if k < len(errs) && strip(errs[k].Val) != nil && strip(errs[k].Val).Op == "nil" {
							for _, l := range c.LeavesF(vals[k].Val, nil) {
								leaves = append(leaves, Leaf{Val: l.Val, Facts: append(append([]Fact{}, vals[k].Facts...), l.Facts...)})
							}
						}
					}
				}
			}
			if len(leaves) > 0 {
				okE = true
				for _, l := range leaves {
					m, ok := Match(Op("builtin", "append", Extract("0", BindP("call", Call("dhash.EncryptAES"))), Extract("1", Bind("call2"))), l.Val)
					okL := ok && m["call"].V == m["call2"].V
					if okL {
						okL = false
						for _, fct := range append(append([]Fact{}, l.Facts...), c.FactsAt(b)...) {
							if _, g := Match(EqNil(Extract("2", Is(m["call"]))), fct.Cond); g && fct.Val {
								okL = true
							}
						}
					}
					if !okL {
						okE = false
					}
				}
			}
		}
		okD := false
		// (the split may be done by a helper that also checks the length: its one non-nil result is the value)
		through := func(x *X) *X {
			if h, _ := helperCall(x); h == nil {
				return x
			}
			var vals []*X
			for _, a := range c.RetAlts(x) {
				if v := strip(a.Val); v != nil && v.Op != "nil" {
					vals = append(vals, a.Val)
				}
			}
			if len(vals) == 1 {
				return vals[0]
			}
			return x
		}
		for _, cs := range c.CallsInl(d.SSA, Call("dhash.DecryptAES"), 2) {
			in := Op("param", d.SSA.Params[0].Name())
			_, a := Match(Op("slice", "", in, Op("nil", ""), Const(nonceLen)), through(cs.X.Args[0]))
			_, b := Match(Op("slice", "", in, Const(nonceLen), Op("nil", "")), through(cs.X.Args[1]))
			_, k := Match(Op("param", d.SSA.Params[1].Name()), cs.X.Args[2])
			okD = a && b && k
		}
		c.Check(okE && okD, "C12.D4-directions-agree", "dhash."+pair[0]+" ≍ "+pair[1], e.SSA.Pos(), "encryptor returns nonce ‖ ciphertext; decryptor splits input[:nonceLen] / input[nonceLen:] and uses its key argument", "encryptor/decryptor do not agree on the nonce‖ciphertext layout")
	}
	c.Floor("C12.D4-directions-agree", 8)

	// ---- D5 find client -----------------------------------------------------------------------------------
	c12Client(c)
	// ---- D6 value key ------------------------------------------------------------------------------------------
	c12ValueKey(c)
}

func firstRet(c *Ctx, f *Fn, i int) *X {
	for _, b := range f.SSA.Blocks {
		if ret, ok := b.Instrs[len(b.Instrs)-1].(*ssa.Return); ok {
			last := c.RetX(ret, len(ret.Results)-1)
			if last.Op == "nil" {
				return c.RetX(ret, i)
			}
		}
	}
	return &X{Op: "nil"}
}

// variadicElems returns the values stored into the backing array of a variadic argument slice.
// sha256Pieces lists, in order, the byte strings a SHA-256 helper call of
// package dhash hashes: SHA256(append(a, b...), dest) and
// sha256Multiple(dest, a, b) both give [a, b]. nil if x is neither.
func sha256Pieces(c *Ctx, x *X) []*X {
	return sha256PiecesD(c, x, nil, 0)
}

func sha256PiecesD(c *Ctx, x *X, env map[ssa.Value]*X, depth int) []*X {
	x = strip(x)
	var flat func(y *X) []*X
	flat = func(y *X) []*X {
		y = strip(y)
		if y.Op == "builtin" && y.Name == "append" && len(y.Args) == 2 {
			if es := variadicElems(c, y.Args[1]); es != nil {
				return nil // appends single bytes, not a byte string
			}
			head := flat(y.Args[0])
			if head == nil {
				return nil
			}
			return append(head, y.Args[1])
		}
		// slices.Concat(a, b, …): the pieces in order
		if y.Op == "call" && strings.HasPrefix(y.Name, "slices.Concat[") && len(y.Args) == 1 {
			if es := variadicElems(c, y.Args[0]); len(es) > 0 {
				var out []*X
				for _, e := range es {
					sub := flat(e)
					if sub == nil {
						return nil
					}
					out = append(out, sub...)
				}
				return out
			}
		}
		// scratch[:0]: the empty head of an append chain (longer input spills to the heap)
		if y.Op == "slice" && len(y.Args) == 4 && y.Args[0].Op == "alloc" && y.Args[2] != nil && y.Args[2].Op == "const" && y.Args[2].Name == "0" {
			return []*X{}
		}
		return []*X{y}
	}
	if b, ok := Match(Call("dhash.SHA256", Bind("in")), x); ok {
		return flat(b["in"])
	}
	// sum := sha256.Sum256(in); sum[:]
	if x.Op == "slice" && len(x.Args) == 4 && x.Args[1].Op == "nil" && x.Args[2].Op == "nil" {
		if al, ok := x.Args[0].V.(*ssa.Alloc); ok && al.Referrers() != nil {
			var in *X
			n := 0
			for _, r := range *al.Referrers() {
				if st, ok := r.(*ssa.Store); ok && st.Addr == ssa.Value(al) {
					n++
					if m, ok := Match(Call("crypto/sha256.Sum256", Bind("in")), subst(c.E(st.Val), env)); ok {
						in = m["in"]
					}
				}
			}
			if n == 1 && in != nil {
				return flat(in)
			}
		}
	}
	// a helper of the package that returns the digest of what it is handed
	if call, ok := x.V.(*ssa.Call); ok && x.Op == "call" && depth < 3 {
		if callee := call.Call.StaticCallee(); callee != nil && samePkgBody(call.Parent(), callee) && callee.Signature.Results().Len() == 1 {
			var rets []*ssa.Return
			for _, b := range callee.Blocks {
				if r, ok := b.Instrs[len(b.Instrs)-1].(*ssa.Return); ok && b.Comment != "recover" {
					rets = append(rets, r)
				}
			}
			if len(rets) == 1 {
				cenv := c.callEnv(call, callee, env)
				if ps := sha256PiecesD(c, subst(c.RetX(rets[0], 0), cenv), cenv, depth+1); ps != nil {
					return ps
				}
			}
		}
	}
	if b, ok := Match(c.RoleCall("dhash.multi", Any(), Bind("ps")), x); ok {
		return variadicElems(c, b["ps"])
	}
	return nil
}

func variadicElems(c *Ctx, sliceX *X) []*X {
	sl, ok := sliceX.V.(*ssa.Slice)
	if !ok {
		return nil
	}
	al, ok := sl.X.(*ssa.Alloc)
	if !ok {
		return nil
	}
	byIdx := map[string]*X{}
	if refs := al.Referrers(); refs != nil {
		for _, r := range *refs {
			if ia, ok := r.(*ssa.IndexAddr); ok {
				idx := c.E(ia.Index).String()
				if ir := ia.Referrers(); ir != nil {
					for _, u := range *ir {
						if st, ok := u.(*ssa.Store); ok {
							byIdx[idx] = c.E(st.Val)
						}
					}
				}
			}
		}
	}
	var out []*X
	for i := 0; ; i++ {
		v, ok := byIdx[itoa(i)]
		if !ok {
			break
		}
		out = append(out, v)
	}
	return out
}

func c12Client(c *Ctx) {
	const cl = "find/client"
	f := c.Func(cl, "DHashClient.FindAsync")
	if f == nil {
		c.Unk("C12.D5-client-workflow", "find/client.(*DHashClient).FindAsync", token.NoPos, "not found")
		return
	}
	mh := Op("param", f.SSA.Params[2].Name())
	key := f.Name
	fmh := c.Calls(f.SSA, Invoke("DHStoreAPI.FindMultihash", Any(), Any(), Call("dhash.SecondMultihash", mh)))
	c.Check(len(fmh) == 1, "C12.D5-client-workflow", key+" › index queried with the second hash", f.SSA.Pos(), "FindMultihash(SecondMultihash(mh))", "the index is not queried with the second hash of the requested multihash")
	dvk := c.Calls(f.SSA, Call("dhash.DecryptValueKey", Any(), mh))
	if len(dvk) == 0 {
		// the per-value-key work is a step helper of FindAsync (its loop body): the workflow is followed there, the
		// helper's multihash parameter standing for the queried one it is handed
		for _, st := range c.CallsInl(f.SSA, Call("dhash.DecryptValueKey"), 2) {
			h := topFunc(st.In.Parent())
			if len(st.Via) != 1 || h == f.SSA {
				continue
			}
			if sites, known := c.staticCallSites(h); !known || len(sites) != 1 || topFunc(sites[0].Parent()) != f.SSA {
				continue
			}
			obj, _ := h.Object().(*types.Func)
			hf := c.fnOf(obj)
			outer := st.Via[0]
			if hf == nil {
				continue
			}
			for i, a := range outer.Common().Args {
				if a == ssa.Value(f.SSA.Params[2]) && i < len(h.Params) {
					f, mh = hf, Op("param", h.Params[i].Name())
					dvk = c.Calls(f.SSA, Call("dhash.DecryptValueKey", Any(), mh))
				}
			}
		}
	}
	if len(dvk) != 1 {
		c.Bad("C12.D5-client-workflow", key+" › value key decrypted with the queried multihash", f.SSA.Pos(), "DecryptValueKey is not called with the queried multihash as passphrase")
		return
	}
	vk, vkErr := c.Result(dvk[0], 0), c.Result(dvk[0], 1)
	split := c.Calls(f.SSA, Call("dhash.SplitValueKey", Is(vk)))
	okSplit := len(split) == 1
	if okSplit {
		_, okSplit = c.Guarded(split[0].In, EqNil(Is(vkErr)), true)
	}
	c.Check(okSplit, "C12.D5-client-workflow", key+" › split only a successfully decrypted key", f.SSA.Pos(), "SplitValueKey(vk) on DecryptValueKey err == nil", "a value key is used although its decryption failed")
	if !okSplit {
		return
	}
	pid, ctxID, spErr := c.Result(split[0], 0), c.Result(split[0], 1), c.Result(split[0], 2)
	// the metadata step — look the value key's hash up, decrypt the answer with the value key — either inline or in
	// an unexported helper of the client: both calls are looked up through helpers, in FindAsync's terms
	fmds := c.CallsInl(f.SSA, Invoke("DHStoreAPI.FindMetadata"), 2)
	dmds := c.CallsInl(f.SSA, Call("dhash.DecryptMetadata"), 2)
	if len(fmds) != 1 || len(dmds) != 1 {
		c.Bad("C12.D5-client-workflow", key+" › metadata fetch", f.SSA.Pos(), "metadata is not fetched through the decrypting helper")
		return
	}
	fmdS, dmdS := fmds[0], dmds[0]
	fmdRes0 := Extract("0", Is(c.E(fmdS.In.(*ssa.Call))))
	okStep := false
	if len(fmdS.X.Args) >= 3 && len(dmdS.X.Args) == 2 {
		_, a := Match(Call("dhash.SHA256", Is(vk), Op("nil", "")), fmdS.X.Args[len(fmdS.X.Args)-1])
		_, b := Match(fmdRes0, dmdS.X.Args[0])
		_, d := Match(Is(vk), dmdS.X.Args[1])
		_, g := c.Guarded(dmdS.In, EqNil(Extract("1", Is(c.E(fmdS.In.(*ssa.Call))))), true)
		okStep = a && b && d && g
	}
	_, g1 := c.Guarded(fmdS.Outer(), EqNil(Is(spErr)), true)
	c.Check(g1 && okStep, "C12.D5-client-workflow", key+" › metadata fetched for that value key", fmdS.Outer().Pos(), "FindMetadata(SHA256(vk)) then DecryptMetadata(answer, vk), on SplitValueKey err == nil", "metadata fetched with another key, not decrypted with the value key, or fetched although splitting failed")
	// the decrypted metadata and the error(s) that must be nil where it is used
	var md *X
	var mdErrs []*X
	if len(dmdS.Via) > 0 {
		outer := dmdS.Via[0].(*ssa.Call)
		cs := CallSite{In: outer, Fn: outer.Parent(), X: c.CallX(outer)}
		md, mdErrs = c.Result(cs, 0), []*X{c.Result(cs, 1)}
	} else {
		md = c.Result(dmdS.CallSite, 0)
		mdErrs = []*X{c.Result(dmdS.CallSite, 1), c.Result(fmdS.CallSite, 1)}
	}
	mdOK := func(in ssa.Instruction) bool {
		for _, e := range mdErrs {
			if _, g := c.Guarded(in, EqNil(Is(e)), true); !g {
				return false
			}
		}
		return true
	}
	// uses of the results
	nUse := 0
	for _, cs := range c.Calls(f.SSA, Call("pcache.ProviderCache).GetResults")) {
		nUse++
		g := mdOK(cs.In)
		same := Same(cs.X.Args[2], pid) && Same(cs.X.Args[3], ctxID) && Same(cs.X.Args[4], md)
		c.Check(g && same, "C12.D5-client-workflow", key+" › providers expanded for (peer, context, metadata)", cs.In.Pos(), "GetResults(pid, ctxID, metadata) with the decrypted values, on err == nil", "provider expansion uses other values than the ones decrypted, or runs although decryption failed")
	}
	c.Check(nUse == 1, "C12.D5-client-workflow", key+" › one expansion site", f.SSA.Pos(), "one provider expansion", "expected one GetResults call")
	// metadata-only result built from the same values
	sites := c.SendSites(findClientPkgOf(f))
	// (sends of the step helper itself, before they are lifted to its caller)
	instrsDeep(f.SSA, func(g *ssa.Function, in ssa.Instruction) {
		switch in := in.(type) {
		case *ssa.Send:
			sites = append(sites, SendSite{Fn: g, At: in, Chan: c.E(in.Chan), Val: c.E(in.X), Pos: in.Pos()})
		case *ssa.Select:
			for _, st := range in.States {
				if st.Send != nil {
					sites = append(sites, SendSite{Fn: g, At: in, Chan: c.E(st.Chan), Val: c.E(st.Send), Pos: in.Pos(), InSelect: true})
				}
			}
		}
	})
	seenSend := map[ssa.Instruction]bool{}
	for _, ss := range sites {
		if topFunc(ss.Fn) != f.SSA || seenSend[ss.At] {
			continue
		}
		v := ss.Val
		if v.Op != "complit" {
			continue
		}
		seenSend[ss.At] = true
		fs := c.CellFields(v)
		okF := fs["ContextID"] != nil && Same(fs["ContextID"], ctxID) && fs["Metadata"] != nil && Same(fs["Metadata"], md)
		g := mdOK(ss.At)
		c.Check(okF && g, "C12.D5-client-workflow", key+" › metadata-only result", ss.Pos, "result carries the decrypted context ID and metadata, on err == nil", "metadata-only result not built from the decrypted values")
	}
	// what the store answers is what is decrypted: the HTTP store client hands on everything read from the response
	// body itself (a capped or wrapped read truncates large encrypted metadata and the result is silently skipped)
	nRA := 0
	for _, f := range c.Funcs("find/client") {
		recv := f.SSA.Signature.Recv()
		if recv == nil || !strings.Contains(c.short(recv.Type().String()), "dhstoreHTTP") {
			continue
		}
		for _, cs := range c.Calls(f.SSA, Call("io.ReadAll")) {
			nRA++
			_, whole := Match(Field("Body", Any()), cs.X.Args[0])
			c.Check(whole, "C12.D5-client-workflow", f.Name+" › reads the whole response body", cs.In.Pos(), "io.ReadAll(resp.Body)", "the store client does not read the response body itself to its end ("+abbreviate(cs.X.Args[0].String())+"): encrypted values larger than the cap come back truncated and the lookup silently returns fewer results than were indexed")
		}
	}
	// what is decrypted is what the store sent: the client does not ask for a content encoding by hand (net/http
	// decompresses transparently only when it added Accept-Encoding itself; otherwise the JSON decoder is handed
	// compressed bytes and the lookup silently yields nothing). Expected 0 sites, with a positive example.
	acceptEnc := func(cc *Ctx, fns []*Fn) []ssa.Instruction {
		var out []ssa.Instruction
		for _, f := range fns {
			for _, cs := range cc.Calls(f.SSA, Or(Call("net/http.Header).Set"), Call("net/http.Header).Add"))) {
				if len(cs.X.Args) >= 2 {
					if name, err := strconv.Unquote(strip(cs.X.Args[1]).Name); err == nil && strings.EqualFold(name, "Accept-Encoding") {
						out = append(out, cs.In)
					}
				}
			}
		}
		return out
	}
	for _, in := range acceptEnc(c, c.Funcs("find/client")) {
		c.Bad("C12.D5-client-workflow", c.short(topFunc(in.Parent()).String())+" › body as sent", in.Pos(), "the client sets Accept-Encoding itself: net/http then does not decompress the response, and a store (or proxy) that compresses makes every lookup decode garbage and return no results")
	}
	if pc := c.posex(); pc == nil {
		c.Unk("C12.D5-client-workflow", "positive example (Accept-Encoding)", token.NoPos, "positive example package could not be loaded")
	} else {
		c.Check(len(acceptEnc(pc, pc.Funcs("ipnicheck/testdata/posex"))) == 1, "C12.D5-client-workflow", "positive example fires (Accept-Encoding)", token.NoPos, "rule found the seeded hand-set Accept-Encoding (and none in find/client)", "rule did not find its positive example: it would pass vacuously")
	}
	c.Floor("C12.D5-client-workflow", 8) // (the two store lookups may share one reading helper)
	sourcesKeepErrorIdentity(c, "C12.D5-sources-keep-error-identity")
	c.Floor("C12.D5-sources-keep-error-identity", 2)
}

func c12ValueKey(c *Ctx) {
	cr, sp := c.Func(dhashPkg, "CreateValueKey"), c.Func(dhashPkg, "SplitValueKey")
	if cr == nil || sp == nil {
		c.Unk("C12.D6-value-key", "dhash.CreateValueKey/SplitValueKey", token.NoPos, "not found")
		return
	}
	// create: buffer writes pid then ctxID
	okC := false
	for _, b := range cr.SSA.Blocks {
		if ret, isRet := b.Instrs[len(b.Instrs)-1].(*ssa.Return); isRet {
			ws, _ := c.payloadWrites(cr.SSA, c.RetX(ret, 0))
			if len(ws) == 2 {
				_, a := Match(Op("param", cr.SSA.Params[0].Name()), ws[0].Arg)
				_, bb := Match(Op("param", cr.SSA.Params[1].Name()), ws[1].Arg)
				okC = a && bb && len(ws[0].Guards) == 0 && len(ws[1].Guards) == 0
			}
		}
	}
	c.Check(okC, "C12.D6-value-key", cr.Name+" › peer ID bytes then context ID", cr.SSA.Pos(), "value key = peer ID bytes ‖ context ID", "value key is not built as (peer ID bytes, then context ID)")
	// split: MHFromBytes(valKey) -> l, mh; pid from mh; rest = valKey[l:], all on err == nil
	okS := false
	vk := Op("param", sp.SSA.Params[0].Name())
	for _, cs := range c.Calls(sp.SSA, Call("go-multihash.MHFromBytes", vk)) {
		l, mh := c.Result(cs, 0), c.Result(cs, 1)
		for _, b := range sp.SSA.Blocks {
			if ret, isRet := b.Instrs[len(b.Instrs)-1].(*ssa.Return); isRet && c.RetX(ret, 2).Op == "nil" {
				_, r := Match(Op("slice", "", vk, Is(l), Op("nil", "")), c.RetX(ret, 1))
				_, pidOK := Match(Extract("0", Call("peer.IDFromBytes", Is(mh))), c.RetX(ret, 0))
				_, g := c.GuardedB(b, EqNil(Extract("2", Is(c.E(cs.In.(*ssa.Call))))), true)
				okS = r && pidOK && g
			}
		}
	}
	c.Check(okS, "C12.D6-value-key", sp.Name+" › split at the leading multihash", sp.SSA.Pos(), "peer ID = leading multihash, context ID = the rest, on MHFromBytes err == nil", "value key is not split at the length of its leading multihash")
	// …and splitting fails only where one of the two parsing steps fails: every key CreateValueKey builds — also one
	// with an empty context ID, where nothing follows the multihash — splits back. A test of its own (other than the
	// impossible "the multihash is longer than the key") rejects keys that were stored.
	{
		nFail, okFail, where := 0, true, token.NoPos
		for _, b := range sp.SSA.Blocks {
			ret, isRet := b.Instrs[len(b.Instrs)-1].(*ssa.Return)
			if !isRet || b.Comment == "recover" || len(ret.Results) != 3 || c.RetX(ret, 2).Op == "nil" {
				continue
			}
			nFail++
			for _, f := range c.FactsAt(b) {
				if f.If == nil {
					continue
				}
				// the tests on the outcome of a parsing call
				if f.Cond.Find(func(y *X) bool {
					ex, ok := y.V.(*ssa.Extract)
					return ok && y.Op == "extract" && isErrorType(ex.Type())
				}) != nil {
					continue
				}
				if f.Cond.Op == "binop" && len(f.Cond.Args) == 2 {
					isLen := func(y *X) bool { return y.Op == "builtin" && y.Name == "len" }
					l, r := f.Cond.Args[0], f.Cond.Args[1]
					strict := (f.Cond.Name == ">" && f.Val && isLen(r)) || (f.Cond.Name == "<" && f.Val && isLen(l)) ||
						(f.Cond.Name == "<=" && !f.Val && isLen(r)) || (f.Cond.Name == ">=" && !f.Val && isLen(l))
					if strict {
						continue
					}
				}
				okFail, where = false, f.If.Cond.Pos()
			}
		}
		c.Check(okFail && nFail >= 1, "C12.D6-value-key", sp.Name+" › fails only where parsing fails", sp.SSA.Pos(), fmt.Sprint(nFail)+" failure returns, each under a failed parsing call", "splitting rejects keys on a test of its own (at "+c.pos(where)+"): a key with nothing after the multihash (empty context ID) is well formed and must split back")
	}
	// second hash
	if sm := c.Func(dhashPkg, "SecondMultihash"); sm != nil {
		ok := false
		for _, cs := range c.Calls(sm.SSA, Call("go-multihash.Encode")) {
			_, d := Match(Call("dhash.SHA256", Op("builtin", "append", Op("global", "dhash.secondHashPrefix"), Op("param", sm.SSA.Params[0].Name()))), cs.X.Args[0])
			if ps := sha256Pieces(c, cs.X.Args[0]); !d && len(ps) == 2 {
				_, p0 := Match(Op("global", "dhash.secondHashPrefix"), ps[0])
				_, p1 := Match(Op("param", sm.SSA.Params[0].Name()), ps[1])
				d = p0 && p1
			}
			code, _ := c.ConstString("github.com/multiformats/go-multihash", "DBL_SHA2_256")
			ok = d && cs.X.Args[1].Op == "const" && cs.X.Args[1].Name == code
		}
		c.Check(ok, "C12.D6-value-key", sm.Name+" › double SHA-256 multihash", sm.SSA.Pos(), "second hash = DBL_SHA2_256 multihash of SHA-256(prefix ‖ multihash)", "second hash is not the DBL_SHA2_256 encoding of SHA-256 over (prefix, multihash)")
		// …for every input: whatever the multihash handed in looks like, what comes back is that encoding — never the
		// input itself (an input that already has the second-hash code would be looked up, and stored, un-blinded)
		always := true
		for _, b := range sm.SSA.Blocks {
			if ret, isRet := b.Instrs[len(b.Instrs)-1].(*ssa.Return); isRet && len(ret.Results) == 1 {
				for _, l := range c.Leaves(c.RetX(ret, 0), ret) {
					if _, m := Match(Extract("0", Call("go-multihash.Encode")), l); !m {
						always = false
					}
				}
			}
		}
		c.Check(always, "C12.D6-value-key", sm.Name+" › hashes every input", sm.SSA.Pos(), "every return is the encoded second hash", "some inputs are returned without being hashed: their 'second hash' equals the original multihash, so the reader-privacy lookup reveals it")
	}
	c.Floor("C12.D6-value-key", 5)
	// the salts are appended onto, so they must have no room to spare: append(salt, x...) copies only when the salt's
	// capacity is its length — a salt built with extra capacity makes every caller write its input into the one
	// shared backing array behind the salt, and concurrent callers hash each other's bytes
	{
		heads := map[*ssa.Global]bool{}
		for _, f := range c.Funcs(dhashPkg) {
			instrs(f.SSA, func(in ssa.Instruction) {
				call, ok := in.(*ssa.Call)
				if !ok {
					return
				}
				if b, isB := call.Call.Value.(*ssa.Builtin); !isB || b.Name() != "append" || len(call.Call.Args) != 2 {
					return
				}
				if ld, isLoad := call.Call.Args[0].(*ssa.UnOp); isLoad {
					if g, isG := ld.X.(*ssa.Global); isG {
						heads[g] = true
					}
				}
			})
		}
		nSalt := 0
		if p := c.pkg(dhashPkg); p != nil {
			if initFn := c.SSAPkgs[p.PkgPath].Func("init"); initFn != nil {
				instrs(initFn, func(in ssa.Instruction) {
					st, ok := in.(*ssa.Store)
					if !ok {
						return
					}
					g, isG := st.Addr.(*ssa.Global)
					if !isG {
						return
					}
					if sl, isSl := deref(g.Type()).Underlying().(*types.Slice); !isSl || !types.Identical(sl.Elem(), types.Typ[types.Byte]) {
						return
					}
					nSalt++
					if !heads[g] {
						c.OK("C12.D2-salt-has-no-spare-capacity", "dhash."+g.Name(), st.Pos(), "never the head of an append: inputs are joined into fresh slices")
						return
					}
					exact := false
					if cv, isConv := st.Val.(*ssa.Convert); isConv {
						if _, fromConst := cv.X.(*ssa.Const); fromConst {
							exact = true // []byte("…"): capacity = length
						}
					}
					c.Check(exact, "C12.D2-salt-has-no-spare-capacity", "dhash."+g.Name(), st.Pos(), "the salt is the []byte conversion of a constant (capacity = length): appending to it always copies", "a salt that callers append to is built with a capacity of its own choosing: with room to spare, append(salt, x...) writes x into the shared array instead of a copy, and concurrent calls corrupt each other's input")
				})
			}
		}
		if nSalt == 0 {
			c.Unk("C12.D2-salt-has-no-spare-capacity", "dhash › salts", token.NoPos, "no package-level salt that is appended to was found")
		}
		c.Floor("C12.D2-salt-has-no-spare-capacity", 2)
	}
}

// findClientPkgOf: module-relative path of the package a function belongs to.
func findClientPkgOf(f *Fn) string {
	return strings.TrimPrefix(strings.TrimPrefix(f.Pkg.PkgPath, modPath), "/")
}

// sourcesKeepErrorIdentity: the provider cache tells a cancelled lookup from "no such provider" with
// errors.Is(err, context.Canceled) — a source that re-words the error of its transport without wrapping it (%v
// instead of %w) makes a lookup cancelled in flight look like a miss: a negative entry is cached and the provider's
// results are silently left out of every find for the time-to-live. Shared by C12 (reader-privacy finds go through
// the cache) and C06.
func sourcesKeepErrorIdentity(c *Ctx, rule string) {
	n := 0
	for _, f := range c.Funcs(pcachePkg) {
		if f.SSA.Signature.Recv() == nil || (f.SSA.Name() != "Fetch" && f.SSA.Name() != "FetchAll") {
			continue
		}
		n++
		bad := token.NoPos
		for _, cs := range c.Calls(f.SSA, Call("fmt.Errorf")) {
			if len(cs.X.Args) < 2 || cs.X.Args[0].Op != "const" {
				continue
			}
			hasErr := false
			for _, e := range variadicElems(c, cs.X.Args[1]) {
				if ev := strip(e); ev != nil && ev.V != nil && isErrorType(ev.V.Type()) {
					hasErr = true
				}
				if mi, ok := e.V.(*ssa.MakeInterface); ok && isErrorType(mi.X.Type()) {
					hasErr = true
				}
			}
			if hasErr && !strings.Contains(cs.X.Args[0].Name, "%w") {
				bad = cs.In.Pos()
			}
		}
		c.Check(!bad.IsValid(), rule, f.Name+" › errors keep their identity", f.SSA.Pos(), "errors of the transport are returned as they are or wrapped with %w", "an error is re-worded without wrapping (at "+c.pos(bad)+"): the cache no longer recognises a cancelled lookup and remembers the provider as absent")
	}
	if n == 0 {
		c.Unk(rule, "pcache › sources", token.NoPos, "no provider source found")
	}
}
