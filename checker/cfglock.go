package main

import (
	"go/ast"
	"go/token"
	"go/types"
	"sort"
	"strings"

	"golang.org/x/tools/go/cfg"
	"golang.org/x/tools/go/packages"
)

// R-LOCK: lock pairing and locksets, decided by forward dataflow over the
// AST control-flow graph (go/cfg) of every function and function literal.
//
// Locks: sync.Mutex / sync.RWMutex (Lock/Unlock, RLock/RUnlock) and channel
// tokens (send = acquire, receive = release) on the channel fields named in
// the rule's token table. A lock is identified inside one function by the
// source expression of its receiver (x.f.mu).
//
// go/cfg evaluates the communication statements of ALL clauses of a select
// in the block before the select; that would make a token acquire in one
// clause look unconditional. The analysis therefore ignores those statements
// there and applies each clause's communication on entry to its case body.

type lockEvent struct {
	acquire bool
	lock    string
	pos     token.Pos
}

type lockState struct {
	// pending: acquired, no release seen and no deferred release registered yet (may-set, union at joins).
	pending map[string]token.Pos
	// held: physically held on every path (must-set, intersection at joins).
	held map[string]bool
	// deferredRel: releases registered by defer before the acquire (rare).
	deferredRel map[string]bool
	reached     bool
}

func (s lockState) clone() lockState {
	n := lockState{pending: map[string]token.Pos{}, held: map[string]bool{}, deferredRel: map[string]bool{}, reached: s.reached}
	for k, v := range s.pending {
		n.pending[k] = v
	}
	for k := range s.held {
		n.held[k] = true
	}
	for k := range s.deferredRel {
		n.deferredRel[k] = true
	}
	return n
}

func (s *lockState) merge(o lockState) bool {
	if !o.reached {
		return false
	}
	if !s.reached {
		*s = o.clone()
		return true
	}
	changed := false
	for k, v := range o.pending {
		if _, ok := s.pending[k]; !ok {
			s.pending[k] = v
			changed = true
		}
	}
	for k := range s.held {
		if !o.held[k] {
			delete(s.held, k)
			changed = true
		}
	}
	for k := range s.deferredRel {
		if !o.deferredRel[k] {
			delete(s.deferredRel, k)
			changed = true
		}
	}
	return changed
}

// LockFinding is one result of the pairing analysis.
type LockFinding struct {
	Kind string // "leak" (acquired, not released on a path to an exit), "unpaired-release"
	Lock string
	Acq  token.Pos
	Exit token.Pos
}

// LockAnalysis is the result for one function body.
type LockAnalysis struct {
	Name     string
	Body     *ast.BlockStmt
	Acquires []lockEvent
	Releases []lockEvent
	Findings []LockFinding
	// HeldAt: locks held on every path when the node starts executing.
	HeldAt map[ast.Node]map[string]bool
	// Deferred literal: releases of locks acquired by the parent are expected.
	IsDeferredLit bool
	IsGoLit       bool
	// EntryHeld: locks held by every caller at every call site (helpers).
	EntryHeld map[string]bool
}

type lockAnalyzer struct {
	c           *Ctx
	pkg         *packages.Package
	tokens      map[*types.Var]bool // channel fields used as locks
	summaries   map[*types.Func]*lockSummary
	summarizing int
}

func (la *lockAnalyzer) exprKey(e ast.Expr) string {
	e = ast.Unparen(e)
	if sel, ok := e.(*ast.SelectorExpr); ok {
		if s := la.pkg.TypesInfo.Selections[sel]; s != nil && s.Kind() == types.FieldVal {
			if v, ok := s.Obj().(*types.Var); ok {
				return la.exprKey(sel.X) + "." + canonField(v)
			}
		}
	}
	return types.ExprString(e)
}

// mutexCall classifies x.Lock() etc. Returns acquire?, key.
func (la *lockAnalyzer) mutexCall(call *ast.CallExpr) (ev lockEvent, ok bool) {
	sel, isSel := call.Fun.(*ast.SelectorExpr)
	if !isSel {
		return ev, false
	}
	fn, _ := la.pkg.TypesInfo.ObjectOf(sel.Sel).(*types.Func)
	if fn == nil || fn.Pkg() == nil || fn.Pkg().Path() != "sync" {
		return ev, false
	}
	recv := fn.Type().(*types.Signature).Recv()
	if recv == nil {
		return ev, false
	}
	rt := deref(recv.Type()).String()
	if rt != "sync.Mutex" && rt != "sync.RWMutex" {
		return ev, false
	}
	key := la.exprKey(sel.X)
	switch fn.Name() {
	case "Lock":
		return lockEvent{true, key, call.Pos()}, true
	case "Unlock":
		return lockEvent{false, key, call.Pos()}, true
	case "RLock":
		return lockEvent{true, "R:" + key, call.Pos()}, true
	case "RUnlock":
		return lockEvent{false, "R:" + key, call.Pos()}, true
	}
	return ev, false
}

func (la *lockAnalyzer) isToken(e ast.Expr) bool {
	e = ast.Unparen(e)
	switch x := e.(type) {
	case *ast.SelectorExpr:
		if v, ok := la.pkg.TypesInfo.ObjectOf(x.Sel).(*types.Var); ok {
			return la.tokens[v]
		}
	case *ast.Ident:
		if v, ok := la.pkg.TypesInfo.ObjectOf(x).(*types.Var); ok {
			return la.tokens[v]
		}
	}
	return false
}

// events lists the lock events inside node n in source order. Function
// literals are not entered (they are separate functions), except that the
// caller handles deferred literals itself.
func (la *lockAnalyzer) events(n ast.Node) []lockEvent {
	var evs []lockEvent
	ast.Inspect(n, func(m ast.Node) bool {
		switch m := m.(type) {
		case *ast.FuncLit:
			return false
		case *ast.DeferStmt, *ast.GoStmt:
			return false
		case *ast.CallExpr:
			if ev, ok := la.mutexCall(m); ok {
				evs = append(evs, ev)
			} else if w := la.wrapperEvents(m); len(w) > 0 {
				evs = append(evs, w...)
			}
		case *ast.SendStmt:
			if la.isToken(m.Chan) {
				evs = append(evs, lockEvent{true, la.exprKey(m.Chan), m.Pos()})
			}
		case *ast.UnaryExpr:
			if m.Op == token.ARROW && la.isToken(m.X) {
				evs = append(evs, lockEvent{false, la.exprKey(m.X), m.Pos()})
			}
		}
		return true
	})
	return evs
}

// netReleases computes the releases a deferred call performs on locks it did
// not itself acquire.
func (la *lockAnalyzer) netReleases(d *ast.DeferStmt) []lockEvent {
	var evs []lockEvent
	if lit, ok := d.Call.Fun.(*ast.FuncLit); ok {
		evs = la.events(lit.Body)
	} else {
		evs = la.events(d.Call)
	}
	own := map[string]int{}
	var out []lockEvent
	for _, e := range evs {
		if e.acquire {
			own[e.lock]++
		} else if own[e.lock] > 0 {
			own[e.lock]--
		} else {
			out = append(out, e)
		}
	}
	return out
}

func (la *lockAnalyzer) mayReturn(call *ast.CallExpr) bool {
	switch f := ast.Unparen(call.Fun).(type) {
	case *ast.Ident:
		if f.Name == "panic" {
			if _, ok := la.pkg.TypesInfo.ObjectOf(f).(*types.Builtin); ok {
				return false
			}
		}
	case *ast.SelectorExpr:
		if fn, ok := la.pkg.TypesInfo.ObjectOf(f.Sel).(*types.Func); ok && fn.Pkg() != nil {
			full := fn.Pkg().Path() + "." + fn.Name()
			if full == "os.Exit" || full == "log.Fatal" || full == "log.Fatalf" || full == "runtime.Goexit" {
				return false
			}
		}
	}
	return true
}

// analyze runs the dataflow on one body.
func (la *lockAnalyzer) analyze(name string, body *ast.BlockStmt, deferredLit, goLit bool, initHeld map[string]bool) *LockAnalysis {
	res := &LockAnalysis{Name: name, Body: body, HeldAt: map[ast.Node]map[string]bool{}, IsDeferredLit: deferredLit, IsGoLit: goLit}
	g := cfg.New(body, la.mayReturn)

	// communication statements of select clauses (to be skipped in the pre-select block)
	commStmt := map[ast.Node]bool{}
	ast.Inspect(body, func(m ast.Node) bool {
		if _, ok := m.(*ast.FuncLit); ok {
			return false
		}
		if cc, ok := m.(*ast.CommClause); ok && cc.Comm != nil {
			commStmt[cc.Comm] = true
			if as, ok := cc.Comm.(*ast.AssignStmt); ok {
				// body block gets Lhs[0] added as a node: harmless (no events)
				_ = as
			}
		}
		return true
	})

	in := make([]lockState, len(g.Blocks))
	for i := range in {
		in[i] = lockState{pending: map[string]token.Pos{}, held: map[string]bool{}, deferredRel: map[string]bool{}}
	}
	in[0].reached = true
	for k := range initHeld {
		in[0].held[k] = true
	}

	apply := func(st *lockState, ev lockEvent, record bool) {
		if ev.acquire {
			if record {
				res.Acquires = append(res.Acquires, ev)
			}
			st.held[ev.lock] = true
			if st.deferredRel[ev.lock] {
				return
			}
			st.pending[ev.lock] = ev.pos
		} else {
			if record {
				res.Releases = append(res.Releases, ev)
			}
			if _, ok := st.pending[ev.lock]; !ok && !st.held[ev.lock] && record && !deferredLit {
				res.Findings = append(res.Findings, LockFinding{Kind: "unpaired-release", Lock: ev.lock, Acq: ev.pos})
			}
			delete(st.pending, ev.lock)
			delete(st.held, ev.lock)
		}
	}

	transfer := func(b *cfg.Block, st lockState, final bool) lockState {
		st = st.clone()
		if cc, ok := b.Stmt.(*ast.CommClause); ok && b.Kind == cfg.KindSelectCaseBody && cc.Comm != nil {
			for _, ev := range la.events(cc.Comm) {
				apply(&st, ev, final)
			}
		}
		for _, n := range b.Nodes {
			if commStmt[n] {
				continue
			}
			if final {
				h := map[string]bool{}
				for k := range st.held {
					h[k] = true
				}
				res.HeldAt[n] = h
				// finer: every call / selector inside the node sees the state at node start
				ast.Inspect(n, func(m ast.Node) bool {
					switch m.(type) {
					case *ast.FuncLit:
						return false
					case *ast.CallExpr, *ast.SelectorExpr, *ast.IndexExpr, *ast.Ident:
						if _, ok := res.HeldAt[m]; !ok {
							res.HeldAt[m] = h
						}
					}
					return true
				})
			}
			switch s := n.(type) {
			case *ast.DeferStmt:
				for _, ev := range la.netReleases(s) {
					if _, ok := st.pending[ev.lock]; ok {
						if final && !st.held[ev.lock] {
							// acquired on some paths to this defer only: on the others the deferred release gives
							// back something that was never taken
							res.Findings = append(res.Findings, LockFinding{Kind: "deferred-release-not-held", Lock: ev.lock, Acq: s.Pos()})
						}
						delete(st.pending, ev.lock) // obligation discharged: released at every exit from here
					} else {
						st.deferredRel[ev.lock] = true
					}
					if final {
						res.Releases = append(res.Releases, ev)
					}
				}
				continue
			case *ast.GoStmt:
				continue
			}
			for _, ev := range la.events(n) {
				apply(&st, ev, final)
			}
		}
		return st
	}

	// fixpoint
	work := []int32{0}
	inWork := map[int32]bool{0: true}
	for len(work) > 0 {
		i := work[0]
		work = work[1:]
		inWork[i] = false
		b := g.Blocks[i]
		if !in[i].reached {
			continue
		}
		out := transfer(b, in[i], false)
		for si, s := range b.Succs {
			o := out
			if evs := la.edgeEvents(b, si); len(evs) > 0 {
				o = out.clone()
				for _, ev := range evs {
					apply(&o, ev, false)
				}
			}
			if in[s.Index].merge(o) && !inWork[s.Index] {
				work = append(work, s.Index)
				inWork[s.Index] = true
			}
		}
	}
	// final pass: record and check exits
	seenAcq := map[token.Pos]bool{}
	for _, b := range g.Blocks {
		if !in[b.Index].reached {
			continue
		}
		nAcq := len(res.Acquires)
		out := transfer(b, in[b.Index], true)
		for si := range b.Succs {
			for _, ev := range la.edgeEvents(b, si) {
				if ev.acquire {
					res.Acquires = append(res.Acquires, ev)
				}
			}
		}
		// de-duplicate acquires recorded in the final pass
		kept := res.Acquires[:nAcq]
		for _, a := range res.Acquires[nAcq:] {
			if !seenAcq[a.pos] {
				seenAcq[a.pos] = true
				kept = append(kept, a)
			}
		}
		res.Acquires = kept
		if len(b.Succs) > 0 {
			continue
		}
		if b.Kind == cfg.KindSelectAfterCase {
			continue // select without default: no clause ready = blocks, not an exit
		}
		// exit block: return statement or fall off the end; no-return calls (panic) are not normal exits
		exitPos := body.Rbrace
		isPanic := false
		if len(b.Nodes) > 0 {
			last := b.Nodes[len(b.Nodes)-1]
			if r, ok := last.(*ast.ReturnStmt); ok {
				exitPos = r.Pos()
			} else if es, ok := last.(*ast.ExprStmt); ok {
				if call, ok := es.X.(*ast.CallExpr); ok && !la.mayReturn(call) {
					isPanic = true
				}
			}
		}
		if isPanic {
			continue
		}
		var locks []string
		for l := range out.pending {
			locks = append(locks, l)
		}
		sort.Strings(locks)
		for _, l := range locks {
			res.Findings = append(res.Findings, LockFinding{Kind: "leak", Lock: l, Acq: out.pending[l], Exit: exitPos})
		}
	}
	return res
}

// edgeEvents: lock events that happen on the si-th outgoing edge of a block
// ending in a branch on a conditional wrapper's result.
func (la *lockAnalyzer) edgeEvents(b *cfg.Block, si int) []lockEvent {
	if len(b.Succs) != 2 || len(b.Nodes) == 0 {
		return nil
	}
	cond, ok := b.Nodes[len(b.Nodes)-1].(ast.Expr)
	if !ok {
		return nil
	}
	t, f := la.condEvents(cond)
	if si == 0 {
		return t
	}
	return f
}

// analyzeFunc analyses a declared function and every literal nested in it.
func (la *lockAnalyzer) analyzeFunc(fd *ast.FuncDecl, name string, entryHeld map[string]bool) []*LockAnalysis {
	var out []*LockAnalysis
	if fd.Body == nil {
		return nil
	}
	top := la.analyze(name, fd.Body, false, false, entryHeld)
	out = append(out, top)
	n := 0
	var walk func(node ast.Node, parent *LockAnalysis)
	walk = func(node ast.Node, parent *LockAnalysis) {
		ast.Inspect(node, func(m ast.Node) bool {
			switch m := m.(type) {
			case *ast.DeferStmt:
				if lit, ok := m.Call.Fun.(*ast.FuncLit); ok {
					n++
					// a deferred literal runs at function exit: the locks held when it
					// was registered and released only by itself are still held
					a := la.analyze(name+"$defer"+itoa(n), lit.Body, true, false, parent.HeldAt[m])
					out = append(out, a)
					walk(lit.Body, a)
					for _, arg := range m.Call.Args {
						walk(arg, parent)
					}
					return false
				}
			case *ast.GoStmt:
				if lit, ok := m.Call.Fun.(*ast.FuncLit); ok {
					n++
					a := la.analyze(name+"$go"+itoa(n), lit.Body, false, true, nil)
					out = append(out, a)
					walk(lit.Body, a)
					for _, arg := range m.Call.Args {
						walk(arg, parent)
					}
					return false
				}
			case *ast.CallExpr:
				// a literal handed to a standard-library routine that calls it before returning (maps.DeleteFunc,
				// slices.IndexFunc, sort.Slice, …) runs under the locks held at the call
				if la.callsBackSynchronously(m) {
					hasLit := false
					for _, arg := range m.Args {
						if _, ok := ast.Unparen(arg).(*ast.FuncLit); ok {
							hasLit = true
						}
					}
					if hasLit {
						for _, arg := range m.Args {
							if lit, ok := ast.Unparen(arg).(*ast.FuncLit); ok {
								n++
								a := la.analyze(name+"$lit"+itoa(n), lit.Body, false, false, parent.HeldAt[m])
								out = append(out, a)
								walk(lit.Body, a)
							} else {
								walk(arg, parent)
							}
						}
						return false
					}
				}
			case *ast.FuncLit:
				n++
				a := la.analyze(name+"$lit"+itoa(n), m.Body, false, false, nil)
				out = append(out, a)
				walk(m.Body, a)
				return false
			}
			return true
		})
	}
	walk(fd.Body, top)
	return out
}

func itoa(n int) string {
	s := ""
	if n == 0 {
		return "0"
	}
	for n > 0 {
		s = string(rune('0'+n%10)) + s
		n /= 10
	}
	return s
}

// LockPairing runs the pairing rule over all functions of a package and
// records one obligation per acquire site.
func (c *Ctx) LockPairing(rule, rel string, tokens []string) map[string][]*LockAnalysis {
	p := c.pkg(rel)
	if p == nil {
		c.Unk(rule, rel, token.NoPos, "package not found")
		return nil
	}
	la := &lockAnalyzer{c: c, pkg: p, tokens: map[*types.Var]bool{}}
	for _, t := range tokens {
		if v := c.fieldVar(rel, t); v != nil {
			la.tokens[v] = true
		} else {
			c.Unk(rule, rel+"."+t, token.NoPos, "token channel field not found")
		}
	}
	all := la.analyzePackage(c, rel)
	for _, fn := range c.Funcs(rel) {
		if fn.Decl == nil {
			continue
		}
		as := all[fn.Name]
		wl := la.wrapperLocks(fn.Obj)
		for _, a := range as {
			leaks := map[token.Pos][]LockFinding{}
			for _, f := range a.Findings {
				if f.Kind == "leak" {
					leaks[f.Acq] = append(leaks[f.Acq], f)
				}
			}
			for _, acq := range a.Acquires {
				key := a.Name + " › acquire " + strings.TrimPrefix(acq.lock, "R:")
				if strings.HasPrefix(acq.lock, "R:") {
					key += " (read)"
				}
				if wl[acq.lock] {
					c.OK(rule, key, acq.pos, "lock wrapper: every exit has the same effect on the lock; the pairing is checked at each call of the wrapper")
					continue
				}
				if fs := leaks[acq.pos]; len(fs) > 0 {
					var path []string
					for _, f := range fs {
						path = append(path, "acquired at "+c.pos(f.Acq)+" still held at exit "+c.pos(f.Exit))
					}
					c.Bad(rule, key, acq.pos, "lock acquired here is not released on every path to a function exit", path...)
				} else {
					c.OK(rule, key, acq.pos, "released (directly or by a registered defer) on every path to every exit")
				}
			}
			for _, f := range a.Findings {
				if f.Kind == "unpaired-release" && !wl[f.Lock] {
					c.Bad(rule, a.Name+" › release "+f.Lock, f.Acq, "release of a lock that is not held on any path reaching this point")
				}
				if f.Kind == "deferred-release-not-held" && !wl[f.Lock] {
					c.Bad(rule, a.Name+" › deferred release "+f.Lock, f.Acq, "a release is deferred at a point that is reached both with and without the lock held: on the paths that never acquired it, the exit releases (takes back) a token that belongs to another holder")
				}
			}
		}
	}
	return all
}

// fieldVar resolves "Type.field" in package rel.
func (c *Ctx) fieldVar(rel, spec string) *types.Var {
	p := c.pkg(rel)
	i := strings.Index(spec, ".")
	if p == nil || i < 0 {
		return nil
	}
	tn, ok := p.Types.Scope().Lookup(c.ActualType(rel, spec[:i])).(*types.TypeName)
	if !ok {
		return nil
	}
	st, ok := tn.Type().Underlying().(*types.Struct)
	if !ok {
		return nil
	}
	for j := 0; j < st.NumFields(); j++ {
		if canonField(st.Field(j)) == spec[i+1:] {
			return st.Field(j)
		}
	}
	return nil
}

// LockAnalyses runs the lockset analysis over a package without recording
// pairing obligations (for rules that only need HeldAt).
func (c *Ctx) LockAnalyses(rel string, tokens []string) map[string][]*LockAnalysis {
	p := c.pkg(rel)
	if p == nil {
		return nil
	}
	la := &lockAnalyzer{c: c, pkg: p, tokens: map[*types.Var]bool{}}
	for _, t := range tokens {
		if v := c.fieldVar(rel, t); v != nil {
			la.tokens[v] = true
		}
	}
	return la.analyzePackage(c, rel)
}

// NoBlockingWhileHolding: at every blocking construct (channel send/receive,
// select, WaitGroup.Wait, Cond.Wait) of the analysed functions, none of the
// short mutexes (matched by key suffix) may be held. One obligation per
// blocking construct that lies inside some critical section of such a mutex
// in its function, plus one summary obligation per package.
func (c *Ctx) NoBlockingWhileHolding(rule, rel string, all map[string][]*LockAnalysis, short []string) {
	p := c.pkg(rel)
	if p == nil {
		return
	}
	isShort := func(k string) bool {
		for _, s := range short {
			if strings.HasSuffix(k, s) {
				return true
			}
		}
		return false
	}
	nOps, nBad := 0, 0
	var names []string
	for n := range all {
		names = append(names, n)
	}
	sort.Strings(names)
	for _, name := range names {
		for _, a := range all[name] {
			check := func(n ast.Node, what string, probe ast.Node) {
				nOps++
				h, ok := a.HeldAt[probe]
				if !ok {
					return
				}
				for k := range h {
					if isShort(k) {
						nBad++
						c.Bad(rule, a.Name+" › "+what+" while holding "+k, n.Pos(), "blocking operation executed while a short mutex is held: every other user of "+k+" blocks for as long as this waits")
					}
				}
			}
			ownInspect(a.Body, func(n ast.Node) bool {
				switch n := n.(type) {
				case *ast.SelectStmt:
					// state at the select = state at its first comm's channel expression, or any node inside
					var probe ast.Node
					hasDefault := false
					for _, cl := range n.Body.List {
						cc := cl.(*ast.CommClause)
						if cc.Comm == nil {
							hasDefault = true
						}
					}
					ast.Inspect(n, func(m ast.Node) bool {
						if probe == nil {
							if _, ok := a.HeldAt[m]; ok {
								probe = m
							}
						}
						return probe == nil
					})
					if !hasDefault && probe != nil {
						check(n, "select", probe)
					}
					// the comm statements are part of the select; do not report them again
					for _, cl := range n.Body.List {
						cc := cl.(*ast.CommClause)
						for _, st := range cc.Body {
							ownInspect(st, func(m ast.Node) bool { return true })
						}
					}
					return true
				case *ast.SendStmt:
					if !insideSelectComm(a.Body, n) {
						check(n, "channel send", firstProbe(a, n))
					}
				case *ast.UnaryExpr:
					if n.Op == token.ARROW && !insideSelectComm(a.Body, n) {
						check(n, "channel receive", firstProbe(a, n))
					}
				case *ast.CallExpr:
					if sel, ok := n.Fun.(*ast.SelectorExpr); ok && sel.Sel.Name == "Wait" {
						if f, ok := p.TypesInfo.ObjectOf(sel.Sel).(*types.Func); ok && f.Pkg() != nil && f.Pkg().Path() == "sync" {
							check(n, "Wait", n)
						}
					}
					// a user-supplied callback (a struct field of function type) may block or call back into the
					// package for as long as it likes
					if sel, ok := n.Fun.(*ast.SelectorExpr); ok {
						if s := p.TypesInfo.Selections[sel]; s != nil && s.Kind() == types.FieldVal {
							if _, isFn := s.Type().Underlying().(*types.Signature); isFn && s.Type().String() != "context.CancelFunc" && s.Type().String() != "context.CancelCauseFunc" {
								if v, ok := s.Obj().(*types.Var); ok {
									check(n, "call of the user callback "+canonField(v), n)
								}
							}
						}
					}
				}
				return true
			})
		}
	}
	if nBad == 0 {
		c.OK(rule, rel+" › "+itoa(nOps)+" blocking constructs", token.NoPos, "none of the package's blocking constructs executes with a short mutex ("+strings.Join(short, ", ")+") held")
	}
}

func firstProbe(a *LockAnalysis, n ast.Node) ast.Node {
	var probe ast.Node
	ast.Inspect(n, func(m ast.Node) bool {
		if probe == nil {
			if _, ok := a.HeldAt[m]; ok {
				probe = m
			}
		}
		return probe == nil
	})
	if probe == nil {
		return n
	}
	return probe
}

// insideSelectComm reports whether node n is (part of) the communication of a select clause.
func insideSelectComm(body ast.Node, n ast.Node) bool {
	found := false
	ast.Inspect(body, func(m ast.Node) bool {
		if cc, ok := m.(*ast.CommClause); ok && cc.Comm != nil {
			if cc.Comm.Pos() <= n.Pos() && n.End() <= cc.Comm.End() {
				found = true
			}
		}
		return !found
	})
	return found
}

// analyzePackage analyses every function of the package; then, for every
// unexported function whose callers are all visible, re-analyses it with the
// locks held at ALL of its call sites as held on entry (the "caller holds the
// lock" convention of extracted helpers). Locks are named by their receiver
// path; a caller-held lock keeps the caller's spelling, which equals the
// callee's when both use the same receiver name — otherwise matching is by
// the final field name (rules test held locks by suffix).
func (la *lockAnalyzer) analyzePackage(c *Ctx, rel string) map[string][]*LockAnalysis {
	all := map[string][]*LockAnalysis{}
	fns := c.Funcs(rel)
	byObj := map[*types.Func]*Fn{}
	for _, fn := range fns {
		if fn.Decl != nil {
			all[fn.Name] = la.analyzeFunc(fn.Decl, fn.Name, nil)
			byObj[fn.Obj] = fn
		}
	}
	for round := 0; round < 2; round++ {
		callerHeld := map[*types.Func]map[string]bool{}
		unknown := map[*types.Func]bool{}
		for _, as := range all {
			for _, a := range as {
				ownInspect(a.Body, func(n ast.Node) bool {
					switch n := n.(type) {
					case *ast.CallExpr:
						var obj *types.Func
						switch f := ast.Unparen(n.Fun).(type) {
						case *ast.SelectorExpr:
							obj, _ = la.pkg.TypesInfo.ObjectOf(f.Sel).(*types.Func)
						case *ast.Ident:
							obj, _ = la.pkg.TypesInfo.ObjectOf(f).(*types.Func)
						}
						if obj == nil || byObj[obj] == nil || obj.Exported() {
							return true
						}
						h, ok := a.HeldAt[n]
						if !ok || a.IsGoLit && false {
							unknown[obj] = true
							return true
						}
						if cur, seen := callerHeld[obj]; !seen {
							cp := map[string]bool{}
							for k := range h {
								cp[k] = true
							}
							callerHeld[obj] = cp
						} else {
							for k := range cur {
								if !heldSuffix(h, k) {
									delete(cur, k)
								}
							}
						}
					case *ast.GoStmt, *ast.DeferStmt:
						// a helper started with go runs without the caller's locks; deferred calls run at exit
						var call *ast.CallExpr
						if g, ok := n.(*ast.GoStmt); ok {
							call = g.Call
						} else {
							call = n.(*ast.DeferStmt).Call
						}
						switch f := ast.Unparen(call.Fun).(type) {
						case *ast.SelectorExpr:
							if obj, ok := la.pkg.TypesInfo.ObjectOf(f.Sel).(*types.Func); ok {
								unknown[obj] = true
							}
						case *ast.Ident:
							if obj, ok := la.pkg.TypesInfo.ObjectOf(f).(*types.Func); ok {
								unknown[obj] = true
							}
						}
					case *ast.SelectorExpr, *ast.Ident:
						// function used as a value: callers unknown (call positions are handled above, before descending)
					}
					return true
				})
			}
		}
		changed := false
		for obj, held := range callerHeld {
			if unknown[obj] || len(held) == 0 {
				continue
			}
			fn := byObj[obj]
			// normalise lock names to the callee's receiver spelling: keep only the last path element,
			// prefixed by the callee's receiver name when it has one
			norm := map[string]bool{}
			recvName := ""
			if fn.Decl.Recv != nil && len(fn.Decl.Recv.List) == 1 && len(fn.Decl.Recv.List[0].Names) == 1 {
				recvName = fn.Decl.Recv.List[0].Names[0].Name
			}
			for k := range held {
				last := k
				if i := strings.LastIndex(k, "."); i >= 0 {
					last = k[i+1:]
				}
				if recvName != "" {
					norm[recvName+"."+last] = true
				} else {
					norm["caller."+last] = true
				}
			}
			prev := all[fn.Name]
			same := len(prev) > 0 && len(prev[0].EntryHeld) == len(norm)
			if same {
				for k := range norm {
					if !prev[0].EntryHeld[k] {
						same = false
					}
				}
			}
			if !same {
				as := la.analyzeFunc(fn.Decl, fn.Name, norm)
				as[0].EntryHeld = norm
				all[fn.Name] = as
				changed = true
			}
		}
		if !changed {
			break
		}
	}
	return all
}

func heldSuffix(h map[string]bool, key string) bool {
	last := key
	if i := strings.LastIndex(key, "."); i >= 0 {
		last = key[i:]
	}
	for k := range h {
		if k == key || strings.HasSuffix(k, last) {
			return true
		}
	}
	return false
}

// ---- lock wrappers -----------------------------------------------------------------------------------------------------
//
// A small same-package function whose every exit has the same net effect on
// a lock of its receiver ("lockWrite", "unlockWrite") is a wrapper: a call of
// it is the lock event, and its own body is not charged with the imbalance.
// A wrapper with a boolean result may hold the lock exactly when it returns
// one of the two truth values ("lockWrite(ctx) bool"): then the event happens
// on the corresponding edge of a branch on the call.

type lockSummary struct {
	recv    string   // receiver (or "" for a function) identifier the keys are relative to
	acq     []string // keys acquired on every exit
	rel     []string // keys released (not acquired by itself) on every exit
	condAcq []string // keys held exactly when the boolean result equals condVal
	condVal bool
	pos     map[string]token.Pos
}

func (s *lockSummary) empty() bool { return s == nil || len(s.acq)+len(s.rel)+len(s.condAcq) == 0 }

func (la *lockAnalyzer) calleeOf(call *ast.CallExpr) (*types.Func, ast.Expr) {
	switch f := ast.Unparen(call.Fun).(type) {
	case *ast.SelectorExpr:
		if obj, ok := la.pkg.TypesInfo.ObjectOf(f.Sel).(*types.Func); ok {
			if s := la.pkg.TypesInfo.Selections[f]; s != nil {
				return obj, f.X
			}
			return obj, nil
		}
	case *ast.Ident:
		if obj, ok := la.pkg.TypesInfo.ObjectOf(f).(*types.Func); ok {
			return obj, nil
		}
	}
	return nil, nil
}

// summaryOf computes (once) the wrapper summary of a same-package function.
func (la *lockAnalyzer) summaryOf(obj *types.Func) *lockSummary {
	if obj == nil || obj.Pkg() != la.pkg.Types || obj.Exported() {
		return nil
	}
	if la.summaries == nil {
		la.summaries = map[*types.Func]*lockSummary{}
	}
	if s, ok := la.summaries[obj]; ok {
		return s
	}
	la.summaries[obj] = nil // recursion guard
	fd := la.c.declIndex[obj]
	if fd == nil || fd.Body == nil || len(fd.Body.List) > 12 {
		return nil
	}
	sum := &lockSummary{pos: map[string]token.Pos{}}
	if fd.Recv != nil && len(fd.Recv.List) == 1 && len(fd.Recv.List[0].Names) == 1 {
		sum.recv = fd.Recv.List[0].Names[0].Name
	}
	// no literals, go or defer inside a wrapper
	simple := true
	ast.Inspect(fd.Body, func(n ast.Node) bool {
		switch n.(type) {
		case *ast.FuncLit, *ast.GoStmt, *ast.DeferStmt:
			simple = false
		}
		return simple
	})
	if !simple {
		return nil
	}
	la.summarizing++
	a := la.analyzeExits(fd.Body)
	la.summarizing--
	if a == nil || len(a) == 0 {
		return nil
	}
	boolRes := false
	if sig := obj.Type().(*types.Signature); sig.Results().Len() == 1 {
		if b, ok := sig.Results().At(0).Type().Underlying().(*types.Basic); ok && b.Kind() == types.Bool {
			boolRes = true
		}
	}
	same := func(xs []exitState, pick func(exitState) map[string]token.Pos) (map[string]token.Pos, bool) {
		if len(xs) == 0 {
			return nil, true
		}
		first := pick(xs[0])
		for _, x := range xs[1:] {
			o := pick(x)
			if len(o) != len(first) {
				return nil, false
			}
			for k := range first {
				if _, ok := o[k]; !ok {
					return nil, false
				}
			}
		}
		return first, true
	}
	acqOf := func(e exitState) map[string]token.Pos { return e.acq }
	relOf := func(e exitState) map[string]token.Pos { return e.rel }
	// an exit on which an optional semaphore's channel is nil says nothing about that semaphore: it goes along with
	// what the other exits (of the same result) do
	excuse := func(xs []exitState, pick func(exitState) map[string]token.Pos) {
		all := map[string]token.Pos{}
		for _, x := range xs {
			for k, p := range pick(x) {
				all[k] = p
			}
		}
		for _, x := range xs {
			for k, p := range all {
				if _, has := pick(x)[k]; !has && x.nilK[k] {
					pick(x)[k] = p
				}
			}
		}
	}
	{
		var ts, fs, os []exitState
		for _, e := range a {
			switch e.result {
			case "true":
				ts = append(ts, e)
			case "false":
				fs = append(fs, e)
			default:
				os = append(os, e)
			}
		}
		if boolRes && len(os) == 0 {
			excuse(ts, acqOf)
			excuse(fs, acqOf)
			excuse(ts, relOf)
			excuse(fs, relOf)
		} else {
			excuse(a, acqOf)
			excuse(a, relOf)
		}
	}
	if acq, ok1 := same(a, acqOf); ok1 {
		if rel, ok2 := same(a, relOf); ok2 {
			for k, p := range acq {
				sum.acq = append(sum.acq, k)
				sum.pos[k] = p
			}
			for k, p := range rel {
				sum.rel = append(sum.rel, k)
				sum.pos[k] = p
			}
		}
	}
	if sum.empty() && boolRes {
		var ts, fs []exitState
		okLit := true
		for _, e := range a {
			switch e.result {
			case "true":
				ts = append(ts, e)
			case "false":
				fs = append(fs, e)
			default:
				okLit = false
			}
		}
		if okLit && len(ts) > 0 && len(fs) > 0 {
			ta, ok1 := same(ts, acqOf)
			fa, ok2 := same(fs, acqOf)
			tr, ok3 := same(ts, relOf)
			fr, ok4 := same(fs, relOf)
			if ok1 && ok2 && ok3 && ok4 && len(tr) == 0 && len(fr) == 0 {
				switch {
				case len(ta) > 0 && len(fa) == 0:
					sum.condVal = true
					for k, p := range ta {
						sum.condAcq = append(sum.condAcq, k)
						sum.pos[k] = p
					}
				case len(fa) > 0 && len(ta) == 0:
					sum.condVal = false
					for k, p := range fa {
						sum.condAcq = append(sum.condAcq, k)
						sum.pos[k] = p
					}
				}
			}
		}
	}
	sort.Strings(sum.acq)
	sort.Strings(sum.rel)
	sort.Strings(sum.condAcq)
	if sum.empty() {
		return nil
	}
	la.summaries[obj] = sum
	return sum
}

type exitState struct {
	acq    map[string]token.Pos // held at this exit, acquired inside
	rel    map[string]token.Pos // released inside without having been acquired inside
	result string               // "true"/"false" for a literal boolean result, "" otherwise
	nilK   map[string]bool      // token channels that are nil at this exit
}

// analyzeExits runs the lock dataflow on a wrapper candidate and returns the
// net effect at each of its exits.
func (la *lockAnalyzer) analyzeExits(body *ast.BlockStmt) []exitState {
	g := cfg.New(body, la.mayReturn)
	type st struct {
		acq, rel map[string]token.Pos
		nilK     map[string]bool // token channels known to be nil on this path (an optional semaphore that is not configured)
		reached  bool
	}
	clone := func(s st) st {
		n := st{acq: map[string]token.Pos{}, rel: map[string]token.Pos{}, nilK: map[string]bool{}, reached: s.reached}
		for k, v := range s.acq {
			n.acq[k] = v
		}
		for k, v := range s.rel {
			n.rel[k] = v
		}
		for k, v := range s.nilK {
			n.nilK[k] = v
		}
		return n
	}
	in := make([]st, len(g.Blocks))
	for i := range in {
		in[i] = st{acq: map[string]token.Pos{}, rel: map[string]token.Pos{}, nilK: map[string]bool{}}
	}
	// nilTest: the block ends in the test `ch == nil` / `ch != nil` on a token channel; which successor has ch nil
	nilTest := func(b *cfg.Block) (key string, nilSucc int) {
		if len(b.Succs) != 2 || len(b.Nodes) == 0 {
			return "", -1
		}
		be, ok := b.Nodes[len(b.Nodes)-1].(*ast.BinaryExpr)
		if !ok || (be.Op != token.EQL && be.Op != token.NEQ) {
			return "", -1
		}
		x, y := ast.Unparen(be.X), ast.Unparen(be.Y)
		if id, ok := y.(*ast.Ident); !ok || id.Name != "nil" {
			return "", -1
		}
		if !la.isToken(x) {
			return "", -1
		}
		if be.Op == token.EQL {
			return la.exprKey(x), 0
		}
		return la.exprKey(x), 1
	}
	in[0].reached = true
	commStmt := map[ast.Node]bool{}
	ast.Inspect(body, func(m ast.Node) bool {
		if cc, ok := m.(*ast.CommClause); ok && cc.Comm != nil {
			commStmt[cc.Comm] = true
		}
		return true
	})
	apply := func(s *st, ev lockEvent) {
		if ev.acquire {
			s.acq[ev.lock] = ev.pos
		} else if _, ok := s.acq[ev.lock]; ok {
			delete(s.acq, ev.lock)
		} else {
			s.rel[ev.lock] = ev.pos
		}
	}
	transfer := func(b *cfg.Block, s st) st {
		s = clone(s)
		if cc, ok := b.Stmt.(*ast.CommClause); ok && b.Kind == cfg.KindSelectCaseBody && cc.Comm != nil {
			for _, ev := range la.events(cc.Comm) {
				apply(&s, ev)
			}
		}
		for _, n := range b.Nodes {
			if commStmt[n] {
				continue
			}
			for _, ev := range la.events(n) {
				apply(&s, ev)
			}
		}
		return s
	}
	// a wrapper has no loops that matter: iterate to a (may) fixpoint with a bound
	for iter := 0; iter < 4*len(g.Blocks)+4; iter++ {
		changed := false
		for _, b := range g.Blocks {
			if !in[b.Index].reached {
				continue
			}
			out0 := transfer(b, in[b.Index])
			nk, nsucc := nilTest(b)
			for si, s := range b.Succs {
				out := out0
				if nk != "" && si == nsucc {
					out = clone(out0)
					out.nilK[nk] = true
				}
				t := &in[s.Index]
				if !t.reached {
					*t = clone(out)
					t.reached = true
					changed = true
					continue
				}
				// paths disagree: not a wrapper — unless they disagree on a channel that is nil on one of them (there is
				// nothing to hold then: the other path's state stands for both)
				merge := func(tm, om map[string]token.Pos) bool {
					for k, p := range om {
						if _, ok := tm[k]; !ok {
							if !t.nilK[k] {
								return false
							}
							tm[k] = p
							changed = true
						}
					}
					for k := range tm {
						if _, ok := om[k]; !ok && !out.nilK[k] {
							return false
						}
					}
					return true
				}
				if !merge(t.acq, out.acq) || !merge(t.rel, out.rel) {
					return nil
				}
				for k := range t.nilK {
					if !out.nilK[k] {
						delete(t.nilK, k)
					}
				}
			}
		}
		if !changed {
			break
		}
	}
	var exits []exitState
	for _, b := range g.Blocks {
		if !in[b.Index].reached || len(b.Succs) > 0 || b.Kind == cfg.KindSelectAfterCase {
			continue
		}
		out := transfer(b, in[b.Index])
		e := exitState{acq: out.acq, rel: out.rel, nilK: out.nilK}
		if len(b.Nodes) > 0 {
			if r, ok := b.Nodes[len(b.Nodes)-1].(*ast.ReturnStmt); ok && len(r.Results) == 1 {
				if id, ok := ast.Unparen(r.Results[0]).(*ast.Ident); ok && (id.Name == "true" || id.Name == "false") {
					e.result = id.Name
				}
			}
			if es, ok := b.Nodes[len(b.Nodes)-1].(*ast.ExprStmt); ok {
				if call, ok := es.X.(*ast.CallExpr); ok && !la.mayReturn(call) {
					continue
				}
			}
		}
		exits = append(exits, e)
	}
	return exits
}

// rekey expresses a wrapper's key in the caller's terms.
func (la *lockAnalyzer) rekey(key string, sum *lockSummary, recvExpr ast.Expr) (string, bool) {
	read := strings.HasPrefix(key, "R:")
	k := strings.TrimPrefix(key, "R:")
	if sum.recv == "" || recvExpr == nil {
		return "", false
	}
	if k != sum.recv && !strings.HasPrefix(k, sum.recv+".") {
		return "", false
	}
	k = la.exprKey(recvExpr) + strings.TrimPrefix(k, sum.recv)
	if read {
		k = "R:" + k
	}
	return k, true
}

// wrapperEvents: the lock events a call of a wrapper amounts to.
func (la *lockAnalyzer) wrapperEvents(call *ast.CallExpr) []lockEvent {
	obj, recv := la.calleeOf(call)
	sum := la.summaryOf(obj)
	if sum == nil {
		return nil
	}
	var evs []lockEvent
	for _, k := range sum.rel {
		if ck, ok := la.rekey(k, sum, recv); ok {
			evs = append(evs, lockEvent{false, ck, call.Pos()})
		}
	}
	for _, k := range sum.acq {
		if ck, ok := la.rekey(k, sum, recv); ok {
			evs = append(evs, lockEvent{true, ck, call.Pos()})
		}
	}
	return evs
}

// condEvents: for a branch condition that is a (negated) call of a
// conditional wrapper, the events on the true and on the false edge.
func (la *lockAnalyzer) condEvents(cond ast.Expr) (onTrue, onFalse []lockEvent) {
	neg := false
	e := ast.Unparen(cond)
	for {
		if u, ok := e.(*ast.UnaryExpr); ok && u.Op == token.NOT {
			neg = !neg
			e = ast.Unparen(u.X)
			continue
		}
		break
	}
	call, ok := e.(*ast.CallExpr)
	if !ok {
		return nil, nil
	}
	obj, recv := la.calleeOf(call)
	sum := la.summaryOf(obj)
	if sum == nil || len(sum.condAcq) == 0 {
		return nil, nil
	}
	var evs []lockEvent
	for _, k := range sum.condAcq {
		if ck, ok := la.rekey(k, sum, recv); ok {
			evs = append(evs, lockEvent{true, ck, call.Pos()})
		}
	}
	if sum.condVal != neg { // call result true ⇔ cond true (when not negated)
		return evs, nil
	}
	return nil, evs
}

// isWrapperBody reports the locks a function's own imbalance is accounted to its callers for.
func (la *lockAnalyzer) wrapperLocks(obj *types.Func) map[string]bool {
	sum := la.summaryOf(obj)
	if sum == nil {
		return nil
	}
	out := map[string]bool{}
	for _, k := range append(append(append([]string{}, sum.acq...), sum.rel...), sum.condAcq...) {
		out[k] = true
	}
	return out
}

// callsBackSynchronously: call is of a function of package maps, slices or sort (they invoke their function
// arguments before returning, on the calling goroutine).
func (la *lockAnalyzer) callsBackSynchronously(call *ast.CallExpr) bool {
	fun := ast.Unparen(call.Fun)
	if ix, ok := fun.(*ast.IndexExpr); ok {
		fun = ix.X
	}
	if ix, ok := fun.(*ast.IndexListExpr); ok {
		fun = ix.X
	}
	sel, ok := fun.(*ast.SelectorExpr)
	if !ok {
		return false
	}
	fn, _ := la.pkg.TypesInfo.ObjectOf(sel.Sel).(*types.Func)
	if fn == nil || fn.Pkg() == nil {
		return false
	}
	switch fn.Pkg().Path() {
	case "maps", "slices", "sort":
		return true
	}
	return false
}
