package main

import (
	"encoding/json"
	"fmt"
	"go/ast"
	"go/token"
	"go/types"
	"os"
	"path/filepath"
	"sort"
	"strings"
	"time"

	"golang.org/x/tools/go/packages"
	"golang.org/x/tools/go/ssa"
)

const modPath = "github.com/ipni/go-libipni"

// Status of an obligation.
const (
	Discharged = "discharged"
	Violated   = "violated"
	Undecided  = "undecided"
)

// Obligation is one rule instance applied to one construct of /repo.
type Obligation struct {
	Rule   string   `json:"rule"`
	Key    string   `json:"key"`
	Pos    string   `json:"pos,omitempty"`
	Status string   `json:"status"`
	Why    string   `json:"why"`
	Path   []string `json:"path,omitempty"`
	// NonTrivial is set when deciding the obligation required inspecting at
	// least one branch, call site or field access of the analysed program.
	NonTrivial bool `json:"nontrivial"`
}

// KnownFinding is an entry of /verif/known_findings.json.
type KnownFinding struct {
	Property string `json:"property"`
	Rule     string `json:"rule"`
	Key      string `json:"key"`
	Status   string `json:"status"` // "open" or "fixed"
	What     string `json:"what"`
	Commit   string `json:"commit,omitempty"`
}

type ruleStat struct {
	Instances int `json:"instances"`
	Floor     int `json:"floor"`
}

// Ctx is the analysis context of one run for one property.
type Ctx struct {
	Prop    string
	Tier    string
	Repo    string
	VerifD  string
	OutD    string
	Fset    *token.FileSet
	Pkgs    map[string]*packages.Package // by import path
	Prog    *ssa.Program
	SSAPkgs map[string]*ssa.Package
	AllDeps bool // dependencies loaded from source (thorough)

	obls      []*Obligation
	rules     map[string]*ruleStat
	funcsSeen map[string]bool
	callSites int
	notes     []string
	trusted   []string
	explain   string

	declIndex  map[*types.Func]*ast.FuncDecl
	filePkg    map[*ast.File]*packages.Package
	xb         *xbuilder
	posCtx     *Ctx
	roles      map[string]*ssa.Function
	allowRetry bool
	readerSide map[*ssa.Function]bool
	canon      *canonTable
	retBusy    map[*ssa.Function]bool
	factOf    map[string]Fact
	handleFn  *ssa.Function
	factDepth  int
}

func (c *Ctx) pos(p token.Pos) string {
	if !p.IsValid() {
		return ""
	}
	pp := c.Fset.Position(p)
	f := pp.Filename
	if rel, err := filepath.Rel(c.Repo, f); err == nil && !strings.HasPrefix(rel, "..") {
		f = rel
	}
	return fmt.Sprintf("%s:%d", f, pp.Line)
}

func (c *Ctx) add(rule, key string, p token.Pos, status, why string, path ...string) *Obligation {
	o := &Obligation{Rule: rule, Key: key, Pos: c.pos(p), Status: status, Why: why, Path: path, NonTrivial: true}
	// Keys must be unique per rule: disambiguate repeated constructs.
	n := 0
	for _, e := range c.obls {
		if e.Rule == rule && (e.Key == key || strings.HasPrefix(e.Key, key+"#")) {
			n++
		}
	}
	if n > 0 {
		o.Key = fmt.Sprintf("%s#%d", key, n)
	}
	c.obls = append(c.obls, o)
	rs := c.rules[rule]
	if rs == nil {
		rs = &ruleStat{}
		c.rules[rule] = rs
	}
	rs.Instances++
	return o
}

// OK records a discharged obligation.
func (c *Ctx) OK(rule, key string, p token.Pos, why string) { c.add(rule, key, p, Discharged, why) }

// Bad records a violated obligation.
func (c *Ctx) Bad(rule, key string, p token.Pos, why string, path ...string) {
	c.add(rule, key, p, Violated, why, path...)
}

// Unk records an obligation the rule could not decide; it fails the check.
func (c *Ctx) Unk(rule, key string, p token.Pos, why string) {
	c.add(rule, key, p, Undecided, why)
}

// Check is OK/Bad by a boolean.
func (c *Ctx) Check(cond bool, rule, key string, p token.Pos, okWhy, badWhy string) bool {
	if cond {
		c.OK(rule, key, p, okWhy)
	} else {
		c.Bad(rule, key, p, badWhy)
	}
	return cond
}

// Floor declares the minimal number of instances rule must have matched. It
// is evaluated at the end of the run: fewer instances => "anchor lost".
func (c *Ctx) Floor(rule string, n int) {
	rs := c.rules[rule]
	if rs == nil {
		rs = &ruleStat{}
		c.rules[rule] = rs
	}
	rs.Floor = n
}

func (c *Ctx) Trust(s ...string) { c.trusted = append(c.trusted, s...) }
func (c *Ctx) Note(s string)     { c.notes = append(c.notes, s) }

// finish evaluates floors, matches known findings, writes evidence and
// prints the verdict. It returns the process exit code.
func (c *Ctx) finish(start time.Time, explanation string, assumptions []string) int {
	// Vacuity guard.
	var rnames []string
	for r := range c.rules {
		rnames = append(rnames, r)
	}
	sort.Strings(rnames)
	failing := false
	for _, o := range c.obls {
		if o.Status != Discharged {
			failing = true
		}
	}
	for _, r := range rnames {
		rs := c.rules[r]
		// The floor exists to stop a rule from passing vacuously; when the run
		// already fails, lost anchors are a consequence and only add noise.
		if rs.Instances < rs.Floor && !failing {
			c.add("FLOOR", r, token.NoPos, Undecided,
				fmt.Sprintf("anchor lost: rule %s matched %d instance(s), floor confirmed by hand is %d", r, rs.Instances, rs.Floor))
		}
	}

	known := loadKnown(filepath.Join(c.VerifD, "known_findings.json"))
	exit := 0
	nViol, nKnown, nDis := 0, 0, 0
	violDir := filepath.Join(c.OutD, "evidence", "violations")
	// Remove stale violation files of this property.
	if ents, err := os.ReadDir(violDir); err == nil {
		for _, e := range ents {
			if strings.HasPrefix(e.Name(), c.Prop+"-") {
				os.Remove(filepath.Join(violDir, e.Name()))
			}
		}
	}
	var knownLines []string
	for _, o := range c.obls {
		switch o.Status {
		case Discharged:
			nDis++
			continue
		}
		if kf := matchKnown(known, c.Prop, o); kf != nil {
			nKnown++
			line := fmt.Sprintf("KNOWN-FINDING: property=%s %s %s: %s", c.Prop, o.Rule, o.Key, kf.What)
			fmt.Println(line)
			knownLines = append(knownLines, line)
			continue
		}
		nViol++
		os.MkdirAll(violDir, 0o755)
		name := filepath.Join(violDir, fmt.Sprintf("%s-%d.json", c.Prop, nViol))
		b, _ := json.MarshalIndent(map[string]any{"property": c.Prop, "obligation": o}, "", " ")
		os.WriteFile(name, b, 0o644)
		fmt.Printf("%s %s [%s] %s %s: %s\n", strings.ToUpper(o.Status), c.Prop, o.Rule, o.Key, o.Pos, o.Why)
		for _, p := range o.Path {
			fmt.Printf("    path: %s\n", p)
		}
		fmt.Printf("VIOLATION property=%s replay=%s\n", c.Prop, name)
		exit = 1
	}

	// Evidence.
	distinct := map[string]bool{}
	for _, o := range c.obls {
		if o.NonTrivial {
			distinct[o.Rule+"|"+o.Key] = true
		}
	}
	var samples []any
	// Prefer a spread of rules in the samples.
	seenRule := map[string]int{}
	for _, o := range c.obls {
		if seenRule[o.Rule] < 2 && len(samples) < 40 {
			samples = append(samples, o)
			seenRule[o.Rule]++
		}
	}
	var fnames []string
	for f := range c.funcsSeen {
		fnames = append(fnames, f)
	}
	sort.Strings(fnames)
	cov := map[string]any{
		"obligations":           len(c.obls),
		"discharged":            nDis,
		"known_findings":        nKnown,
		"violated_or_undecided": nViol,
		"evaluations":           len(c.obls),
		"distinct_nontrivial":   len(distinct),
		"rule": "one obligation per (rule, construct) of the current /repo tree; distinct = distinct rule+key pairs; " +
			"non-trivial = deciding it inspected at least one branch, call site or field access of the analysed program " +
			"(FLOOR bookkeeping entries are the only trivial ones and never appear unless an anchor is lost)",
		"samples":             samples,
		"explanation":         explanation,
		"checker_cmd":         fmt.Sprintf("/verif/check %s %s", c.Prop, c.Tier),
		"trusted_base":        c.trusted,
		"packages":            len(c.Pkgs),
		"functions_analysed":  fnames,
		"call_sites":          c.callSites,
		"rules":               c.rules,
		"notes":               c.notes,
		"known_finding_lines": knownLines,
		"deps_from_source":    c.AllDeps,
		"exhaustive":          true,
	}
	seed := 0
	fmt.Sscanf(os.Getenv("VERIF_SEED"), "%d", &seed)
	ev := map[string]any{
		"property_id": c.Prop,
		"tier":        c.Tier,
		"seed":        seed,
		"level":       "other",
		"coverage":    cov,
		"assumptions": assumptions,
		"wall_s":      time.Since(start).Seconds(),
		"violations":  nViol,
	}
	os.MkdirAll(filepath.Join(c.OutD, "evidence"), 0o755)
	b, _ := json.MarshalIndent(ev, "", " ")
	if err := os.WriteFile(filepath.Join(c.OutD, "evidence", c.Prop+".json"), b, 0o644); err != nil {
		fmt.Println("cannot write evidence:", err)
		return 2
	}
	fmt.Printf("%s %s: %d obligations, %d discharged, %d known findings, %d violations (%.1fs)\n",
		c.Prop, c.Tier, len(c.obls), nDis, nKnown, nViol, time.Since(start).Seconds())
	return exit
}

func loadKnown(path string) []KnownFinding {
	b, err := os.ReadFile(path)
	if err != nil {
		return nil
	}
	var f struct {
		Findings []KnownFinding `json:"findings"`
	}
	if err := json.Unmarshal(b, &f); err != nil {
		fmt.Println("known_findings.json unreadable:", err)
		os.Exit(2)
	}
	return f.Findings
}

func matchKnown(known []KnownFinding, prop string, o *Obligation) *KnownFinding {
	for i := range known {
		k := &known[i]
		if k.Status == "open" && k.Property == prop && k.Rule == o.Rule && k.Key == o.Key {
			return k
		}
	}
	return nil
}
