package main

import (
	"go/types"
	"strings"

	"golang.org/x/tools/go/ssa"
)

// Roles: unexported helpers are found by what they do, not by what they are
// called, so that renaming them does not blind (or alarm) a rule. A role
// resolves to at most one function; if the structural search fails the
// conventional name is tried; if that fails too the rule using it reports an
// undecided obligation.

type roleDef struct {
	pkg      string
	fallback string
	find     func(c *Ctx, fns []*Fn) *ssa.Function
}

func hasCall(c *Ctx, fn *ssa.Function, pat P) bool {
	return len(c.Calls(fn, pat)) > 0
}

func uniqueFn(fns []*Fn, pred func(*Fn) bool) *ssa.Function {
	var out *ssa.Function
	n := 0
	for _, f := range fns {
		if pred(f) {
			out = f.SSA
			n++
		}
	}
	if n == 1 {
		return out
	}
	return nil
}

func sigString(fn *ssa.Function) string {
	return types.TypeString(fn.Signature, func(p *types.Package) string { return p.Name() })
}

var roleDefs map[string]roleDef

func init() {
	roleDefs = map[string]roleDef{
		// ---- announce ----
		"lru.update": {"announce", "stringLRU.update", func(c *Ctx, fns []*Fn) *ssa.Function {
			return uniqueFn(fns, func(f *Fn) bool { return hasCall(c, f.SSA, Call("container/list.List).PushFront")) })
		}},
		"lru.remove": {"announce", "stringLRU.remove", func(c *Ctx, fns []*Fn) *ssa.Function {
			return uniqueFn(fns, func(f *Fn) bool {
				return f.SSA.Signature.Recv() != nil && hasCall(c, f.SSA, Call("container/list.List).Remove")) && !hasCall(c, f.SSA, Call("container/list.List).PushFront")) &&
					!hasCall(c, f.SSA, Call("sync.Mutex).Lock"))
			})
		}},
		"lru.new": {"announce", "newStringLRU", func(c *Ctx, fns []*Fn) *ssa.Function {
			return uniqueFn(fns, func(f *Fn) bool { return hasCall(c, f.SSA, Call("container/list.New")) })
		}},
		"announce.deliver": {"announce", "Receiver.handleAnnounce", func(c *Ctx, fns []*Fn) *ssa.Function {
			return c.outermost(uniqueFn(fns, func(f *Fn) bool {
				found := false
				instrs(f.SSA, func(in ssa.Instruction) {
					if s, ok := in.(*ssa.Select); ok {
						for _, st := range s.States {
							if st.Send != nil && strings.HasSuffix(st.Send.Type().String(), "announce.Announce") {
								found = true
							}
						}
					}
				})
				return found
			}))
		}},
		// ---- dagsync ----
		"latest.set": {"dagsync", "latestSyncHandler.setLatestSync", func(c *Ctx, fns []*Fn) *ssa.Function {
			return uniqueFn(fns, func(f *Fn) bool { return hasCall(c, f.SSA, Call("sync.Map).Store")) })
		}},
		"latest.get": {"dagsync", "latestSyncHandler.getLatestSync", func(c *Ctx, fns []*Fn) *ssa.Function {
			return uniqueFn(fns, func(f *Fn) bool { return hasCall(c, f.SSA, Call("sync.Map).Load")) })
		}},
		"dagsync.handle": {"dagsync", "handler.handle", func(c *Ctx, fns []*Fn) *ssa.Function {
			if h := c15HandleFn(c); h != nil {
				return h
			}
			return uniqueFn(fns, func(f *Fn) bool { return hasCall(c, f.SSA, Invoke("dagsync.Syncer.Sync")) })
		}},
		"dagsync.factory": {"dagsync", "handler.makeSyncer", func(c *Ctx, fns []*Fn) *ssa.Function {
			return c.outermost(uniqueFn(fns, func(f *Fn) bool { return hasCall(c, f.SSA, Call("ipnisync.Sync).NewSyncer")) }))
		}},
		"dagsync.limit": {"dagsync", "recursionLimit", func(c *Ctx, fns []*Fn) *ssa.Function {
			return uniqueFn(fns, func(f *Fn) bool {
				return f.SSA.Signature.Recv() == nil && f.SSA.Signature.Params().Len() == 1 && hasCall(c, f.SSA, Call("selector.RecursionLimitNone")) && hasCall(c, f.SSA, Call("selector.RecursionLimitDepth")) &&
					!hasCall(c, f.SSA, Invoke("datamodel.Node.LookupByString"))
			})
		}},
		"dagsync.rewrite": {"dagsync", "withRecursionLimit", func(c *Ctx, fns []*Fn) *ssa.Function {
			return uniqueFn(fns, func(f *Fn) bool { return hasCall(c, f.SSA, Invoke("datamodel.MapIterator.Next")) })
		}},
		"dagsync.seg.reset": {"dagsync", "segmentedSync.reset", func(c *Ctx, fns []*Fn) *ssa.Function {
			return uniqueFn(fns, func(f *Fn) bool {
				if f.SSA.Signature.Recv() == nil || f.SSA.Signature.Params().Len() != 0 || f.SSA.Signature.Results().Len() != 0 {
					return false
				}
				n := 0
				instrs(f.SSA, func(in ssa.Instruction) {
					if st, ok := in.(*ssa.Store); ok {
						if cv, ok := st.Val.(*ssa.Const); ok && cv.IsNil() {
							n++
						}
					}
				})
				return n == 2
			})
		}},
		// ---- ipnisync ----
		"ipnisync.request": {"dagsync/ipnisync", "Syncer.fetch", func(c *Ctx, fns []*Fn) *ssa.Function {
			return uniqueFn(fns, func(f *Fn) bool {
				return hasCall(c, f.SSA, Call("net/http.Client).Do")) && !strings.Contains(f.Name, "Publisher")
			})
		}},
		"ipnisync.blockfetch": {"dagsync/ipnisync", "Syncer.fetchBlock", func(c *Ctx, fns []*Fn) *ssa.Function {
			// the function that hands the request routine a callback which (directly or through a helper) opens the store for writing
			req := c.Role("ipnisync.request")
			return uniqueFn(fns, func(f *Fn) bool {
				if req == nil || f.SSA == req {
					return false
				}
				ok := false
				instrs(f.SSA, func(in ssa.Instruction) {
					ci, isCall := in.(ssa.CallInstruction)
					if !isCall || ci.Common().StaticCallee() != req {
						return
					}
					for _, a := range ci.Common().Args {
						if mc, isMC := unwrapV(a).(*ssa.MakeClosure); isMC {
							if len(c.CallsInl(mc.Fn.(*ssa.Function), Op("dyncall", "", Field("StorageWriteOpener", Any())), 2)) > 0 {
								ok = true
							}
						}
					}
				})
				return ok
			})
		}},
		"ipnisync.walk": {"dagsync/ipnisync", "Syncer.walkFetch", func(c *Ctx, fns []*Fn) *ssa.Function {
			return uniqueFn(fns, func(f *Fn) bool { return hasCall(c, f.SSA, Call("traversal.Progress).WalkMatching")) })
		}},
		// ---- pcache ----
		"pcache.index": {"pcache", "apiToCacheInfo", func(c *Ctx, fns []*Fn) *ssa.Function {
			return uniqueFn(fns, func(f *Fn) bool {
				s := f.SSA.Signature
				return s.Recv() == nil && s.Params().Len() == 1 && s.Results().Len() == 1 && strings.HasSuffix(s.Params().At(0).Type().String(), "model.ProviderInfo") &&
					strings.HasSuffix(s.Results().At(0).Type().String(), "readProviderInfo")
			})
		}},
		"pcache.load": {"pcache", "ProviderCache.loadReadOnly", func(c *Ctx, fns []*Fn) *ssa.Function {
			return uniqueFn(fns, func(f *Fn) bool {
				s := f.SSA.Signature
				return s.Recv() != nil && s.Params().Len() == 0 && s.Results().Len() == 1 && hasCall(c, f.SSA, CallLike([]string{"atomic.Pointer[", ").Load["}))
			})
		}},
		// ---- dhash ----
		"dhash.multi": {"dhash", "sha256Multiple", func(c *Ctx, fns []*Fn) *ssa.Function {
			return uniqueFn(fns, func(f *Fn) bool { return hasCall(c, f.SSA, Call("crypto/sha256.New")) })
		}},
		"dhash.derive": {"dhash", "deriveKey", func(c *Ctx, fns []*Fn) *ssa.Function {
			// the callee whose result keys the cipher in the encryptor
			var out *ssa.Function
			for _, f := range fns {
				for _, cs := range c.Calls(f.SSA, Call("crypto/aes.NewCipher")) {
					if k := strip(cs.X.Args[0]); k.Op == "call" {
						if call, ok := k.V.(*ssa.Call); ok {
							if sc := call.Call.StaticCallee(); sc != nil && sc.Pkg == f.SSA.Pkg {
								out = sc
							}
						}
					}
				}
			}
			return out
		}},
		// ---- ingest/schema ----
		"schema.decode": {"ingest/schema", "decodeIPLDNode", func(c *Ctx, fns []*Fn) *ssa.Function {
			return uniqueFn(fns, func(f *Fn) bool { return hasCall(c, f.SSA, Call("multicodec.LookupDecoder")) })
		}},
		"schema.adpayload": {"ingest/schema", "signaturePayload", func(c *Ctx, fns []*Fn) *ssa.Function {
			return uniqueFn(fns, func(f *Fn) bool {
				return f.SSA.Signature.Recv() == nil && hasCall(c, f.SSA, Call("go-multihash.Sum")) && hasCall(c, f.SSA, Call("go-multihash.Encode"))
			})
		}},
		"schema.eppayload": {"ingest/schema", "extendedProviderSignaturePayload", func(c *Ctx, fns []*Fn) *ssa.Function {
			return uniqueFn(fns, func(f *Fn) bool {
				return f.SSA.Signature.Recv() == nil && hasCall(c, f.SSA, Call("go-multihash.Sum")) && !hasCall(c, f.SSA, Call("go-multihash.Encode"))
			})
		}},
		// ---- metadata ----
		"metadata.factory": {"metadata", "metadataContext.newTransport", func(c *Ctx, fns []*Fn) *ssa.Function {
			return uniqueFn(fns, func(f *Fn) bool {
				s := f.SSA.Signature
				if s.Recv() == nil || s.Params().Len() != 1 || s.Results().Len() != 1 || !strings.HasSuffix(s.Results().At(0).Type().String(), "metadata.Protocol") {
					return false
				}
				found := false
				instrs(f.SSA, func(in ssa.Instruction) {
					if _, ok := in.(*ssa.Lookup); ok {
						found = true
					}
				})
				return found
			})
		}},
		// ---- rwriter ----
		"rwriter.opts": {"rwriter", "getOpts", func(c *Ctx, fns []*Fn) *ssa.Function {
			return uniqueFn(fns, func(f *Fn) bool {
				s := f.SSA.Signature
				return s.Recv() == nil && s.Params().Len() == 1 && s.Results().Len() == 2 && strings.HasSuffix(s.Results().At(0).Type().String(), "rwriter.config")
			})
		}},
	}
}

// Role resolves a role to its function (nil if it cannot be found).
func (c *Ctx) Role(name string) *ssa.Function {
	if c.roles == nil {
		c.roles = map[string]*ssa.Function{}
	}
	if f, ok := c.roles[name]; ok {
		return f
	}
	def, ok := roleDefs[name]
	if !ok {
		return nil
	}
	var out *ssa.Function
	if fns := c.Funcs(def.pkg); fns != nil {
		out = def.find(c, fns)
	}
	if out == nil {
		if f := c.Func(def.pkg, def.fallback); f != nil {
			out = f.SSA
		}
	}
	c.roles[name] = out
	return out
}

// RoleFn is Role as an *Fn (nil if missing).
func (c *Ctx) RoleFn(name string) *Fn {
	f := c.Role(name)
	if f == nil {
		return nil
	}
	if obj, ok := f.Object().(*types.Func); ok {
		return c.fnOf(obj)
	}
	return nil
}

// CallTo matches a static call whose callee is the given function (by identity).
func CallTo(fn *ssa.Function, args ...P) P {
	return func(x *X, b Binds) bool {
		x = strip(x)
		if x == nil || fn == nil || x.Op != "call" {
			return false
		}
		if x.Callee != fn {
			return false
		}
		if len(args) > len(x.Args) {
			return false
		}
		for i, p := range args {
			if !p(x.Args[i], b) {
				return false
			}
		}
		return true
	}
}

// RoleCall matches a call of the function playing the named role.
func (c *Ctx) RoleCall(role string, args ...P) P {
	return CallTo(c.Role(role), args...)
}
