package main

import (
	"strconv"
	"fmt"
	"go/types"
	"go/token"
	"sort"
	"strings"

	"golang.org/x/tools/go/ssa"
)

func init() {
	register(&propSpec{
		id:  "C20",
		run: runC20,
		explanation: "Structural necessary conditions of 'publisher addresses convert between URL and multiaddr without changing target', decided on SSA of maurl and mautil: " +
			"(X1) inverse-table agreement on the path: the escaping FromURL applies before building the http-path component and the unescaping ToURL applies to its string form belong to the same family, and that family is the one go-multiaddr's http-path transcoder uses (query escaping; validated against go-multiaddr's source in the thorough tier) — path escaping was used on the pinned tree (fixed in 821f7dc); the legacy httpath component keeps path escaping and is consulted only when http-path is absent; " +
			"(X2) field coverage: host (IP or DNS), port (tcp, when present), scheme and path (when non-empty) of the URL each reach a component of the multiaddr, and ToURL fills scheme, host and path of the result; " +
			"(X3) the scheme decision table extracted from ToURL's branch structure equals the specified one: https ⇒ https; http+tls ⇒ https; http ⇒ http; wss ⇒ wss; ws+tls ⇒ wss; ws ⇒ ws; none ⇒ http; " +
			"(X4) the address helpers' predicates: HTTP selection tests exactly the http and https protocol codes and rejects nil; public filtering requires public and not unspecified for IP-family addresses and rejects the name localhost for DNS-family ones; list equality compares lengths and then elements pairwise after sorting both lists by bytes (multiset equality). " +
			"Equality of host/port/scheme over all inputs and go-multiaddr's address classification are not decided.",
		assumptions: []string{"net/url escape/unescape pairs are inverse", "go-multiaddr/net classification (IsPublicAddr, IsIPUnspecified)"},
	})
	needsDeps["C20"] = true
}

func escFamily(name string) string {
	switch {
	case nameMatches(name, "net/url.QueryEscape"), nameMatches(name, "net/url.QueryUnescape"):
		return "query"
	case nameMatches(name, "net/url.PathEscape"), nameMatches(name, "net/url.PathUnescape"):
		return "path"
	}
	return ""
}

func runC20(c *Ctx) {
	c.Trust("go/ssa", "net/url", "go-multiaddr transcoders")
	const pkg = "maurl"
	from, to := c.Func(pkg, "FromURL"), c.Func(pkg, "ToURL")
	if from == nil || to == nil {
		c.Unk("C20.X1-escape-inverse", "maurl.FromURL/ToURL", token.NoPos, "not found")
		return
	}
	httpPath, _ := c.ConstString("github.com/multiformats/go-multiaddr", "P_HTTP_PATH")
	// ---- X1 ----------------------------------------------------------------------------------
	encFam, decFam := "", ""
	for _, cs := range c.Calls(from.SSA, Call("go-multiaddr.NewComponent")) {
		name := cs.X.Args[0]
		if _, m := Match(Field("Name", Call("go-multiaddr.ProtocolWithCode", Const(httpPath))), name); !m {
			continue
		}
		v := strip(cs.X.Args[1])
		if v.Op == "call" {
			encFam = escFamily(v.Name)
			_, okArg := Match(Field("Path", Op("param", from.SSA.Params[0].Name())), v.Args[0])
			c.Check(okArg && encFam != "", "C20.X1-escape-inverse", from.Name+" › http-path value", cs.In.Pos(), "http-path component built from an escaped u.Path ("+encFam+" escaping)", "http-path component not built from escape(u.Path): "+abbreviate(v.String()))
		} else {
			c.Bad("C20.X1-escape-inverse", from.Name+" › http-path value", cs.In.Pos(), "http-path component value is not an escaped path: "+abbreviate(v.String()))
		}
	}
	var httpPathUnesc, legacyUnesc *CallSite
	for _, cs := range c.Calls(to.SSA, Or(Call("net/url.QueryUnescape"), Call("net/url.PathUnescape"))) {
		cs := cs
		if _, m := Match(Extract("0", Op("lookup", "", Any(), Const(httpPath))), cs.X.Args[0]); m {
			httpPathUnesc = &cs
			decFam = escFamily(cs.X.Name)
		} else {
			legacyUnesc = &cs
		}
	}
	// what gets unescaped is the component's string form (as the transcoder escaped it): the per-protocol table is
	// filled from ValueForProtocol / Component.Value, not from the raw (already unescaped) bytes
	{
		nFill, rawAt := 0, token.NoPos
		c.WalkInl(to.SSA, 2, func(ev InlEvent) {
			mu, ok := ev.In.(*ssa.MapUpdate)
			if !ok {
				return
			}
			mt, ok := mu.Map.Type().Underlying().(*types.Map)
			if !ok {
				return
			}
			if b, ok := mt.Elem().Underlying().(*types.Basic); !ok || b.Kind() != types.String {
				return
			}
			nFill++
			v := c.E(mu.Value)
			_, a := Match(Extract("0", AnyCall("ValueForProtocol")), v)
			_, b := Match(AnyCall("Component).Value"), v)
			if !a && !b {
				rawAt = mu.Pos()
			}
		})
		c.Check(nFill > 0 && !rawAt.IsValid(), "C20.X1-escape-inverse", to.Name+" › component values in string form", to.SSA.Pos(), "the per-protocol values are the components' string values", "a component value is taken in another form than its string value (at "+c.pos(rawAt)+", e.g. RawValue): the path is then unescaped twice, so '+' and '%' in a path do not survive the round trip")
	}
	if httpPathUnesc == nil {
		c.Bad("C20.X1-escape-inverse", to.Name+" › http-path value", to.SSA.Pos(), "ToURL does not unescape the http-path component")
	}
	c.Check(encFam != "" && encFam == decFam, "C20.X1-escape-inverse", "maurl.FromURL/ToURL › http-path", from.SSA.Pos(),
		"FromURL escapes and ToURL unescapes with the same family ("+encFam+")", "FromURL uses "+encFam+" escaping but ToURL "+decFam+" unescaping: a path does not survive the round trip (e.g. space ↔ '+')")
	// the transcoder's family
	trFam := "query" // table; validated below in the thorough tier
	if c.AllDeps {
		trFam = c20TranscoderFamily(c)
		c.Check(trFam == "query" || trFam == "path", "C20.X1-escape-inverse", "go-multiaddr › http-path transcoder family", token.NoPos, "go-multiaddr's http-path transcoder uses "+trFam+" escaping (read from its source)", "cannot determine the escaping used by go-multiaddr's http-path transcoder")
	} else {
		c.Note("X1: transcoder family taken from the table (query); validated against go-multiaddr source in the thorough tier")
	}
	c.Check(encFam == trFam && decFam == trFam, "C20.X1-escape-inverse", "maurl ↔ go-multiaddr http-path transcoder", from.SSA.Pos(),
		"maurl escapes with the family the transcoder unescapes with ("+trFam+")", "maurl uses "+encFam+"/"+decFam+" escaping against a transcoder that uses "+trFam+" escaping: distinct paths collide or change")
	if legacyUnesc != nil {
		_, onlyIfAbsent := c.Guarded(legacyUnesc.In, Extract("1", Op("lookup", "", Any(), Const(httpPath))), false)
		c.Check(onlyIfAbsent && escFamily(legacyUnesc.X.Name) == "path", "C20.X1-escape-inverse", to.Name+" › legacy httpath", legacyUnesc.In.Pos(), "legacy component used only when http-path is absent, with path unescaping", "legacy httpath component takes precedence over http-path or is unescaped with the wrong family")
	}
	legacyPathTranscoder(c, "C20.X1-legacy-path-transcoder")
	// a port the URL may carry is not turned away: where the conversion tests the port number against a constant
	// itself (rather than leaving that to the multiaddr library), the lowest and the highest port, 0 and 65535, pass
	{
		nCmp := 0
		var fns []*ssa.Function
		fns = append(fns, from.SSA)
		for _, st := range c.CallsInl(from.SSA, Any(), 2) {
			if callee := st.In.Common().StaticCallee(); callee != nil && samePkgBody(from.SSA, callee) {
				fns = append(fns, callee)
			}
		}
		seenFn := map[*ssa.Function]bool{}
		for _, g := range fns {
			if seenFn[g] {
				continue
			}
			seenFn[g] = true
			instrs(g, func(in ssa.Instruction) {
				iff, ok := in.(*ssa.If)
				if !ok {
					return
				}
				bo, isBin := iff.Cond.(*ssa.BinOp)
				if !isBin {
					return
				}
				k, isK := bo.Y.(*ssa.Const)
				if !isK || k.Value == nil {
					return
				}
				kv, err := strconv.ParseInt(k.Value.ExactString(), 10, 64)
				if err != nil {
					return
				}
				if !c.E(bo.X).Contains(func(y *X) bool { return y.Op == "call" && (nameMatches(y.Name, "net/url.URL).Port") || nameMatches(y.Name, "strconv.Atoi") || nameMatches(y.Name, "strconv.ParseUint") || nameMatches(y.Name, "strconv.ParseInt")) }) {
					return
				}
				holds := func(n int64) (bool, bool) {
					switch bo.Op {
					case token.LSS:
						return n < kv, true
					case token.LEQ:
						return n <= kv, true
					case token.GTR:
						return n > kv, true
					case token.GEQ:
						return n >= kv, true
					}
					return false, false
				}
				// the edge that fails: leads to a return with a non-nil error (directly)
				for i, succ := range iff.Block().Succs {
					ret, isRet := succ.Instrs[len(succ.Instrs)-1].(*ssa.Return)
					if !isRet || len(ret.Results) == 0 || c.RetX(ret, len(ret.Results)-1).Op == "nil" {
						continue
					}
					nCmp++
					rejected := ""
					for _, n := range []int64{0, 65535} {
						if h, ok := holds(n); ok && h == (i == 0) {
							rejected = fmt.Sprint(n)
						}
					}
					c.Check(rejected == "", "C20.X2-fields-covered", c.short(g.String())+" › legal ports pass the range test", iff.Pos(), "ports 0 and 65535 pass the constant bound", "the port range test turns away the legal port "+rejected+": a URL with that port no longer converts")
				}
			})
		}
		_ = nCmp
	}
	c.Floor("C20.X1-legacy-path-transcoder", 1)
	c.Floor("C20.X1-escape-inverse", 3)

	// ---- X2 field coverage -------------------------------------------------------------------------
	u := Op("param", from.SSA.Params[0].Name())
	host := c.Calls(from.SSA, Call("net/url.URL).Hostname", u))
	port := c.Calls(from.SSA, Call("net/url.URL).Port", u))
	okHost := len(host) == 1
	if okHost {
		h := c.E(host[0].In.(*ssa.Call))
		ip := c.Calls(from.SSA, Call("go-multiaddr/net.FromIP", Call("net.ParseIP", Is(h))))
		dnsName, _ := c.ConstString("github.com/multiformats/go-multiaddr", "P_DNS")
		dns := c.Calls(from.SSA, Call("go-multiaddr.NewComponent", Field("Name", Call("go-multiaddr.ProtocolWithCode", Const(dnsName))), Is(h)))
		okHost = len(ip) == 1 && len(dns) == 1
		if okHost {
			_, g1 := c.Guarded(ip[0].In, EqNil(Call("net.ParseIP", Is(h))), false)
			_, g2 := c.Guarded(dns[0].In, EqNil(Call("net.ParseIP", Is(h))), true)
			okHost = g1 && g2
		}
	}
	c.Check(okHost, "C20.X2-fields-covered", from.Name+" › host", from.SSA.Pos(), "host becomes an IP component when it parses as IP, a dns component otherwise", "URL host does not reach the multiaddr as (IP if parseable, else dns)")
	okPort := len(port) == 1
	if okPort {
		pv := c.E(port[0].In.(*ssa.Call))
		tcpName, _ := c.ConstString("github.com/multiformats/go-multiaddr", "P_TCP")
		tcp := c.Calls(from.SSA, Call("go-multiaddr.NewComponent", Field("Name", Call("go-multiaddr.ProtocolWithCode", Const(tcpName))), Is(pv)))
		okPort = len(tcp) == 1
		if okPort {
			_, okPort = c.Guarded(tcp[0].In, Bin("==", Is(pv), Const(`""`)), false)
		} else if any := c.Calls(from.SSA, Call("go-multiaddr.NewComponent", Field("Name", Call("go-multiaddr.ProtocolWithCode", Const(tcpName))), Any())); len(any) == 1 {
			// the value may be the URL's port or, where the URL has none, a configured default: every other source of
			// the value is chosen only under Port() == "", and the component is added whenever the value is non-empty
			v := any[0].X.Args[1]
			okPort = true
			nPort := 0
			for _, l := range c.LeavesF(v, any[0].In) {
				if Same(l.Val, pv) {
					nPort++
					continue
				}
				noPort := false
				for _, fct := range l.Facts {
					if _, m := Match(Bin("==", Is(pv), Const(`""`)), fct.Cond); m && fct.Val {
						noPort = true
					}
				}
				if !noPort {
					okPort = false
				}
			}
			_, g := c.Guarded(any[0].In, Bin("==", Is(v), Const(`""`)), false)
			okPort = okPort && nPort >= 1 && g
		}
	}
	c.Check(okPort, "C20.X2-fields-covered", from.Name+" › port", from.SSA.Pos(), "a non-empty port becomes a tcp component", "URL port does not reach the multiaddr as a tcp component")
	sch := c.Calls(from.SSA, Call("go-multiaddr.NewComponent", Field("Scheme", u), Const(`""`)))
	c.Check(len(sch) == 1, "C20.X2-fields-covered", from.Name+" › scheme", from.SSA.Pos(), "the scheme becomes a value-less component of that name", "URL scheme does not reach the multiaddr")
	okPath := false
	for _, cs := range c.Calls(from.SSA, Call("go-multiaddr.NewComponent")) {
		if _, m := Match(Field("Name", Call("go-multiaddr.ProtocolWithCode", Const(httpPath))), cs.X.Args[0]); m {
			_, okPath = c.Guarded(cs.In, Bin("==", Field("Path", u), Const(`""`)), false)
		}
	}
	c.Check(okPath, "C20.X2-fields-covered", from.Name+" › path", from.SSA.Pos(), "a non-empty path becomes an http-path component", "URL path does not reach the multiaddr (or an empty one does)")
	// every component built is joined into the result: count Join calls vs components on the non-error path
	// ToURL fills scheme, host, path
	filled := map[string]bool{}
	instrs(to.SSA, func(in ssa.Instruction) {
		if st, ok := in.(*ssa.Store); ok {
			if a := c.E(st.Addr); a.Op == "field" && fieldOwner(a) == "URL" {
				filled[a.Name] = true
			}
		}
	})
	c.Check(filled["Scheme"] && filled["Host"] && filled["Path"], "C20.X2-fields-covered", to.Name+" › result fields", to.SSA.Pos(), "ToURL sets Scheme, Host and Path of the result", "ToURL leaves scheme, host or path unset")
	// (directly, or in a preparation helper handed the multiaddr)
	okDial := len(c.CallsInl(to.SSA, Call("go-multiaddr/net.DialArgs", Op("param", to.SSA.Params[0].Name())), 2)) == 1
	c.Check(okDial, "C20.X2-fields-covered", to.Name+" › host:port from the multiaddr", to.SSA.Pos(), "host:port come from manet.DialArgs(ma)", "host:port are not taken from the multiaddr's dial arguments")
	c.Floor("C20.X2-fields-covered", 6)

	// ---- X3 scheme decision table ----------------------------------------------------------------------
	c20SchemeTable(c, to)
	// ---- X4 mautil predicates ------------------------------------------------------------------------------
	c20Mautil(c)
}

// c20TranscoderFamily reads go-multiaddr's source: the functions given to
// NewTranscoderFromFunctions for the http-path transcoder.
func c20TranscoderFamily(c *Ctx) string {
	for path, sp := range c.SSAPkgs {
		if !strings.HasSuffix(path, "multiformats/go-multiaddr") || sp == nil {
			continue
		}
		initFn := sp.Func("init")
		if initFn == nil {
			continue
		}
		fam := ""
		instrs(initFn, func(in ssa.Instruction) {
			st, ok := in.(*ssa.Store)
			if !ok {
				return
			}
			g, ok := st.Addr.(*ssa.Global)
			if !ok || g.Name() != "TranscoderHTTPPath" {
				return
			}
			call, ok := unwrapV(st.Val).(*ssa.Call)
			if !ok {
				return
			}
			var fams []string
			for _, a := range call.Call.Args[:2] {
				if fn, ok := unwrapV(a).(*ssa.Function); ok {
					for _, cs := range c.Calls(fn, Or(Call("net/url.QueryEscape"), Call("net/url.QueryUnescape"), Call("net/url.PathEscape"), Call("net/url.PathUnescape"))) {
						fams = append(fams, escFamily(cs.X.Name))
					}
				}
			}
			if len(fams) == 2 && fams[0] == fams[1] {
				fam = fams[0]
			}
		})
		if fam != "" {
			return fam
		}
	}
	return ""
}

func c20SchemeTable(c *Ctx, to *Fn) {
	names := map[string]string{}
	for _, n := range []string{"P_HTTPS", "P_HTTP", "P_TLS", "P_WSS", "P_WS"} {
		if v, ok := c.ConstString("github.com/multiformats/go-multiaddr", n); ok {
			names[v] = strings.TrimPrefix(n, "P_")
		}
	}
	var ph *ssa.Phi
	instrs(to.SSA, func(in ssa.Instruction) {
		if st, ok := in.(*ssa.Store); ok {
			if a := c.E(st.Addr); a.Op == "field" && a.Name == "Scheme" && fieldOwner(a) == "URL" {
				if p, ok := st.Val.(*ssa.Phi); ok {
					ph = p
				}
			}
		}
	})
	key := to.Name + " › scheme table"
	if ph == nil || len(names) != 5 {
		c.Unk("C20.X3-scheme-table", key, to.SSA.Pos(), "scheme is not a merge of constant choices, or protocol constants not resolved")
		return
	}
	got := map[string][]string{}
	undecided := false
	for i, e := range ph.Edges {
		cv, ok := e.(*ssa.Const)
		if !ok || cv.Value == nil {
			undecided = true
			continue
		}
		val := strings.Trim(cv.Value.ExactString(), `"`)
		pred := ph.Block().Preds[i]
		var lits []string
		for _, f := range append(c.FactsAt(pred), edgeFact(c, pred, ph.Block())...) {
			m, ok := Match(Extract("1", Op("lookup", "", Any(), Bind("k"))), f.Cond)
			if !ok {
				continue
			}
			n, known := names[m["k"].Name]
			if !known {
				continue
			}
			if f.Val {
				lits = append(lits, "+"+n)
			} else {
				lits = append(lits, "-"+n)
			}
		}
		sort.Strings(lits)
		got[val] = append(got[val], strings.Join(lits, " "))
	}
	want := map[string][]string{
		"https": {"+HTTPS", "+HTTP +TLS -HTTPS"},
		"http":  {"+HTTP -HTTPS -TLS", "-HTTP -HTTPS -WS -WSS"},
		"wss":   {"+WSS -HTTP -HTTPS", "+TLS +WS -HTTP -HTTPS -WSS"},
		"ws":    {"+WS -HTTP -HTTPS -TLS -WSS"},
	}
	norm := func(m map[string][]string) string {
		var ks []string
		for k, v := range m {
			sort.Strings(v)
			ks = append(ks, k+" ⇐ "+strings.Join(v, " | "))
		}
		sort.Strings(ks)
		return strings.Join(ks, " ; ")
	}
	c.Check(!undecided && norm(got) == norm(want), "C20.X3-scheme-table", key, ph.Pos(), "extracted table: "+norm(got), "scheme decision table differs from the specification. extracted: "+norm(got)+" — specified: "+norm(want))
	c.Floor("C20.X3-scheme-table", 1)
}

func c20Mautil(c *Ctx) {
	const pkg = "mautil"
	code := func(n string) string { v, _ := c.ConstString("github.com/multiformats/go-multiaddr", n); return v }
	// FindHTTPAddrs
	if f, pred := c.Func(pkg, "FindHTTPAddrs"), (*ssa.Function)(nil); f != nil {
		// the predicate handed to FilterAddrs: a literal or a named function of the package
		for _, cs := range c.Calls(f.SSA, Call("go-multiaddr.FilterAddrs")) {
			if len(cs.X.Args) == 2 {
				// variadic: exactly one predicate
				if es := variadicElems(c, cs.X.Args[1]); len(es) == 1 {
					if v, ok := es[0].V.(ssa.Value); ok {
						switch v := unwrapV(v).(type) {
						case *ssa.MakeClosure:
							pred, _ = v.Fn.(*ssa.Function)
						case *ssa.Function:
							pred = v
						}
					}
				}
			}
		}
		if pred == nil || len(pred.Blocks) == 0 {
			c.Unk("C20.X4-helper-predicates", "mautil.FindHTTPAddrs", token.NoPos, "predicate handed to FilterAddrs not found")
		} else {
			consts := map[string]bool{}
			// …and the code tested is that of every component in turn: the comparison sits in a loop over all of the
			// address's protocols (or components), or in a callback run for each — an address "contains" http wherever
			// in it the component stands (a path, a peer ID or the like may follow it)
			everyComponent := true
			instrsDeep(pred, func(g *ssa.Function, in ssa.Instruction) {
				if bo, ok := in.(*ssa.BinOp); ok && bo.Op == token.EQL {
					if x := c.E(bo.X); x.Op == "field" && x.Name == "Code" {
						consts[c.E(bo.Y).Name] = true
						inAll := g != pred // a per-component callback
						for _, l := range naturalLoops(g) {
							if !l.Body[bo.Block()] {
								continue
							}
							for _, s := range c.rangedOver(l) {
								if s.Op == "param" || (s.Op == "call" && nameMatches(s.Name, "Multiaddr).Protocols")) || (s.Op == "invoke" && strings.HasSuffix(s.Name, "Protocols")) {
									inAll = true
								}
							}
						}
						if !inAll {
							everyComponent = false
						}
					}
				}
			})
			// a nil address is never kept: every alternative of the result other than the constant false is chosen
			// under target != nil
			trueUnderNonNil := true
			for _, b := range pred.Blocks {
				ret, ok := b.Instrs[len(b.Instrs)-1].(*ssa.Return)
				if !ok {
					continue
				}
				for _, l := range c.LeavesF(c.RetX(ret, 0), ret) {
					if v, isC := boolConst(l.Val); isC && !v {
						continue
					}
					g := false
					for _, fct := range append(append([]Fact{}, l.Facts...), c.FactsAt(b)...) {
						if _, m := Match(EqNil(Op("param", "")), fct.Cond); m && !fct.Val {
							g = true
						}
					}
					if !g {
						trueUnderNonNil = false
					}
				}
			}
			c.Check(len(consts) == 2 && consts[code("P_HTTP")] && consts[code("P_HTTPS")] && trueUnderNonNil, "C20.X4-helper-predicates", f.Name+" › selects http/https", f.SSA.Pos(), "keeps an address iff it is non-nil and has a protocol with code http or https", "HTTP-address selection does not test exactly the http and https codes on non-nil addresses")
			_, viaFilter := Match(Call("go-multiaddr.FilterAddrs", Op("param", "")), firstRetAny(c, f))
			c.Check(viaFilter, "C20.X4-helper-predicates", f.Name+" › filters its argument", f.SSA.Pos(), "result = FilterAddrs(argument, predicate)", "result is not the filtered argument list")
			c.Check(everyComponent && len(consts) > 0, "C20.X4-helper-predicates", f.Name+" › looks at every component", f.SSA.Pos(), "the http/https test is made for each protocol of the address in turn", "the http/https test is made on one component only (the last, the first): addresses with http followed by a path or peer ID component are not selected")
		}
	} else {
		c.Unk("C20.X4-helper-predicates", "mautil.FindHTTPAddrs", token.NoPos, "not found")
	}
	// FilterPublic
	// (the predicate: the function literal, or the named function, handed to FilterAddrs)
	var fpPred *ssa.Function
	if f := c.Func(pkg, "FilterPublic"); f != nil {
		for _, cs := range c.Calls(f.SSA, Call("go-multiaddr.FilterAddrs")) {
			if len(cs.X.Args) == 2 {
				if es := variadicElems(c, cs.X.Args[1]); len(es) == 1 && es[0].V != nil {
					fpPred = funcValueTarget(es[0].V)
				}
			}
		}
		if fpPred == nil && len(f.SSA.AnonFuncs) == 1 {
			fpPred = f.SSA.AnonFuncs[0]
		}
	}
	if f := c.Func(pkg, "FilterPublic"); f != nil && fpPred != nil {
		pred := fpPred
		okIP, okDNS := false, false
		for _, b := range pred.Blocks {
			ret, ok := b.Instrs[len(b.Instrs)-1].(*ssa.Return)
			if !ok {
				continue
			}
			x := c.RetX(ret, 0)
			var srcs []*X
			flatten(x, &srcs, 0)
			for _, s := range srcs {
				if _, m := Match(Op("not", "", Call("go-multiaddr/net.IsIPUnspecified", Op("param", ""))), s); m {
					// the false edge of the phi must come from !IsPublicAddr
					if _, g := c.GuardedB(s.V.(ssa.Instruction).Block(), Call("go-multiaddr/net.IsPublicAddr", Op("param", "")), true); g {
						okIP = true
					}
				}
				if _, m := Match(Bin("!=", Call("go-multiaddr.Component).Value"), Const(`"localhost"`)), s); m {
					okDNS = true
				}
			}
		}
		c.Check(okIP, "C20.X4-helper-predicates", f.Name+" › IP family", f.SSA.Pos(), "IP-family addresses kept iff IsPublicAddr and not IsIPUnspecified", "public filter does not require (public ∧ not unspecified) for IP addresses")
		c.Check(okDNS, "C20.X4-helper-predicates", f.Name+" › DNS family", f.SSA.Pos(), "DNS-family addresses kept iff the name is not localhost", "public filter does not reject the name localhost")
		// which codes select which branch
		ipCodes := map[string]bool{code("P_IP4"): false, code("P_IP6"): false, code("P_IP6ZONE"): false, code("P_IPCIDR"): false}
		dnsCodes := map[string]bool{code("P_DNS"): false, code("P_DNS4"): false, code("P_DNS6"): false, code("P_DNSADDR"): false}
		instrs(pred, func(in ssa.Instruction) {
			if bo, ok := in.(*ssa.BinOp); ok && bo.Op == token.EQL {
				k := c.E(bo.Y).Name
				if _, ok := ipCodes[k]; ok {
					ipCodes[k] = true
				}
				if _, ok := dnsCodes[k]; ok {
					dnsCodes[k] = true
				}
			}
		})
		all := true
		for _, v := range ipCodes {
			all = all && v
		}
		for _, v := range dnsCodes {
			all = all && v
		}
		c.Check(all, "C20.X4-helper-predicates", f.Name+" › protocol families", f.SSA.Pos(), "ip4, ip6, ip6zone, ipcidr and dns, dns4, dns6, dnsaddr are classified", "an IP or DNS protocol code is no longer classified by the public filter")
	} else {
		c.Unk("C20.X4-helper-predicates", "mautil.FilterPublic", token.NoPos, "not found or not a single-predicate filter")
	}
	// MultiaddrsEqual
	if f := c.Func(pkg, "MultiaddrsEqual"); f != nil {
		a, b := Op("param", f.SSA.Params[0].Name()), Op("param", f.SSA.Params[1].Name())
		sorts := c.Calls(f.SSA, CallLike([]string{"slices.SortFunc"}))
		sortedA, sortedB := false, false
		for _, s := range sorts {
			if _, m := Match(a, s.X.Args[0]); m {
				sortedA = true
			}
			if _, m := Match(b, s.X.Args[0]); m {
				sortedB = true
			}
		}
		pairwise := false
		for _, cs := range c.Calls(f.SSA, AnyCall("Multiaddr).Equal")) {
			if ReachableFromSucc(cs.In.Block(), cs.In.Block()) {
				m, ok := Match(AnyCall("Multiaddr).Equal", Op("index", "", a, Bind("i")), Op("index", "", b, Bind("i"))), cs.X)
				_ = m
				pairwise = ok
				if ok {
					for _, s := range sorts {
						if !Precedes(s.In, cs.In) {
							pairwise = false
						}
					}
				}
			}
		}
		// or the standard pairwise comparison after both sorts
		for _, cs := range c.Calls(f.SSA, CallLike([]string{"slices.EqualFunc"}, a, b)) {
			if cl := cs.X.Args[2]; cl.Op == "closure" || cl.Op == "func" {
				var cf *ssa.Function
				switch v := cl.V.(type) {
				case *ssa.MakeClosure:
					cf, _ = v.Fn.(*ssa.Function)
				case *ssa.Function:
					cf = v
				}
				if cf != nil && len(cf.Params) == 2 {
					eq := c.Calls(cf, AnyCall("Multiaddr).Equal", Op("param", cf.Params[0].Name()), Op("param", cf.Params[1].Name())))
					pairwise = len(eq) == 1
					for _, srt := range sorts {
						if !Precedes(srt.In, cs.In) {
							pairwise = false
						}
					}
				}
			}
		}
		lenTest := false
		for _, bl := range f.SSA.Blocks {
			if ret, ok := bl.Instrs[len(bl.Instrs)-1].(*ssa.Return); ok && c.RetX(ret, 0).Name == "false" {
				if _, g := c.GuardedB(bl, Bin("==", Op("builtin", "len", a), Op("builtin", "len", b)), false); g {
					lenTest = true
				}
			}
		}
		// no other way to answer "equal": a return that can be true either follows both sorts, or is the empty /
		// single-element case
		shortcut := token.NoPos
		for _, bl := range f.SSA.Blocks {
			ret, ok := bl.Instrs[len(bl.Instrs)-1].(*ssa.Return)
			if !ok || len(ret.Results) != 1 {
				continue
			}
			if v, isConst := boolConst(c.RetX(ret, 0)); isConst && !v {
				continue
			}
			afterSorts := len(sorts) >= 2
			for _, srt := range sorts {
				if !Precedes(srt.In, ret) {
					afterSorts = false
				}
			}
			_, empty := c.GuardedB(bl, Bin("==", Op("builtin", "len", Or(a, b)), Const("0")), true)
			_, single := c.GuardedB(bl, Bin("==", Op("builtin", "len", Or(a, b)), Const("1")), true)
			if !afterSorts && !empty && !single {
				shortcut = ret.Pos()
			}
		}
		c.Check(!shortcut.IsValid(), "C20.X4-helper-predicates", f.Name+" › no shortcut to 'equal'", f.SSA.Pos(), "every return that can be true follows both sorts, or is the empty / single-element case", "address-list equality can answer 'equal' at "+c.pos(shortcut)+" without the sorted element-by-element comparison (and outside the empty / single-element cases): multiplicities are not compared, or the answer depends on the argument order")
		c.Check(sortedA && sortedB && pairwise && lenTest, "C20.X4-helper-predicates", f.Name+" › multiset equality", f.SSA.Pos(), "lengths equal, then both lists sorted by bytes and compared element by element", "address-list equality is not (same length ∧ pairwise equal after sorting both): lists with different multiplicities compare equal, or order matters")
	} else {
		c.Unk("C20.X4-helper-predicates", "mautil.MultiaddrsEqual", token.NoPos, "not found")
	}
	c.Floor("C20.X4-helper-predicates", 8)
}

func firstRetAny(c *Ctx, f *Fn) *X {
	for _, b := range f.SSA.Blocks {
		if ret, ok := b.Instrs[len(b.Instrs)-1].(*ssa.Return); ok && len(ret.Results) > 0 {
			return c.RetX(ret, 0)
		}
	}
	return &X{Op: "nil"}
}

// legacyPathTranscoder: the legacy "httpath" protocol is registered with a transcoder built from the package's own
// three functions — string→bytes, bytes→string and a validator (none nil, none a library transcoder that escapes):
// its values are URL paths already escaped by the publisher, carried byte for byte, and a value containing a raw
// slash must be refused when the address is built (it would re-split on the wire). Shared by C19 (provider addresses
// read back identically) and C20 (old-format publisher addresses convert to the URL they name).
func legacyPathTranscoder(c *Ctx, rule string) {
	p := c.pkg("maurl")
	if p == nil {
		c.Unk(rule, "maurl", token.NoPos, "package not found")
		return
	}
	initFn := c.SSAPkgs[p.PkgPath].Func("init")
	if initFn == nil {
		c.Unk(rule, "maurl.init", token.NoPos, "not found")
		return
	}
	var mk *ssa.Call
	nMk := 0
	okArgs := false
	var tcGlobal *ssa.Global
	instrs(initFn, func(in ssa.Instruction) {
		call, ok := in.(*ssa.Call)
		if !ok {
			return
		}
		callee := call.Call.StaticCallee()
		if callee == nil || callee.Name() != "NewTranscoderFromFunctions" {
			return
		}
		nMk++
		mk = call
		okArgs = len(call.Call.Args) == 3
		for _, a := range call.Call.Args {
			v := a
			if ct, isCT := v.(*ssa.ChangeType); isCT {
				v = ct.X
			}
			fn, isFn := v.(*ssa.Function)
			if !isFn || fn.Pkg == nil || fn.Pkg.Pkg != p.Types {
				okArgs = false
			}
		}
		if refs := call.Referrers(); refs != nil {
			for _, r := range *refs {
				if st, isSt := r.(*ssa.Store); isSt {
					if g, isG := st.Addr.(*ssa.Global); isG {
						tcGlobal = g
					}
				}
			}
		}
	})
	used := false
	instrs(initFn, func(in ssa.Instruction) {
		st, ok := in.(*ssa.Store)
		if !ok {
			return
		}
		fa, isFA := st.Addr.(*ssa.FieldAddr)
		if !isFA {
			return
		}
		stt, isSt := deref(fa.X.Type()).Underlying().(*types.Struct)
		if !isSt || fa.Field >= stt.NumFields() || stt.Field(fa.Field).Name() != "Transcoder" {
			return
		}
		if mk != nil && st.Val == ssa.Value(mk) {
			used = true
		}
		if ld, isLoad := st.Val.(*ssa.UnOp); isLoad && tcGlobal != nil && ld.X == ssa.Value(tcGlobal) {
			used = true
		}
	})
	c.Check(nMk == 1 && okArgs && used, rule, "maurl › legacy path protocol's transcoder", initFn.Pos(), "registered with NewTranscoderFromFunctions(own string→bytes, own bytes→string, own validator)", "the legacy httpath protocol is not registered with the package's own transcoder and validator (a library transcoder escapes the already escaped path a second time; without a validator a value with a raw slash is accepted and re-splits on the wire): old-format publisher addresses name another URL, or read back as different addresses")
}

// filterPublicFamilies: the public-address filter classifies every IP-family and DNS-family protocol code (an address
// whose first component is of a family the filter does not know falls into its "keep" default: a zoned link-local or
// loopback IPv6 address is then delivered although address filtering is on). Shared by C09.
func filterPublicFamilies(c *Ctx, rule string) {
	f := c.Func("mautil", "FilterPublic")
	if f == nil {
		c.Unk(rule, "mautil.FilterPublic", token.NoPos, "not found")
		return
	}
	var pred *ssa.Function
	for _, cs := range c.Calls(f.SSA, Call("go-multiaddr.FilterAddrs")) {
		if len(cs.X.Args) == 2 {
			if es := variadicElems(c, cs.X.Args[1]); len(es) == 1 && es[0].V != nil {
				pred = funcValueTarget(es[0].V)
			}
		}
	}
	if pred == nil && len(f.SSA.AnonFuncs) == 1 {
		pred = f.SSA.AnonFuncs[0]
	}
	if pred == nil {
		c.Unk(rule, "mautil.FilterPublic", f.SSA.Pos(), "predicate not found")
		return
	}
	code := func(name string) string {
		v, _ := c.ConstString("github.com/multiformats/go-multiaddr", name)
		return v
	}
	want := map[string]bool{}
	for _, n := range []string{"P_IP4", "P_IP6", "P_IP6ZONE", "P_IPCIDR", "P_DNS", "P_DNS4", "P_DNS6", "P_DNSADDR"} {
		want[code(n)] = false
	}
	instrs(pred, func(in ssa.Instruction) {
		if bo, ok := in.(*ssa.BinOp); ok && bo.Op == token.EQL {
			k := c.E(bo.Y).Name
			if _, ok := want[k]; ok {
				want[k] = true
			}
		}
	})
	all := true
	for _, v := range want {
		all = all && v
	}
	c.Check(all, rule, f.Name+" › protocol families", f.SSA.Pos(), "ip4, ip6, ip6zone, ipcidr and dns, dns4, dns6, dnsaddr are classified", "an IP or DNS protocol code is no longer classified by the public filter: addresses of that form are kept whatever they point to")
}
