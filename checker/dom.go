package main

import (
	"go/token"
	"go/types"
	"strings"

	"golang.org/x/tools/go/ssa"
)

// Fact: condition Cond has truth value Val on every path to the block.
type Fact struct {
	Cond *X
	Val  bool
	If   *ssa.If
}

// normFact pushes negations and != into the truth value.
func normFact(x *X, val bool) (*X, bool) {
	for {
		x = strip(x)
		if x.Op == "not" {
			x, val = x.Args[0], !val
			continue
		}
		if x.Op == "binop" && x.Name == "!=" {
			y := *x
			y.Name = "=="
			return &y, !val
		}
		return x, val
	}
}

// FactsAt returns the branch facts that hold whenever control is in block b
// (decided by dominance: b is dominated by the successor s of an If block d,
// s has d as its only predecessor).
func (c *Ctx) FactsAt(b *ssa.BasicBlock) []Fact {
	var out []Fact
	for d := b; d != nil; d = d.Idom() {
		// which single-pred child of an If leads here?
		if len(d.Preds) != 1 {
			continue
		}
		p := d.Preds[0]
		iff, ok := p.Instrs[len(p.Instrs)-1].(*ssa.If)
		if !ok {
			continue
		}
		if p.Succs[0] == p.Succs[1] {
			continue
		}
		val := p.Succs[0] == d
		cx, v := normFact(c.E(iff.Cond), val)
		out = append(out, Fact{Cond: cx, Val: v, If: iff})
	}
	// a value-level short-circuit (switch case `a && b`, `x := a || b`): the phi is true only through its one edge that
	// is not the constant false — then that edge's value is true and the edge was taken (dually for ||)
	for i := 0; i < len(out) && i < 64; i++ {
		ph, ok := out[i].Cond.V.(*ssa.Phi)
		if !ok || out[i].Cond.Op != "phi" || len(ph.Edges) < 2 || len(ph.Edges) != len(ph.Block().Preds) {
			continue
		}
		if b, isB := ph.Type().Underlying().(*types.Basic); !isB || b.Kind() != types.Bool {
			continue
		}
		idx := -1
		n := 0
		for j, e := range ph.Edges {
			if k, isC := e.(*ssa.Const); isC && k.Value != nil && k.Value.ExactString() == map[bool]string{true: "false", false: "true"}[out[i].Val] {
				continue
			}
			idx = j
			n++
		}
		if n != 1 {
			continue
		}
		pred := ph.Block().Preds[idx]
		cx, v := normFact(c.E(ph.Edges[idx]), out[i].Val)
		out = append(out, Fact{Cond: cx, Val: v, If: out[i].If})
		out = append(out, edgeFact(c, pred, ph.Block())...)
		for d := pred; d != nil; d = d.Idom() {
			if len(d.Preds) != 1 {
				continue
			}
			pp := d.Preds[0]
			iff, ok := pp.Instrs[len(pp.Instrs)-1].(*ssa.If)
			if !ok || pp.Succs[0] == pp.Succs[1] {
				continue
			}
			cx2, v2 := normFact(c.E(iff.Cond), pp.Succs[0] == d)
			out = append(out, Fact{Cond: cx2, Val: v2, If: iff})
		}
	}
	// an error merged from several tests (err = fmt.Errorf(…) on each failing test, one 'if err != nil' after them):
	// the merged value is nil only through its one edge that is not a freshly made error — then that edge was taken,
	// and the tests on the way to it came out as they do on that edge
	for i := 0; i < len(out) && i < 64; i++ {
		f := out[i]
		if !f.Val || f.Cond.Op != "binop" || f.Cond.Name != "==" || len(f.Cond.Args) != 2 || f.Cond.Args[1].Op != "nil" {
			continue
		}
		ph, ok := f.Cond.Args[0].V.(*ssa.Phi)
		if !ok || f.Cond.Args[0].Op != "phi" || len(ph.Edges) < 2 || len(ph.Edges) != len(ph.Block().Preds) || !isErrorType(ph.Type()) {
			continue
		}
		idx, n := -1, 0
		for j, e := range ph.Edges {
			if call, isCall := e.(*ssa.Call); isCall {
				if callee := call.Call.StaticCallee(); callee != nil && callee.Pkg != nil {
					if full := callee.Pkg.Pkg.Path() + "." + callee.Name(); full == "fmt.Errorf" || full == "errors.New" {
						continue
					}
				}
			}
			if _, isMI := e.(*ssa.MakeInterface); isMI {
				continue
			}
			idx = j
			n++
		}
		if n != 1 {
			continue
		}
		pred := ph.Block().Preds[idx]
		out = append(out, Fact{Cond: &X{Op: "binop", Name: "==", Args: []*X{c.E(ph.Edges[idx]), f.Cond.Args[1]}}, Val: true, If: f.If})
		out = append(out, edgeFact(c, pred, ph.Block())...)
		for d := pred; d != nil; d = d.Idom() {
			if len(d.Preds) != 1 {
				continue
			}
			pp := d.Preds[0]
			iff, ok := pp.Instrs[len(pp.Instrs)-1].(*ssa.If)
			if !ok || pp.Succs[0] == pp.Succs[1] {
				continue
			}
			cx2, v2 := normFact(c.E(iff.Cond), pp.Succs[0] == d)
			out = append(out, Fact{Cond: cx2, Val: v2, If: iff})
		}
	}
	// a test of a helper's boolean result carries the helper's own tests
	if c.factDepth == 0 {
		c.factDepth++
		n := len(out)
		for i := 0; i < n; i++ {
			for _, g := range c.impliedFacts(out[i]) {
				g.If = out[i].If
				out = append(out, g)
			}
		}
		c.factDepth--
	}
	return out
}

// Guarded reports whether instruction in executes only when a condition
// matching pat has truth value val. Returns the bindings of the match.
func (c *Ctx) Guarded(in ssa.Instruction, pat P, val bool) (Binds, bool) {
	for _, f := range c.FactsAt(in.Block()) {
		if f.Val != val {
			continue
		}
		if b, ok := Match(pat, f.Cond); ok {
			return b, true
		}
	}
	return nil, false
}

// GuardedB is Guarded for a block.
func (c *Ctx) GuardedB(blk *ssa.BasicBlock, pat P, val bool) (Binds, bool) {
	for _, f := range c.FactsAt(blk) {
		if f.Val != val {
			continue
		}
		if b, ok := Match(pat, f.Cond); ok {
			return b, true
		}
	}
	return nil, false
}

// EqNil is the pattern "x == nil" (used with val=false for "x != nil").
func EqNil(x P) P { return Bin("==", x, Nil()) }

// ErrNilFact reports whether `errv == nil` is known true at instruction in.
func (c *Ctx) ErrNilAt(in ssa.Instruction, errv *X) bool {
	_, ok := c.Guarded(in, EqNil(Is(errv)), true)
	return ok
}

// CallSite is a call instruction with its reconstructed expression.
type CallSite struct {
	In ssa.CallInstruction
	Fn *ssa.Function
	X  *X
}

// Calls returns all call sites in fn (and nested literals) matching pat.
// Go and defer statements are included.
func (c *Ctx) Calls(fn *ssa.Function, pat P) []CallSite {
	var out []CallSite
	instrsDeep(fn, func(g *ssa.Function, in ssa.Instruction) {
		ci, ok := in.(ssa.CallInstruction)
		if !ok {
			return
		}
		c.callSites++
		x := c.CallX(ci)
		if _, ok := Match(pat, x); ok {
			out = append(out, CallSite{In: ci, Fn: g, X: x})
		}
	})
	return out
}

// CallsInPkg returns matching call sites in all source functions of a package.
func (c *Ctx) CallsInPkg(rel string, pat P) []CallSite {
	var out []CallSite
	for _, f := range c.Funcs(rel) {
		out = append(out, c.Calls(f.SSA, pat)...)
	}
	// package initialiser and synthetic wrappers are skipped: they contain
	// no calls relevant to the rules.
	return out
}

// Result i of a call as an SSA value usable with E(): for multi-result calls
// the Extract instructions, for single-result calls the call itself.
func (c *Ctx) Result(cs CallSite, i int) *X {
	call, ok := cs.In.(*ssa.Call)
	if !ok {
		return nil
	}
	sig := call.Call.Signature()
	if sig.Results().Len() == 1 {
		if i == 0 {
			return c.E(call)
		}
		return nil
	}
	if refs := call.Referrers(); refs != nil {
		for _, r := range *refs {
			if ex, ok := r.(*ssa.Extract); ok && ex.Index == i {
				return c.E(ex)
			}
		}
	}
	return nil
}

// errIndex returns the index of the (last) error result of a call, or -1.
func errIndex(cc *ssa.CallCommon) int {
	res := cc.Signature().Results()
	for i := res.Len() - 1; i >= 0; i-- {
		if isErrorType(res.At(i).Type()) {
			return i
		}
	}
	return -1
}

func isErrorType(t types.Type) bool {
	return types.Identical(t, types.Universe.Lookup("error").Type())
}

// ErrHandling classifies what a function does with the error result of a call.
type ErrHandling struct {
	Kind string // "returned-directly", "checked-return", "dropped", "swallowed", "unknown"
	Why  string
	Pos  token.Pos
}

// ErrPropagates decides the R-ERR obligation for one call site: the error
// result is either returned directly, or compared with nil and on the
// non-nil edge every path returns (a value that is not the nil constant in
// the function's error result position) or panics, without falling back into
// the success path.
func (c *Ctx) ErrPropagates(cs CallSite) ErrHandling {
	call, ok := cs.In.(*ssa.Call)
	if !ok {
		return ErrHandling{Kind: "dropped", Why: "call is a go/defer statement; its error cannot be observed", Pos: cs.In.Pos()}
	}
	ei := errIndex(&call.Call)
	if ei < 0 {
		return ErrHandling{Kind: "unknown", Why: "callee has no error result", Pos: call.Pos()}
	}
	var errVal ssa.Value
	if call.Call.Signature().Results().Len() == 1 {
		errVal = call
	} else if refs := call.Referrers(); refs != nil {
		for _, r := range *refs {
			if ex, ok := r.(*ssa.Extract); ok && ex.Index == ei {
				errVal = ex
			}
		}
	}
	if errVal == nil {
		return ErrHandling{Kind: "dropped", Why: "error result is never extracted (discarded with _ or ignored)", Pos: call.Pos()}
	}
	return c.errValuePropagates(cs.Fn, errVal, call.Pos())
}

func (c *Ctx) errValuePropagates(fn *ssa.Function, errVal ssa.Value, pos token.Pos) ErrHandling {
	// All values that carry errVal: itself, phis merging it, stores to the
	// named-result / captured cell.
	carriers := map[ssa.Value]bool{errVal: true}
	var nilTests []*ssa.If
	var nilTestNonNilSucc []*ssa.BasicBlock
	returnedDirectly := false
	var visit func(v ssa.Value, depth int)
	visit = func(v ssa.Value, depth int) {
		refs := v.Referrers()
		if refs == nil || depth > 4 {
			return
		}
		for _, r := range *refs {
			switch r := r.(type) {
			case *ssa.Return:
				returnedDirectly = true
			case *ssa.Phi:
				if !carriers[r] {
					carriers[r] = true
					visit(r, depth+1)
				}
			case *ssa.BinOp:
				if (r.Op == token.EQL || r.Op == token.NEQ) && (isNilConst(r.X) || isNilConst(r.Y)) {
					if rr := r.Referrers(); rr != nil {
						for _, u := range *rr {
							if iff, ok := u.(*ssa.If); ok {
								nilTests = append(nilTests, iff)
								b := iff.Block()
								if r.Op == token.NEQ {
									nilTestNonNilSucc = append(nilTestNonNilSucc, b.Succs[0])
								} else {
									nilTestNonNilSucc = append(nilTestNonNilSucc, b.Succs[1])
								}
							}
						}
					}
				}
			case *ssa.Store:
				// stored into a cell (named result, captured err): follow loads of the cell
				if r.Val == v {
					if al, ok := r.Addr.(*ssa.Alloc); ok {
						if lr := al.Referrers(); lr != nil {
							for _, l := range *lr {
								if u, ok := l.(*ssa.UnOp); ok && u.Op == token.MUL && !carriers[u] {
									// only loads after the store in the same block or in dominated blocks
									if r.Block() == u.Block() || r.Block().Dominates(u.Block()) {
										carriers[u] = true
										visit(u, depth+1)
									}
								}
							}
						}
					} else if fv, ok := r.Addr.(*ssa.FreeVar); ok {
						_ = fv
						// Closure assigns a captured error variable: the enclosing
						// function is responsible; treated as returned to it.
						returnedDirectly = true
					}
				}
			case *ssa.MakeInterface, *ssa.ChangeInterface:
				if vv, ok := r.(ssa.Value); ok && !carriers[vv] {
					carriers[vv] = true
					visit(vv, depth+1)
				}
			}
		}
	}
	visit(errVal, 0)
	if len(nilTests) == 0 {
		if returnedDirectly {
			return ErrHandling{Kind: "returned-directly", Why: "error result flows straight into a return", Pos: pos}
		}
		return ErrHandling{Kind: "dropped", Why: "error result is neither compared with nil nor returned", Pos: pos}
	}
	for i, iff := range nilTests {
		nn := nilTestNonNilSucc[i]
		if len(nn.Preds) != 1 {
			// `if err == nil { … }; return x, err`: the test only adds work on
			// the nil edge; fine if every return reachable from here returns the error itself.
			all := returnedDirectly
			for b := range ReachableFrom(nn) {
				if r, ok := b.Instrs[len(b.Instrs)-1].(*ssa.Return); ok {
					hit := false
					for _, res := range r.Results {
						if carriers[res] {
							hit = true
						}
					}
					if !hit {
						all = false
					}
				}
			}
			if all {
				continue
			}
			return ErrHandling{Kind: "unknown", Why: "non-nil branch of the error test is shared with other paths", Pos: iff.Pos()}
		}
		// Region dominated by nn must not leave except by return/panic, or by
		// jumping back to a block that dominates the call (retry: the call is re-issued).
		bad := regionEscapes(nn)
		if bad != nil && c.allowRetry {
			if db, ok := errVal.(ssa.Instruction); ok && bad.Dominates(db.Block()) && bad != db.Block() {
				bad = nil
			} else if ok && bad == db.Block() {
				// label block is the call's own block
				bad = nil
			}
		}
		if bad != nil {
			return ErrHandling{Kind: "swallowed", Why: "on the err != nil edge control continues into the success path (block " + bad.String() + ")", Pos: posOf(bad.Instrs[0])}
		}
		// Every return in the region must carry a non-nil-constant error.
		if r := regionReturnsNilError(nn, fn); r != nil {
			return ErrHandling{Kind: "swallowed", Why: "on the err != nil edge the function returns a nil error", Pos: r.Pos()}
		}
	}
	return ErrHandling{Kind: "checked-return", Why: "error compared with nil; every path of the non-nil edge returns a non-nil error or panics", Pos: pos}
}

func isNilConst(v ssa.Value) bool {
	c, ok := v.(*ssa.Const)
	return ok && c.IsNil()
}

// regionBlocks returns the blocks dominated by root.
func regionBlocks(root *ssa.BasicBlock) []*ssa.BasicBlock {
	var out []*ssa.BasicBlock
	for _, b := range root.Parent().Blocks {
		if root.Dominates(b) {
			out = append(out, b)
		}
	}
	return out
}

// regionEscapes returns a block outside the region dominated by root that is
// entered from inside it (nil if the region is left only via return/panic).
func regionEscapes(root *ssa.BasicBlock) *ssa.BasicBlock {
	for _, b := range regionBlocks(root) {
		for _, s := range b.Succs {
			if !root.Dominates(s) {
				return s
			}
		}
	}
	return nil
}

// regionReturnsNilError finds a return inside the region whose error result
// is the nil constant.
func regionReturnsNilError(root *ssa.BasicBlock, fn *ssa.Function) *ssa.Return {
	res := fn.Signature.Results()
	ei := -1
	for i := res.Len() - 1; i >= 0; i-- {
		if isErrorType(res.At(i).Type()) {
			ei = i
			break
		}
	}
	if ei < 0 {
		return nil
	}
	for _, b := range regionBlocks(root) {
		if len(b.Instrs) == 0 {
			continue
		}
		if r, ok := b.Instrs[len(b.Instrs)-1].(*ssa.Return); ok && ei < len(r.Results) {
			if isNilConst(r.Results[ei]) {
				return r
			}
			// defer-spilled result cell: look at the value stored in this block
			if u, ok := r.Results[ei].(*ssa.UnOp); ok {
				if al, ok := u.X.(*ssa.Alloc); ok {
					for k := len(b.Instrs) - 1; k >= 0; k-- {
						if st, ok := b.Instrs[k].(*ssa.Store); ok && st.Addr == al {
							if isNilConst(st.Val) {
								return r
							}
							break
						}
					}
				}
			}
		}
	}
	return nil
}

// ReachableFrom returns the set of blocks reachable from b (including b).
func ReachableFrom(b *ssa.BasicBlock) map[*ssa.BasicBlock]bool {
	seen := map[*ssa.BasicBlock]bool{}
	var rec func(*ssa.BasicBlock)
	rec = func(x *ssa.BasicBlock) {
		if seen[x] {
			return
		}
		seen[x] = true
		for _, s := range x.Succs {
			rec(s)
		}
	}
	rec(b)
	return seen
}

// Precedes reports whether instruction a is executed before b on every path
// that reaches b (a's block strictly dominates b's, or same block and earlier).
func Precedes(a, b ssa.Instruction) bool {
	if a.Parent() != b.Parent() {
		return false
	}
	if a.Block() == b.Block() {
		for _, in := range a.Block().Instrs {
			if in == a {
				return true
			}
			if in == b {
				return false
			}
		}
	}
	return a.Block().Dominates(b.Block())
}

// MayFollow reports whether b can execute after a (same block later, or b's
// block reachable from a's block).
func MayFollow(a, b ssa.Instruction) bool {
	if a.Parent() != b.Parent() {
		return false
	}
	if a.Block() == b.Block() {
		seenA := false
		for _, in := range a.Block().Instrs {
			if in == a {
				seenA = true
			} else if in == b && seenA {
				return true
			}
		}
		// b earlier in the same block: only via a cycle
		for _, s := range a.Block().Succs {
			if ReachableFrom(s)[b.Block()] {
				return true
			}
		}
		return false
	}
	return ReachableFrom(a.Block())[b.Block()]
}

// Alt is one acceptable (condition, truth value) alternative.
type Alt struct {
	Pat P
	Val bool
}

// PathsCarry reports whether every path to block target carries at least
// one of the alternatives: either a dominating fact, or — at the nearest
// join on the dominator chain — every incoming edge carries one
// (recursively). This decides guards written with || and early returns,
// which plain dominance cannot see.
func (c *Ctx) PathsCarry(target *ssa.BasicBlock, alts []Alt) bool {
	return c.pathsCarry(target, alts, map[*ssa.BasicBlock]bool{})
}

func (c *Ctx) pathsCarry(target *ssa.BasicBlock, alts []Alt, seen map[*ssa.BasicBlock]bool) bool {
	if seen[target] {
		return false
	}
	seen[target] = true
	match := func(fs []Fact) bool {
		for _, f := range fs {
			for _, a := range alts {
				if f.Val == a.Val {
					if _, ok := Match(a.Pat, f.Cond); ok {
						return true
					}
				}
			}
		}
		return false
	}
	for d := target; d != nil; d = d.Idom() {
		if match(c.FactsAt(d)) {
			return true
		}
		if len(d.Preds) > 1 {
			all := true
			for _, p := range d.Preds {
				if match(edgeFact(c, p, d)) {
					continue
				}
				if !c.pathsCarry(p, alts, seen) {
					all = false
					break
				}
			}
			return all
		}
	}
	return false
}

// PathsCarryDAG is PathsCarry with results shared between the branches of the
// search (a block reached again along another branch gives the answer found
// the first time; a block reached again along the branch being explored — a
// loop's back edge — adds no new way in from the entry and counts as carried).
func (c *Ctx) PathsCarryDAG(target *ssa.BasicBlock, alts []Alt) bool {
	state := map[*ssa.BasicBlock]int{} // 1 in progress, 2 carried, 3 not
	match := func(fs []Fact) bool {
		for _, f := range fs {
			for _, a := range alts {
				if f.Val == a.Val {
					if _, ok := Match(a.Pat, f.Cond); ok {
						return true
					}
				}
			}
		}
		return false
	}
	var rec func(t *ssa.BasicBlock) bool
	// edgeCarries: the edge p→d carries an alternative — by the fact of the branch taken, or, when the branch at p is
	// on a short-circuit value (a && b, a || b merged in p), by every way into p that is compatible with the edge: a way
	// whose contribution contradicts the edge is not a path; one whose contribution is a test carries that test's
	// outcome. decided is false when p's branch is not of that kind.
	edgeCarries := func(p, d *ssa.BasicBlock) (carried, decided bool) {
		ef := edgeFact(c, p, d)
		if match(ef) {
			return true, true
		}
		if len(ef) != 1 {
			return false, false
		}
		ph, isPhi := strip(ef[0].Cond).V.(*ssa.Phi)
		if !isPhi || ph.Block() != p || len(ph.Edges) != len(p.Preds) {
			return false, false
		}
		for i, e := range ph.Edges {
			q := p.Preds[i]
			if k, isConst := e.(*ssa.Const); isConst && k.Value != nil {
				if (k.Value.ExactString() == "true") != ef[0].Val {
					continue
				}
			} else {
				cx, v := normFact(c.E(e), ef[0].Val)
				if match([]Fact{{Cond: cx, Val: v}}) {
					continue
				}
			}
			if match(edgeFact(c, q, p)) || rec(q) {
				continue
			}
			return false, true
		}
		return true, true
	}
	rec = func(t *ssa.BasicBlock) bool {
		switch state[t] {
		case 1, 2:
			return true
		case 3:
			return false
		}
		state[t] = 1
		res := false
		for d := t; d != nil; d = d.Idom() {
			if match(c.FactsAt(d)) {
				res = true
				break
			}
			if len(d.Preds) == 1 {
				if carried, decided := edgeCarries(d.Preds[0], d); decided {
					res = carried
					break
				}
			}
			if len(d.Preds) > 1 {
				all := true
				for _, p := range d.Preds {
					if carried, decided := edgeCarries(p, d); decided {
						if carried {
							continue
						}
						all = false
						break
					}
					if !rec(p) {
						all = false
						break
					}
				}
				res = all
				break
			}
		}
		if res {
			state[t] = 2
		} else {
			state[t] = 3
		}
		return res
	}
	return rec(target)
}

// allPathsPass: every path from fn's entry to a return executes an
// instruction satisfying pred. On failure a description of one offending
// path (block indices) is returned.
func allPathsPass(fn *ssa.Function, pred func(ssa.Instruction) bool) (bool, string) {
	if fn == nil || len(fn.Blocks) == 0 {
		return false, "no body"
	}
	seen := map[*ssa.BasicBlock]bool{}
	var bad []string
	var rec func(b *ssa.BasicBlock, path []string) bool
	rec = func(b *ssa.BasicBlock, path []string) bool {
		if seen[b] {
			return true
		}
		seen[b] = true
		path = append(path, "block "+itoa(b.Index))
		for _, in := range b.Instrs {
			if pred(in) {
				return true
			}
			if _, isRet := in.(*ssa.Return); isRet {
				bad = path
				return false
			}
		}
		for _, s := range b.Succs {
			if !rec(s, path) {
				return false
			}
		}
		return true
	}
	if rec(fn.Blocks[0], nil) {
		return true, ""
	}
	return false, strings.Join(bad, " → ") + " → return"
}

// pathsFromPass: every path from just after instruction start to a return of
// its function executes an instruction satisfying pred.
func pathsFromPass(start ssa.Instruction, pred func(ssa.Instruction) bool) (bool, string) {
	b0 := start.Block()
	after := false
	for _, in := range b0.Instrs {
		if in == start {
			after = true
			continue
		}
		if !after {
			continue
		}
		if pred(in) {
			return true, ""
		}
		if _, isRet := in.(*ssa.Return); isRet {
			return false, "block " + itoa(b0.Index) + " → return"
		}
	}
	seen := map[*ssa.BasicBlock]bool{}
	var bad []string
	var rec func(b *ssa.BasicBlock, path []string) bool
	rec = func(b *ssa.BasicBlock, path []string) bool {
		if seen[b] {
			return true
		}
		seen[b] = true
		path = append(path, "block "+itoa(b.Index))
		for _, in := range b.Instrs {
			if pred(in) {
				return true
			}
			if _, isRet := in.(*ssa.Return); isRet {
				bad = path
				return false
			}
		}
		for _, s := range b.Succs {
			if !rec(s, path) {
				return false
			}
		}
		return true
	}
	for _, s := range b0.Succs {
		if !rec(s, []string{"block " + itoa(b0.Index)}) {
			return false, strings.Join(bad, " → ") + " → return"
		}
	}
	return true, ""
}

// blockPathsPass: every path from the start of block b0 executes an
// instruction satisfying pred before it reaches a block for which stop is
// true or a return.
func blockPathsPass(b0 *ssa.BasicBlock, stop func(*ssa.BasicBlock) bool, pred func(ssa.Instruction) bool) (bool, string) {
	seen := map[*ssa.BasicBlock]bool{}
	var bad []string
	var rec func(b *ssa.BasicBlock, path []string) bool
	rec = func(b *ssa.BasicBlock, path []string) bool {
		if seen[b] {
			return true
		}
		seen[b] = true
		path = append(path, "block "+itoa(b.Index))
		if len(path) > 1 && stop(b) {
			bad = path
			return false
		}
		for _, in := range b.Instrs {
			if pred(in) {
				return true
			}
			if _, isRet := in.(*ssa.Return); isRet {
				bad = path
				return false
			}
		}
		for _, s := range b.Succs {
			if !rec(s, path) {
				return false
			}
		}
		return true
	}
	if rec(b0, nil) {
		return true, ""
	}
	return false, strings.Join(bad, " → ")
}

// natLoop is a natural loop: its header and the blocks of its body.
type natLoop struct {
	Head *ssa.BasicBlock
	Body map[*ssa.BasicBlock]bool
}

// naturalLoops lists the natural loops of fn (loops sharing a header are merged).
func naturalLoops(fn *ssa.Function) []*natLoop {
	byHead := map[*ssa.BasicBlock]*natLoop{}
	var out []*natLoop
	for _, t := range fn.Blocks {
		for _, h := range t.Succs {
			if !h.Dominates(t) {
				continue
			}
			l := byHead[h]
			if l == nil {
				l = &natLoop{Head: h, Body: map[*ssa.BasicBlock]bool{h: true}}
				byHead[h] = l
				out = append(out, l)
			}
			work := []*ssa.BasicBlock{t}
			for len(work) > 0 {
				b := work[len(work)-1]
				work = work[:len(work)-1]
				if l.Body[b] {
					continue
				}
				l.Body[b] = true
				work = append(work, b.Preds...)
			}
		}
	}
	return out
}

// outermostLoop: the largest natural loop of b's function whose body holds b, or nil.
func outermostLoop(b *ssa.BasicBlock) *natLoop {
	var best *natLoop
	for _, l := range naturalLoops(b.Parent()) {
		if l.Body[b] && (best == nil || len(l.Body) > len(best.Body)) {
			best = l
		}
	}
	return best
}

// rangedOver: for a loop over the elements of a slice (for … range s, or an index loop), the slices indexed by the
// loop's own induction variable.
func (c *Ctx) rangedOver(l *natLoop) []*X {
	var out []*X
	for b := range l.Body {
		for _, in := range b.Instrs {
			var x, idx ssa.Value
			switch v := in.(type) {
			case *ssa.IndexAddr:
				x, idx = v.X, v.Index
			case *ssa.Index:
				x, idx = v.X, v.Index
			default:
				continue
			}
			if bo, ok := idx.(*ssa.BinOp); ok {
				idx = bo.X
			}
			if ph, ok := idx.(*ssa.Phi); ok && ph.Block() == l.Head {
				out = append(out, c.E(x))
			}
		}
	}
	return out
}
