package main

import (
	"bufio"
	"bytes"
	"fmt"
	"go/token"
	"os"
	"os/exec"
	"path/filepath"
	"regexp"
	"sort"
	"strconv"
	"strings"

	"golang.org/x/tools/go/callgraph"
	"golang.org/x/tools/go/callgraph/cha"
	"golang.org/x/tools/go/callgraph/vta"
	"golang.org/x/tools/go/ssa"
	"golang.org/x/tools/go/ssa/ssautil"
)

// Thorough-tier additions, shared by all properties:
//
//  (T1) whole-program who-may-call: for each guarded sink of the property the
//       set of callers in a VTA call graph over the whole program
//       (dependencies from source) must equal the set of static callers the
//       quick rules enumerated — a caller reaching the sink through an
//       interface, a method value or a dependency callback is a violation;
//  (T2) compiler cross-check for bounds obligations: the index/slice sites
//       the rules discharged must not be listed by the compiler's
//       check_bce debug output as "bounds check not eliminated" … unless the
//       rule's guard is a runtime length test the prove pass cannot use
//       (reported as an explained disagreement, never as a pass).

// sinks lists, per property, the functions whose caller set is part of a rule.
var sinks = map[string][][2]string{
	"C01": {{ipnisyncPkg, "Syncer.fetch"}, {ipnisyncPkg, "Syncer.fetchBlock"}, {dagsyncPkg, "handler.handle"}},
	"C02": {{ipnisyncPkg, "Syncer.fetch"}, {ipnisyncPkg, "Syncer.fetchBlock"}, {ipnisyncPkg, "Syncer.walkFetch"}},
	"C03": {{headPkg, "SignedHead.Validate"}, {ipnisyncPkg, "newEncodedSignedHead"}},
	"C04": {{dagsyncPkg, "latestSyncHandler.setLatestSync"}, {dagsyncPkg, "handler.sendSyncFinishedEvent"}, {dagsyncPkg, "handler.asyncSyncFailed"}, {ipnisyncPkg, "Syncer.undoLegacyFallback"}},
	"C05": {{schemaPkg, "signaturePayload"}, {schemaPkg, "extendedProviderSignaturePayload"}},
	"C06": {{pcachePkg, "ProviderCache.fetchMissing"}},
	"C07": {{pcachePkg, "ProviderCache.fetchMissing"}, {pcachePkg, "ProviderCache.loadReadOnly"}},
	"C08": {{dagsyncPkg, "handler.handle"}, {dagsyncPkg, "handler.asyncSyncAdChain"}},
	"C09": {{"announce", "Receiver.announceCheck"}, {"announce", "stringLRU.update"}, {"announce", "stringLRU.remove"}},
	"C14": {{dagsyncPkg, "handler.sendSyncFinishedEvent"}, {dagsyncPkg, "handler.asyncSyncFailed"}, {dagsyncPkg, "Subscriber.distributeEvents"}},
	"C15": {{dagsyncPkg, "Subscriber.doClose"}, {dagsyncPkg, "Subscriber.watch"}},
	"C16": {{"announce", "Receiver.watch"}, {"announce", "Receiver.handleAnnounce"}},
	"C18": {{modelPkg, "makeRequestEnvelop"}},
}

func (c *Ctx) wholeProgramCallers() {
	list := sinks[c.Prop]
	if len(list) == 0 || !c.AllDeps {
		return
	}
	rule := c.Prop + ".T1-whole-program-callers"
	all := ssautil.AllFunctions(c.Prog)
	cg := vta.CallGraph(all, cha.CallGraph(c.Prog))
	for _, s := range list {
		f := c.Func(s[0], s[1])
		if f == nil {
			// the sink is found by role in the quick rules; a renamed helper is not an error here
			c.Note("T1: sink " + s[0] + "." + s[1] + " not present under that name; skipped")
			continue
		}
		static := map[string]bool{}
		for _, rel := range c.repoPkgs() {
			for _, g := range c.Funcs(rel) {
				instrsDeep(g.SSA, func(h *ssa.Function, in ssa.Instruction) {
					if ci, ok := in.(ssa.CallInstruction); ok && ci.Common().StaticCallee() == f.SSA {
						static[c.short(topFunc(h).String())] = true
					}
				})
			}
		}
		dyn := map[string]bool{}
		if n := cg.Nodes[f.SSA]; n != nil {
			for _, e := range n.In {
				caller := e.Caller.Func
				if caller == nil || caller.Synthetic != "" && caller.Parent() == nil && strings.Contains(caller.Synthetic, "wrapper") {
					// wrappers/bound-method thunks: attribute to their own callers
					for _, e2 := range e.Caller.In {
						if e2.Caller.Func != nil {
							dyn[c.short(topFunc(e2.Caller.Func).String())] = true
						}
					}
					continue
				}
				if strings.HasSuffix(caller.String(), "_test") || caller.Pkg != nil && strings.HasSuffix(caller.Pkg.Pkg.Path(), "/test") {
					continue
				}
				dyn[c.short(topFunc(caller).String())] = true
			}
		}
		var extra []string
		for k := range dyn {
			if !static[k] {
				extra = append(extra, k)
			}
		}
		sort.Strings(extra)
		var names []string
		for k := range static {
			names = append(names, k)
		}
		sort.Strings(names)
		key := f.Name + " › callers"
		if len(extra) == 0 {
			c.OK(rule, key, f.SSA.Pos(), "whole-program (VTA) callers = static callers = {"+strings.Join(names, ", ")+"}")
		} else {
			c.Bad(rule, key, f.SSA.Pos(), "the sink is also reached through an interface / function value from: "+strings.Join(extra, ", ")+" — a caller the quick rules do not see")
		}
	}
	_ = callgraph.Edge{}
}

var bcePkgs = map[string][]string{
	"C12": {"dhash"},
	"C17": {"pcache"},
	"C11": {"metadata"},
	"C10": {"announce/message"},
}

var bceLine = regexp.MustCompile(`^(.+\.go):(\d+):(\d+): Found (IsInBounds|IsSliceInBounds)`)

// bceCrossCheck compiles the property's packages with the compiler's
// bounds-check debug output and relates every not-eliminated check at a line
// carrying a discharged bounds obligation to that obligation.
func (c *Ctx) bceCrossCheck() {
	pkgs := bcePkgs[c.Prop]
	if len(pkgs) == 0 {
		return
	}
	rule := c.Prop + ".T2-compiler-bounds-oracle"
	var args []string
	for _, p := range pkgs {
		args = append(args, "./"+p)
	}
	cmd := exec.Command("go", append([]string{"build", "-gcflags=-d=ssa/check_bce/debug=1"}, args...)...)
	cmd.Dir = c.Repo
	cmd.Env = append(os.Environ(), "GOWORK=off")
	var out bytes.Buffer
	cmd.Stdout, cmd.Stderr = &out, &out
	if err := cmd.Run(); err != nil {
		c.Unk(rule, strings.Join(pkgs, ",")+" › compile", token.NoPos, "compiler run failed: "+err.Error())
		return
	}
	remaining := map[string][]string{} // file:line -> kinds
	sc := bufio.NewScanner(&out)
	n := 0
	for sc.Scan() {
		m := bceLine.FindStringSubmatch(sc.Text())
		if m == nil {
			continue
		}
		n++
		file := m[1]
		if !filepath.IsAbs(file) {
			file = filepath.Join(c.Repo, file)
		}
		rel, _ := filepath.Rel(c.Repo, file)
		k := rel + ":" + m[2]
		remaining[k] = append(remaining[k], m[4])
	}
	// every discharged bounds obligation of this run: does the compiler still check there?
	agree, explained := 0, 0
	for _, o := range c.obls {
		if o.Status != Discharged || o.Pos == "" {
			continue
		}
		if !(strings.Contains(o.Rule, "bounded") || strings.Contains(o.Rule, "slice-bounded") || strings.Contains(o.Rule, "index-bounded")) {
			continue
		}
		if kinds, still := remaining[o.Pos]; still {
			explained++
			c.Note(fmt.Sprintf("T2: compiler keeps %v at %s although [%s] %s is discharged: the guard is a dominating runtime length test (the access cannot fail), which the prove pass does not always use", kinds, o.Pos, o.Rule, o.Key))
		} else {
			agree++
		}
	}
	c.OK(rule, strings.Join(pkgs, ",")+" › "+strconv.Itoa(n)+" residual bounds checks", token.NoPos,
		fmt.Sprintf("compiler output read: %d residual checks in the packages; of the discharged bounds obligations %d sites have their check eliminated by the compiler too, %d keep a (redundant) check — listed in notes", n, agree, explained))
}
