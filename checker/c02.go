package main

import (
	"go/token"
	"strings"

	"golang.org/x/tools/go/ssa"
)

func init() {
	register(&propSpec{
		id:  "C02",
		run: runC02,
		explanation: "Structural necessary conditions of 'only bytes hashing to the requested CID are stored or reported', decided on SSA of the current tree: " +
			"(O5) the only store-writing constructs in the subscriber-side packages are calls of LinkSystem.StorageWriteOpener, enumerated; for each such call " +
			"(O1) every call of the returned commit function is dominated by the true edge of bytes.Equal(c.Hash(), sum) and by the nil-error edges of the opener and of the digest computation; " +
			"(O2) sum is result 0 of multihash.SumStream(io.TeeReader(body, w), c.Prefix().MhType, c.Prefix().MhLength) for the same c, the same writer w and the response-body parameter; the resource requested over HTTP is c.String() of that same c; " +
			"(O3) the link committed is cidlink.Link{Cid: c}; (O4) w is used for nothing else; " +
			"(O6) every LinkSystem marked TrustedStorage has a read opener in which the verified fetch of the link's own CID precedes, and its nil error gates, the read from the real store; " +
			"(O7) block hooks run only after the traversal returned nil. " +
			"This decides the gate, not collision resistance of the hash or the behaviour of the store implementation.",
		assumptions: []string{
			"go-multihash SumStream computes the named hash function over the whole stream",
			"io.TeeReader writes to w exactly what SumStream reads",
			"the LinkSystem's write opener commits nothing before commit() is called",
		},
	})
}

var subscriberPkgs = []string{"dagsync", "dagsync/ipnisync", "dagsync/ipnisync/head"}

// topFunc returns the outermost source function enclosing fn.
func topFunc(fn *ssa.Function) *ssa.Function {
	for fn.Parent() != nil {
		fn = fn.Parent()
	}
	return fn
}

func isWriteOpenerCall(x *X) bool {
	_, ok := Match(Op("dyncall", "", Field("StorageWriteOpener", Any())), x)
	return ok
}

func runC02(c *Ctx) {
	c.Trust("go/ssa construction and dominator tree (x/tools v0.29.0)", "go/types", "multihash.SumStream", "io.TeeReader", "ipld-prime LinkSystem write opener contract")

	// ---- O5: who may write the store ------------------------------------
	var openers []CallSite
	for _, rel := range subscriberPkgs {
		for _, cs := range c.CallsInPkg(rel, Any()) {
			switch {
			case isWriteOpenerCall(cs.X):
				openers = append(openers, cs)
				c.OK("C02.O5-who-writes", c.short(topFunc(cs.Fn).String())+" › StorageWriteOpener", cs.In.Pos(),
					"allowed store writer: subject to O1–O4 below")
			case cs.X.Op == "call" && (strings.HasSuffix(cs.X.Name, "LinkSystem).Store") || strings.HasSuffix(cs.X.Name, "LinkSystem).MustStore") ||
				strings.HasSuffix(cs.X.Name, "LinkSystem).SetWriteStorage")):
				c.Bad("C02.O5-who-writes", c.short(topFunc(cs.Fn).String())+" › "+cs.X.Name, cs.In.Pos(),
					"a second store writer in the subscriber-side packages bypasses the digest gate")
			}
		}
		// Stores that replace the write opener of a link system.
		for _, f := range c.Funcs(rel) {
			instrsDeep(f.SSA, func(g *ssa.Function, in ssa.Instruction) {
				if st, ok := in.(*ssa.Store); ok {
					if _, ok := Match(Field("StorageWriteOpener", Any()), c.E(st.Addr)); ok {
						c.Bad("C02.O5-who-writes", c.short(topFunc(g).String())+" › set StorageWriteOpener", st.Pos(),
							"the write opener of a link system is replaced inside the subscriber-side packages")
					}
				}
			})
		}
	}
	c.Floor("C02.O5-who-writes", 1)

	for _, w := range openers {
		key := c.short(topFunc(w.Fn).String())
		writer, commit, werr := c.Result(w, 0), c.Result(w, 1), c.Result(w, 2)
		if writer == nil || commit == nil || werr == nil {
			c.Unk("C02.O1-commit-gated", key, w.In.Pos(), "results of StorageWriteOpener are not all bound (writer, commit, err)")
			continue
		}
		// ---- O1/O2/O3 for every commit call --------------------------------
		commits := c.Calls(w.Fn, Op("dyncall", "", Is(commit)))
		if len(commits) == 0 {
			c.Unk("C02.O1-commit-gated", key, w.In.Pos(), "commit function is never called (nothing is ever stored) or is called through an alias the rule cannot see")
		}
		for _, cm := range commits {
			digestEq := Call("bytes.Equal", Call("cid.Cid).Hash", Bind("c")), Bind("sum"))
			digestEq2 := Call("bytes.Equal", Bind("sum"), Call("cid.Cid).Hash", Bind("c")))
			b, ok := c.Guarded(cm.In, Or(digestEq, digestEq2), true)
			if !ok {
				c.Bad("C02.O1-commit-gated", key+" › commit", cm.In.Pos(),
					"commit is not dominated by the equal-edge of bytes.Equal(<cid>.Hash(), <digest>): unverified bytes can be stored")
				continue
			}
			c.OK("C02.O1-commit-gated", key+" › commit", cm.In.Pos(), "commit dominated by bytes.Equal("+b["c"].String()+".Hash(), sum) == true")

			// O2: where the digest comes from.
			sumPat := Extract("0", BindP("sumcall", Call("go-multihash.SumStream",
				Call("io.TeeReader", Bind("body"), Is(writer)),
				Field("MhType", Call("cid.Cid).Prefix", Is(b["c"]))),
				Field("MhLength", Call("cid.Cid).Prefix", Is(b["c"]))))))
			sb, ok := Match(sumPat, b["sum"])
			if !ok {
				c.Bad("C02.O2-digest-source", key+" › sum", cm.In.Pos(),
					"the compared digest is not multihash.SumStream(io.TeeReader(body, <the opened writer>), c.Prefix().MhType, c.Prefix().MhLength) of the same c; got "+b["sum"].String())
			} else {
				c.OK("C02.O2-digest-source", key+" › sum", cm.In.Pos(), "digest = SumStream(TeeReader(body, w), c.Prefix().MhType, c.Prefix().MhLength), same c and w")
				// digest error gates commit
				sumErr := &X{Op: "extract", Name: "1", Args: []*X{sb["sumcall"]}}
				if _, ok := c.Guarded(cm.In, EqNil(Extract("1", Is(sb["sumcall"]))), true); ok {
					c.OK("C02.O2-digest-source", key+" › sum error gates commit", cm.In.Pos(), "commit dominated by SumStream err == nil")
				} else {
					c.Bad("C02.O2-digest-source", key+" › sum error gates commit", cm.In.Pos(), "commit reachable although SumStream returned an error: "+sumErr.String())
				}
				// body must be the reader parameter of the fetch callback (possibly handed on to a named helper).
				if why := c02BodyIsCallbackParam(c, w, strip(sb["body"])); why == "" {
					c.OK("C02.O2-digest-source", key+" › body", cm.In.Pos(), "hashed stream is the fetch callback's reader parameter")
				} else {
					c.Bad("C02.O2-digest-source", key+" › body", cm.In.Pos(), why)
				}
			}
			// opener error gates commit
			if _, ok := c.Guarded(cm.In, EqNil(Is(werr)), true); ok {
				c.OK("C02.O1-commit-gated", key+" › opener error gates commit", cm.In.Pos(), "commit dominated by StorageWriteOpener err == nil")
			} else {
				c.Bad("C02.O1-commit-gated", key+" › opener error gates commit", cm.In.Pos(), "commit reachable when the write opener failed")
			}
			// O3: committed link.
			linkPat := Op("dyncall", "", Any(), Op("complit", "linking/cid.Link", Op("fieldinit", "Cid", Is(b["c"]))))
			if _, ok := Match(linkPat, cm.X); ok {
				c.OK("C02.O3-committed-link", key+" › commit arg", cm.In.Pos(), "committed link is cidlink.Link{Cid: c} of the verified c")
			} else {
				c.Bad("C02.O3-committed-link", key+" › commit arg", cm.In.Pos(), "bytes are committed under a link other than the verified CID: "+cm.X.String())
			}
			// O2b: the CID requested over the wire is the verified one.
			c02Requested(c, w, b["c"], key)
		}
		// ---- O4: the writer has no other use ---------------------------------
		uses := 0
		other := token.NoPos
		if wv, ok := writer.V.(ssa.Value); ok {
			walkUses(wv, func(in ssa.Instruction) {
				if ci, ok := in.(ssa.CallInstruction); ok {
					if _, ok := Match(Call("io.TeeReader"), c.CallX(ci)); ok {
						uses++
						return
					}
				}
				if _, ok := in.(*ssa.DebugRef); ok {
					return
				}
				other = in.Pos()
			})
		}
		if other.IsValid() || uses != 1 {
			c.Bad("C02.O4-writer-sole-use", key+" › writer", other, "the opened writer is used other than as the tee target of the hashed stream (bytes not covered by the digest could be written)")
		} else {
			c.OK("C02.O4-writer-sole-use", key+" › writer", w.In.Pos(), "writer used exactly once: io.TeeReader(body, writer)")
		}
	}
	c.Floor("C02.O1-commit-gated", 2)
	c.Floor("C02.O2-digest-source", 3)
	c.Floor("C02.O3-committed-link", 1)
	c.Floor("C02.O4-writer-sole-use", 1)
	c.Floor("C02.O2b-requested-cid", 1)

	// ---- O6: trusted link systems --------------------------------------------
	c02Trusted(c, openers)
	// ---- O7: hooks only after successful walk ---------------------------------
	hookAfterWalk(c, "C02.O7-hook-after-verified-walk")
}

func isParamOf(x *X, fn *ssa.Function) bool {
	for _, p := range fn.Params {
		if x.V == p {
			return true
		}
	}
	return false
}

// walkUses visits the instructions using v, looking through interface conversions.
func walkUses(v ssa.Value, f func(ssa.Instruction)) {
	refs := v.Referrers()
	if refs == nil {
		return
	}
	for _, r := range *refs {
		switch r := r.(type) {
		case *ssa.MakeInterface:
			walkUses(r, f)
		case *ssa.ChangeInterface:
			walkUses(r, f)
		case *ssa.ChangeType:
			walkUses(r, f)
		default:
			f(r)
		}
	}
}

// c02Requested: the closure containing the opener w is passed to a fetch
// routine together with a resource string derived from the same CID.
func c02Requested(c *Ctx, w CallSite, cid *X, key string) {
	cbFn := w.Fn
	if cbFn.Parent() == nil {
		// named helper: lift to the callback(s) that call it, translating the CID argument
		vals, ats := c.ActualsAt(cid)
		if len(vals) == 0 {
			c.Unk("C02.O2b-requested-cid", key, w.In.Pos(), "store writer is neither a fetch callback nor a helper called from one; cannot relate the request to the verified CID")
			return
		}
		for i, v := range vals {
			cb := ats[i].Parent()
			if cb.Parent() == nil {
				c.Unk("C02.O2b-requested-cid", key, ats[i].Pos(), "verifying helper is called outside a fetch callback")
				continue
			}
			c02RequestedIn(c, CallSite{In: ats[i], Fn: cb}, v, key)
		}
		return
	}
	c02RequestedIn(c, w, cid, key)
}

// c02BodyIsCallbackParam returns "" if body is the reader parameter of a closure (the fetch callback),
// directly or as the argument a named verifying helper is called with from such a closure.
func c02BodyIsCallbackParam(c *Ctx, w CallSite, body *X) string {
	if body.Op != "param" || !isParamOf(body, w.Fn) {
		return "hashed stream is not a parameter of the verifying routine: " + body.String()
	}
	if w.Fn.Parent() != nil {
		return ""
	}
	vals, ats := c.ActualsAt(body)
	if len(vals) == 0 {
		return "verifying helper's callers are unknown: the hashed stream cannot be tied to a response body"
	}
	for i, v := range vals {
		cb := ats[i].Parent()
		if cb.Parent() == nil || strip(v).Op != "param" || !isParamOf(strip(v), cb) {
			return "verifying helper is handed something other than a fetch callback's reader parameter at " + c.pos(ats[i].Pos())
		}
	}
	return ""
}

func c02RequestedIn(c *Ctx, w CallSite, cid *X, key string) {
	parent := w.Fn.Parent()
	if parent == nil {
		c.Unk("C02.O2b-requested-cid", key, w.In.Pos(), "store writer is not inside a fetch callback; cannot relate the request to the verified CID")
		return
	}
	found := false
	for _, cs := range c.Calls(parent, Any()) {
		if cs.Fn != parent {
			continue
		}
		hasClosure := false
		var rsrc *X
		for _, a := range cs.X.Args {
			if a.Op == "closure" && a.V.(*ssa.MakeClosure).Fn == w.Fn {
				hasClosure = true
			}
		}
		if !hasClosure {
			continue
		}
		found = true
		for _, a := range cs.X.Args {
			if _, ok := Match(Call("cid.Cid).String", Is(cid)), a); ok {
				rsrc = a
			}
		}
		if rsrc != nil {
			c.OK("C02.O2b-requested-cid", key+" › request", cs.In.Pos(), "resource requested is c.String() of the CID the digest is compared with")
		} else {
			c.Bad("C02.O2b-requested-cid", key+" › request", cs.In.Pos(), "the fetch that feeds the verifying callback does not request c.String() of the verified CID: "+cs.X.String())
		}
	}
	if !found {
		c.Unk("C02.O2b-requested-cid", key, w.In.Pos(), "no call passes the verifying callback to a fetch routine")
	}
}

// c02Trusted: every LinkSystem with TrustedStorage=true must only read
// blocks that were verified on the way in.
func c02Trusted(c *Ctx, openers []CallSite) {
	verified := map[*ssa.Function]bool{}
	for _, o := range openers {
		verified[topFunc(o.Fn)] = true
	}
	if bf := c.Role("ipnisync.blockfetch"); bf != nil {
		// with the verification moved into a named helper, the fetch that feeds it is the verifying fetch
		verified = map[*ssa.Function]bool{bf: true}
	}
	n := 0
	for _, rel := range subscriberPkgs {
		for _, f := range c.Funcs(rel) {
			instrsDeep(f.SSA, func(g *ssa.Function, in ssa.Instruction) {
				st, ok := in.(*ssa.Store)
				if !ok {
					return
				}
				b, ok := Match(Field("TrustedStorage", Bind("ls")), c.E(st.Addr))
				if !ok {
					return
				}
				if cv, ok := st.Val.(*ssa.Const); !ok || cv.Value == nil || cv.Value.ExactString() != "true" {
					return
				}
				n++
				key := c.short(topFunc(g).String()) + " › TrustedStorage"
				// find the read opener installed on the same link system
				var opener *ssa.Function
				instrs(g, func(in2 ssa.Instruction) {
					if s2, ok := in2.(*ssa.Store); ok {
						if _, ok := Match(Field("StorageReadOpener", Is(b["ls"])), c.E(s2.Addr)); ok {
							if t := funcValueTarget(s2.Val); t != nil {
								opener = t // a literal, a named function or a method value
							}
						}
					}
				})
				if opener == nil {
					c.Bad("C02.O6-trusted-only-if-verified", key, st.Pos(), "link system is marked trusted but no verifying read opener is installed on it in this function")
					return
				}
				// In the opener: call to a verified-fetch function with the link's CID.
				var vf *CallSite
				for _, cs := range c.Calls(opener, Any()) {
					if sc := cs.In.Common().StaticCallee(); sc != nil && verified[sc] && cs.Fn == opener {
						cs := cs
						vf = &cs
					}
				}
				if vf == nil {
					c.Bad("C02.O6-trusted-only-if-verified", key, st.Pos(), "read opener of the trusted link system does not call the verifying fetch")
					return
				}
				lnk := opener.Params[len(opener.Params)-1]
				cidOfLink := Field("Cid", Op("param", lnk.Name()))
				okArg := false
				for _, a := range vf.X.Args {
					if _, ok := Match(cidOfLink, a); ok && strip(a).Args != nil {
						okArg = true
					}
				}
				c.Check(okArg, "C02.O6-trusted-only-if-verified", key+" › fetch arg", vf.In.Pos(),
					"verified fetch is called with the CID of the link being opened", "verified fetch is not called with the CID of the link being opened: "+vf.X.String())
				ferr := c.Result(*vf, 0)
				reads := c.Calls(opener, Op("dyncall", "", Field("StorageReadOpener", Any())))
				if len(reads) == 0 {
					c.Unk("C02.O6-trusted-only-if-verified", key+" › read", st.Pos(), "read opener does not read from the underlying store through StorageReadOpener")
				}
				for _, rd := range reads {
					_, g1 := c.Guarded(rd.In, EqNil(Is(ferr)), true)
					sameLink := false
					for _, a := range rd.X.Args {
						if a.V == lnk {
							sameLink = true
						}
					}
					c.Check(g1 && sameLink, "C02.O6-trusted-only-if-verified", key+" › read gated", rd.In.Pos(),
						"read from the real store dominated by verified-fetch err == nil, same link",
						"read from the real store is not gated by the verified fetch of the same link (unverified local bytes would be trusted)")
				}
			})
		}
	}
	c.Floor("C02.O6-trusted-only-if-verified", 2)

	// ---- O8 the digest check uses the hash functions the CID names: nothing in the module replaces an entry of the
	// process-wide multihash registry (the subscriber's digest test and ipld-prime's hasher both read it)
	regPat := Or(Call("go-multihash.Register"), Call("go-multihash.RegisterVariableSize"), Call("go-multihash/core.Register"), Call("go-multihash/core.RegisterVariableSize"))
	nReg := 0
	seenReg := map[token.Pos]bool{}
	for path, p := range c.Pkgs {
		if !strings.HasPrefix(path, modPath) || p.Types == nil {
			continue
		}
		rel := strings.TrimPrefix(strings.TrimPrefix(path, modPath), "/")
		for _, f := range c.Funcs(rel) {
			for _, cs := range c.Calls(f.SSA, regPat) {
				nReg++
				seenReg[cs.In.Pos()] = true
				c.Bad("C02.O8-hash-registry-untouched", f.Name+" › "+abbreviate(cs.X.Name), cs.In.Pos(), "the module (re)registers a hash function in go-multihash's process-wide registry: blocks whose CID names that function are verified against a different hash than the CID promises")
			}
		}
		// package initialisers are functions too
		if sp := c.SSAPkgs[path]; sp != nil {
			for name, m := range sp.Members {
				if fn, ok := m.(*ssa.Function); ok && strings.HasPrefix(name, "init") {
					for _, cs := range c.Calls(fn, regPat) {
						if seenReg[cs.In.Pos()] {
							continue
						}
						nReg++
						c.Bad("C02.O8-hash-registry-untouched", c.short(fn.String())+" › "+abbreviate(cs.X.Name), cs.In.Pos(), "the module (re)registers a hash function in go-multihash's process-wide registry at package initialisation: blocks whose CID names that function are verified against a different hash than the CID promises")
					}
				}
			}
		}
	}
	if nReg == 0 {
		c.OK("C02.O8-hash-registry-untouched", "module › no hasher registration", token.NoPos, "no call of go-multihash's Register functions in the module")
	}
	if pc := c.posex(); pc == nil {
		c.Unk("C02.O8-hash-registry-untouched", "positive example", token.NoPos, "positive example package could not be loaded")
	} else {
		n := 0
		for _, f := range pc.Funcs("ipnicheck/testdata/posex") {
			n += len(pc.Calls(f.SSA, regPat))
		}
		c.Check(n == 1, "C02.O8-hash-registry-untouched", "positive example fires", token.NoPos, "rule found the seeded registration in the embedded example (and none in /repo)", "rule did not find the seeded registration in its positive example: it would pass vacuously")
	}
	// a sync that failed (a block that did not verify ends the traversal with an error) is not reported as a success:
	// the error of every call of the sync client in the per-publisher routine — and in the step helpers its segment
	// loop may be split into — is looked at, not overwritten or dropped
	if h := c15HandleFn(c); h != nil {
		nS := 0
		for _, st := range c.CallsInl(h, Invoke("dagsync.Syncer.Sync"), 2) {
			nS++
			eh := c.ErrPropagates(st.CallSite)
			okE := eh.Kind == "checked-return" || eh.Kind == "returned-directly"
			if !okE && eh.Kind != "dropped" {
				// merged with another error before the test (err := Sync(); if err == nil { err = hookErr }): fine as long
				// as the merged value is what gets tested
				if call, ok := st.In.(*ssa.Call); ok && call.Referrers() != nil {
					for _, r := range *call.Referrers() {
						if ph, isPhi := r.(*ssa.Phi); isPhi {
							if refs := ph.Referrers(); refs != nil {
								for _, r2 := range *refs {
									if bo, isBin := r2.(*ssa.BinOp); isBin && (bo.Op == token.NEQ || bo.Op == token.EQL) {
										okE = true
									}
								}
							}
						}
					}
				}
			}
			c.Check(okE, "C02.O7-sync-error-kept", c.short(st.In.Parent().String())+" › sync client's error", st.In.Pos(), "the sync client's error is tested (or returned) by the routine that called it", "the sync client's error is "+eh.Kind+" ("+eh.Why+"): a traversal that stopped at a block that did not verify is reported as a successful sync")
		}
		if nS == 0 {
			c.Unk("C02.O7-sync-error-kept", "dagsync › sync calls", token.NoPos, "no call of the sync client found in the per-publisher routine")
		}
		c.Floor("C02.O7-sync-error-kept", 2)
	}
	c.Floor("C02.O8-hash-registry-untouched", 2)
	// ---- O7' a sync that failed — for one, at a block that did not verify — is not recorded as the publisher's
	// latest sync: a routine that is told the outcome (it has the error in hand) records the head only when there is none
	{
		nSet := 0
		for _, f := range c.Funcs(dagsyncPkg) {
			for _, cs := range c.Calls(f.SSA, c.RoleCall("latest.set")) {
				fn := cs.Fn
				var errPar *ssa.Parameter
				for _, p := range fn.Params {
					if isErrorType(p.Type()) {
						errPar = p
					}
				}
				nSet++
				key := c.short(fn.String()) + " › latest sync recorded on success only"
				if errPar == nil {
					c.OK("C02.O7-failed-sync-not-recorded", key, cs.In.Pos(), "the routine is not handed an outcome: it is called for successes (its call sites are gated on the sync's error)")
					continue
				}
				_, g := c.Guarded(cs.In, EqNil(Op("param", errPar.Name())), true)
				c.Check(g, "C02.O7-failed-sync-not-recorded", key, cs.In.Pos(), "recorded only on the "+errPar.Name()+" == nil edge", "the head is recorded as the latest sync whatever the outcome handed in ("+errPar.Name()+"): a chain whose sync stopped at a block that did not hash to its CID counts as synced, and syncing it again reports nothing to do")
			}
		}
		if nSet == 0 {
			c.Unk("C02.O7-failed-sync-not-recorded", "dagsync › latest-sync writers", token.NoPos, "no call of the latest-sync setter found")
		}
		c.Floor("C02.O7-failed-sync-not-recorded", 1)
	}
	_ = n
}

// hookAfterWalk: every call of the Sync.blockHook func field is dominated by
// the nil-error edge of the traversal that produced the slice it ranges over.
func hookAfterWalk(c *Ctx, rule string) {
	sites := c.CallsInPkg("dagsync/ipnisync", Op("dyncall", "", Field("blockHook", Any())))
	for _, cs := range sites {
		key := c.short(topFunc(cs.Fn).String()) + " › blockHook call"
		// The CID argument must come from ranging over result 0 of a call
		// whose error result is known nil here.
		ok := false
		why := "hook is called with a CID that does not come from the successful traversal's order slice"
		for _, a := range cs.X.Args[1:] {
			b, m := Match(Op("index", "", Extract("0", BindP("walk", Op("call", ""))), Any()), a)
			if !m {
				continue
			}
			if _, g := c.Guarded(cs.In, EqNil(Extract("1", Is(b["walk"]))), true); g {
				ok = true
				why = "hook argument ranges over result 0 of " + b["walk"].Name + ", call dominated by its err == nil"
			} else {
				why = "hook call is not dominated by the nil-error edge of " + b["walk"].Name
			}
		}
		c.Check(ok, rule, key, cs.In.Pos(), why, why)
	}
	c.Floor(rule, 1)
}
