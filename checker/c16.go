package main

import (
	"sort"
	"go/types"
	"go/token"
	"strings"

	"golang.org/x/tools/go/ssa"
)

func init() {
	register(&propSpec{
		id:  "C16",
		run: runC16,
		explanation: "Structural necessary conditions of 'announce receiver shutdown never hangs', decided on the AST control-flow graph (lock pairing) and on SSA (dominance, blocking-operation table) of package announce: " +
			"(K1) every acquisition of a mutex in the package is released on every path to every function exit, directly or by a registered defer — this is what 'no return path leaves the receiver unusable' rests on; " +
			"(K2) every close(ch) executes at most once: under a flag test-and-set performed while the mutex is held, or in a function with a single non-loop call site; " +
			"(K3) every blocking operation (send, receive, select without default, Wait) has a shutdown alternative (a clause on the receiver's done channel or the caller's context) or a counterpart whose liveness is itself an obligation; " +
			"(K4) in Close the watcher is cancelled before it is awaited; (K5) the watcher goroutine, which dereferences the pubsub subscription, is started only when a subscription exists; " +
			"(K6) the closed flag is tested, under the mutex, before the duplicate cache is touched, and the watcher leaves its loop on cancellation / closed errors; " +
			"(K7) waiters and later direct announcements get the closed error. Absence of deadlock over all interleavings and the pubsub library's own shutdown are not decided.",
		assumptions: []string{
			"sync.Mutex, channels and context behave as specified by Go",
			"go-libp2p-pubsub Subscription.Next returns once its context is cancelled or the subscription is cancelled",
		},
	})
}

func runC16(c *Ctx) {
	c.Trust("go/cfg control-flow graphs with the select-clause re-attribution described in DESIGN.md §3", "go/ssa", "go-libp2p-pubsub (Subscription.Next/Cancel)")
	const pkg = "announce"

	// ---- K1: lock pairing on all paths ---------------------------------------
	locks := c.LockPairing("C16.K1-lock-pairing", pkg, nil)
	mutexHoldersByPointer(c, "C16.K1-lock-pairing", pkg)
	c.Floor("C16.K1-lock-pairing", 4)
	// the receiver republishes through the senders: a lock leaked there blocks every later Direct before it can see
	// its context or the receiver's shutdown
	for _, sub := range []string{"announce/p2psender", "announce/httpsender", "announce/gossiptopic"} {
		if c.pkg(sub) == nil {
			continue
		}
		before := len(c.obls)
		c.LockPairing("C16.K1-lock-pairing", sub, nil)
		if len(c.obls) == before {
			c.OK("C16.K1-lock-pairing", sub+" › no locks", token.NoPos, "package takes no locks")
		}
	}
	// K1b: nothing waits while the receiver's mutex is held (the watcher and
	// every Direct/UncacheCid caller need it to make progress)
	c.NoBlockingWhileHolding("C16.K1b-no-wait-under-mutex", pkg, locks, []string{"announceMutex"})
	c.Floor("C16.K1b-no-wait-under-mutex", 1)

	closeFn := c.Func(pkg, "Receiver.Close")
	// Close and the phases it may be split into (unexported functions called from it only)
	inClose := func(fn *ssa.Function) bool {
		fn = topFunc(fn)
		return closeFn != nil && (fn == closeFn.SSA || c.routineOf(fn) == closeFn.SSA)
	}
	if closeFn == nil {
		c.Unk("C16.K2-close-once", "announce.(*Receiver).Close", token.NoPos, "exported method Receiver.Close not found")
		return
	}

	// ---- K2: close(ch) at most once -------------------------------------------
	for _, f := range c.Funcs(pkg) {
		for _, cs := range c.Calls(f.SSA, Op("builtin", "close")) {
			key := c.short(topFunc(cs.Fn).String()) + " › close(" + cs.X.Args[0].String() + ")"
			closeOnce(c, "C16.K2-close-once", key, cs, pkg)
		}
	}
	c.Floor("C16.K2-close-once", 2)

	// ---- K3: blocking operations ------------------------------------------------
	doneCh := Field("done", Any())
	for _, f := range c.Funcs(pkg) {
		for _, op := range c.BlockingOps(f.SSA) {
			key := c.short(topFunc(op.Fn).String()) + " › " + op.Kind
			switch op.Kind {
			case "select":
				hasDone := op.HasCase(false, doneCh)
				hasCtx := op.HasCase(false, ctxDone())
				if hasDone && hasCtx {
					c.OK("C16.K3-shutdown-alternative", key, op.Pos, "select has clauses on the receiver's done channel and on the caller's context")
				} else if hasDone || hasCtx {
					// one alternative is enough to be woken by Close only if it is the done channel
					c.Check(hasDone, "C16.K3-shutdown-alternative", key, op.Pos,
						"select has a clause on the receiver's done channel", "blocking select cannot be woken by Close (no clause on the done channel)")
				} else {
					c.Bad("C16.K3-shutdown-alternative", key, op.Pos, "blocking select has no shutdown alternative (neither done channel nor context)")
				}
			case "recv":
				key += " " + op.Chan.String()
				if _, ok := Match(Field("watchDone", Any()), op.Chan); ok && inClose(op.Fn) {
					// counterpart liveness: K4 + K6
					c.OK("C16.K3-shutdown-alternative", key, op.Pos, "awaits the watcher; its termination is obligation K4 (cancel precedes) and K6 (watcher leaves its loop on cancel)")
				} else {
					c.Bad("C16.K3-shutdown-alternative", key, op.Pos, "bare channel receive with no shutdown alternative and no tabled counterpart")
				}
			case "send":
				c.Bad("C16.K3-shutdown-alternative", key+" "+op.Chan.String(), op.Pos, "bare channel send with no shutdown alternative")
			case "wait":
				c.Bad("C16.K3-shutdown-alternative", key, op.Pos, "WaitGroup.Wait with no tabled counterpart")
			}
		}
	}
	// the receiver republishes through the pubsub sender while a Direct call is in progress: that sender's Send does not
	// wait on anything (a wait there can only be ended by the caller's context, never by Close, so a Direct racing
	// with Close would not return)
	if c.pkg("announce/p2psender") != nil {
		nSend := 0
		for _, f := range c.Funcs("announce/p2psender") {
			if f.SSA.Name() != "Send" || f.SSA.Signature.Recv() == nil {
				continue
			}
			nSend++
			ops := c.BlockingOps(f.SSA)
			for _, op := range ops {
				c.Bad("C16.K3-shutdown-alternative", f.Name+" › "+op.Kind, op.Pos, "the pubsub sender waits ("+op.Kind+") inside Send: the receiver's Close cannot wake a Direct call that is republishing")
			}
			if len(ops) == 0 {
				c.OK("C16.K3-shutdown-alternative", f.Name+" › does not wait", f.SSA.Pos(), "no channel operation, select or wait in the pubsub sender's Send")
			}
			// …nor asks the pubsub library to: Publish is called without options (a readiness option makes Publish wait
			// until the router has enough peers — with none around, for as long as the caller's context lives)
			for _, cs := range c.Calls(f.SSA, AnyCall("Topic).Publish")) {
				waits := len(c.Calls(f.SSA, CallLike([]string{"go-libp2p-pubsub.WithReadiness"}))) > 0
				c.Check(!waits, "C16.K3-shutdown-alternative", f.Name+" › Publish does not wait for readiness", cs.In.Pos(), "Topic.Publish is called without a readiness option", "Topic.Publish is given a readiness option: it then waits for peers inside Send, where the receiver's Close cannot wake it")
			}
		}
		if nSend == 0 {
			c.Unk("C16.K3-shutdown-alternative", "announce/p2psender.(*Sender).Send", token.NoPos, "not found")
		}
		// …and whatever a sender counts in (a wait group of calls in flight that its Close waits for) it counts out on
		// every path: an early return between Add and Done leaves the count up, and the receiver's Close — which closes
		// the sender — waits for good
		for _, sub := range []string{"announce/p2psender", "announce/httpsender"} {
			for _, f := range c.Funcs(sub) {
				for _, cs := range c.Calls(f.SSA, Call("sync.WaitGroup).Add")) {
					if cs.Fn != f.SSA {
						continue
					}
					wg := cs.X.Args[0]
					ok, path := pathsFromPass(cs.In, func(in ssa.Instruction) bool {
						ci, isCall := in.(ssa.CallInstruction)
						if !isCall {
							return false
						}
						m, isDone := Match(Call("sync.WaitGroup).Done", Bind("w")), c.CallX(ci))
						return isDone && Same(m["w"], wg)
					})
					c.Check(ok, "C16.K3-shutdown-alternative", f.Name+" › counted in, counted out", cs.In.Pos(), "every path from WaitGroup.Add to a return passes (or defers) the matching Done", "a path from WaitGroup.Add to a return skips the matching Done ("+path+"): the sender's Close, and with it the receiver's, waits forever")
				}
			}
		}
	}
	c.Floor("C16.K3-shutdown-alternative", 4)

	// ---- K4: cancelWatch() before <-watchDone -----------------------------------
	var cancelCall, waitRecv ssa.Instruction
	closeBody := closeFn.SSA
	for _, f := range c.Funcs(pkg) {
		// (the phase of Close that waits for the watcher)
		if inClose(f.SSA) && f.SSA != closeFn.SSA {
			instrs(f.SSA, func(in ssa.Instruction) {
				if u, ok := in.(*ssa.UnOp); ok && u.Op == token.ARROW {
					if _, ok := Match(Field("watchDone", Any()), c.E(u.X)); ok {
						closeBody = f.SSA
					}
				}
			})
		}
	}
	instrs(closeBody, func(in ssa.Instruction) {
		// a deferred cancel runs only after the wait: it does not count
		if ci, ok := in.(*ssa.Call); ok {
			if _, ok := Match(Op("dyncall", "", Field("cancelWatch", Any())), c.CallX(ci)); ok {
				cancelCall = in
			}
		}
		if u, ok := in.(*ssa.UnOp); ok && u.Op == token.ARROW {
			if _, ok := Match(Field("watchDone", Any()), c.E(u.X)); ok {
				waitRecv = in
			}
		}
	})
	if waitRecv == nil {
		c.OK("C16.K4-cancel-before-wait", "announce.(*Receiver).Close", closeFn.SSA.Pos(), "Close does not wait for the watcher")
	} else {
		c.Check(cancelCall != nil && Precedes(cancelCall, waitRecv), "C16.K4-cancel-before-wait", "announce.(*Receiver).Close › cancelWatch ≺ <-watchDone", waitRecv.Pos(),
			"watcher context is cancelled on every path before Close waits for the watcher", "Close waits for the watcher without having cancelled it first: hangs while the watcher is blocked in Next")
	}
	c.Floor("C16.K4-cancel-before-wait", 1)

	// ---- K5: watcher needs a subscription -----------------------------------------
	watchFn := c16Watcher(c, pkg)
	watchEntry := c16WatcherEntry(c, pkg)
	if watchFn == nil {
		c.Unk("C16.K5-watcher-needs-subscription", "announce › watcher", token.NoPos, "no function in the package calls Subscription.Next on the receiver's subscription")
	} else {
		n := 0
		for _, f := range c.Funcs(pkg) {
			instrsDeep(f.SSA, func(g *ssa.Function, in ssa.Instruction) {
				goi, ok := in.(*ssa.Go)
				if !ok || goi.Common().StaticCallee() != watchEntry {
					return
				}
				n++
				key := c.short(topFunc(g).String()) + " › go watch"
				// the subscription stored into the receiver must be known non-nil here
				sub := c16SubscriptionValue(c, g)
				if sub == nil {
					c.Unk("C16.K5-watcher-needs-subscription", key, goi.Pos(), "cannot find the value stored in the receiver's subscription field")
					return
				}
				if _, ok := c.Guarded(goi, EqNil(Is(sub)), false); ok {
					c.OK("C16.K5-watcher-needs-subscription", key, goi.Pos(), "watcher goroutine is started only on the subscription != nil edge")
				} else {
					c.Bad("C16.K5-watcher-needs-subscription", key, goi.Pos(), "watcher goroutine (which dereferences the subscription) can be started with a nil subscription")
				}
			})
		}
		if n == 0 {
			c.Unk("C16.K5-watcher-needs-subscription", "announce › go watch", token.NoPos, "watcher is never started with a go statement")
		}
	}
	// K5d: Close waits for the watcher only where there is one: the wait is under a test of the channel itself, or of a
	// receiver field that is set only where the channel is made (a field set for every subscribed receiver says
	// nothing about a watcher: one built on a supplied topic without a host has a subscription and no watcher)
	if waitRecv != nil {
		var mkBlocks []*ssa.BasicBlock
		type fieldStore struct {
			name string
			b    *ssa.BasicBlock
		}
		var stores []fieldStore
		for _, f := range c.Funcs(pkg) {
			instrsDeep(f.SSA, func(g *ssa.Function, in ssa.Instruction) {
				st, ok := in.(*ssa.Store)
				if !ok {
					return
				}
				a := c.E(st.Addr)
				if a.Op != "field" || fieldOwner(a) != "Receiver" {
					return
				}
				if k, isC := st.Val.(*ssa.Const); isC && k.Value == nil {
					return // nil / zero
				}
				if a.Name == "watchDone" {
					mkBlocks = append(mkBlocks, st.Block())
				}
				stores = append(stores, fieldStore{a.Name, st.Block()})
			})
		}
		okGuard, why := false, "the wait is under no test of a receiver field"
		for _, fct := range c.FactsAt(waitRecv.Block()) {
			m, isNilTest := Match(EqNil(Field("", Any())), fct.Cond)
			_ = m
			if !isNilTest || fct.Val {
				continue
			}
			g := strip(fct.Cond.Args[0])
			if g == nil || g.Op != "field" || fieldOwner(g) != "Receiver" {
				continue
			}
			if g.Name == "watchDone" {
				okGuard = true
				break
			}
			only := len(mkBlocks) > 0
			nSt := 0
			for _, fs := range stores {
				if fs.name != g.Name {
					continue
				}
				nSt++
				under := false
				for _, mb := range mkBlocks {
					if mb == fs.b || mb.Dominates(fs.b) {
						under = true
					}
				}
				if !under {
					only = false
				}
			}
			if only && nSt > 0 {
				okGuard = true
				break
			}
			why = "the wait is under " + g.Name + " != nil, and " + g.Name + " is also set where no watcher is started"
		}
		c.Check(okGuard, "C16.K5-watcher-needs-subscription", "announce.(*Receiver).Close › waits only where a watcher exists", waitRecv.Pos(),
			"the wait is under a test that holds only for receivers whose watcher was started", why+": Close of such a receiver blocks forever")
	}
	// K5b: whoever creates the channel Close waits on also starts the goroutine that closes it — on every path
	if watchFn != nil && waitRecv != nil {
		nMk := 0
		for _, f := range c.Funcs(pkg) {
			instrs(f.SSA, func(in ssa.Instruction) {
				st, ok := in.(*ssa.Store)
				if !ok {
					return
				}
				if a := c.E(st.Addr); a.Op != "field" || a.Name != "watchDone" || fieldOwner(a) != "Receiver" {
					return
				}
				if _, isMk := unwrapV(st.Val).(*ssa.MakeChan); !isMk {
					return
				}
				nMk++
				started := func(i ssa.Instruction) bool {
					g, ok := i.(*ssa.Go)
					return ok && g.Common().StaticCallee() == watchEntry
				}
				// already started before the store (same path), or started on every path after it
				before := false
				for _, i := range st.Block().Instrs {
					if i == ssa.Instruction(st) {
						break
					}
					if started(i) {
						before = true
					}
				}
				ok2, path := pathsFromPass(st, started)
				c.Check(before || ok2, "C16.K5-watcher-needs-subscription", f.Name+" › done channel implies watcher", st.Pos(),
					"on every path, creating the channel Close waits on is followed by starting the watcher that closes it", "the channel Close waits on is created on a path that does not start the watcher ("+path+"): Close blocks forever")
			})
		}
		if nMk == 0 {
			c.Unk("C16.K5-watcher-needs-subscription", "announce › done channel", token.NoPos, "Close waits on a channel that no function creates")
		}
	}
	// K5c: the watcher closes that channel on every way out (a deferred close, or a close on every path to a return)
	if watchEntry != nil && waitRecv != nil {
		isCloseDone := func(i ssa.Instruction) bool {
			ci, ok := i.(ssa.CallInstruction)
			if !ok {
				return false
			}
			bi, ok := ci.Common().Value.(*ssa.Builtin)
			if !ok || bi.Name() != "close" || len(ci.Common().Args) != 1 {
				return false
			}
			_, m := Match(Field("watchDone", Any()), c.E(ci.Common().Args[0]))
			return m
		}
		deferred := false
		instrs(watchEntry, func(i ssa.Instruction) {
			if _, isDefer := i.(*ssa.Defer); isDefer && isCloseDone(i) {
				deferred = true
			}
		})
		okAll, path := deferred, ""
		if !deferred {
			okAll, path = allPathsPass(watchEntry, func(i ssa.Instruction) bool {
				if _, isDefer := i.(*ssa.Defer); isDefer {
					return false
				}
				if isCloseDone(i) {
					return true
				}
				// or a step helper that closes it on every one of its own paths
				if ci, ok := i.(*ssa.Call); ok {
					if sc := ci.Call.StaticCallee(); sc != nil && sc.Pkg == watchEntry.Pkg && len(sc.Blocks) > 0 {
						ok2, _ := allPathsPass(sc, isCloseDone)
						return ok2
					}
				}
				return false
			})
		}
		c.Check(okAll, "C16.K5-watcher-needs-subscription", c.short(watchEntry.String())+" › closes the channel Close waits on, on every exit", watchEntry.Pos(),
			"every way out of the watcher closes the channel Close waits on", "the watcher can return without closing the channel Close waits on ("+path+"): Close blocks forever")
	}
	c.Floor("C16.K5-watcher-needs-subscription", 4)
	receiverCloseSignals(c, "C16.K2-close-signals-done")
	c.Floor("C16.K2-close-signals-done", 1)

	// ---- K6: closed test before cache access; watcher loop exits ---------------------
	closedFalse := func(in ssa.Instruction) bool {
		_, ok := c.Guarded(in, Field("closed", Any()), false)
		return ok
	}
	nUpd := 0
	for _, f := range c.Funcs(pkg) {
		for _, cs := range c.Calls(f.SSA, c.RoleCall("lru.update")) {
			nUpd++
			c.Check(closedFalse(cs.In), "C16.K6-closed-test-first", c.short(topFunc(cs.Fn).String())+" › cache update", cs.In.Pos(),
				"duplicate-cache update dominated by the closed == false edge", "duplicate cache is updated without testing the closed flag first")
		}
	}
	if watchFn != nil {
		c16WatcherExits(c, watchFn)
	}
	c.Floor("C16.K6-closed-test-first", 3)

	// ---- K7: closed error reaches callers ----------------------------------------------
	errClosed := Op("global", "announce.ErrClosed")
	for _, f := range c.Funcs(pkg) {
		// (a) selects with a done clause return ErrClosed in that clause
		for _, op := range c.BlockingOps(f.SSA) {
			if op.Kind != "select" || op.Fn != f.SSA {
				continue
			}
			i := op.CaseIndex(false, doneCh)
			if i < 0 {
				continue
			}
			sel := c.E(op.In.(*ssa.Select))
			found := false
			for _, b := range f.SSA.Blocks {
				ret, ok := b.Instrs[len(b.Instrs)-1].(*ssa.Return)
				if !ok {
					continue
				}
				if _, ok := c.GuardedB(b, Bin("==", Extract("0", Is(sel)), Const(itoa(i))), true); !ok {
					continue
				}
				found = true
				last := c.RetX(ret, len(ret.Results)-1)
				_, isClosed := Match(errClosed, last)
				c.Check(isClosed, "C16.K7-closed-error", f.Name+" › case <-done", ret.Pos(),
					"done clause returns ErrClosed", "done clause does not return ErrClosed: "+last.String())
			}
			if !found {
				c.Unk("C16.K7-closed-error", f.Name+" › case <-done", op.Pos, "no return found under the done clause")
			}
		}
	}
	// (b) the closed flag true edge returns ErrClosed, and the delivery routine passes it on
	for _, f := range c.Funcs(pkg) {
		if inClose(f.SSA) {
			continue
		}
		for _, b := range f.SSA.Blocks {
			ret, ok := b.Instrs[len(b.Instrs)-1].(*ssa.Return)
			if !ok || len(ret.Results) == 0 {
				continue
			}
			if _, ok := c.GuardedB(b, Field("closed", Any()), true); !ok {
				continue
			}
			last := c.RetX(ret, len(ret.Results)-1)
			_, isClosed := Match(errClosed, last)
			c.Check(isClosed, "C16.K7-closed-error", f.Name+" › closed edge", ret.Pos(),
				"closed receiver answers ErrClosed", "closed receiver does not answer ErrClosed: "+last.String())
		}
	}
	c.Floor("C16.K7-closed-error", 3)
}

// closeOnce decides that a close(ch) call runs at most once.
func closeOnce(c *Ctx, rule, key string, cs CallSite, pkg string) {
	fn := cs.Fn
	// (a) guarded by a boolean flag test (false edge) where the same flag is
	// set to true before the close, test and set both while a mutex is held.
	for _, f := range c.FactsAt(cs.In.Block()) {
		if f.Val || strip(f.Cond).Op != "field" {
			continue
		}
		flag := strip(f.Cond)
		var set *ssa.Store
		instrs(fn, func(in ssa.Instruction) {
			if st, ok := in.(*ssa.Store); ok {
				if a := c.E(st.Addr); a.Op == "field" && a.Name == flag.Name && Same(a.Args[0], flag.Args[0]) {
					if cv, ok := st.Val.(*ssa.Const); ok && cv.Value != nil && cv.Value.ExactString() == "true" {
						set = st
					}
				}
			}
		})
		if set == nil || !Precedes(set, cs.In) {
			continue
		}
		// test and set inside one critical section: a Lock precedes the test,
		// and no Unlock of it lies between the test and the set.
		var lock, firstUnlock ssa.Instruction
		instrs(fn, func(in ssa.Instruction) {
			if ci, ok := in.(ssa.CallInstruction); ok {
				x := c.CallX(ci)
				if _, ok := Match(Call("sync.Mutex).Lock"), x); ok && lock == nil {
					lock = in
				}
				if _, isDefer := in.(*ssa.Defer); !isDefer {
					if _, ok := Match(Call("sync.Mutex).Unlock"), x); ok && Precedes(in, set) {
						firstUnlock = in
					}
				}
			}
		})
		if lock != nil && Precedes(lock, f.If) && firstUnlock == nil {
			c.OK(rule, key, cs.In.Pos(), "closed under test-and-set of flag "+flag.String()+" performed while the mutex is held")
			return
		}
	}
	// (a') the same test-and-set made by a helper that reports "it was I who marked it": the close lies on the true edge of
	// the helper's result; in the helper a lock is taken, the flag is tested (set ⇒ return false), set, and true returned
	for _, f := range c.FactsAt(cs.In.Block()) {
		call, isCall := strip(f.Cond).V.(*ssa.Call)
		if !f.Val || !isCall || strip(f.Cond).Op != "call" {
			continue
		}
		h := call.Call.StaticCallee()
		if h == nil || !samePkgBody(fn, h) || h.Signature.Results().Len() != 1 {
			continue
		}
		var set *ssa.Store
		instrs(h, func(in ssa.Instruction) {
			if st, ok := in.(*ssa.Store); ok {
				if a := c.E(st.Addr); a.Op == "field" {
					if cv, ok := st.Val.(*ssa.Const); ok && cv.Value != nil && cv.Value.ExactString() == "true" {
						set = st
					}
				}
			}
		})
		if set == nil {
			continue
		}
		flag := c.E(set.Addr)
		_, tested := c.Guarded(set, Field(flag.Name, Any()), false)
		var lock, earlyUnlock ssa.Instruction
		instrs(h, func(in ssa.Instruction) {
			if ci, ok := in.(ssa.CallInstruction); ok {
				x := c.CallX(ci)
				if _, ok := Match(Call("sync.Mutex).Lock"), x); ok && lock == nil {
					lock = in
				}
				if _, isDefer := in.(*ssa.Defer); !isDefer {
					if _, ok := Match(Call("sync.Mutex).Unlock"), x); ok && Precedes(in, set) {
						earlyUnlock = in
					}
				}
			}
		})
		okRets := true
		for _, b := range h.Blocks {
			if ret, isRet := b.Instrs[len(b.Instrs)-1].(*ssa.Return); isRet && len(ret.Results) == 1 && b.Comment != "recover" {
				v, isConst := boolConst(c.RetX(ret, 0))
				if !isConst || v != (Precedes(set, ret) || set.Block() == b) {
					okRets = false
				}
			}
		}
		if tested && lock != nil && Precedes(lock, set) && earlyUnlock == nil && okRets {
			c.OK(rule, key, cs.In.Pos(), "closed on the true result of "+c.short(h.String())+", which tests and sets flag "+flag.String()+" while the mutex is held")
			return
		}
	}
	// (b) the enclosing function has exactly one call site, a go statement or call outside any loop.
	top := topFunc(fn)
	if fn == top {
		sites := 0
		inLoop := false
		for _, f := range c.Funcs(pkg) {
			instrsDeep(f.SSA, func(g *ssa.Function, in ssa.Instruction) {
				if ci, ok := in.(ssa.CallInstruction); ok && ci.Common().StaticCallee() == top {
					sites++
					if ReachableFromSucc(in.Block(), in.Block()) {
						inLoop = true
					}
				}
			})
		}
		// the close must not be in a loop of its own function either
		if sites == 1 && !inLoop && !ReachableFromSucc(cs.In.Block(), cs.In.Block()) {
			c.OK(rule, key, cs.In.Pos(), "enclosing function has a single call site outside any loop and the close is not in a loop")
			return
		}
	}
	c.Bad(rule, key, cs.In.Pos(), "close may execute more than once (no once-only guard recognised): a second close panics")
}

// ReachableFromSucc reports whether target is reachable from a successor of b (b in a cycle when target == b).
func ReachableFromSucc(b, target *ssa.BasicBlock) bool {
	for _, s := range b.Succs {
		if ReachableFrom(s)[target] {
			return true
		}
	}
	return false
}

// c16Watcher finds the function that reads the pubsub subscription.
// c16WatcherEntry: the function the watcher goroutine is started with — the
// loop function itself, or a function that (directly or through same-package
// helpers) runs it.
func c16WatcherEntry(c *Ctx, pkg string) *ssa.Function {
	loop := c16Watcher(c, pkg)
	if loop == nil {
		return nil
	}
	var entry *ssa.Function
	for _, f := range c.Funcs(pkg) {
		instrsDeep(f.SSA, func(_ *ssa.Function, in ssa.Instruction) {
			g, ok := in.(*ssa.Go)
			if !ok {
				return
			}
			t := g.Common().StaticCallee()
			if t == nil {
				if mc, isMC := g.Common().Value.(*ssa.MakeClosure); isMC {
					t, _ = mc.Fn.(*ssa.Function)
				}
			}
			if t == nil {
				return
			}
			if t == loop {
				entry = t
				return
			}
			for _, st := range c.CallsInl(t, Any(), 2) {
				if st.In.Common().StaticCallee() == loop {
					entry = t
				}
			}
		})
	}
	if entry == nil {
		return loop
	}
	return entry
}

func c16Watcher(c *Ctx, pkg string) *ssa.Function {
	for _, f := range c.Funcs(pkg) {
		if len(c.Calls(f.SSA, Call("go-libp2p-pubsub.Subscription).Next"))) > 0 {
			return f.SSA
		}
	}
	return nil
}

// c16SubscriptionValue finds the value stored into a *pubsub.Subscription
// field of the receiver literal built in fn.
func c16SubscriptionValue(c *Ctx, fn *ssa.Function) *X {
	var out *X
	instrs(fn, func(in ssa.Instruction) {
		if st, ok := in.(*ssa.Store); ok {
			if strings.HasSuffix(deref(st.Val.Type()).String(), "go-libp2p-pubsub.Subscription") {
				if a := c.E(st.Addr); a.Op == "field" {
					out = c.E(st.Val)
				}
			}
		}
	})
	return out
}

// c16WatcherExits: error tests that must end the watcher loop do end it.
func c16WatcherExits(c *Ctx, watch *ssa.Function) {
	nextCalls := c.Calls(watch, Call("go-libp2p-pubsub.Subscription).Next"))
	if len(nextCalls) == 0 {
		return
	}
	loopHead := nextCalls[0].In.Block()
	want := map[string]bool{"context.Canceled": false, "ErrSubscriptionCancelled": false, "announce.ErrClosed": false}
	for _, cs := range c.Calls(watch, Call("errors.Is")) {
		if len(cs.X.Args) < 2 {
			continue
		}
		target := cs.X.Args[1].String()
		for w := range want {
			if strings.HasSuffix(target, w) {
				// the If on this call: true successor must not reach the loop head
				call := cs.In.(*ssa.Call)
				ok := false
				if refs := call.Referrers(); refs != nil {
					for _, r := range *refs {
						if iff, isIf := r.(*ssa.If); isIf {
							ok = !ReachableFrom(iff.Block().Succs[0])[loopHead]
						}
					}
				}
				c.Check(ok, "C16.K6-closed-test-first", c.short(watch.String())+" › leaves loop on "+w, cs.In.Pos(),
					"on errors.Is(err, "+w+") the watcher cannot reach the next read again", "watcher keeps looping after errors.Is(err, "+w+")")
				if ok {
					want[w] = true
				}
			}
		}
	}
	for w, seen := range want {
		if !seen {
			c.Bad("C16.K6-closed-test-first", c.short(watch.String())+" › leaves loop on "+w, watch.Pos(), "watcher has no loop exit for "+w)
		}
	}
}

// receiverCloseSignals: the receiver's Close wakes whoever waits in Next — on
// every path on which it marks the receiver closed it closes the done channel
// (Next selects on it; the subscriber's watcher leaves its loop on Next's
// error, and the subscriber's Close waits for that watcher).
func receiverCloseSignals(c *Ctx, rule string) {
	cl := c.Func("announce", "Receiver.Close")
	if cl == nil {
		c.Unk(rule, "announce.(*Receiver).Close", token.NoPos, "not found")
		return
	}
	var mark *ssa.Store
	for _, f := range c.Funcs("announce") {
		// (Close itself, or the phase of it that marks the receiver closed)
		if f.SSA != cl.SSA && c.routineOf(f.SSA) != cl.SSA {
			continue
		}
		instrs(f.SSA, func(in ssa.Instruction) {
			if st, ok := in.(*ssa.Store); ok {
				if a := c.E(st.Addr); a.Op == "field" && a.Name == "closed" && fieldOwner(a) == "Receiver" {
					if v, isConst := boolConst(c.E(st.Val)); isConst && v {
						mark = st
					}
				}
			}
		})
	}
	if mark == nil {
		c.Unk(rule, cl.Name+" › marks the receiver closed", cl.SSA.Pos(), "no store closed = true found")
		return
	}
	isCloseDone := func(i ssa.Instruction) bool {
		ci, ok := i.(ssa.CallInstruction)
		if !ok {
			return false
		}
		bi, ok := ci.Common().Value.(*ssa.Builtin)
		if !ok || bi.Name() != "close" || len(ci.Common().Args) != 1 {
			return false
		}
		_, m := Match(Field("done", Any()), c.E(ci.Common().Args[0]))
		return m
	}
	ok, path := pathsFromPass(mark, isCloseDone)
	if !ok && mark.Parent() != cl.SSA {
		// the mark is made by a helper that returns true exactly when it made it: from its call in Close, every path on
		// which the result is true passes close(done)
		h := mark.Parent()
		okHelper := h.Signature.Results().Len() == 1
		for _, b := range h.Blocks {
			if ret, isRet := b.Instrs[len(b.Instrs)-1].(*ssa.Return); isRet && okHelper && b.Comment != "recover" {
				v, isConst := boolConst(c.RetX(ret, 0))
				if !isConst || v != (Precedes(mark, ret) || mark.Block() == b) {
					okHelper = false
				}
			}
		}
		var site *ssa.Call
		instrs(cl.SSA, func(in ssa.Instruction) {
			if call, isCall := in.(*ssa.Call); isCall && call.Call.StaticCallee() == h {
				site = call
			}
		})
		if okHelper && site != nil {
			ok, path = pathsFromPass(site, func(i ssa.Instruction) bool {
				if isCloseDone(i) {
					return true
				}
				if _, isRet := i.(*ssa.Return); isRet {
					_, notMarked := c.GuardedB(i.Block(), Is(c.E(site)), false)
					return notMarked
				}
				return false
			})
		}
	}
	c.Check(ok, rule, cl.Name+" › close(done) on every path that marks the receiver closed", mark.Pos(),
		"once marked closed, every path through Close closes the done channel: a pending or later Next returns", "Close can mark the receiver closed and return without closing the done channel ("+path+"): Next never returns, so whoever waits for the consumer of Next (the subscriber's Close) hangs")
}

// mutexHoldersByPointer: a type that holds a mutex is used through a pointer: a method with a value receiver works on
// a copy — it locks the copy's mutex (possibly copied while held: never unlocked) and leaves the real one alone, and
// what it writes to the struct's fields is lost. Shared by C16 (announce), C08 and C15 (dagsync).
func mutexHoldersByPointer(c *Ctx, rule, pkg string) {
	nT := 0
	if p := c.pkg(pkg); p != nil {
		sc := p.Types.Scope()
		for _, name := range sc.Names() {
			tn, ok := sc.Lookup(name).(*types.TypeName)
			if !ok {
				continue
			}
			named, ok := tn.Type().(*types.Named)
			if !ok {
				continue
			}
			st, ok := named.Underlying().(*types.Struct)
			if !ok {
				continue
			}
			holds := false
			for i := 0; i < st.NumFields(); i++ {
				if t := st.Field(i).Type().String(); t == "sync.Mutex" || t == "sync.RWMutex" {
					holds = true
				}
			}
			if !holds {
				continue
			}
			nT++
			var byValue []string
			for i := 0; i < named.NumMethods(); i++ {
				m := named.Method(i)
				if _, isPtr := m.Type().(*types.Signature).Recv().Type().(*types.Pointer); !isPtr {
					byValue = append(byValue, m.Name())
				}
			}
			c.Check(len(byValue) == 0, rule, pkg+"."+canonType(tn)+" › methods work on the one instance", tn.Pos(), "every method of the mutex-holding type has a pointer receiver", "method(s) "+strings.Join(byValue, ", ")+" take the receiver by value: each call copies the struct with its mutex and locks the copy — the real lock is not taken (or, copied while held, the copy is locked for good)")
		}
	}
	if nT == 0 {
		c.Unk(rule, pkg+" › mutex-holding types", token.NoPos, "none found")
	}
}

// closeReleasesWhatWasCreated: every function-typed field of the receiver that Close calls (a cancel function of
// something the constructor created: the watcher's context, a pubsub instance of its own) is given a value
// somewhere in the package — a field Close tests for nil and that nothing ever sets makes that release dead code:
// Close returns, and what the receiver created (goroutines, a topic joined) stays. Shared by C15 and C16.
func closeReleasesWhatWasCreated(c *Ctx, rule string) {
	cl := c.Func("announce", "Receiver.Close")
	if cl == nil {
		c.Unk(rule, "announce.(*Receiver).Close", token.NoPos, "not found")
		return
	}
	called := map[string]token.Pos{}
	for _, f := range c.Funcs("announce") {
		if f.SSA != cl.SSA && c.routineOf(f.SSA) != cl.SSA {
			continue
		}
		for _, cs := range c.Calls(f.SSA, Op("dyncall", "", Field("", Any()))) {
			if fx := strip(cs.X.Args[0]); fx != nil && fx.Op == "field" && fieldOwner(fx) == "Receiver" {
				called[canonName(fx.Name)] = cs.In.Pos()
			}
		}
	}
	set := map[string]bool{}
	for _, f := range c.Funcs("announce") {
		instrsDeep(f.SSA, func(_ *ssa.Function, in ssa.Instruction) {
			st, ok := in.(*ssa.Store)
			if !ok {
				return
			}
			a := c.E(st.Addr)
			if a.Op != "field" || fieldOwner(a) != "Receiver" {
				return
			}
			if k, isC := st.Val.(*ssa.Const); isC && k.Value == nil {
				return
			}
			set[canonName(a.Name)] = true
		})
	}
	var names []string
	for n := range called {
		names = append(names, n)
	}
	sort.Strings(names)
	for _, n := range names {
		c.Check(set[n], rule, "announce.Receiver."+n+" › called by Close, set by the constructor", called[n], "the release function Close calls is stored when what it releases is created", "Close calls r."+n+" only if it is set, and nothing in the package sets it: what the constructor created for it is never released, although Close returns nil")
	}
	if len(names) == 0 {
		c.Unk(rule, "announce.(*Receiver).Close", cl.SSA.Pos(), "Close calls no function-typed field of the receiver")
	}
}
