package main

import (
	_ "embed"
	"encoding/json"
	"fmt"
	"go/token"
	"go/types"
	"reflect"
	"sort"
	"strings"
)

// The JSON wire names of the exported fields of the structs that travel as JSON (find model, announce message,
// ingest request, API error), as confirmed on the reference tree: for each field the key it is written and read
// under and whether it is left out when empty. A struct tag can change both without touching any function body, and
// either change is a change of the wire format: a misspelt key makes the field vanish for every peer that spells it
// as before; an added omitempty makes "present but empty" read back as "absent" (and lets a decoder that reuses its
// target keep the previous message's value). Regenerate with `ipnicheck -dump-ref wire` only when a wire change is
// intended and re-confirmed.
//
//go:embed ref_wire.json
var refWireJSON []byte

type wireField struct {
	Key       string `json:"key"`
	OmitEmpty bool   `json:"omitempty,omitempty"`
}

var wirePkgs = []string{"find/model", "announce/message", "ingest/model", "apierror"}

func effectiveJSON(f *types.Var, tag string) (wireField, bool) {
	w := wireField{Key: f.Name()}
	v, ok := reflect.StructTag(tag).Lookup("json")
	if !ok {
		return w, f.Exported()
	}
	if v == "-" {
		return w, false
	}
	parts := strings.Split(v, ",")
	if parts[0] != "" {
		w.Key = parts[0]
	}
	for _, o := range parts[1:] {
		if o == "omitempty" {
			w.OmitEmpty = true
		}
	}
	return w, f.Exported()
}

func currentWire(c *Ctx) map[string]map[string]wireField {
	out := map[string]map[string]wireField{}
	for _, rel := range wirePkgs {
		p := c.pkg(rel)
		if p == nil {
			continue
		}
		sc := p.Types.Scope()
		for _, name := range sc.Names() {
			tn, ok := sc.Lookup(name).(*types.TypeName)
			if !ok || !tn.Exported() {
				continue
			}
			st, ok := tn.Type().Underlying().(*types.Struct)
			if !ok {
				continue
			}
			fs := map[string]wireField{}
			for i := 0; i < st.NumFields(); i++ {
				if w, on := effectiveJSON(st.Field(i), st.Tag(i)); on {
					fs[st.Field(i).Name()] = w
				}
			}
			if len(fs) > 0 {
				out[rel+"."+name] = fs
			}
		}
	}
	return out
}

func dumpWire(c *Ctx) {
	b, _ := json.MarshalIndent(currentWire(c), "", " ")
	fmt.Println(string(b))
}

// wireNamesAsReference checks the named structs ("pkg/rel.Type") against the reference table.
func wireNamesAsReference(c *Ctx, rule string, typeNames ...string) {
	ref := map[string]map[string]wireField{}
	if err := json.Unmarshal(refWireJSON, &ref); err != nil {
		c.Unk(rule, "reference wire table", token.NoPos, "unreadable: "+err.Error())
		return
	}
	cur := currentWire(c)
	for _, tn := range typeNames {
		want, have := ref[tn], cur[tn]
		if want == nil {
			c.Unk(rule, tn, token.NoPos, "not in the reference wire table")
			continue
		}
		var diffs []string
		var names []string
		for f := range want {
			names = append(names, f)
		}
		sort.Strings(names)
		for _, f := range names {
			w := want[f]
			h, ok := have[f]
			switch {
			case !ok:
				diffs = append(diffs, f+" is no longer on the wire")
			case h.Key != w.Key:
				diffs = append(diffs, f+" is written as \""+h.Key+"\" (was \""+w.Key+"\")")
			case h.OmitEmpty != w.OmitEmpty:
				diffs = append(diffs, f+map[bool]string{true: " is now left out when empty", false: " is now written when empty"}[h.OmitEmpty])
			}
		}
		c.Check(len(diffs) == 0, rule, tn+" › JSON keys", token.NoPos, fmt.Sprint(len(want))+" fields keep their wire keys and empty-value treatment", "the JSON form of "+tn+" changed through its struct tags: "+strings.Join(diffs, "; ")+" — peers that spell the key as before no longer see the field, or an empty value no longer reads back as written")
	}
}
