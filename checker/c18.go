package main

import (
	"go/token"
	"strings"

	"golang.org/x/tools/go/ssa"
)

func init() {
	register(&propSpec{
		id:  "C18",
		run: runC18,
		explanation: "Structural necessary conditions of 'signed ingest and register requests are accepted only from the provider named', decided on SSA of package ingest/model: " +
			"(H1) every function that consumes a signed envelope and returns its record returns it only on the edges: ConsumeEnvelope err == nil, the record type-asserted (comma-ok true) to the expected record type, signer derived from that envelope's PublicKey without error, and signer == the record's own identity field; " +
			"(H2) the envelope is consumed with ConsumeEnvelope (which dispatches on the sealed payload type) under the domain constant of the expected record type; " +
			"(H3) each Make/Read pair seals and reads the same record type, whose Domain() and Codec() return the declared constants, and Make seals the record it built from its arguments through the shared sealing helper. " +
			"Envelope cryptography and the byte-alteration sweep are not decided.",
		assumptions: []string{"libp2p record.ConsumeEnvelope verifies the signature over (domain, payload type, payload) with the embedded key and dispatches on the payload type"},
	})
}

const modelPkg = "ingest/model"

func runC18(c *Ctx) {
	c.Trust("go/ssa", "libp2p core/record")
	// what is sealed is what was given: empty fields are written, so they read back as empty rather than absent
	wireNamesAsReference(c, "C18.H3-wire-names", "ingest/model.IngestRequest")
	c.Floor("C18.H3-wire-names", 1)
	type reader struct {
		fn       string
		recType  string
		idField  string
		domain   P
		domainOK string
	}
	readers := []reader{
		{"ReadIngestRequest", "IngestRequest", "ProviderID", Op("const", ""), "IngestRequestEnvelopeDomain"},
		{"ReadRegisterRequest", "PeerRecord", "PeerID", Op("const", ""), "PeerRecordEnvelopeDomain"},
	}
	for _, r := range readers {
		f := c.Func(modelPkg, r.fn)
		if f == nil {
			c.Unk("C18.H1-signer-compared", "ingest/model."+r.fn, token.NoPos, "exported reader not found")
			continue
		}
		key := f.Name
		cons := c.Calls(f.SSA, Call("record.ConsumeEnvelope"))
		if len(cons) != 1 && c18TypedReader(c, f, r.recType, r.idField, r.domainOK) {
			continue
		}
		if len(cons) != 1 {
			typed := c.Calls(f.SSA, Call("record.ConsumeTypedEnvelope"))
			if len(typed) > 0 {
				c.Bad("C18.H2-domain-and-type", key+" › consume", typed[0].In.Pos(), "the envelope is consumed with ConsumeTypedEnvelope, which does not check the sealed payload type: an envelope sealed for another payload type is accepted")
			} else {
				c.Bad("C18.H2-domain-and-type", key+" › consume", f.SSA.Pos(), "expected exactly one record.ConsumeEnvelope call")
			}
			continue
		}
		cs := cons[0]
		env := c.E(cs.In.(*ssa.Call))
		// H2 domain
		dom := cs.X.Args[1]
		wantDom, okc := c18DomainConst(c, r.domainOK)
		c.Check(okc && dom.Op == "const" && dom.Name == wantDom, "C18.H2-domain-and-type", key+" › domain", cs.In.Pos(), "consumed under the domain constant "+r.domainOK, "envelope consumed under a domain other than "+r.domainOK+": "+dom.String())
		// success returns
		signer := Extract("0", Call("peer.IDFromPublicKey", Field("PublicKey", Extract("0", Is(env)))))
		n := 0
		for _, b := range f.SSA.Blocks {
			ret, ok := b.Instrs[len(b.Instrs)-1].(*ssa.Return)
			if !ok || len(ret.Results) != 2 || c.RetX(ret, 1).Op != "nil" {
				continue
			}
			n++
			k := key + " › success return"
			_, g1 := c.GuardedB(b, EqNil(Extract("2", Is(env))), true)
			c.Check(g1, "C18.H1-signer-compared", k+" › envelope verified", ret.Pos(), "dominated by ConsumeEnvelope err == nil", "record returned although the envelope did not verify")
			// type assertion of the untyped record, comma-ok true
			rec := c.RetX(ret, 0)
			okType := false
			if rec.Op == "extract" && rec.Name == "0" && rec.Args[0].Op == "assert" {
				as := rec.Args[0]
				if _, m := Match(Extract("1", Is(env)), as.Args[0]); m && strings.HasSuffix(as.Name, r.recType) {
					okx := &X{Op: "extract", Name: "1", Args: []*X{as}}
					for _, f2 := range c.FactsAt(b) {
						if f2.Val && f2.Cond.Op == "extract" && f2.Cond.Name == "1" && len(f2.Cond.Args) == 1 && f2.Cond.Args[0].V == as.V {
							okType = true
						}
					}
					_ = okx
				}
			}
			c.Check(okType, "C18.H2-domain-and-type", k+" › record type", ret.Pos(), "returned record is the envelope's record asserted to *"+r.recType+" with the comma-ok result true", "returned record is not the consumed record asserted (checked) to *"+r.recType)
			// signer
			_, g3 := c.GuardedB(b, EqNil(Extract("1", Call("peer.IDFromPublicKey", Field("PublicKey", Extract("0", Is(env)))))), true)
			cmp := Bin("==", signer, Field(r.idField, Any()))
			bb, g4 := c.GuardedB(b, cmp, true)
			if !g4 {
				c.Bad("C18.H1-signer-compared", k+" › signer == "+r.idField, ret.Pos(), "the request is returned without comparing the envelope's signer with the provider ID inside the request: any key can sign for any provider")
				continue
			}
			_ = bb
			c.Check(g3, "C18.H1-signer-compared", k+" › signer derived", ret.Pos(), "signer = IDFromPublicKey(envelope.PublicKey), error checked", "signer derivation error ignored")
			// the identity compared belongs to the record returned
			sameRec := false
			for _, f2 := range c.FactsAt(b) {
				if m, ok := Match(Bin("==", signer, BindP("idf", Field(r.idField, Bind("r")))), f2.Cond); ok && f2.Val {
					if Same(m["r"], rec) || Same(strip(m["r"]), strip(rec)) {
						sameRec = true
					}
				}
			}
			c.Check(sameRec, "C18.H1-signer-compared", k+" › signer == "+r.idField, ret.Pos(), "dominated by signer == "+r.idField+" of the record being returned", "the identity compared is not that of the returned record")
		}
		if n == 0 {
			c.Unk("C18.H1-signer-compared", key+" › success return", f.SSA.Pos(), "no success return")
		}
	}
	c.Floor("C18.H1-signer-compared", 6)
	c.Floor("C18.H2-domain-and-type", 4)

	// ---- H3 make/read pairs ------------------------------------------------------------------------
	helper := (*ssa.Function)(nil)
	for _, f := range c.Funcs(modelPkg) {
		if len(c.Calls(f.SSA, Call("record.Seal"))) > 0 {
			helper = f.SSA
			// seals its argument with its key argument, returns Marshal of that envelope
			cs := c.Calls(f.SSA, Call("record.Seal"))[0]
			okArgs := cs.X.Args[0].Op == "param" && cs.X.Args[1].Op == "param"
			okRet := false
			for _, b := range f.SSA.Blocks {
				if ret, ok := b.Instrs[len(b.Instrs)-1].(*ssa.Return); ok && c.RetX(ret, 1).Op == "nil" {
					_, okRet = Match(Extract("0", Call("record.Envelope).Marshal", Extract("0", Is(c.E(cs.In.(*ssa.Call)))))), c.RetX(ret, 0))
					_, g := c.GuardedB(b, EqNil(Extract("1", Is(c.E(cs.In.(*ssa.Call))))), true)
					okRet = okRet && g
				}
			}
			c.Check(okArgs && okRet, "C18.H3-make-read-pairs", f.Name+" › seal helper", cs.In.Pos(), "seals the given record with the given key and returns that envelope's bytes on success", "sealing helper does not (seal its record with its key and return that envelope)")
		}
	}
	for _, mk := range []struct{ fn, recType, idField string }{{"MakeIngestRequest", "IngestRequest", "ProviderID"}, {"MakeRegisterRequest", "PeerRecord", "PeerID"}} {
		f := c.Func(modelPkg, mk.fn)
		if f == nil {
			c.Unk("C18.H3-make-read-pairs", "ingest/model."+mk.fn, token.NoPos, "not found")
			continue
		}
		ok := false
		for _, cs := range c.Calls(f.SSA, Any()) {
			if cs.In.Common().StaticCallee() != helper || helper == nil {
				continue
			}
			rec := cs.X.Args[0]
			fields := c.CellFields(rec)
			idv := fields[mk.idField]
			typeOK := strings.Contains(rec.String(), mk.recType) || strings.Contains(typeOfX(rec), mk.recType)
			ok = typeOK && idv != nil && idv.Op == "param" && cs.X.Args[1].Op == "param"
		}
		c.Check(ok, "C18.H3-make-read-pairs", f.Name+" › seals a "+mk.recType+" for the given provider", f.SSA.Pos(), "the record sealed carries the constructor's provider ID and is sealed with the constructor's key", "constructor does not seal a "+mk.recType+" carrying its provider argument with its key argument")
	}
	// the ingest record's Domain()/Codec() return the declared constants
	d := c.Func(modelPkg, "IngestRequest.Domain")
	k := c.Func(modelPkg, "IngestRequest.Codec")
	if d != nil && k != nil {
		want, _ := c18DomainConst(c, "IngestRequestEnvelopeDomain")
		okD := false
		for _, b := range d.SSA.Blocks {
			if ret, ok := b.Instrs[len(b.Instrs)-1].(*ssa.Return); ok {
				v := c.RetX(ret, 0)
				okD = v.Op == "const" && v.Name == want
			}
		}
		okC := false
		for _, b := range k.SSA.Blocks {
			if ret, ok := b.Instrs[len(b.Instrs)-1].(*ssa.Return); ok {
				v := c.RetX(ret, 0)
				okC = v.Op == "global" && strings.HasSuffix(v.Name, "IngestRequestEnvelopePayloadType")
			}
		}
		c.Check(okD && okC, "C18.H3-make-read-pairs", "ingest/model.IngestRequest › Domain and Codec", d.SSA.Pos(), "record's Domain()/Codec() are the declared domain and payload-type constants", "ingest record's Domain()/Codec() do not return the declared constants: requests are sealed for another domain than they are read under")
	} else {
		c.Unk("C18.H3-make-read-pairs", "ingest/model.IngestRequest › Domain and Codec", token.NoPos, "methods not found")
	}
	// what the constructor builds the reader accepts: the record's own decoding step rejects only what the decoder
	// rejects (or a nil receiver) — it applies no acceptance test of its own that the constructor does not share
	if ur := c.Func(modelPkg, "IngestRequest.UnmarshalRecord"); ur != nil {
		okU := true
		what := ""
		for _, b := range ur.SSA.Blocks {
			ret, ok := b.Instrs[len(b.Instrs)-1].(*ssa.Return)
			if !ok || len(ret.Results) != 1 {
				continue
			}
			for _, l := range c.LeavesF(c.RetX(ret, 0), ret) {
				v := strip(l.Val)
				switch {
				case v.Op == "nil":
				case v.Op == "call" && nameMatches(v.Name, "encoding/json.Unmarshal"):
				case v.Op == "call" && (nameMatches(v.Name, "fmt.Errorf") || nameMatches(v.Name, "errors.New")):
					g := false
					for _, fct := range append(append([]Fact{}, l.Facts...), c.FactsAt(b)...) {
						if _, m := Match(EqNil(Op("param", "")), fct.Cond); m && fct.Val {
							g = true
						}
					}
					if !g {
						okU, what = false, c.pos(ret.Pos())
					}
				default:
					okU, what = false, c.pos(ret.Pos())
				}
			}
		}
		c.Check(okU, "C18.H3-make-read-pairs", ur.Name+" › rejects only what the decoder rejects", ur.SSA.Pos(), "the record's decoding step returns the decoder's error (or refuses a nil receiver)", "the reader's decoding step rejects requests on a test of its own (at "+what+") that the constructor does not apply identically: a request built by the library's constructor can be refused by the library's reader")
	} else {
		c.Unk("C18.H3-make-read-pairs", "ingest/model.(*IngestRequest).UnmarshalRecord", token.NoPos, "not found")
	}
	// the ingest constructor seals what it was given: every field of the request it builds (bar the sequence number) is
	// one of its parameters as handed in (a copy is fine; a rewriting helper is not)
	if mk := c.Func(modelPkg, "MakeIngestRequest"); mk != nil {
		nLit := 0
		instrs(mk.SSA, func(in ssa.Instruction) {
			al, ok := in.(*ssa.Alloc)
			if !ok || !strings.HasSuffix(deref(al.Type()).String(), ".IngestRequest") {
				return
			}
			nLit++
			for name, v := range c.CellFields(c.E(al)) {
				if name == "Seq" {
					continue
				}
				ok := false
				t := strip(v)
				switch {
				case t != nil && t.Op == "param":
					ok = true
				case t != nil && t.Op == "call" && len(t.Args) == 1 && strip(t.Args[0]).Op == "param" &&
					(strings.Contains(t.Name, "slices.Clone") || strings.Contains(t.Name, "slices.Clip") || strings.Contains(t.Name, "bytes.Clone")):
					ok = true
				}
				c.Check(ok, "C18.H3-make-read-pairs", mk.Name+" › "+name+" as given", al.Pos(), "the request's "+name+" is the constructor's argument", "the request's "+name+" is not the constructor's argument as handed in ("+abbreviate(v.String())+"): what the provider signs, and what the reader returns, differs from what the caller asked to be sent")
			}
		})
		if nLit == 0 {
			c.Unk("C18.H3-make-read-pairs", mk.Name+" › request literal", mk.SSA.Pos(), "no IngestRequest built in the constructor")
		}
	}
	// the reader can consume what the constructor sealed in any process: the request's record type is registered with
	// the envelope package at package initialisation (not lazily by the constructor — a process that only reads would
	// reject every genuine request as an unregistered payload type), or by the reader itself before it consumes
	{
		nReg, okReg := 0, false
		for _, f := range c.Funcs(modelPkg) {
			for _, cs := range c.Calls(f.SSA, Call("record.RegisterType")) {
				nReg++
				top := topFunc(cs.Fn)
				if strings.HasPrefix(top.Name(), "init") && top.Signature.Recv() == nil && top.Signature.Params().Len() == 0 {
					okReg = true
				}
			}
		}
		if rd := c.Func(modelPkg, "ReadIngestRequest"); rd != nil && !okReg {
			okReg = len(c.CallsInl(rd.SSA, Call("record.RegisterType"), 3)) > 0
		}
		c.Check(okReg && nReg > 0, "C18.H3-make-read-pairs", "ingest/model › request record type registered for readers", token.NoPos, "the ingest request's record type is registered at package initialisation (or by the reader)", "the ingest request's record type is not registered at package initialisation nor by the reader: a process that reads requests without having built one rejects every genuine request")
	}
	c.Floor("C18.H3-make-read-pairs", 5)
}

// unstrip returns x (patterns strip asserts themselves; this keeps the extract/assert visible).
func unstrip(x *X) *X { return x }

func typeOfX(x *X) string {
	if v, ok := x.V.(ssa.Value); ok && v != nil {
		return v.Type().String()
	}
	if x.Cell != nil {
		return x.Cell.Type().String()
	}
	return ""
}

func c18DomainConst(c *Ctx, name string) (string, bool) {
	if v, ok := c.ConstString(modPath+"/"+modelPkg, name); ok {
		return v, true
	}
	return c.ConstString("github.com/libp2p/go-libp2p/core/peer", name)
}

// c18TypedReader decides H1/H2 for a reader that consumes the envelope into a
// record of its own (record.ConsumeTypedEnvelope, possibly in a helper shared
// by the readers): that call checks signature and the record's domain but not
// the sealed payload type, so the reader has to compare it itself. Reports
// whether the reader has this form (and then emits the obligations).
func c18TypedReader(c *Ctx, f *Fn, recType, idField, domainName string) bool {
	sites := c.CallsInl(f.SSA, Call("record.ConsumeTypedEnvelope"), 2)
	if len(sites) != 1 {
		return false
	}
	st := sites[0]
	key := f.Name
	env := st.X
	R := st.X.Args[1]
	// the record consumed into is a fresh *recType built by the reader
	fresh := false
	if rr := strip(R); rr != nil {
		t := ""
		if rr.V != nil {
			t = rr.V.Type().String()
		}
		fresh = (rr.Op == "complit" || rr.Op == "alloc" || strings.HasPrefix(rr.Op, "const")) && strings.HasSuffix(strings.TrimPrefix(t, "*"), "."+recType)
		if _, isAlloc := rr.V.(*ssa.Alloc); isAlloc && strings.HasSuffix(t, "."+recType) {
			fresh = true
		}
		if mi, isMI := rr.V.(*ssa.MakeInterface); isMI {
			_, isAlloc := mi.X.(*ssa.Alloc)
			fresh = isAlloc && strings.HasSuffix(mi.X.Type().String(), "."+recType)
		}
	}
	c.Check(fresh, "C18.H2-domain-and-type", key+" › consume", st.Outer().Pos(), "the envelope is consumed into a fresh *"+recType+" of the reader's own", "the record the envelope is consumed into is not a fresh *"+recType+": "+abbreviate(R.String()))
	// domain: that of the record type — its Domain method returns the expected constant (libp2p's own record is trusted)
	if want, okc := c18DomainConst(c, domainName); okc {
		okDom := true
		if dm := c.Func(modelPkg, recType+".Domain"); dm != nil {
			okDom = false
			for _, b := range dm.SSA.Blocks {
				if ret, ok := b.Instrs[len(b.Instrs)-1].(*ssa.Return); ok && len(ret.Results) == 1 {
					x := c.RetX(ret, 0)
					okDom = x.Op == "const" && x.Name == want
				}
			}
		}
		c.Check(okDom, "C18.H2-domain-and-type", key+" › domain", st.Outer().Pos(), "consumed under the record type's domain, the constant "+domainName, "the record type's Domain method does not return "+domainName)
	} else {
		c.Unk("C18.H2-domain-and-type", key+" › domain", st.Outer().Pos(), "domain constant "+domainName+" not found")
	}
	signerOf := Extract("0", Call("peer.IDFromPublicKey", Field("PublicKey", Extract("0", Is(env)))))
	n := 0
	for _, b := range f.SSA.Blocks {
		ret, ok := b.Instrs[len(b.Instrs)-1].(*ssa.Return)
		if !ok || len(ret.Results) != 2 || c.RetX(ret, 1).Op != "nil" {
			continue
		}
		n++
		k := key + " › success return"
		_, g1 := c.GuardedB(b, EqNil(Extract("1", Is(env))), true)
		c.Check(g1, "C18.H1-signer-compared", k+" › envelope verified", ret.Pos(), "dominated by ConsumeTypedEnvelope err == nil", "record returned although the envelope did not verify")
		_, g2 := c.GuardedB(b, Call("bytes.Equal", Field("PayloadType", Extract("0", Is(env))), AnyCall("Codec", Is(R))), true)
		if !g2 {
			// compared with the payload-type value itself: the global the record type's Codec method returns
			for _, f3 := range c.FactsAt(b) {
				m3, isEq := Match(Call("bytes.Equal", Field("PayloadType", Extract("0", Is(env))), Bind("pt")), f3.Cond)
				if !isEq || !f3.Val {
					continue
				}
				pt := strip(m3["pt"])
				if pt == nil || pt.Op != "global" {
					continue
				}
				if recType == "PeerRecord" && strings.HasSuffix(pt.Name, "peer.PeerRecordEnvelopePayloadType") {
					g2 = true
				}
				if cm := c.Func(modelPkg, recType+".Codec"); cm != nil {
					for _, cb := range cm.SSA.Blocks {
						if cr, isRet := cb.Instrs[len(cb.Instrs)-1].(*ssa.Return); isRet && len(cr.Results) == 1 {
							if cx := strip(c.RetX(cr, 0)); cx != nil && cx.Op == "global" && cx.Name == pt.Name {
								g2 = true
							}
						}
					}
				}
			}
		}
		rec := c.RetX(ret, 0)
		sameRec := Same(strip(rec), strip(R)) || (strip(R) != nil && strip(rec) != nil && strip(R).Contains(func(y *X) bool { return Same(y, rec) }))
		c.Check(g2 && sameRec, "C18.H2-domain-and-type", k+" › record type", ret.Pos(), "the envelope's sealed payload type is compared with the record's codec, and the record returned is the one consumed into", "the sealed payload type is not compared with the codec of the record returned: an envelope the provider signed for another payload type is accepted as this request")
		// signer compared with the identity inside that record
		okCmp, okDerived := false, false
		for _, f2 := range c.FactsAt(b) {
			m, ok := Match(Bin("==", Bind("s"), Field(idField, Bind("r"))), f2.Cond)
			if !ok || !f2.Val {
				continue
			}
			all := true
			ls := c.Leaves(m["s"], ret)
			for _, l := range ls {
				if _, isS := Match(signerOf, l); !isS {
					all = false
				}
			}
			if all && len(ls) > 0 && (Same(strip(m["r"]), strip(rec)) || strip(R).Contains(func(y *X) bool { return Same(y, m["r"]) })) {
				okCmp = true
			}
		}
		_, okDerived = c.GuardedB(b, EqNil(Extract("1", Call("peer.IDFromPublicKey", Field("PublicKey", Extract("0", Is(env)))))), true)
		if !okCmp {
			c.Bad("C18.H1-signer-compared", k+" › signer == "+idField, ret.Pos(), "the request is returned without comparing the envelope's signer with the provider ID inside the request: any key can sign for any provider")
			continue
		}
		c.Check(okDerived, "C18.H1-signer-compared", k+" › signer derived", ret.Pos(), "signer = IDFromPublicKey(envelope.PublicKey), error checked", "signer derivation error ignored")
		c.OK("C18.H1-signer-compared", k+" › signer == "+idField, ret.Pos(), "dominated by signer == "+idField+" of the record being returned")
	}
	if n == 0 {
		c.Unk("C18.H1-signer-compared", key+" › success return", f.SSA.Pos(), "no success return")
	}
	return true
}
