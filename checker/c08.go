package main

import (
	"go/ast"
	"go/token"
	"go/types"
	"strings"

	"golang.org/x/tools/go/ssa"
)

func init() {
	register(&propSpec{
		id:  "C08",
		run: runC08,
		explanation: "Structural necessary conditions of 'one sync at a time per publisher; the latest announcement is never lost', decided on the AST CFG (locksets) and SSA of package dagsync: " +
			"(L1) the sync client's Sync method is invoked only with the per-publisher sync mutex held, the per-publisher scoped-hook slot is written only inside that region under its own mutex, and every mutex acquire in the package is released on all paths; " +
			"(L2) the pending-announcement slot is written only by Swap(new) in the watcher and Swap(nil) in the announce handler; the handling goroutine is spawned only on the 'slot was empty' edge, after registering in the wait group; inside it the per-publisher async mutex is taken before the semaphore and before the take, the wait group is released on every exit; the handler takes the slot with an atomic swap and nowhere else reads or clears it; " +
			"(L3) the semaphore's capacity is the configured maximum whatever the option order, its acquire/release pair up on all paths; " +
			"(L4) every path of the announce handler after the take ends in exactly one of: head already synced, success notification, failure notification with un-caching; " +
			"(L5) the latest-synced value read as stop point, the sync, and the latest-synced write + notification must lie in one critical section of the per-publisher sync mutex — violated on the pinned tree (known finding F15). " +
			"That the last announcement is always acted on for every arrival order is a liveness property over schedules and is not decided.",
		assumptions: []string{"sync.Mutex / atomic.Pointer.Swap semantics", "the announce receiver delivers each accepted announcement once"},
	})
}

const dagsyncPkg = "dagsync"

func heldHas(h map[string]bool, suffix string) bool {
	for k := range h {
		if strings.HasSuffix(k, suffix) {
			return true
		}
	}
	return false
}

func runC08(c *Ctx) {
	c.Trust("go/cfg lockset dataflow", "go/ssa", "sync, sync/atomic")
	p := c.pkg(dagsyncPkg)
	if p == nil {
		c.Unk("C08.L1-lock-pairing", "dagsync", token.NoPos, "package not found")
		return
	}
	// ---- L1 pairing + L3 semaphore pairing ---------------------------------------
	all := c.LockPairing("C08.L1-lock-pairing", dagsyncPkg, []string{"Subscriber.syncSem"})
	c.Floor("C08.L1-lock-pairing", 11)

	// ---- L1 Sync only under syncMutex; hook slot only in that region ------------------
	nSync := 0
	nSlot := 0
	for _, fn := range c.Funcs(dagsyncPkg) {
		for _, a := range all[fn.Name] {
			ownInspect(a.Body, func(n ast.Node) bool {
				switch n := n.(type) {
				case *ast.CallExpr:
					sel, ok := n.Fun.(*ast.SelectorExpr)
					if !ok {
						return true
					}
					f, _ := p.TypesInfo.ObjectOf(sel.Sel).(*types.Func)
					if f == nil || f.Name() != "Sync" {
						return true
					}
					recv := f.Type().(*types.Signature).Recv()
					if recv == nil || !strings.HasSuffix(recv.Type().String(), "dagsync.Syncer") {
						return true
					}
					nSync++
					h, seen := a.HeldAt[n]
					key := a.Name + " › Syncer.Sync"
					if !seen {
						c.Unk("C08.L1-sync-under-mutex", key, n.Pos(), "call not reached by the lockset analysis")
					} else {
						c.Check(heldHas(h, ".syncMutex"), "C08.L1-sync-under-mutex", key, n.Pos(),
							"sync client invoked with the per-publisher syncMutex held", "a sync of this publisher can start while another one is running (syncMutex not held)")
					}
				}
				return true
			})
			// writes of the scoped hook slot (assignment or delete)
			ownInspect(a.Body, func(n ast.Node) bool {
				var target ast.Expr
				var pos token.Pos
				switch n := n.(type) {
				case *ast.AssignStmt:
					for _, l := range n.Lhs {
						if ix, ok := l.(*ast.IndexExpr); ok {
							target, pos = ix.X, n.Pos()
						}
					}
				case *ast.CallExpr:
					if id, ok := n.Fun.(*ast.Ident); ok && id.Name == "delete" && len(n.Args) == 2 {
						target, pos = n.Args[0], n.Pos()
					}
				}
				if target == nil {
					return true
				}
				sx, ok := ast.Unparen(target).(*ast.SelectorExpr)
				if !ok {
					return true
				}
				v, ok := p.TypesInfo.ObjectOf(sx.Sel).(*types.Var)
				if !ok || !v.IsField() || canonField(v) != "scopedBlockHook" {
					return true
				}
				nSlot++
				var h map[string]bool
				seen := false
				ownInspect(n, func(m ast.Node) bool {
					if hh, ok := a.HeldAt[m]; ok && !seen {
						h, seen = hh, true
					}
					return !seen
				})
				key := a.Name + " › scoped hook slot"
				if !seen {
					c.Unk("C08.L1-hook-slot-in-region", key, pos, "write not reached by the lockset analysis")
				} else {
					inRegion := heldHas(h, ".syncMutex")
					if !inRegion && heldHas(h, "scopedBlockHookMutex") {
						// the write sits in a small helper of the sync routine ("set the hook", "clear the hook"): then
						// every call of the helper lies in the region — a plain call with syncMutex held, or a deferred
						// call registered while it is held and not followed by a deferred Unlock of syncMutex (which,
						// last in, would run first)
						if obj := fn.Obj; obj != nil && !obj.Exported() {
							nCalls, allIn := 0, true
							for _, g := range c.Funcs(dagsyncPkg) {
								for _, b := range all[g.Name] {
									var defers []*ast.DeferStmt
									ownInspect(b.Body, func(m ast.Node) bool {
										if d, ok := m.(*ast.DeferStmt); ok {
											defers = append(defers, d)
										}
										return true
									})
									ownInspect(b.Body, func(m ast.Node) bool {
										call, ok := m.(*ast.CallExpr)
										if !ok {
											return true
										}
										sel, ok := call.Fun.(*ast.SelectorExpr)
										if !ok || p.TypesInfo.ObjectOf(sel.Sel) != types.Object(obj) {
											return true
										}
										nCalls++
										var at ast.Node = call
										var deferred *ast.DeferStmt
										for _, d := range defers {
											if d.Call == call {
												at, deferred = d, d
											}
										}
										if hh, ok := b.HeldAt[at]; !ok || !heldHas(hh, ".syncMutex") {
											allIn = false
										}
										if deferred != nil {
											for _, d := range defers {
												if d.Pos() > deferred.Pos() {
													if us, isSel := d.Call.Fun.(*ast.SelectorExpr); isSel && us.Sel.Name == "Unlock" {
														if mx, isMx := ast.Unparen(us.X).(*ast.SelectorExpr); isMx {
															if v, isVar := p.TypesInfo.ObjectOf(mx.Sel).(*types.Var); isVar && v.IsField() && canonField(v) == "syncMutex" {
																allIn = false
															}
														}
													}
												}
											}
										}
										return true
									})
								}
							}
							inRegion = nCalls > 0 && allIn
						}
					}
					c.Check(inRegion && heldHas(h, "scopedBlockHookMutex"), "C08.L1-hook-slot-in-region", key, pos,
						"slot written with syncMutex and scopedBlockHookMutex held", "per-publisher hook slot written outside the sync critical section or without its mutex: hooks of two syncs can interleave")
				}
				return true
			})
		}
	}
	// one sync is one critical section: the per-publisher lock is not taken anew for every segment (it would be
	// free between two segments, and a second sync of the publisher would run in the middle of the first)
	if h := c15HandleFn(c); h != nil {
		perSeg := token.NoPos
		for _, st := range c.CallsInl(h, Call("sync.Mutex).Lock", Field("syncMutex", Any())), 2) {
			o := st.Outer()
			if o.Parent() == h && ReachableFromSucc(o.Block(), o.Block()) {
				perSeg = o.Pos()
			}
		}
		c.Check(!perSeg.IsValid(), "C08.L1-sync-under-mutex", c.short(h.String())+" › one critical section per sync", h.Pos(),
			"the per-publisher lock is taken outside the segment loop: all segments of a sync run in one critical section", "the per-publisher lock is taken inside the segment loop (at "+c.pos(perSeg)+"): between two segments it is free, and another sync of the same publisher interleaves with this one")
	}
	c.Floor("C08.L1-sync-under-mutex", 3)
	c.Floor("C08.L1-hook-slot-in-region", 2)
	// hook dispatch reads the slot under the read lock
	for _, fn := range c.Funcs(dagsyncPkg) {
		for _, a := range all[fn.Name] {
			ownInspect(a.Body, func(n ast.Node) bool {
				as, ok := n.(*ast.AssignStmt)
				if !ok || len(as.Rhs) != 1 {
					return true
				}
				ix, ok := as.Rhs[0].(*ast.IndexExpr)
				if !ok {
					return true
				}
				id, ok := ast.Unparen(ix.X).(*ast.Ident)
				if !ok || id.Name != "scopedBlockHook" {
					return true
				}
				h := a.HeldAt[as]
				c.Check(heldHas(h, "scopedBlockHookMutex"), "C08.L1-hook-slot-read-locked", a.Name+" › slot read", as.Pos(),
					"slot read under the read lock", "hook slot read without its mutex")
				return true
			})
		}
	}
	c.Floor("C08.L1-hook-slot-read-locked", 1)

	// ---- L2 pending-slot protocol -------------------------------------------------------
	swapPat := Call("atomic.Pointer[announce.Announce]).Swap[announce.Announce]", Field("pendingMsg", Any()), Bind("v"))
	var putSites, takeSites []CallSite
	for _, fn := range c.Funcs(dagsyncPkg) {
		instrsDeep(fn.SSA, func(g *ssa.Function, in ssa.Instruction) {
			// any use of the pendingMsg field must be a Swap call
			fa, ok := in.(*ssa.FieldAddr)
			if !ok {
				return
			}
			if x := c.E(fa); x.Name != "pendingMsg" || fieldOwner(x) != "handler" {
				return
			}
			if refs := fa.Referrers(); refs != nil {
				for _, r := range *refs {
					if _, ok := r.(*ssa.DebugRef); ok {
						continue
					}
					ci, isCall := r.(ssa.CallInstruction)
					if !isCall {
						c.Bad("C08.L2-slot-writers", c.short(topFunc(g).String())+" › pendingMsg", r.Pos(), "pending slot accessed other than by an atomic method")
						continue
					}
					x := c.CallX(ci)
					b, ok := Match(swapPat, x)
					if !ok {
						c.Bad("C08.L2-slot-writers", c.short(topFunc(g).String())+" › "+x.Name, r.Pos(),
							"pending slot accessed by something other than Swap: a separate read and clear can lose an announcement that arrives in between")
						continue
					}
					cs := CallSite{In: ci, Fn: g, X: x}
					if b["v"].Op == "nil" {
						takeSites = append(takeSites, cs)
						c.OK("C08.L2-slot-writers", c.short(topFunc(g).String())+" › Swap(nil)", r.Pos(), "the take: atomically empties the slot")
					} else {
						putSites = append(putSites, cs)
						c.OK("C08.L2-slot-writers", c.short(topFunc(g).String())+" › Swap(new)", r.Pos(), "the put: atomically replaces the pending announcement")
					}
				}
			}
		})
	}
	c.Floor("C08.L2-slot-writers", 2)
	if len(putSites) != 1 || len(takeSites) != 1 {
		c.Bad("C08.L2-slot-writers", "dagsync › slot protocol shape", token.NoPos, "expected exactly one put (watcher) and one take (announce handler) of the pending slot")
	}
	var handlerFn *ssa.Function
	if len(takeSites) == 1 {
		handlerFn = topFunc(takeSites[0].Fn)
	}
	for _, put := range putSites {
		old := c.E(put.In.(*ssa.Call))
		// go statements in the putting function that lead to the handler
		nGo := 0
		instrs(put.Fn, func(in ssa.Instruction) {
			goi, ok := in.(*ssa.Go)
			if !ok {
				return
			}
			lit, _ := goi.Common().Value.(*ssa.MakeClosure)
			var target *ssa.Function
			if lit != nil {
				target = lit.Fn.(*ssa.Function)
			} else {
				target = goi.Common().StaticCallee()
			}
			if target == nil || handlerFn == nil || !callsStatic(target, handlerFn) {
				return
			}
			nGo++
			key := c.short(put.Fn.String()) + " › spawn handler"
			_, g := c.Guarded(goi, EqNil(Is(old)), true)
			c.Check(g, "C08.L2-spawn-iff-empty", key, goi.Pos(), "handling goroutine spawned only on the edge where the swapped-out value is nil",
				"handling goroutine is spawned although an announcement was already pending (two handlers for one slot) or not spawned when the slot was empty")
			// …and on that edge always: once the new announcement sits in the slot and nothing was pending, nothing but
			// the goroutine started here will ever take it (a shortcut that skips the spawn strands the slot: every
			// later announcement of the publisher then looks "already pending" and is dropped)
			if g {
				var tblk *ssa.BasicBlock
				for _, b := range put.Fn.Blocks {
					iff, ok := b.Instrs[len(b.Instrs)-1].(*ssa.If)
					if !ok || !(put.In.Block() == b || put.In.Block().Dominates(b)) {
						continue
					}
					cx, v := normFact(c.E(iff.Cond), true)
					if _, m := Match(EqNil(Is(old)), cx); m {
						if v {
							tblk = b.Succs[0]
						} else {
							tblk = b.Succs[1]
						}
					}
				}
				always := false
				why := "the test of the swapped-out value was not found"
				if tblk != nil {
					always, why = blockPathsPass(tblk, func(b *ssa.BasicBlock) bool { return b != tblk && b.Dominates(put.In.Block()) }, func(in ssa.Instruction) bool { return in == ssa.Instruction(goi) })
				}
				c.Check(always, "C08.L2-spawn-iff-empty", key+" › always when the slot was empty", goi.Pos(), "every path from the 'slot was empty' edge reaches the go statement", "on the 'slot was empty' edge a path skips the spawn ("+why+"): the announcement stays in the slot with nobody to take it, and every later announcement of that publisher is dropped as 'already pending'")
			}
			// the non-nil edge must not spawn and must not drop the new message: it just continues
			// wait group Add precedes the go statement
			var add ssa.Instruction
			instrs(put.Fn, func(o ssa.Instruction) {
				if ci, ok := o.(ssa.CallInstruction); ok {
					if _, ok := Match(Call("sync.WaitGroup).Add", Field("asyncWG", Any())), c.CallX(ci)); ok {
						add = o
					}
				}
			})
			c.Check(add != nil && Precedes(add, goi), "C08.L2-spawn-registered", key+" › asyncWG.Add", goi.Pos(),
				"wait group incremented before the goroutine starts", "goroutine started before registering in the wait group: shutdown can miss it")
			c08Goroutine(c, target, handlerFn)
		})
		if nGo != 1 {
			c.Bad("C08.L2-spawn-iff-empty", c.short(put.Fn.String())+" › spawn handler", put.In.Pos(), "expected exactly one go statement starting the announce handler after the put")
		}
	}
	c.Floor("C08.L2-spawn-iff-empty", 2)
	c.Floor("C08.L2-spawn-registered", 1)

	// ---- L3 semaphore capacity --------------------------------------------------------------
	c08Semaphore(c)

	// ---- L4 one outcome per taken announcement --------------------------------------------------
	if handlerFn != nil && len(takeSites) == 1 {
		c08Outcomes(c, handlerFn, takeSites[0])
	}
	c.Floor("C08.L4-one-outcome", 3)
	mutexHoldersByPointer(c, "C08.L1-mutex-holders-by-pointer", dagsyncPkg)
	c.Floor("C08.L1-mutex-holders-by-pointer", 2)

	// ---- L7 an announcement that passed the receiver's check is handed on: the check marks its CID as seen, so from
	// there every way out of the delivery routine goes through the hand-over to Next (whose other alternatives are the
	// receiver closing and the caller giving up). A return in between — say, on a failed republication — leaves the
	// CID marked although nobody was told: the retry is dropped as a duplicate and the head is never synced.
	acceptedAnnouncementHandedOn(c, "C08.L7-accepted-announcement-handed-on")
	c.Floor("C08.L7-accepted-announcement-handed-on", 1)
	// ---- L5 atomic section (known finding F15) -----------------------------------------------------
	c08AtomicSection(c, all)
}

// c08Goroutine checks the per-announcement goroutine body.
func c08Goroutine(c *Ctx, g, handler *ssa.Function) {
	key := c.short(topFunc(g).String()) + " › handler goroutine"
	var lock, acquire, take, done ssa.Instruction
	doneDeferred := false
	instrs(g, func(in ssa.Instruction) {
		switch in := in.(type) {
		case *ssa.Select:
			for _, st := range in.States {
				if x := c.E(st.Chan); x.Op == "field" && x.Name == "syncSem" {
					acquire = in
				}
			}
		case ssa.CallInstruction:
			x := c.CallX(in)
			if _, ok := Match(Call("sync.Mutex).Lock", Field("asyncMutex", Any())), x); ok {
				if _, isDefer := in.(*ssa.Defer); !isDefer {
					lock = in
				}
			}
			if in.Common().StaticCallee() == handler {
				take = in
			}
			// the acquire may sit in a step helper of the package ("acquire a slot"): the call is the acquire
			if callee := in.Common().StaticCallee(); callee != nil && callee != handler && samePkgBody(g, callee) && acquire == nil {
				if _, isDefer := in.(*ssa.Defer); !isDefer {
					instrs(callee, func(o ssa.Instruction) {
						if sel, ok := o.(*ssa.Select); ok {
							for _, st := range sel.States {
								if y := c.E(st.Chan); y.Op == "field" && y.Name == "syncSem" && st.Dir == types.SendOnly {
									acquire = in
								}
							}
						}
					})
				}
			}
			if _, ok := Match(Call("sync.WaitGroup).Done", Field("asyncWG", Any())), x); ok {
				done = in
				_, doneDeferred = in.(*ssa.Defer)
			}
		}
	})
	c.Check(lock != nil && take != nil && Precedes(lock, take), "C08.L2-goroutine-shape", key+" › asyncMutex ≺ take", g.Pos(),
		"per-publisher async mutex taken before the pending message is taken", "pending message can be taken while the previous handling of this publisher is still running")
	if acquire != nil {
		c.Check(lock != nil && Precedes(lock, acquire) && take != nil && MayFollow(acquire, take) && !MayFollow(take, acquire), "C08.L2-goroutine-shape", key+" › semaphore between lock and take", acquire.Pos(),
			"semaphore acquired after the per-publisher lock and before the take", "semaphore acquired outside the (lock … take) window")
	} else {
		c.Bad("C08.L2-goroutine-shape", key+" › semaphore", g.Pos(), "no semaphore acquire on the path to the announce handler")
	}
	// Done on every exit: deferred, or every return is dominated by it
	okDone := done != nil && doneDeferred
	if done != nil && !doneDeferred {
		okDone, _ = allPathsPass(g, func(in ssa.Instruction) bool {
			ci, ok := in.(ssa.CallInstruction)
			if !ok {
				return false
			}
			if _, isDefer := in.(*ssa.Defer); isDefer {
				return false
			}
			_, m := Match(Call("sync.WaitGroup).Done", Field("asyncWG", Any())), c.CallX(ci))
			return m
		})
	}
	c.Check(okDone, "C08.L2-goroutine-shape", key+" › asyncWG.Done on every exit", g.Pos(),
		"wait group released on every exit of the goroutine", "some exit of the goroutine does not release the wait group: shutdown hangs")
	c.Floor("C08.L2-goroutine-shape", 3)
}

// c08Semaphore: capacity is the configured maximum.
func c08Semaphore(c *Ctx) {
	n := 0
	for _, fn := range c.Funcs(dagsyncPkg) {
		instrsDeep(fn.SSA, func(g *ssa.Function, in ssa.Instruction) {
			st, ok := in.(*ssa.Store)
			if !ok {
				return
			}
			a := c.E(st.Addr)
			if a.Op != "field" || a.Name != "syncSem" {
				return
			}
			n++
			v := c.E(st.Val)
			key := c.short(topFunc(g).String()) + " › syncSem capacity"
			_, ok = Match(Op("makechan", "", Field("maxAsyncSyncs", Any())), v)
			c.Check(ok, "C08.L3-semaphore-capacity", key, st.Pos(), "semaphore made with capacity = configured maximum", "semaphore capacity is not the configured maximum: "+v.String())
		})
	}
	// the configured maximum is set by its option unconditionally (independent of option order)
	optFn := c.Func(dagsyncPkg, "MaxAsyncConcurrency")
	if optFn == nil {
		c.Unk("C08.L3-semaphore-capacity", "dagsync.MaxAsyncConcurrency", token.NoPos, "option not found")
	} else {
		for _, lit := range optFn.SSA.AnonFuncs {
			instrs(lit, func(in ssa.Instruction) {
				st, ok := in.(*ssa.Store)
				if !ok {
					return
				}
				if a := c.E(st.Addr); a.Op == "field" && a.Name == "maxAsyncSyncs" {
					facts := c.FactsAt(st.Block())
					okFacts := true
					for _, f := range facts {
						// only a range check on the option's own argument may guard the store
						if f.Cond.Contains(func(y *X) bool { return y.Op == "field" && fieldOwner(y) == "config" }) {
							okFacts = false
						}
					}
					c.Check(okFacts, "C08.L3-semaphore-capacity", "dagsync.MaxAsyncConcurrency › store", st.Pos(),
						"configured maximum stored regardless of other options", "the maximum is stored only under a condition on other configuration (depends on option order)")
				}
			})
		}
	}
	c.Floor("C08.L3-semaphore-capacity", 2)
}

// c08Outcomes: classify every return after the take.
func c08Outcomes(c *Ctx, handler *ssa.Function, take CallSite) {
	failureCalls := c08OneOutcome(c, "C08.L4-one-outcome", handler, take)
	c08FailurePath(c, handler, failureCalls)
}

// c08OneOutcome: every return of the announce handler after the take is preceded by exactly one outcome (shared by
// C08 — the announcement is acted on — and C14 — every finished sync, failed ones included, is notified once).
func c08OneOutcome(c *Ctx, rule string, handler *ssa.Function, take CallSite) []ssa.Instruction {
	var successCalls, failureCalls []ssa.Instruction
	instrs(handler, func(in ssa.Instruction) {
		// outcome performed inline in the handler
		if snd, ok := in.(*ssa.Send); ok {
			if x := c.E(snd.Chan); x.Op == "field" && x.Name == "inEvents" {
				isErr := false
				if v := c.E(snd.X); v.Op == "complit" {
					for _, fi := range v.Args {
						if fi.Name == "Err" {
							isErr = true
						}
					}
				}
				if isErr {
					failureCalls = append(failureCalls, in)
				} else {
					successCalls = append(successCalls, in)
				}
			}
		}
		ci, ok := in.(ssa.CallInstruction)
		if !ok {
			return
		}
		sc := ci.Common().StaticCallee()
		if sc == nil {
			return
		}
		switch c08ClassifySite(c, ci) {
		case "success":
			successCalls = append(successCalls, in)
		case "failure":
			failureCalls = append(failureCalls, in)
		}
	})
	for _, b := range handler.Blocks {
		ret, ok := b.Instrs[len(b.Instrs)-1].(*ssa.Return)
		if !ok || b.Comment == "recover" {
			continue
		}
		if !(take.In.Block() == b || take.In.Block().Dominates(b)) {
			continue // before the take (abandoned on cancelled context)
		}
		if tc, isCall := take.In.(*ssa.Call); isCall {
			if _, empty := c.GuardedB(b, EqNil(Is(c.E(tc))), true); empty {
				continue // the slot was empty: nothing was taken, nothing to report
			}
		}
		key := c.short(handler.String()) + " › return"
		var outcomes []string
		for _, s := range successCalls {
			if Precedes(s, ret) {
				outcomes = append(outcomes, "success notification")
			}
		}
		for _, f := range failureCalls {
			if Precedes(f, ret) {
				outcomes = append(outcomes, "failure notification")
			}
		}
		if _, g := c.GuardedB(b, Bin("==", Any(), Field("Cid", Any())), true); g && len(outcomes) == 0 {
			outcomes = append(outcomes, "head already synced")
		}
		switch len(outcomes) {
		case 1:
			c.OK(rule, key+" ("+outcomes[0]+")", ret.Pos(), "this exit of the announce handler is preceded on every path by exactly one outcome: "+outcomes[0])
		case 0:
			c.Bad(rule, key+" (silent)", ret.Pos(), "announce handler returns after taking the announcement without success notification, failure notification or 'already synced': the announcement is lost and its CID stays in the duplicate cache")
		default:
			c.Bad(rule, key+" (multiple)", ret.Pos(), "more than one outcome on a path: "+strings.Join(outcomes, ", "))
		}
	}
	return failureCalls
}

func c08FailurePath(c *Ctx, handler *ssa.Function, failureCalls []ssa.Instruction) {
	// the failure path un-caches the CID and sends exactly one error event
	for _, f := range failureCalls {
		fci, isCall := f.(ssa.CallInstruction)
		sc := handler
		if isCall {
			sc = fci.Common().StaticCallee()
		}
		unc := c.Calls(sc, Call("announce.Receiver).UncacheCid"))
		sends := c08NotifierSends(c, sc, 0)
		c.Check(len(unc) == 1 && sends == 1, "C08.L4-failure-path", c.short(sc.String()), sc.Pos(),
			"failure path un-caches the CID once and sends one error event", "failure path does not (un-cache once and send exactly one event)")
	}
	uncacheUnconditional(c, "C08.L4-failure-path")
	// …and only there: a head that was synced stays in the duplicate filter — un-cached on success, a late copy of an
	// older announcement is accepted again, re-synced from that older head, and the latest-synced value moves back
	for _, f := range c.Funcs(dagsyncPkg) {
		for _, cs := range c.Calls(f.SSA, Call("announce.Receiver).UncacheCid")) {
			top := topFunc(cs.Fn)
			k := c08Classify(c, top)
			onFail := k == "failure"
			if k == "unified" {
				for _, p := range top.Params {
					if isErrorType(p.Type()) {
						_, onFail = c.Guarded(cs.In, EqNil(Op("param", p.Name())), false)
					}
				}
			}
			c.Check(onFail, "C08.L4-failure-path", c.short(top.String())+" › un-caches only a failed announcement", cs.In.Pos(), "the announcement's CID is taken out of the duplicate filter on the failure path only", "the CID of a head is taken out of the duplicate filter outside the failure path: a late copy of an already synced (older) announcement is handled again and the latest-synced value regresses")
		}
	}
	c.Floor("C08.L4-failure-path", 3)
}

// c08Classify classifies a callee as the success or failure notifier by what it does: "success" records the
// latest-synced value and sends an event without error; "failure" sends an event with an error and records nothing;
// "unified" is one routine for both — the event's Err is its error parameter and the latest-synced value is recorded
// only where that parameter is nil (its call sites are then success or failure by their argument: c08ClassifySite).
// A routine that sends nothing itself takes the kind of the notifier calls it contains, if they agree.
func c08Classify(c *Ctx, fn *ssa.Function) string {
	return c08ClassifyD(c, fn, 0)
}

func c08ClassifyD(c *Ctx, fn *ssa.Function, depth int) string {
	if fn.Pkg == nil || fn.Pkg.Pkg.Path() != modPath+"/"+dagsyncPkg {
		return ""
	}
	sendsEvent, setsLatest, hasErr := false, false, false
	var errField *X
	var setCalls []ssa.Instruction
	instrs(fn, func(in ssa.Instruction) {
		switch in := in.(type) {
		case *ssa.Send:
			if x := c.E(in.Chan); x.Op == "field" && x.Name == "inEvents" {
				sendsEvent = true
				v := c.E(in.X)
				if v.Op == "complit" {
					for _, fi := range v.Args {
						if fi.Name == "Err" {
							hasErr = true
							if len(fi.Args) == 1 {
								errField = fi.Args[0]
							}
						}
					}
				}
			}
		case ssa.CallInstruction:
			if _, ok := Match(c.RoleCall("latest.set"), c.CallX(in)); ok {
				setsLatest = true
				setCalls = append(setCalls, in)
			}
		}
	})
	switch {
	case sendsEvent && setsLatest && !hasErr:
		return "success"
	case sendsEvent && hasErr && !setsLatest:
		return "failure"
	case sendsEvent && hasErr && setsLatest && errField != nil && errField.Op == "param":
		for _, sc := range setCalls {
			if _, g := c.Guarded(sc, EqNil(Is(errField)), true); !g {
				return ""
			}
		}
		return "unified"
	}
	// a failure wrapper: sends nothing itself and hands its own error parameter to the notifier (after, say, un-caching)
	if !sendsEvent && !setsLatest && depth == 0 {
		var own *ssa.Parameter
		for _, p := range fn.Params {
			if isErrorType(p.Type()) {
				own = p
			}
		}
		n, fails := 0, 0
		instrs(fn, func(in ssa.Instruction) {
			ci, ok := in.(ssa.CallInstruction)
			if !ok {
				return
			}
			sc := ci.Common().StaticCallee()
			if sc == nil {
				return
			}
			if k := c08ClassifyD(c, sc, 1); k == "unified" || k == "failure" {
				n++
				for i, p := range sc.Params {
					if isErrorType(p.Type()) && i < len(ci.Common().Args) && own != nil && ci.Common().Args[i] == ssa.Value(own) {
						fails++
					}
				}
			} else if k == "success" {
				n += 100
			}
		})
		if n == 1 && fails == 1 {
			return "failure"
		}
	}
	return ""
}

// c08ClassifySite: what a call amounts to — a success or a failure notification ("" if neither).
func c08ClassifySite(c *Ctx, ci ssa.CallInstruction) string {
	return c08ClassifySiteD(c, ci, 0)
}

func c08ClassifySiteD(c *Ctx, ci ssa.CallInstruction, depth int) string {
	sc := ci.Common().StaticCallee()
	if sc == nil {
		return ""
	}
	switch k := c08ClassifyD(c, sc, depth); k {
	case "success", "failure":
		return k
	case "unified":
		for i, p := range sc.Params {
			if isErrorType(p.Type()) && i < len(ci.Common().Args) {
				if k, isC := ci.Common().Args[i].(*ssa.Const); isC && k.Value == nil {
					return "success"
				}
				return "failure"
			}
		}
	}
	return ""
}

// c08NotifierSends: the number of event sends a notification routine performs, its notifier callees included.
func c08NotifierSends(c *Ctx, fn *ssa.Function, depth int) int {
	n := 0
	instrs(fn, func(in ssa.Instruction) {
		if s, ok := in.(*ssa.Send); ok {
			if x := c.E(s.Chan); x.Op == "field" && x.Name == "inEvents" {
				n++
			}
		}
		if ci, ok := in.(ssa.CallInstruction); ok && depth < 2 {
			if sc := ci.Common().StaticCallee(); sc != nil && c08ClassifySite(c, ci) != "" {
				n += c08NotifierSends(c, sc, depth+1)
			}
		}
	})
	return n
}

// c08AtomicSection: in every function that reads the latest-synced value as
// a stop point, runs a sync through the per-publisher handler and then
// records/notifies the new latest-synced value, those three steps must be
// inside one syncMutex critical section.
func c08AtomicSection(c *Ctx, all map[string][]*LockAnalysis) {
	p := c.pkg(dagsyncPkg)
	for _, fn := range c.Funcs(dagsyncPkg) {
		for _, a := range all[fn.Name] {
			var reads, writes []*ast.CallExpr
			ownInspect(a.Body, func(n ast.Node) bool {
				call, ok := n.(*ast.CallExpr)
				if !ok {
					return true
				}
				sel, ok := call.Fun.(*ast.SelectorExpr)
				if !ok {
					return true
				}
				f, _ := p.TypesInfo.ObjectOf(sel.Sel).(*types.Func)
				if f == nil {
					return true
				}
				switch f.Name() {
				case "GetLatestSync":
					reads = append(reads, call)
				}
				if r := c.Role("latest.get"); r != nil && r.Object() == types.Object(f) {
					reads = append(reads, call)
				}
				if sf := c.Prog.FuncValue(f); sf != nil {
					k := c08Classify(c, sf)
					if k == "unified" && len(call.Args) > 0 {
						// a success by its argument: the error handed in is the literal nil
						if id, isId := ast.Unparen(call.Args[len(call.Args)-1]).(*ast.Ident); isId && id.Name == "nil" {
							k = "success"
						}
					}
					if k == "success" {
						writes = append(writes, call)
					}
				}
				return true
			})
			if len(reads) == 0 || len(writes) == 0 {
				continue
			}
			ok := true
			for _, r := range reads {
				if !heldHas(a.HeldAt[r], ".syncMutex") {
					ok = false
				}
			}
			for _, w := range writes {
				if !heldHas(a.HeldAt[w], ".syncMutex") {
					ok = false
				}
			}
			c.Check(ok, "C08.L5-atomic-section", a.Name+" › latest-sync section", reads[0].Pos(),
				"latest-synced read, sync and latest-synced write + notification lie in one syncMutex critical section",
				"the latest-synced value is read (as stop point) and written/notified outside the per-publisher syncMutex critical section that runs the sync: another sync of the same publisher can run in between, re-reporting advertisements and letting an older head overwrite a newer one")
		}
	}
	c.Floor("C08.L5-atomic-section", 2)
	// "every advertisement in between was reported exactly once": a sync that fails part-way reports nothing — the
	// blocks it fetched are reported by the later sync that succeeds (reporting them from the failed one reports
	// them twice)
	handlerExpiryRefreshed(c, "C08.L1-handler-kept-while-used")
	handlerLookupCreateAtomic(c, "C08.L1-one-handler-per-publisher")
	// "the most recent announcement is always acted on": an announcement the receiver refuses must not leave its CID
	// in the duplicate filter, or the accepted announcement of the same head that follows is dropped without a sync
	refusedLeavesNoTrace(c, "C08.L7-refused-announcement-leaves-no-trace")
	c.Floor("C08.L7-refused-announcement-leaves-no-trace", 1)
	hookAfterWalk(c, "C08.L6-report-only-on-success")
	c.Floor("C08.L6-report-only-on-success", 1)
	// what an announce-triggered sync records as latest-synced (and so what the next announcement is compared with
	// and stops at) is the announced head it was given
	{
		var sendFns []*ssa.Function
		for _, f := range c.Funcs(dagsyncPkg) {
			instrsDeep(f.SSA, func(g *ssa.Function, in ssa.Instruction) {
				if snd, ok := in.(*ssa.Send); ok {
					if x := c.E(snd.Chan); x.Op == "field" && x.Name == "inEvents" {
						sendFns = append(sendFns, g)
					}
				}
			})
		}
		syncedHeadRecorded(c, "C08.L6-synced-head-recorded", sendFns)
		c.Floor("C08.L6-synced-head-recorded", 2)
	}
}

// callsStatic reports whether fn (or a literal nested in it) calls target statically.
func callsStatic(fn, target *ssa.Function) bool {
	found := false
	instrsDeep(fn, func(_ *ssa.Function, in ssa.Instruction) {
		if ci, ok := in.(ssa.CallInstruction); ok && ci.Common().StaticCallee() == target {
			found = true
		}
	})
	return found
}

// handlerExpiryRefreshed: the per-publisher handler carries the mutex that
// serialises that publisher's syncs and the slot of its hook; an idle cleaner
// removes handlers whose expiry passed. Every use of an existing handler must
// therefore push its expiry forward — otherwise a handler older than the idle
// time is removed while in use, the next sync gets a second handler (second
// mutex) and the two syncs of one publisher run concurrently.
func handlerExpiryRefreshed(c *Ctx, rule string) {
	n := 0
	for _, f := range c.Funcs(dagsyncPkg) {
		// the lookup-or-create routine: comma-ok lookup in the handlers map and a handler literal stored into it
		var lk *ssa.Lookup
		instrs(f.SSA, func(in ssa.Instruction) {
			if l, ok := in.(*ssa.Lookup); ok && l.CommaOk {
				if m := strip(c.E(l.X)); m.Op == "field" && m.Name == "handlers" && fieldOwner(m) == "Subscriber" {
					lk = l
				}
			}
		})
		if lk == nil {
			continue
		}
		creates := false
		instrs(f.SSA, func(in ssa.Instruction) {
			if mu, ok := in.(*ssa.MapUpdate); ok {
				if m := strip(c.E(mu.Map)); m.Op == "field" && m.Name == "handlers" {
					creates = true
				}
			}
		})
		if !creates {
			continue
		}
		n++
		found := Extract("0", Is(c.E(lk)))
		ok := false
		instrs(f.SSA, func(in ssa.Instruction) {
			st, isSt := in.(*ssa.Store)
			if !isSt {
				return
			}
			a := c.E(st.Addr)
			if a.Op != "field" || a.Name != "expires" || fieldOwner(a) != "handler" {
				return
			}
			if _, m := Match(found, a.Args[0]); !m {
				return
			}
			// on the found edge (or unconditionally), with now + idle time
			_, onFound := c.Guarded(st, Extract("1", Is(c.E(lk))), true)
			uncond := st.Block() == lk.Block() || lk.Block().Dominates(st.Block()) && len(c.FactsAt(st.Block())) == len(c.FactsAt(lk.Block()))
			v := c.E(st.Val)
			fromNow := v.Contains(func(y *X) bool { return y.Op == "call" && nameMatches(y.Name, "time.Now") }) && v.Contains(func(y *X) bool { return y.Op == "field" && y.Name == "idleHandlerTTL" })
			if (onFound || uncond) && fromNow {
				ok = true
			}
		})
		c.Check(ok, rule, f.Name+" › existing handler's expiry pushed forward", lk.Pos(), "an existing handler gets expires = now + idle time whenever it is handed out", "an existing handler is handed out without refreshing its expiry: the idle cleaner removes it while it is in use and a second handler (with its own mutex and count) serves the same publisher concurrently")
	}
	if n == 0 {
		c.Unk(rule, "dagsync › handler lookup-or-create", token.NoPos, "not found")
	}
	c.Floor(rule, 1)
}

// uncacheUnconditional: wherever the subscriber un-caches an announced CID
// after a failure, it does so whatever the failure was — the only condition
// is that there is a receiver. (A CID left in the duplicate filter makes the
// re-announcement of the same head be ignored: the failed sync can never be
// retried through announcements.)
func uncacheUnconditional(c *Ctx, rule string) {
	n := 0
	for _, f := range c.Funcs(dagsyncPkg) {
		for _, cs := range c.Calls(f.SSA, Call("announce.Receiver).UncacheCid")) {
			n++
			cond := ""
			for _, fct := range c.FactsAt(cs.In.Block()) {
				if _, m := Match(EqNil(Field("receiver", Any())), fct.Cond); m {
					continue
				}
				cond = factString(fct)
			}
			c.Check(cond == "", rule, f.Name+" › un-cache whatever the error", cs.In.Pos(), "the failed announcement's CID is removed from the duplicate filter unconditionally", "the failed announcement's CID is un-cached only when "+abbreviate(cond)+": for other failures the CID stays in the duplicate filter and a re-announcement of the same head is silently ignored — the failed sync is never retried")
		}
	}
	if n == 0 {
		c.Unk(rule, "dagsync › UncacheCid", token.NoPos, "no call found")
	}
}

// handlerLookupCreateAtomic: "is there a handler for this publisher? if not,
// make one and register it" is one critical section under the exclusive
// handlers lock. Looked up under one lock and registered under another, two
// first syncs of a publisher each create a handler — two mutexes, two count
// hooks for one publisher.
func handlerLookupCreateAtomic(c *Ctx, rule string) {
	p := c.pkg(dagsyncPkg)
	las := c.LockAnalyses(dagsyncPkg, []string{"Subscriber.syncSem"})
	n := 0
	for _, f := range c.Funcs(dagsyncPkg) {
		for _, a := range las[f.Name] {
			var lookups, updates []ast.Node
			ownInspect(a.Body, func(nd ast.Node) bool {
				isHandlers := func(e ast.Expr) bool {
					ix, ok := ast.Unparen(e).(*ast.IndexExpr)
					if !ok {
						return false
					}
					sel, ok := ast.Unparen(ix.X).(*ast.SelectorExpr)
					if !ok {
						return false
					}
					v, ok := p.TypesInfo.ObjectOf(sel.Sel).(*types.Var)
					return ok && v.IsField() && canonField(v) == "handlers"
				}
				if as, ok := nd.(*ast.AssignStmt); ok {
					for _, l := range as.Lhs {
						if isHandlers(l) {
							updates = append(updates, as)
						}
					}
					if len(as.Lhs) == 2 && len(as.Rhs) == 1 && isHandlers(as.Rhs[0]) {
						lookups = append(lookups, as)
					}
				}
				return true
			})
			if len(lookups) == 0 || len(updates) == 0 {
				continue
			}
			n++
			excl := func(nd ast.Node) bool {
				h := a.HeldAt[nd]
				for k := range h {
					if strings.HasSuffix(k, ".handlersMutex") && !strings.HasPrefix(k, "R:") {
						return true
					}
				}
				return false
			}
			ok := true
			for _, l := range lookups {
				ok = ok && excl(l)
			}
			for _, u := range updates {
				ok = ok && excl(u)
			}
			nAcq := 0
			for _, acq := range a.Acquires {
				if strings.HasSuffix(acq.lock, ".handlersMutex") {
					nAcq++
				}
			}
			c.Check(ok && nAcq == 1, rule, a.Name+" › lookup and registration in one critical section", lookups[0].Pos(), "the handler map is looked up and extended under one hold of the exclusive handlers lock", "the handler lookup and the registration of a new handler are not one critical section under the exclusive lock (looked up under a read lock or the lock is released in between): two concurrent first syncs of a publisher each create a handler, so its syncs are no longer serialised and its hooks and counts are mixed up")
		}
	}
	if n == 0 {
		c.Unk(rule, "dagsync › handler lookup-or-create", token.NoPos, "not found")
	}
	c.Floor(rule, 1)
}

// acceptedAnnouncementHandedOn: see C08.L7; shared by C09 (an allowed, unseen announcement is delivered).
func acceptedAnnouncementHandedOn(c *Ctx, rule string) {
	if dl := c.Role("announce.deliver"); dl == nil {
		c.Unk(rule, "announce › delivery routine", token.NoPos, "not found")
	} else {
		// (the routine may be split into phases: the select is looked for in it and in its single-caller steps)
		var sel *ssa.Select
		var selFn *ssa.Function
		for _, f := range c.Funcs("announce") {
			if f.SSA != dl && c.routineOf(f.SSA) != dl {
				continue
			}
			instrs(f.SSA, func(in ssa.Instruction) {
				if sl, ok := in.(*ssa.Select); ok {
					for _, st := range sl.States {
						if st.Dir == types.SendOnly && strings.HasSuffix(st.Send.Type().String(), "announce.Announce") {
							sel, selFn = sl, f.SSA
						}
					}
				}
			})
		}
		if sel == nil {
			c.Unk(rule, c.short(dl.String()), dl.Pos(), "no hand-over select found in the delivery routine or its steps")
		} else {
			// the checks: calls (of this package, returning only an error) whose nil edge the select lies under
			var checks []*ssa.Call
			instrs(selFn, func(in ssa.Instruction) {
				call, isCall := in.(*ssa.Call)
				if !isCall {
					return
				}
				callee := call.Call.StaticCallee()
				if callee == nil || !samePkgBody(selFn, callee) || callee.Signature.Results().Len() != 1 || !isErrorType(callee.Signature.Results().At(0).Type()) {
					return
				}
				if _, g := c.Guarded(sel, EqNil(Is(c.E(call))), true); g {
					checks = append(checks, call)
				}
			})
			ok, path := allPathsPass(selFn, func(in ssa.Instruction) bool {
				if in == ssa.Instruction(sel) {
					return true
				}
				if _, isRet := in.(*ssa.Return); isRet {
					for _, ck := range checks {
						if _, failed := c.GuardedB(in.Block(), EqNil(Is(c.E(ck))), false); failed {
							return true
						}
					}
				}
				return false
			})
			c.Check(ok, rule, c.short(selFn.String())+" › accepted ⇒ handed on", sel.Pos(),
				"every way through the routine reaches the hand-over select, except where the check itself refuses", "the delivery routine can return after the announcement was accepted (its CID marked as seen) without handing it on ("+path+"): the announcement is lost and its repetition is dropped as a duplicate")
		}
	}
}
