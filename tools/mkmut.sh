#!/bin/bash
# usage: tools/mkmut.sh <name> <property> <file-in-repo> <old-text> <new-text>
# Writes mutants/<name>.patch replacing the first occurrence of old-text.
set -eu
here="$(cd "$(dirname "$0")/.." && pwd)"
name=$1 prop=$2 file=$3 old=$4 new=$5
t="$(mktemp -d)"; trap 'rm -rf "$t"' EXIT
mkdir -p "$t/a" "$t/b"; cp "/repo/$file" "$t/a/x.go"; cp "/repo/$file" "$t/b/x.go"
python3 - "$t/b/x.go" "$old" "$new" <<'PY'
import sys
p,old,new=sys.argv[1:4]
s=open(p).read()
assert s.count(old)>=1,"pattern not found in "+p
open(p,'w').write(s.replace(old,new,1))
PY
{ echo "# property: $prop"; diff -u "$t/a/x.go" "$t/b/x.go" | sed "1s#.*#--- a/$file#;2s#.*#+++ b/$file#"; } > "$here/mutants/$name.patch" || true
echo "wrote mutants/$name.patch"
