#!/usr/bin/env python3
"""Generates /verif/MANIFEST.json from the table below and validates it.
Properties whose checker is not registered in the binary (ipnicheck -list)
are listed under not_applicable with the reason given here."""
import json, os, subprocess, sys
here = os.path.dirname(os.path.dirname(os.path.abspath(__file__)))

BASELINE = json.load(open('/root/.vp/BASELINE.json'))['cmd']

# id -> (technique, level text, level note, design ref)
CLAIMS = {}
# id -> reason (used when the property is not claimed)
NOT_BUILT = {}

def claim(pid, technique, text, note, ref):
    CLAIMS[pid] = (technique, text, note, ref)

exec(open(os.path.join(here, 'tools', 'claims.py')).read())

def main():
    try:
        built = subprocess.run([os.path.join(here, 'bin', 'ipnicheck'), '-list'], capture_output=True, text=True).stdout.split()
    except Exception:
        built = []
    props = [json.loads(l)['id'] for l in open(os.path.join(here, 'properties.jsonl'))]
    checks, na = [], []
    for pid in props:
        if pid in CLAIMS and pid in built:
            tech, text, note, ref = CLAIMS[pid]
            checks.append({
                "property_id": pid,
                "quick_cmd": f"./check {pid} quick",
                "thorough_cmd": f"./check {pid} thorough",
                "evidence_file": f"/verif/evidence/{pid}.json",
                "replay_cmd_template": f"./check {pid} quick --explain {{path}}",
                "engine": "ipnicheck",
                "level_claimed": {"category": "other", "text": text, "design_ref": ref},
                "level_note": note,
                "technique": tech,
            })
        else:
            na.append({"property_id": pid, "reason": NOT_BUILT.get(pid, "static rules for this property are designed (DESIGN.md §4) but not built yet; nothing is claimed")})
    m = {
        "version": 1,
        "setup_cmd": "./build.sh",
        "hooks": {
            "guard": "verif",
            "enable": "none needed: the checks analyse source and run no repository code; no hook commit exists",
            "baseline_off_cmd": BASELINE,
            "source_commits": [],
            "add_only": True,
        },
        "engines": [{
            "name": "ipnicheck",
            "path": "/verif/checker",
            "serves_properties": [c["property_id"] for c in checks],
            "kind_free_text": "repository-specific static analyser (go/packages + go/types + go/ssa + go/cfg, x/tools v0.29.0): dominance, who-may-call/write, lock pairing and lockset, error discipline, bounds, sibling agreement rules over /repo's current tree",
        }],
        "checks": checks,
        "not_applicable": na,
        "notes": "Every claimed property is claimed at level 'other': structural necessary conditions decided on all paths/call sites of the current tree; the behavioural remainder of each property is listed as not decided in DESIGN.md §4/§6. Genuine defects found are repaired by 'fix:' commits in /repo or listed in known_findings.json.",
    }
    json.dump(m, open(os.path.join(here, 'MANIFEST.json'), 'w'), indent=1)
    try:
        import jsonschema
        jsonschema.validate(m, json.load(open('/root/.vp/MANIFEST.schema.json')))
        print("MANIFEST.json valid:", len(checks), "claimed,", len(na), "not applicable")
    except ImportError:
        print("jsonschema not importable; wrote MANIFEST.json unvalidated")

main()
