#!/bin/bash
# usage: tools/seeded.sh [property...] — runs the seeded changes of the named properties (default: all claimed)
# through tools/mutant.sh against the owning property's check and prints CAUGHT/MISSED.
here="$(cd "$(dirname "$0")/.." && pwd)"
props=("$@")
[ ${#props[@]} -eq 0 ] && props=($("$here/bin/ipnicheck" -list))
for p in "${props[@]}"; do
  for d in "$here"/seeded/$p-*; do
    [ -d "$d" ] || continue
    t="$(mktemp)"; { echo "# property: $p"; cat "$d/patch.diff"; } > "$t"
    "$here/tools/mutant.sh" "$t" "$p" 2>&1 | sed "s#MUTANT $(basename "$t")#SEEDED $(basename "$d")#" | cut -c1-240
    rm -f "$t"
  done
done
