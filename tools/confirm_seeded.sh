#!/bin/bash
# usage: tools/confirm_seeded.sh <agent-out-dir e.g. /tmp/wt/C07/out/m1> <seed-id e.g. C07-m1>
# Re-confirms a seeded change independently of the agent that wrote it, in a
# fresh scratch worktree of /repo HEAD: applies, builds, runs the FULL existing
# suite with the change, runs the demo with (must fail) and without (must
# pass) the change. On success stores it under /verif/seeded/<id>/.
set -u
src="$1"; id="$2"
here="$(cd "$(dirname "$0")/.." && pwd)"
. "$here/env.sh"
wt="$(mktemp -d "${TMPDIR:-/tmp}/seedwt.XXXXXX")"
log="$wt.log"
cleanup() { git -C /repo worktree remove --force "$wt" >/dev/null 2>&1; rm -rf "$wt" "$log"; }
trap cleanup EXIT
rmdir "$wt"; git -C /repo worktree add -q --detach "$wt" HEAD || { echo "$id: cannot create worktree"; exit 2; }
meta="$src/meta.json"
demo_file="$(jq -r .demo_file "$meta")"; demo_dest="$(jq -r .demo_dest "$meta")"; demo_run="$(jq -r .demo_run "$meta")"
res() { echo "$id: $1"; }
cd "$wt"
git apply --check "$src/patch.diff" 2>/dev/null || { res "patch does not apply"; exit 1; }
# demo on the unchanged tree
cp "$src/$demo_file" "$wt/$demo_dest/zz_seed_${demo_file}" || { res "cannot place demo"; exit 1; }
for f in "$src"/*.go; do [ "$(basename "$f")" = "$demo_file" ] || cp "$f" "$wt/$demo_dest/zz_seed_$(basename "$f")" 2>/dev/null; done
if ! eval "$demo_run" >"$log" 2>&1; then res "demo FAILS on the unchanged tree"; tail -5 "$log"; exit 1; fi
grep -q "no tests to run" "$log" && { res "demo ran no tests"; exit 1; }
git apply "$src/patch.diff"
go build ./... >"$log" 2>&1 || { res "does not build"; exit 1; }
if eval "$demo_run" >"$log" 2>&1; then res "demo PASSES with the change (not a demonstration)"; exit 1; fi
demo_tail="$(grep -E '^(--- FAIL|panic:|WARNING: DATA RACE|FAIL)' "$log" | head -5)"
# full existing suite with the change (demo removed)
rm -f "$wt/$demo_dest"/zz_seed_*
if ! go test -vet=off -count=1 -timeout 25m ./... >"$log" 2>&1; then
  # one retry for flakiness
  if ! go test -vet=off -count=1 -timeout 25m ./... >"$log" 2>&1; then res "existing suite FAILS with the change"; grep -E '^(--- FAIL|FAIL)' "$log" | head; exit 1; fi
fi
dst="$here/seeded/$id"; mkdir -p "$dst"
cp "$src/patch.diff" "$dst/patch.diff"; cp "$src"/*.go "$dst/" 2>/dev/null
for f in "$dst"/*_test.go; do [ -e "$f" ] && mv "$f" "$f.txt"; done
jq --arg id "$id" --arg tail "$demo_tail" --arg head "$(git -C /repo rev-parse --short HEAD)" \
  '. + {seed_id:$id, confirmed:{at_repo_head:$head, applies:true, builds:true, existing_suite_passes_with_change:true, demo_passes_without_change:true, demo_fails_with_change:true, demo_failure_excerpt:$tail, how:"tools/confirm_seeded.sh in a scratch git worktree of /repo HEAD: go build ./..., go test -vet=off -count=1 ./... with the change, demo_run with and without the change"}}' \
  "$meta" > "$dst/meta.json"
res "CONFIRMED"
