#!/bin/bash
# usage: tools/matrix.sh > matrix.txt — runs every mutants/*.patch and seeded/*/patch.diff against its property's quick check
here="$(cd "$(dirname "$0")/.." && pwd)"
for m in "$here"/mutants/*.patch; do
  "$here/tools/mutant.sh" "$m" 2>&1 | grep -E '^MUTANT' 
done
"$here/tools/seeded.sh" 2>&1 | grep -E '^SEEDED'
