#!/usr/bin/env python3
import json,sys
e=json.load(open(f'/verif/evidence/{sys.argv[1]}.json'))
print(json.dumps(e['coverage']['rules']))
