#!/bin/bash
# usage: tools/mutant.sh <patch-file> [property...]
# Applies a patch to a scratch copy of /repo's current tree (outside /repo and
# /verif), checks that the variant still builds, runs the named properties'
# quick checks against it and prints which obligations flipped. The scratch
# copy is removed afterwards. Not a registered check; a development aid and
# the engine of the thorough-tier self-test.
set -u
here="$(cd "$(dirname "$0")/.." && pwd)"
. "$here/env.sh"
patch="$(readlink -f "$1")"; shift
props=("$@")
if [ ${#props[@]} -eq 0 ]; then
  props=($(sed -n 's/^# *property: *//p' "$patch"))
fi
scratch="$(mktemp -d "${TMPDIR:-/tmp}/ipnimut.XXXXXX")"
trap 'rm -rf "$scratch"' EXIT
rsync -a --exclude .git /repo/ "$scratch/repo/"
if ! (cd "$scratch/repo" && patch -p1 --no-backup-if-mismatch -s < "$patch") >/dev/null 2>&1; then
  echo "MUTANT $(basename "$patch"): does not apply"; exit 3
fi
if ! (cd "$scratch/repo" && go build ./... ) >"$scratch/build.log" 2>&1; then
  echo "MUTANT $(basename "$patch"): does not build"; head -5 "$scratch/build.log"; exit 4
fi
if [ -n "${MUTANT_RENAME:-}" ]; then
  # additionally rename every unexported field, type and function of the variant (tools/renameall): the breakage
  # must still be reported when no unexported name of the reference tree survives
  [ -x "$here/bin/renameall" ] || (cd "$here/tools/renameall" && go build -o "$here/bin/renameall" .) || exit 2
  "$here/bin/renameall" -dir "$scratch/repo" -fields -types -funcs >/dev/null || { echo "MUTANT $(basename "$patch"): rename failed"; exit 4; }
  (cd "$scratch/repo" && go build ./...) >"$scratch/build.log" 2>&1 || { echo "MUTANT $(basename "$patch"): renamed variant does not build"; head -5 "$scratch/build.log"; exit 4; }
fi
"$here/build.sh" || exit 2
rc=0
for p in "${props[@]}"; do
  out="$("$here/bin/ipnicheck" -property "$p" -tier quick -repo "$scratch/repo" -verif "$here" -out "$scratch/out" 2>&1)"
  if echo "$out" | grep -q '^VIOLATION'; then
    echo "MUTANT $(basename "$patch") $p: CAUGHT"
    echo "$out" | grep -E '^(VIOLATED|UNDECIDED)' | sed "s#$scratch/repo/##g; s/^/    /" | cut -c1-260
  else
    echo "MUTANT $(basename "$patch") $p: MISSED"
    rc=1
  fi
done
exit $rc
