#!/bin/bash
# usage: tools/benign.sh <diff-file> — applies a behaviour-preserving refactoring to a scratch copy of /repo and runs
# ALL claimed properties' quick checks against it; any VIOLATION line is a false alarm to investigate.
here="$(cd "$(dirname "$0")/.." && pwd)"
. "$here/env.sh"
pf="$(readlink -f "$1")"
scratch="$(mktemp -d "${TMPDIR:-/tmp}/ipniben.XXXXXX")"; trap 'rm -rf "$scratch"' EXIT
rsync -a --exclude .git /repo/ "$scratch/repo/"
(cd "$scratch/repo" && patch -p1 --no-backup-if-mismatch -s < "$pf") >/dev/null 2>&1 || { echo "BENIGN $(basename "$pf"): does not apply"; exit 3; }
(cd "$scratch/repo" && go build ./...) >/dev/null 2>&1 || { echo "BENIGN $(basename "$pf"): does not build"; exit 4; }
"$here/build.sh" || exit 2
alarms=0
for p in $("$here/bin/ipnicheck" -list); do
  out="$("$here/bin/ipnicheck" -property "$p" -tier quick -repo "$scratch/repo" -verif "$here" -out "$scratch/out" 2>&1)"
  if echo "$out" | grep -q '^VIOLATION'; then
    alarms=$((alarms+1))
    echo "BENIGN $(basename "$pf") $p: ALARM"
    echo "$out" | grep -E '^(VIOLATED|UNDECIDED)' | sed "s#$scratch/repo/##g; s/^/    /" | cut -c1-300
  fi
done
[ $alarms = 0 ] && echo "BENIGN $(basename "$pf"): silent on all properties"
exit 0
