// renameall rewrites, in place, a copy of the repository so that every
// unexported struct field, named type, function and method of the module gets
// a suffix. It is a test generator for the checker ("a rename must not raise
// an alarm"), not part of any check.
//
// usage: renameall -dir <scratch copy> [-fields] [-types] [-funcs] [-suffix X]
package main

import (
	"flag"
	"fmt"
	"go/ast"
	"go/token"
	"go/types"
	"os"
	"sort"
	"strings"

	"golang.org/x/tools/go/packages"
)

func main() {
	dir := flag.String("dir", "", "scratch copy of the repository")
	fields := flag.Bool("fields", false, "rename unexported struct fields")
	typs := flag.Bool("types", false, "rename unexported named types")
	funcs := flag.Bool("funcs", false, "rename unexported functions and methods")
	suffix := flag.String("suffix", "X", "suffix")
	only := flag.String("only", "", "comma-separated package name filter")
	flag.Parse()
	cfg := &packages.Config{Mode: packages.LoadSyntax, Dir: *dir, Tests: true, Env: append(os.Environ(), "GOWORK=off")}
	pkgs, err := packages.Load(cfg, "./...")
	if err != nil {
		panic(err)
	}
	modPrefix := "github.com/ipni/go-libipni"
	want := func(o types.Object) bool {
		if o == nil || o.Pkg() == nil || !strings.HasPrefix(o.Pkg().Path(), modPrefix) || o.Exported() || o.Name() == "_" {
			return false
		}
		if *only != "" && !strings.Contains(","+*only+",", ","+o.Pkg().Name()+",") {
			return false
		}
		switch v := o.(type) {
		case *types.Var:
			if !v.IsField() {
				return false
			}
			if v.Embedded() {
				return *typs
			}
			return *fields
		case *types.TypeName:
			// only package-level named types
			return *typs && o.Parent() == o.Pkg().Scope()
		case *types.Func:
			if !*funcs || o.Name() == "init" || o.Name() == "main" {
				return false
			}
			return true
		}
		return false
	}
	type edit struct {
		off int
		old string
	}
	edits := map[string]map[int]string{}
	var fset *token.FileSet
	for _, p := range pkgs {
		if len(p.Errors) > 0 {
			fmt.Fprintln(os.Stderr, "errors in", p.PkgPath, p.Errors[0])
			os.Exit(2)
		}
		fset = p.Fset
		mark := func(id *ast.Ident, o types.Object) {
			if !want(o) {
				return
			}
			pos := fset.Position(id.Pos())
			if !strings.HasPrefix(pos.Filename, *dir) || strings.HasSuffix(pos.Filename, "_gen.go") && false {
				return
			}
			if edits[pos.Filename] == nil {
				edits[pos.Filename] = map[int]string{}
			}
			edits[pos.Filename][pos.Offset] = id.Name
		}
		for id, o := range p.TypesInfo.Defs {
			mark(id, o)
		}
		for id, o := range p.TypesInfo.Uses {
			mark(id, o)
		}
	}
	n := 0
	for file, m := range edits {
		b, err := os.ReadFile(file)
		if err != nil {
			panic(err)
		}
		var offs []int
		for o := range m {
			offs = append(offs, o)
		}
		sort.Sort(sort.Reverse(sort.IntSlice(offs)))
		for _, o := range offs {
			name := m[o]
			if string(b[o:o+len(name)]) != name {
				fmt.Fprintf(os.Stderr, "mismatch at %s:%d (%q)\n", file, o, name)
				os.Exit(2)
			}
			b = append(b[:o+len(name)], append([]byte(*suffix), b[o+len(name):]...)...)
			n++
		}
		if err := os.WriteFile(file, b, 0o644); err != nil {
			panic(err)
		}
	}
	fmt.Printf("renamed %d identifiers in %d files\n", n, len(edits))
}
