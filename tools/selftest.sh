#!/bin/bash
# usage: tools/selftest.sh <property> — NON-DECIDING self-test of the checker.
# For every one-instance-broken variant kept for the property (mutants/*.patch
# with "# property: <id>", seeded/<id>-*/patch.diff) that still applies to a
# scratch copy of /repo's current tree and builds, the property's quick rules
# must report a violation. Prints one JSON object; never fails.
here="$(cd "$(dirname "$0")/.." && pwd)"
. "$here/env.sh"
p="$1"
scratch="$(mktemp -d "${TMPDIR:-/tmp}/ipniself.XXXXXX")"
trap 'rm -rf "$scratch"' EXIT
fired=0; missed=0; skipped=0; items=()
run_one() { # name patchfile
  local name="$1" pf="$2"
  rm -rf "$scratch/repo"; rsync -a --exclude .git "${VERIF_REPO:-/repo}/" "$scratch/repo/"
  if ! (cd "$scratch/repo" && grep -v '^#' "$pf" | patch -p1 --no-backup-if-mismatch -s) >/dev/null 2>&1; then
    skipped=$((skipped+1)); items+=("{\"variant\":\"$name\",\"result\":\"skipped: does not apply to the current tree\"}"); return; fi
  if ! (cd "$scratch/repo" && go build ./...) >/dev/null 2>&1; then
    skipped=$((skipped+1)); items+=("{\"variant\":\"$name\",\"result\":\"skipped: variant does not build\"}"); return; fi
  local out; out="$("$here/bin/ipnicheck" -property "$p" -tier quick -repo "$scratch/repo" -verif "$here" -out "$scratch/out" 2>&1)"
  if echo "$out" | grep -q '^VIOLATION'; then
    fired=$((fired+1))
    local rules; rules="$(echo "$out" | sed -n 's/^\(VIOLATED\|UNDECIDED\) [A-Z0-9]* \[\([^]]*\)\].*/\2/p' | sort -u | tr '\n' ' ')"
    items+=("{\"variant\":\"$name\",\"result\":\"fired\",\"rules\":\"${rules% }\"}")
  else
    missed=$((missed+1)); items+=("{\"variant\":\"$name\",\"result\":\"MISSED\"}")
  fi
}
for m in "$here"/mutants/*.patch; do
  grep -q "^# property: $p\$" "$m" && run_one "$(basename "$m" .patch)" "$m"
done
for d in "$here"/seeded/$p-*; do
  [ -f "$d/patch.diff" ] && run_one "seeded/$(basename "$d")" "$d/patch.diff"
done
printf '{"fired":%d,"missed":%d,"skipped":%d,"variants":[%s]}\n' $fired $missed $skipped "$(IFS=,; echo "${items[*]}")"
