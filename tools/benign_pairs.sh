#!/bin/bash
# usage: tools/benign_pairs.sh <n> [seed] — applies n random pairs of benign diffs (that both apply) to scratch copies and
# runs all quick checks: a refactoring on top of another must not raise an alarm either.
here="$(cd "$(dirname "$0")/.." && pwd)"
. "$here/env.sh"
n="${1:-20}"; seed="${2:-1}"
mapfile -t diffs < <(ls "$here"/benign/*.diff | grep -v auto-all | grep -v own-)
RANDOM=$seed
done_n=0; tries=0
while [ $done_n -lt $n ] && [ $tries -lt $((n*10)) ]; do
  tries=$((tries+1))
  a="${diffs[$((RANDOM % ${#diffs[@]}))]}"; b="${diffs[$((RANDOM % ${#diffs[@]}))]}"
  [ "$a" = "$b" ] && continue
  scratch="$(mktemp -d "${TMPDIR:-/tmp}/ipnipair.XXXXXX")"
  rsync -a --exclude .git /repo/ "$scratch/repo/"
  if (cd "$scratch/repo" && patch -p1 --no-backup-if-mismatch -s < "$a" && patch -p1 --no-backup-if-mismatch -s < "$b") >/dev/null 2>&1 && (cd "$scratch/repo" && go build ./... ) >/dev/null 2>&1; then
    done_n=$((done_n+1))
    alarms=0
    for p in $("$here/bin/ipnicheck" -list); do
      out="$("$here/bin/ipnicheck" -property "$p" -tier quick -repo "$scratch/repo" -verif "$here" -out "$scratch/out" 2>&1)"
      if echo "$out" | grep -q '^VIOLATION'; then
        alarms=$((alarms+1))
        echo "PAIR $(basename "$a") + $(basename "$b") $p: ALARM"
        echo "$out" | grep -E '^(VIOLATED|UNDECIDED)' | sed "s#$scratch/repo/##g; s/^/    /" | cut -c1-260
      fi
    done
    [ $alarms = 0 ] && echo "PAIR $(basename "$a") + $(basename "$b"): silent"
  fi
  rm -rf "$scratch"
done
