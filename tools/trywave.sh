#!/bin/bash
# usage: tools/trywave.sh <wave dir e.g. /tmp/wt3> <property> [m...] — runs the property's quick check against not-yet-stored seeded changes
here="$(cd "$(dirname "$0")/.." && pwd)"
w="$1"; p="$2"; shift 2
ms=("$@"); [ ${#ms[@]} -eq 0 ] && ms=($(ls "$w/$p/out" | grep '^m'))
for m in "${ms[@]}"; do
  t="$(mktemp)"; { echo "# property: $p"; cat "$w/$p/out/$m/patch.diff"; } > "$t"
  "$here/tools/mutant.sh" "$t" "$p" 2>&1 | grep -v WARNING | sed "s#MUTANT $(basename "$t")#WAVE $p-$m#" | cut -c1-260
  rm -f "$t"
done
