# Per-property claim texts for MANIFEST.json (executed by gen_manifest.py).
claim("C02",
  "SSA dominance + who-may-write: store commit dominated by digest equality of the requested CID",
  "Decides, on every path and call site of the current tree, the structural gate the property rests on: the only store writer in the subscriber packages is the fetch callback; its commit is dominated by bytes.Equal(c.Hash(), SumStream(TeeReader(body, w), c's own hash function and length)), the committed link and the requested resource are that same c, the writer has no other use, the trusted traversal link system reads only after a verified fetch, and hooks run only after the traversal returned nil. It does not decide hash collision resistance or the store implementation; 'after any sequence of syncs every stored block hashes to its CID' follows from the gate only under those assumptions.",
  "Trusted: go/types, go/ssa dominators, go-multihash SumStream, io.TeeReader, the ipld-prime write-opener contract (nothing visible before commit).",
  "DESIGN.md §4 C02")
claim("C16",
  "lock-pairing dataflow on go/cfg + SSA dominance + blocking-operation table for package announce",
  "Decides for every path of every function in package announce: each mutex acquire is released on all exits (the 'no return path leaves the receiver unusable' clause is exactly this, and it is where the early-return defect fixed in 7f78389 lived); each close(ch) runs at most once; each blocking operation has a shutdown alternative or a counterpart whose liveness is an obligation (cancel precedes wait; watcher leaves its loop on cancel/closed); the watcher goroutine is spawned only with a subscription; the closed flag is tested under the mutex before the cache is touched; done/closed edges return ErrClosed. Global deadlock freedom over all interleavings and promptness in wall-clock terms are not decided.",
  "Trusted: go/cfg (with the select re-attribution fix-up), go/ssa dominators, Go's mutex/channel semantics, go-libp2p-pubsub's Subscription.Next returning on cancel.",
  "DESIGN.md §4 C16")
