# Per-property claim texts for MANIFEST.json (executed by gen_manifest.py).
claim("C02",
  "SSA dominance + who-may-write: store commit dominated by digest equality of the requested CID",
  "Decides, on every path and call site of the current tree, the structural gate the property rests on: the only store writer in the subscriber packages is the fetch callback; its commit is dominated by bytes.Equal(c.Hash(), SumStream(TeeReader(body, w), c's own hash function and length)), the committed link and the requested resource are that same c, the writer has no other use, the trusted traversal link system reads only after a verified fetch, and hooks run only after the traversal returned nil. It does not decide hash collision resistance or the store implementation; 'after any sequence of syncs every stored block hashes to its CID' follows from the gate only under those assumptions.",
  "Trusted: go/types, go/ssa dominators, go-multihash SumStream, io.TeeReader, the ipld-prime write-opener contract (nothing visible before commit).",
  "DESIGN.md §4 C02")
claim("C16",
  "lock-pairing dataflow on go/cfg + SSA dominance + blocking-operation table for package announce",
  "Decides for every path of every function in package announce: each mutex acquire is released on all exits (the 'no return path leaves the receiver unusable' clause is exactly this, and it is where the early-return defect fixed in 7f78389 lived); each close(ch) runs at most once; each blocking operation has a shutdown alternative or a counterpart whose liveness is an obligation (cancel precedes wait; watcher leaves its loop on cancel/closed); the watcher goroutine is spawned only with a subscription; the closed flag is tested under the mutex before the cache is touched; done/closed edges return ErrClosed. Global deadlock freedom over all interleavings and promptness in wall-clock terms are not decided.",
  "Trusted: go/cfg (with the select re-attribution fix-up), go/ssa dominators, Go's mutex/channel semantics, go-libp2p-pubsub's Subscription.Next returning on cancel.",
  "DESIGN.md §4 C16")
claim("C07",
  "ownership partition of cache state: lockset dataflow (go/cfg) for writer-owned fields, SSA escape/immutability rules for published snapshots, may-block call-graph summary for readers",
  "Decides on every access in package pcache: configuration fields are stored only by the constructor; the snapshot pointer and refresh flag are touched only through sync/atomic; seq, the write map and every cacheInfo field are accessed only with the one-slot write token held, and the token is released on every path; every published snapshot consists of fresh maps never written after the atomic Store (or the unchanged map of the loaded snapshot); no map from a loaded snapshot is written and no published record field is stored to (expected 0, positive example checked each run); the read API reaches may-block code only on the both-maps-miss edge, starts auto-refresh only in a goroutine guarded by CompareAndSwap, loads the pointer once per operation; rebuilt main maps prefer pending updates; writers load the snapshot they extend under the token. This is a race-freedom and wait-freedom argument for the package's own accesses; monotonicity of successive reads as a history property is not decided.",
  "Trusted: go/cfg + go/ssa, sync/atomic.Pointer ordering, callers not mutating returned *ProviderInfo.",
  "DESIGN.md §4 C07")
claim("C06",
  "must-publish path rule on SSA (every writer-state mutation reaches read.Store before any exit), dominance of replace/expire guards, sibling agreement of the two writers",
  "Decides the structural supports of convergence: every path from a writer-side mutation to an exit publishes a snapshot (the cancelled-refresh loss fixed in 26ea2ff is exactly a violation of this); a stored record is replaced only on the true edge of newTime.After(stored time) with zero times normalised and record/time/stamp stored together; deletion only when stale, expiry set and passed; expiry cleared in the step that marks a provider present and armed only while unset from now+ttl; the miss path records a positive or negative entry before publishing; rebuilt main maps prefer pending updates; the snapshot extended is loaded under the write token. Convergence over histories, source-order independence and the merge-threshold arithmetic are runtime properties and are not decided.",
  "Trusted: go/ssa dominators, time.Time semantics, sources returning complete lists.",
  "DESIGN.md §4 C06")
claim("C08",
  "lockset dataflow on go/cfg (Sync only under the per-publisher mutex, slot writes in region), who-may-write table for the pending slot, dominance for spawn/outcome rules",
  "Decides: the sync client's Sync is invoked only with the per-publisher syncMutex held and the scoped-hook slot is written only inside that region; all mutex and semaphore acquires in package dagsync are released on every path; the pending-announcement slot is touched only by atomic Swap (one put in the watcher, one take in the handler); the handling goroutine is spawned only on the 'slot was empty' edge after wait-group registration, takes the async mutex before the semaphore and the take, and releases the wait group on every exit; the semaphore capacity is the configured maximum irrespective of option order; every exit of the announce handler after the take has exactly one outcome (already synced / success / failure with un-cache). One clause is violated on the pinned tree and reported as KNOWN-FINDING F15: the latest-synced read and write/notify lie outside the critical section (demonstrated at run time; repair restructures handle() and its three callers). Liveness of the slot protocol over all arrival orders is not decided.",
  "Trusted: go/cfg + lockset dataflow with select-clause re-attribution, go/ssa, sync and sync/atomic semantics.",
  "DESIGN.md §4 C08, §5 F14/F15")
claim("C15",
  "SSA ordering/dominance rules over the shutdown routine, registration discipline of explicit syncs, exhaustive classification table of blocking operations and go statements in package dagsync",
  "Decides: shutdown runs under sync.Once with its seven steps ordered on every path (closing ≺ closed flag under mutex ≺ explicit-sync drain ≺ receiver close ≺ watcher wait ≺ async drain ≺ close(events)); every explicit-sync entry point registers under the mutex on the flag-false edge with deferred Done before the sync; every blocking operation in the package fits a tabled class with a shutdown alternative, an ordered counterpart, or non-blocking by construction (an unclassified one is a violation — OnSyncFinished's bare registration send, fixed in 4eb7747, was found this way); every looping goroutine has its termination witness and the watcher cancels pending syncs on exit; each close(ch) runs at most once. Deadlock freedom over all interleavings, 'no goroutine remains' for library goroutines, and promptness are not decided.",
  "Trusted: go/ssa, sync.Once/WaitGroup semantics, C16 for the receiver's own shutdown, explicit syncs terminating by themselves.",
  "DESIGN.md §4 C15")
claim("C14",
  "who-may-send/close/receive table for the event channel, SSA shape rules for the distributor loop, value-identity rules for event fields",
  "Decides: the channel registered by a listener is the input side of an option-less (unbounded) chanqueue and every return hands out its output side; the latest-synced value is stored before the success event is sent and both name the same CID and publisher; only the success notifier and the announce failure path send on the event channel, only shutdown closes it, only the distributor receives; the distributor's single select serves events, registrations and removals, forwards the received event unconditionally to every element of its private listener list in list order, appends registrations, closes every listener when the event channel closes; success notifications carry the synced CID and the handler's count on the err == nil edge. Exactly-once delivery and order over all schedules are history properties and not decided.",
  "Trusted: go/ssa, gammazero/chanqueue being unbounded and order preserving without options, channel FIFO semantics.",
  "DESIGN.md §4 C14")
claim("C03",
  "SSA dominance of every success return by the verification gates, sibling agreement of the signed/verified payload assembly, value-flow rule for the expected publisher ID",
  "Decides: every success return of SignedHead.Validate is dominated by non-empty signature/key, key unmarshal err == nil, Verify err == nil and ok, and returns the ID of the verifying key; Sign and Validate assemble the same payload (head CID bytes, then the topic iff non-empty) in a buffer whose bytes are what is signed/verified; the head query returns the validated head's CID only on Validate err == nil and signer == expected ID; the expected ID is non-empty on the subscriber path and every transformer between the entry test and the stored sync client preserves it; the publisher writes the encoding of a head signed for the root read under its lock, topic and key, only when signing succeeded; the explicit sync consumes the queried head only on its err == nil edge. Cryptographic soundness and 'any alteration of any byte' are not decided.",
  "Trusted: go/ssa dominators, libp2p crypto, peer.IDFromPublicKey.",
  "DESIGN.md §4 C03")
claim("C04",
  "error-discipline rule along a named call chain (SSA: returned directly, or nil-tested with every path of the non-nil edge returning non-nil / re-issuing), who-may-write table for the latest-synced value, path rule for fallback state",
  "Decides: at each of the 21 links from the HTTP round trip to SyncAdChain/syncEntries the callee's error is propagated (not dropped, not swallowed); every success return of the per-publisher sync routine that follows a sync-client call is dominated by 'hook-signalled error is nil' (the non-segmented path ignored FailSync — found by this rule, demonstrated, fixed in d5da6f6); the latest-synced map is written only by the success notifier, the setter and the last-known seeding, and the success notifier is called only on the sync's err == nil edge; the announce failure edge notifies failure exactly once with the sync's error, never success; explicit failure edges emit nothing; the kept sync client is replaced only when absent or its addresses differ and only by a successfully constructed one; state switched by the legacy no-path fallback is restored on every error return of the switching request (fixed in 2acc6ee). Convergence of a retry to the same stored blocks is a runtime property and is not decided.",
  "Trusted: go/ssa dominators, ipld-prime traversal propagating read-opener errors, net/http returning error or response.",
  "DESIGN.md §4 C04, §5 F13/F19")
claim("C01",
  "SSA dominance/edge-fact rules for the local-presence gate, hook replay, stop-point identity, the segmented loop's exit tests and depth data flow, source tables for stop link and depth limit, selector-rewrite copy loop",
  "Decides on every path: a block is requested only on the failure edge of a local load of the same CID, through the single request routine; hooks are replayed in a forward range over the one order slice, appended only on successful reads with the opened link's CID, after the walk returned nil, counted once each; the stop CID given to the segmented loop is the CID of the very link given to the selector builder, which attaches it iff present; the loop re-tests after every segment, in order, sync error, hook failure, no/undefined next CID, next == stop, depth exhausted, each leaving the loop, starts each segment at the hook-set CID, and derives the next segment's depth from limit − accumulated depth; the head == stop short-circuit guards the sync on every path with a stop link for explicit and queried heads; stop link and depth limit come only from the tabled sources under the tabled conditions; limit rewriting copies every other selector entry. Equality of the reported set with the chain segment, counts, correctness of numeric bounds, and ipld-prime's own traversal are runtime properties and are not decided.",
  "Trusted: go/ssa dominators, ipld-prime traversal/selector semantics, local store Load failing exactly when absent.",
  "DESIGN.md §4 C01")
claim("C09",
  "path-fact rule (every path to the cache update carries 'no filter' or 'filter true'), lockset on go/cfg for cache accesses, SSA value-identity rules for delivery/republication/pubsub attribution, structural pairing rules for the LRU container",
  "Decides: the duplicate cache is updated only on paths where the allow filter is absent or passed and the receiver is not closed, keyed by the announced CID; it is touched only under the receiver's mutex, by the check and by UncacheCid (which removes the given CID); the single delivery site lies on the check's nil edge and delivers the checked announcement with CID and publisher unmodified, addresses replaced only by FilterPublic under filterIPs; a republication names the original publisher with the same CID and addresses; on the pubsub path the self test compares the pubsub sender with this host before the source is replaced, and the publisher handed on is the decoded original peer or else the sender; the cache capacity is 64; the LRU pairs every list removal with the map deletion of that element, inserts only on a miss under the element's key, moves to front on a hit, evicts Back() only when full, and returns hit/miss. Equivalence with '64 most recently seen' over all histories and address classification are not decided.",
  "Trusted: go/ssa, go/cfg lockset, container/list, mautil.FilterPublic's classification (go-multiaddr/net).",
  "DESIGN.md §4 C09")
claim("C05",
  "field-to-sink coverage as an ordered, guarded write-sequence table for the two signed payloads; shared-function rule for sign/verify; SSA dominance of success returns and loop-continuation edges by the verification gates",
  "Decides: each signed payload is assembled by exactly the tabled write sequence (every signed field in its position, addresses in a plain range, the flag byte decided by its flag alone) and hashed with SHA2-256 over that buffer; signer and verifier call the same payload function on their own advertisement; VerifySignature's success return is dominated by the envelope being consumed without error and the recomputed payload being bytes.Equal to the sealed one, and returns the ID of that envelope's key; each continuation to the next extended provider is dominated by that entry's envelope consumed, payload equal, and envelope signer == expected signer, the expected signer being the advertisement's signer for the main provider's entry and the entry's decoded ID otherwise (missing on the pinned tree; fixed in a493a96); the main provider must be listed; the two record types share a domain with distinct payload types and each site uses the matching type. Envelope cryptography, round-trip survival and the byte-mutation sweep are not decided.",
  "Trusted: go/ssa, libp2p core/record Seal/ConsumeTypedEnvelope, SHA-256.",
  "DESIGN.md §4 C05, §5 F6")
claim("C18",
  "SSA dominance of every success return of the two envelope readers by the verification gates; constant/record-type agreement between Make and Read",
  "Decides: each reader returns the record only on the edges ConsumeEnvelope err == nil, record type-asserted (comma-ok) to the expected type, signer derived from that envelope's key without error, and signer == the returned record's own provider identity (missing for ingest requests on the pinned tree; fixed in 1413f8d); the envelope is consumed with the payload-type-dispatching ConsumeEnvelope under the expected record's domain constant; the constructors seal a record of the same type carrying their provider argument with their key argument through the shared helper, and the ingest record's Domain()/Codec() return the declared constants. Envelope cryptography and the alteration sweep are not decided.",
  "Trusted: go/ssa, libp2p core/record ConsumeEnvelope (signature over domain, payload type and payload; dispatch on payload type).",
  "DESIGN.md §4 C18, §5 F18")
claim("C10",
  "bounded-allocation dominance rule, sibling agreement of encoder/decoder field sequences, major types, arity and caps (SSA), sender data-flow rules; thorough: cross-module text agreement with go-multiaddr source",
  "Decides: every input-sized allocation in the CBOR decoder is dominated by a cap on the same header value and the decoder resets its receiver first; encoder and decoder agree on the ordered fields and major types (CID, array of byte strings, byte string, optional text); the encoder announces 3 elements iff the original peer is empty and writes the fourth iff non-empty, the decoder accepts exactly 3..4 and reads the fourth iff 4; per field the encoder's cap does not exceed the decoder's; both HTTP send paths append the sender's peer ID to all of the message's addresses via AddrInfoToP2pAddrs before encoding that same message with the same extra-data rule, and the pubsub sender publishes the CBOR of the message given; (thorough) the error text GetAddrs matches to skip unknown protocols is produced by go-multiaddr. Round-trip equality, the reflection-based JSON path and panic-freedom inside cbor-gen/go-cid are not decided.",
  "Trusted: go/ssa, cbor-gen primitives (inverse header/CID/string routines; ReadString capped at MaxLength), encoding/json.",
  "DESIGN.md §4 C10")
claim("C11",
  "bounded-allocation dominance over all Protocol.ReadFrom implementations, loop-carried-value liveness and strictness of the order test, registry exhaustiveness by constant agreement, decoder-configuration table (validated against ipld-prime source in thorough), cursor-idiom recognition on SSA",
  "Decides: the encoder sorts (by ascending ID) before emitting and concatenates each protocol's own encoding; in every ReadFrom an allocation sized from a decoded length is dominated by an upper bound on that decoded value itself; Validate compares each ID with a loop-carried previous ID that is assigned in the loop, with the strict test that accepts exactly the non-decreasing sequences the encoder emits, and decoding cannot succeed without it; each default factory is registered under the ID its protocol reports and unknown codes fall back to the opaque protocol; a ReadFrom handing the shared reader to dag-cbor uses the stop-at-end configuration through the counting reader; the decode loop advances its remainder by exactly the bytes the protocol consumed, loops while bytes remain and picks the protocol from the code at the cursor. Four of these were violated on the pinned tree (F3, F9, F16, F17) and are fixed in /repo. Concatenation/round-trip equality as such and totality of ipld-prime's decoder are not decided.",
  "Trusted: go/ssa, sort.Sort, go-varint, ipld-prime's dag-cbor decoder reading no further than its item with DontParseBeyondEnd.",
  "DESIGN.md §4 C11, §5 F3/F9/F16/F17")
claim("C12",
  "bounded-slice dominance, import/determinism check, error-discipline rule, sibling agreement of encrypt/decrypt on SSA, data-flow rules for the reader-privacy client",
  "Decides: every slice of caller-supplied bytes at the nonce length is dominated by a length test on that parameter (missing in DecryptValueKey on the pinned tree; fixed in 0a38fce); package dhash imports no randomness or clock and the Seal nonce is the nonce-length prefix of SHA-256(prefix, payload length, payload, passphrase); errors of NewCipher/NewGCM/Open are returned; both directions derive the key by the same function over the whole passphrase, give Seal/Open a nil destination and no additional data, and agree on the nonce‖ciphertext layout; the find client queries with the second hash, decrypts value keys with the queried multihash, fetches metadata by the hash of the value key and decrypts it with the value key, and uses each decrypted value only on its err == nil edge; value keys are peer-ID bytes then context ID and are split at the leading multihash; the second hash is the DBL_SHA2_256 multihash of SHA-256(prefix, multihash). Round trip, tamper detection (AES-GCM) and end-to-end find equality are not decided.",
  "Trusted: go/ssa, crypto/aes, crypto/cipher GCM, crypto/sha256, go-multihash.",
  "DESIGN.md §4 C12, §5 F2")
claim("C17",
  "bounded-index dominance, sibling agreement of the two expansion loops (skip and substitute conditions extracted from edge facts), ordering rules, and a per-element construction rule for the context index — all on SSA",
  "Decides: every index into a metadata list by provider index is dominated by index < len(list) (two unguarded sites on the pinned tree, fixed in 8ff26af); the context-level and chain-level loops skip exactly the main provider's entry with empty or identical metadata and substitute the looked-up metadata exactly when the entry's has length zero, pair providers[i] with metadatas[i] of the same record and carry the requested context ID; results are appended in the order main, context-level, [override of the matched context ⇒ return], chain-level; the per-context index stores, for every contextual element without filtering, that element's own override flag, providers and metadata lists. Equality with an independent specification over all records is not decided.",
  "Trusted: go/ssa, bytes.Equal.",
  "DESIGN.md §4 C17, §5 F4/F5")
claim("C19",
  "SSA return-value tables (every constructor error is a 4xx API error), dominance of success returns by the counter increment, mode-guard rules, inverse-table agreement between the writer's supported media types and every client request's Accept header, field-carrying rules for the API error codec",
  "Decides: every error rwriter.New returns after option parsing is apierror.New(_, 4xx); WriteProviderResult increments the counter before every success return in both modes and Close answers 404 exactly on count == 0; streaming mode encodes and flushes each result, JSON mode appends and encodes one model.FindResponse labelled with the request's multihash; the client's Find decodes model.FindResponse from the URL built from the multihash asked, maps 404 to an empty response, and FindBatch skips not-found; every request built in find/client carries an Accept header naming a media type the writer supports (Client.Find sent none on the pinned tree; fixed in 1d98f98); EncodeError always stores err.Error() and the API status, DecodeError rebuilds an error from both, and a status-only error renders its status text. JSON round trip of arbitrary results and key parsing of all string forms are not decided.",
  "Trusted: go/ssa, encoding/json, net/http.",
  "DESIGN.md §4 C19, §5 F11")
claim("C20",
  "inverse-table agreement of escape/unescape families across FromURL, ToURL and go-multiaddr's installed http-path transcoder (transcoder resolved from dependency source in thorough), field-coverage rules, finite decision-table extraction for the scheme choice, predicate-shape rules for the address helpers",
  "Decides: FromURL escapes and ToURL unescapes the http-path value with the same family, and that family is the one go-multiaddr's http-path transcoder uses (path escaping against a query-escaping transcoder on the pinned tree; fixed in 821f7dc), the legacy component being consulted only when http-path is absent; host (IP or dns), non-empty port (tcp), scheme and non-empty path of the URL each reach a component, and ToURL sets scheme, host (from DialArgs) and path; the scheme decision table extracted from ToURL's branches over the presence of https/http/tls/wss/ws equals the specified one (tls+http and https ⇒ https); HTTP selection tests exactly http and https on non-nil addresses; public filtering requires public ∧ not unspecified for IP-family and rejects localhost for DNS-family addresses; list equality is length equality plus pairwise equality after sorting both lists. Equality of host/port/scheme over all inputs and go-multiaddr's classification are not decided.",
  "Trusted: go/ssa, net/url escape pairs being inverse, go-multiaddr and go-multiaddr/net.",
  "DESIGN.md §4 C20, §5 F8")
claim("C13",
  "SSA value-flow and pairing rules for the prototype/Go-type bindings, import-set check for codec registration, error-discipline rule for the decode helper",
  "Narrow claim: decides only the clauses with structure in this repository — Unwrap hands bindnode.Unwrap the node itself or, on the foreign-prototype edge, the node rebuilt through the matching typed prototype with the assignment error checked; prototype, schema type name and Go type are paired identically in init, Unwrap (checked assertion, nil rejected) and BytesTo*; bytes are decoded by the decoder looked up from the CID's codec with both errors returned; ToNode wraps with its own prototype's type under a deferred recover that turns a panic into the returned error; the package itself imports (registers) both dag-json and dag-cbor; the unwrapped value is returned without any field being stored to (optionals are not normalised away); Linkproto fixes CIDv1/dag-json/sha2-256. Round-trip equality in both codecs, preservation of absent-vs-present optionals by bindnode, CID stability and decoder totality — most of the property — live in ipld-prime and are NOT decided.",
  "Trusted: go/ssa, ipld-prime bindnode/schema/codecs being inverse on conformant values.",
  "DESIGN.md §4 C13")

# Clauses added after the second round of independently seeded changes (DESIGN.md §12, ★ rows of m3/m4).
ADDENDA = {
 "C01": " Added: the stock block hook decides the continuation on every path (SetNextSyncCid with the looked-up predecessor, or FailSync); all-links / single-block syncs are started with segmentation off; the synced-block counter is written only by its increment.",
 "C04": " Added: the value the fallback-undo puts back is a snapshot taken before the switch (it does not alias the live client state).",
 "C06": " Added: point lookups consult the main map only on the comma-ok-false edge of the update map (a nil entry there is a tombstone).",
 "C07": " Added: a snapshot handed to a writer as a parameter was loaded by a writer (under the token), not by a reader before the token was taken.",
 "C09": " Added: the allow filter is consulted only in the admission routine and only about Announce.PeerID; every map deletion of the LRU removes that element from the recency list (and conversely).",
 "C10": " Added: per field the decoder's cap does not exceed the encoder's either (what decodes re-encodes; the decoder allocates no more than the field cap).",
 "C11": " Added: a protocol's zero-length payload read at the end of the input cannot fail: the per-protocol reader is a bytes.Buffer unless no ReadFrom issues an unguarded plain Read whose error is fatal.",
 "C12": " Added: the package-level salts that are appended to have no spare capacity (append cannot write one call's input into memory shared with another).",
 "C13": " Added: ToNode returns no error of its own besides the recovered bindnode panic (what decodes re-encodes).",
 "C14": " Added: the listener-registration channel is unbuffered (registration is a handshake with the distributor); the block counter reported in SyncFinished.Count is written only by its per-block increment.",
 "C16": " Added: whoever creates the channel Close waits on starts, on every path, the watcher that closes it.",
 "C17": " Added: the metadata paired with providers[i] is nil or metadatas[i] of this iteration, never a value carried round the loop.",
 "C19": " Added: the writers' constructors neither write nor flush the HTTP response (status not committed before Close); the client decodes everything read from the response body itself.",
}
ADDENDA2 = {
 "C01": " Round three: the depth options store their argument as given (negative = no limit reaches the limit choice).",
 "C02": " Round three: nothing in the module (re)registers a hash function in go-multihash's process-wide registry (positive example embedded).",
 "C03": " Round three: every sync client handed out by NewSyncer is a literal built by that call (no cache keyed by less than the publisher).",
 "C04": " Round three: the configured request timeout is stored into every HTTP client a sync client is built around; the stock hook calls FailSync only on the err != nil edge and SetNextSyncCid only on the err == nil edge.",
 "C05": " Round three: the main provider's entry is sealed with the advertisement's key and every other entry with the key fetched for it (through sealing helpers too); decoding stores nothing into the advertisement it returns.",
 "C06": " Round three: config.ttl is written only by its option (argument as given) and the default; the rebuilt main map carries every tracked provider, nil entries included.",
 "C07": " Round three: sources decode records into fresh locals and retain nothing (no decode target reused across calls or list elements); the newest-wins replacement rule of C06 holds in every writer.",
 "C08": " Round three: hooks are replayed only on the nil-error edge of the walk (a failed sync reports nothing); an existing per-publisher handler gets its expiry pushed forward whenever it is handed out.",
 "C09": " Round three: the duplicate filter's fields are touched only by its own methods (positive example embedded); every receiver the constructor returns carries the configured allow filter and address-filter flag.",
 "C10": " Round three: the pubsub sender encodes into a buffer owned by the call; the ingest client's direct announce puts AddrInfoToP2pAddrs(provider), unmodified, on the wire.",
 "C11": " Round three: every MarshalBinary returns bytes of a buffer created by that call; a derived metadata context writes into a protocol table of its own.",
 "C12": " Round three: the dhstore HTTP client reads response bodies to their end.",
 "C14": " Round three: the list replayed to the hook is the result of this sync's own walk; one handler per publisher while in use.",
 "C15": " Round three: listener queues are unbounded, so the distributor (and with it every sync and Close) never blocks on a listener that does not read.",
 "C16": " Round three: no user callback is called with the receiver's mutex held; lock pairing also covers the sender packages the receiver republishes through.",
 "C17": " Round three: sources decode every record into fresh memory; the reader-privacy client sends every element of the expansion unconditionally.",
 "C18": " Round three: the record's own decoding step rejects only what the decoder rejects (no reader-side acceptance test the constructor does not share).",
}
ADDENDA3 = {
 "C01": " Round four: the handler map is looked up and extended in one critical section under the exclusive lock; the latest-sync record is never deleted (positive example embedded).",
 "C03": " Round four: no field of the decoded signed head is stored to before it is validated.",
 "C04": " Round four: the failure path of an announce-triggered sync un-caches the CID whatever the error was.",
 "C05": " Round four: the extended-provider loop is skipped only when there is no extended-provider section; every way round the signing loop stores the entry's new signature.",
 "C06": " Round four: a refresh round is abandoned on a source error only on the ctx.Err() != nil edge.",
 "C08": " Round four: on the 'slot was empty' edge every path reaches the spawn; the duplicate filter is updated only for announcements the allow filter lets through; un-cache on failure is unconditional; handler lookup-and-register is atomic.",
 "C10": " Round four: no element of the ID-appended address list is replaced before it is set (HTTP sender); the addresses a pubsub announcement is delivered with are decoded from that message, not carried over from the previous one.",
 "C11": " Round four: a fixed-encoding protocol's decoder succeeds only after bytes.Equal(canonical bytes, bytes read).",
 "C12": " Round four: SecondMultihash returns the encoded hash for every input.",
 "C13": " Round four: the Go structs list the IPLD schema's fields in the schema's order (schema files parsed).",
 "C14": " Round four: inside the package nothing receives from a listener queue's output; whole-struct overwrites count as writes of the block counter.",
 "C15": " Round four: locks and the sync-slot semaphore of package dagsync are paired on every path, with releases deferred only where the lock is held; the per-publisher sync routine never looks at the shutdown signal.",
 "C19": " Round four: the writer tries base58 first when decoding the key, as the client sends it.",
}
ADDENDA4 = {
 "C01": " Round five: wherever the remaining depth has been computed and the segment depth keeps its value, the branch taken says remaining >= segment size; the all-links rule is decided where the per-publisher sync routine is finally called, through option structs and parameter objects.",
 "C03": " Round five: the signed payload is followed through buffer writes, append chains, make-and-copy at running offsets and helpers with several returns; the guards of the topic piece are evaluated over the three states of the optional topic (absent, empty, non-empty), so signer and verifier are compared on what they append when, not on how. When the entry test and the client construction are one routine, V4 is decided at the factory call: ID tested non-empty, and another ID adopted only where the ID so far (starting as the caller's) was empty.",
 "C07": " Round five: a may-block step on a read path is about the provider being read (no lookup of another provider through a routine that can wait); the standard maps package's writers count as writes of published maps.",
 "C08": " Round five: the per-publisher lock is not taken inside the segment loop (one critical section per sync).",
 "C09": " Round five: a duplicate filter delegating to golang-lru tests membership with Get (the refreshing operation) on the key and adds on the miss edge (library trusted for eviction).",
 "C10": " Round five: byte strings are read with io.ReadFull, never a single Read.",
 "C11": " Round five: fixed-size scratch arrays hold the varints written into them one after the other (10 bytes each; positive example embedded).",
 "C12": " Round five: the store client does not set Accept-Encoding by hand (positive example embedded).",
 "C13": " Round five: ToNode hands out the representation-level node of the wrapped value.",
 "C14": " Round five: the CID notified is the root CID the per-publisher routine was given (read back from a parameter object only if the routine cannot have written that field).",
 "C15": " Round five: the receiver's Close closes its done channel on every path that marks it closed (the watcher's exit depends on it); Done on every path of the registered goroutine, deferred or explicit.",
 "C16": " Round five: the watcher closes the channel Close waits on, on every exit; Close closes done on every path that marks the receiver closed.",
 "C17": " Round five: the synchronous find wrapper appends every result it receives, unconditionally.",
 "C18": " Round five: the ingest constructor seals its arguments as given; a reader that consumes into its own record compares the sealed payload type with the record's codec.",
 "C20": " Round five: address-list equality answers 'equal' only after both sorts, or in the empty / single-element case.",
}
ADDENDA5 = {
 "C01": " Round six: what is recorded as latest-synced (the next sync's stop point) is the root CID the per-publisher routine was given — positional, in a request object (read back only if the routine cannot have written it) or in a result struct (its CID field is the root parameter itself).",
 "C02": " Round six: the error of every call of the sync client in the per-publisher routine and its step helpers is tested or returned, not overwritten.",
 "C04": " Round six: state of a running sync kept in the handler is written only after the per-publisher lock is taken.",
 "C06": " Round six: records are compared by their own advertisement time (never the local clock); the map consulted first when the main map is rebuilt holds the pending updates of the loaded snapshot.",
 "C07": " Round six: the map consulted first when the main map is rebuilt holds the pending updates of the loaded snapshot.",
 "C08": " Round six: an announce-triggered sync records as latest-synced the announced head it was given.",
 "C09": " Round six: the receiver's own host ID is recorded under no condition other than 'a host was given'.",
 "C10": " Round six: the encoder writes to the writer it is given, or flushes its buffering layer before every successful return.",
 "C11": " Round six: a decoding routine shared by the fixed-encoding protocols succeeds only after comparing all bytes read (tail-call decoders are judged there).",
 "C13": " Round six: the byte decoders hand the codec a reader over their data parameter as given.",
 "C14": " Round six: result-struct form of 'the CID notified is the root CID given'.",
 "C15": " Round six: an admission helper may fail after registering only if it takes the registration back on that path.",
 "C16": " Round six: the pubsub sender's Send contains no channel operation, select or wait; the rules about Close cover the phases it is split into.",
 "C18": " Round six: the ingest request's record type is registered at package initialisation (or by the reader).",
 "C19": " Round six: negotiation succeeds only with a supported media type found or with no Accept header at all.",
 "C20": " Round six: the per-protocol values ToURL unescapes are the components' string values (not RawValue).",
}
ADDENDA6 = {
 "C01": " Round seven: a whole-struct store over the state holding the synced-block counter counts as a write of the counter unless it carries the old value over.",
 "C02": " Round seven: a routine that is handed the sync's outcome records the head as latest sync only on its nil-error edge.",
 "C03": " Round seven: payload pieces under a short-circuit test are guarded by the disjunction of the tests (a shared payload helper that returns the bare CID for an absent or empty topic is followed).",
 "C05": " Round seven: the byte decoders return the record the unwrap step produced with no field of it stored to in between.",
 "C06": " Round seven: the 'still present' mark follows the lookup of the cached record directly (no further test): an unchanged provider the source keeps reporting does not expire.",
 "C08": " Round seven: after the receiver's check accepted an announcement (marking its CID seen) every way out of the delivery routine goes through the hand-over select.",
 "C09": " Round seven: the filter options store their argument unconditionally; the self-republication test is a path rule (every way from 'has an original peer' to delivery passes sender != this host).",
 "C11": " Round seven: varints are read with go-varint's strict readers, never encoding/binary's (positive example kept); one bytes.Buffer shared by all protocols is an accepted cursor idiom.",
 "C12": " Round seven: SplitValueKey fails only under a failed parsing call (a key with an empty context ID splits back); digests are followed through a salting helper.",
 "C13": " Round seven: a schema field is optional or nullable only if its Go type is a pointer or an interface, and every pointer field is optional; decoded records are handed on unmodified.",
 "C14": " Round seven: a listener's queue is ended with Close, never Shutdown; the distributor may hold the queues themselves.",
 "C15": " Round seven: Close of a listener's queue counts as the close of its channel (close-once); slot helpers over a nil-able semaphore are lock wrappers.",
 "C16": " Round seven: Close waits for the watcher only under a test of the channel itself or of a field set only where the channel is made.",
 "C18": " Round seven: tests merged into one error value are seen through (the success return lies under signer == provider although the rejections share one exit).",
 "C19": " Round seven: the loop over the Accept header's values is left only when exhausted or with the invalid-header error; the client's not-found answer lies under no test on reading the body.",
 "C20": " Round seven: the http/https test of FindHTTPAddrs is made for every protocol of the address in turn.",
}
ADDENDA7 = {
 "C01": " Round eight: a block request repeated round a retry loop is accepted on the edge where the previous attempt of that request failed. Not decided: that a memoised selector's key covers every input (one seeded change of that kind is not caught: seeded-missed/).",
 "C04": " Round eight: the failure the block hook signals is written by FailSync and the per-segment reset only.",
 "C06": " Round eight: `return ctx.Err()` on a source's failure counts as abandoning only when the caller's context ended.",
 "C08": " Round eight: the CID of a head is taken out of the duplicate filter on the failure path only (never by the success notifier).",
 "C09": " Round eight: the hand-over select waits on the context the routine was given, not on one derived for another step.",
 "C11": " Round eight: the cap on a decoded length may be a configured limit (receiver field, constant default) tested on the decoded value itself.",
 "C12": " Round eight: a length test stricter than the nonce length must still let the shortest real ciphertext (nonce + 16-byte tag) through.",
 "C13": " Round eight: the reader over the data parameter reaches the codec itself (not wrapped in a limiting reader), also through shared decoding helpers.",
 "C14": " Round eight: every return of the announce handler after the take is preceded by exactly one notification (shared with C08.L4).",
 "C17": " Round eight: the provider sources hand on the record they decoded without writing to it.",
 "C19": " Round eight: no routine of the find client hands out a response while cancelling, on return, a context it derived for the request (positive example kept); the status of every API error is put on the wire.",
 "C20": " Round eight: the tcp component's value is the URL's port or, only where the URL has none, a configured default.",
}
ADDENDA8 = {
 "C01": " Round nine: the subscriber-wide entries selector explores exactly the Next field.",
 "C03": " Round nine: the head link is mandatory in the schema while its CID is taken without a test; `ID = cmp.Or(ID, found)` keeps the ID given.",
 "C04": " Round nine: no field is written through a pointer obtained from an atomic Load (saved state is a copy).",
 "C05": " Round nine: the Go structs list their fields in the schema's order (bindnode binds by position).",
 "C06": " Round nine: the JSON wire names of ProviderInfo are those of the reference table; with the maps package, entries leave the rebuilt main map by key, never by value.",
 "C07": " Round nine: the write token's channel has capacity exactly 1; with the maps package, the pending updates are copied over the old main map afterwards.",
 "C08": " Round nine: methods of mutex-holding types have pointer receivers.",
 "C10": " Round nine: the JSON wire names of Message are those of the reference table; a cap tested on a sign-changing conversion of the length is no cap.",
 "C11": " Round nine: the Unknown decoder's cap is not below the advertisement's metadata limit.",
 "C12": " Round nine: a salt that is appended to is the []byte conversion of a constant (no spare capacity).",
 "C15": " Round nine: a timer callback that re-arms its timer tests the closing signal afterwards; every function-typed field Close calls is set somewhere.",
 "C16": " Round nine: methods of mutex-holding types have pointer receivers.",
 "C17": " Round nine: the JSON wire names of the provider record and its extended-provider parts are those of the reference table.",
 "C18": " Round nine: the JSON wire names of IngestRequest are those of the reference table.",
 "C19": " Round nine: the JSON wire names of the response types are those of the reference table; a strings.Cut walk over an Accept value continues while a separator is found; the legacy path protocol keeps its own transcoder and validator.",
 "C20": " Round nine: the legacy path protocol is registered with the package's own transcoder and validator.",
}
ADDENDA9 = {
 "C01": " Round ten: no state-writing clean-up is deferred before the deferred unlock of the per-publisher mutex; the sync client's hook loop is left only when the fetched blocks are exhausted.",
 "C05": " Round ten: a local copy of the decoded record has no field replaced before it is returned.",
 "C06": " Round ten: WithTTL stores its argument unconditionally; the sources wrap transport errors with %w.",
 "C07": " Round ten: when the main map is rebuilt, both lookups and the entry written use one key.",
 "C08": " Round ten: a return of the announce handler on 'nothing was taken' needs no outcome.",
 "C09": " Round ten: an accepted announcement is handed on (shared with C08.L7); the public filter classifies all IP- and DNS-family codes.",
 "C12": " Round ten: a length test against the cipher's overhead lets a ciphertext of exactly that length through; the provider sources wrap errors with %w.",
 "C13": " Round ten: a codec allow-list includes DAG-JSON and DAG-CBOR.",
 "C14": " Round ten: the sync client's hook loop is left only when the fetched blocks are exhausted.",
 "C15": " Round ten: the receiver waits for nothing while holding its mutex (shared with C16.K1b).",
 "C16": " Round ten: the senders pair every WaitGroup.Add with a Done on all paths; Publish is given no readiness option.",
 "C18": " Not decided: which errors of a well-formedness pre-check reject a request (one seeded change of that kind is not caught: seeded-missed/).",
 "C19": " Round ten: no length test in the constructor turns away keys longer than a constant; errors for nil arguments are not constrained.",
 "C20": " Round ten: a constant port range test passes 0 and 65535.",
}
for _pid, _extra in ADDENDA9.items():
    ADDENDA8[_pid] = ADDENDA8.get(_pid, "") + _extra
for _pid, _extra in ADDENDA8.items():
    ADDENDA7[_pid] = ADDENDA7.get(_pid, "") + _extra
for _pid, _extra in ADDENDA7.items():
    ADDENDA6[_pid] = ADDENDA6.get(_pid, "") + _extra
for _pid, _extra in ADDENDA6.items():
    ADDENDA5[_pid] = ADDENDA5.get(_pid, "") + _extra
for _pid, _extra in ADDENDA5.items():
    ADDENDA4[_pid] = ADDENDA4.get(_pid, "") + _extra
for _pid, _extra in ADDENDA4.items():
    ADDENDA3[_pid] = ADDENDA3.get(_pid, "") + _extra
for _pid, _extra in ADDENDA3.items():
    ADDENDA[_pid] = ADDENDA.get(_pid, "") + _extra
for _pid, _extra in ADDENDA2.items():
    ADDENDA[_pid] = ADDENDA.get(_pid, "") + _extra
for _pid, _extra in ADDENDA.items():
    if _pid in CLAIMS:
        _t = CLAIMS[_pid]
        CLAIMS[_pid] = (_t[0], _t[1] + _extra, _t[2], _t[3])
