# Per-property claim texts for MANIFEST.json (executed by gen_manifest.py).
claim("C02",
  "SSA dominance + who-may-write: store commit dominated by digest equality of the requested CID",
  "Decides, on every path and call site of the current tree, the structural gate the property rests on: the only store writer in the subscriber packages is the fetch callback; its commit is dominated by bytes.Equal(c.Hash(), SumStream(TeeReader(body, w), c's own hash function and length)), the committed link and the requested resource are that same c, the writer has no other use, the trusted traversal link system reads only after a verified fetch, and hooks run only after the traversal returned nil. It does not decide hash collision resistance or the store implementation; 'after any sequence of syncs every stored block hashes to its CID' follows from the gate only under those assumptions.",
  "Trusted: go/types, go/ssa dominators, go-multihash SumStream, io.TeeReader, the ipld-prime write-opener contract (nothing visible before commit).",
  "DESIGN.md §4 C02")
